#!/bin/sh
# Offline build of the framework: Lean model + every property module + gmodel, Rust harness against /repo.
set -e
cd "$(dirname "$0")"
export CARGO_NET_OFFLINE=true
python3 gen_constants.py
PROPS=$(ls lean/Grenad/Props/*.lean | sed 's#lean/##; s#/#.#g; s#\.lean$##' | tr '\n' ' ')
(cd lean && lake build Grenad gmodel $PROPS Grenad.All)
[ -f harness/Cargo.lock ] || cp /repo/Cargo.lock harness/Cargo.lock
(cd harness && cargo build --offline && cargo build --offline --no-default-features --target-dir target-min)
