#!/bin/sh
# Offline build of the framework: Lean library + gmodel, Rust harness against /repo.
set -e
cd "$(dirname "$0")"
export CARGO_NET_OFFLINE=true
(cd lean && lake build Grenad gmodel)
[ -f harness/Cargo.lock ] || cp /repo/Cargo.lock harness/Cargo.lock
(cd harness && cargo build --offline)
