#!/bin/sh
# Offline build of the framework: Lean model + every property module + gmodel, Rust harness against /repo.
set -e
cd "$(dirname "$0")"
export CARGO_NET_OFFLINE=true
python3 gen_constants.py
# translator tie: build r2l and regenerate lean/Grenad/Generated/Src from /repo/src
(cd r2l && cargo build --offline && ./target/debug/r2l targets.txt /repo/src ../lean/Grenad/Generated/Src > /dev/null)
PROPS=$(ls lean/Grenad/Props/*.lean | sed 's#lean/##; s#/#.#g; s#\.lean$##' | tr '\n' ' ')
SRCTIE=$(ls lean/Grenad/SrcTie/*.lean | sed 's#lean/##; s#/#.#g; s#\.lean$##' | tr '\n' ' ')
(cd lean && lake build Grenad gmodel $PROPS Grenad.All)
# the translator-tie modules are built one by one and may legitimately fail to build when /repo's code
# is outside the translator's subset: ./check decides what that means (DESIGN.md §3.5)
(cd lean && lake build $SRCTIE) || echo "setup: a translator-tie module does not build on this tree (reported by ./check)"
[ -f harness/Cargo.lock ] || cp /repo/Cargo.lock harness/Cargo.lock
(cd harness && cargo build --offline && cargo build --offline --no-default-features --target-dir target-min)
