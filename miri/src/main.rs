//! Reduced sorter + reader scenarios for Miri (C17, pointer-level half: explored, not proved).
use std::borrow::Cow;
use std::io::Cursor;

use grenad::{CursorVec, MergeFunction, Merger, Reader, Sorter, SorterBuilder, Writer};

/// hands one of its inputs back as it came (`Cow::Borrowed` when the merger lent it borrowed)
struct KeepFirst;
impl MergeFunction for KeepFirst {
    type Error = std::convert::Infallible;
    fn merge<'a>(&self, _k: &[u8], vs: &[Cow<'a, [u8]>]) -> Result<Cow<'a, [u8]>, Self::Error> {
        Ok(vs[0].clone())
    }
}

/// the values a merger yields stay valid while the caller holds them, also when they are borrowed from a
/// source whose block is replaced right after (last entry of a block / of a source)
fn merger_case() {
    let mut srcs = Vec::new();
    for s in 0..3u32 {
        let mut w = Writer::builder();
        w.verif_block_size_unclamped(48);
        let mut w = w.memory();
        for i in 0..24u32 {
            if (i + s) % 3 != 0 {
                w.insert(i.to_be_bytes(), [(i + s) as u8; 5]).unwrap();
            }
        }
        srcs.push(Reader::new(Cursor::new(w.into_inner().unwrap())).unwrap().into_cursor().unwrap());
    }
    let mut b = Merger::builder(KeepFirst);
    b.extend(srcs);
    let mut it = b.build().into_stream_merger_iter().unwrap();
    let mut n = 0u32;
    while let Some((k, v)) = it.next().unwrap() {
        // read every byte that was handed out
        let s: u32 = k.iter().chain(v.iter()).map(|b| *b as u32).sum();
        assert!(s < 100_000);
        assert_eq!(v.len(), 5);
        n += 1;
    }
    assert_eq!(n, 24);
}

struct Concat;
impl MergeFunction for Concat {
    type Error = std::convert::Infallible;
    fn merge<'a>(&self, _k: &[u8], vs: &[Cow<'a, [u8]>]) -> Result<Cow<'a, [u8]>, Self::Error> {
        Ok(Cow::Owned(vs.iter().flat_map(|v| v.iter().copied()).collect()))
    }
}

fn sorter_case(budget: usize, init: usize, realloc: bool, sizes: &[usize]) {
    let mut b = SorterBuilder::new(Concat);
    b.allow_realloc(realloc);
    b.max_nb_chunks(2);
    let mut s: Sorter<Concat, CursorVec> = b.chunk_creator(CursorVec).build();
    s.verif_set_budget(budget, if realloc { init } else { budget });
    for (i, n) in sizes.iter().enumerate() {
        let k = [(i % 5) as u8, 7];
        let v = vec![i as u8; *n];
        s.insert(&k[..(i % 3)], &v).unwrap();
    }
    let mut it = s.into_stream_merger_iter().unwrap();
    let mut n = 0;
    while let Some((_k, _v)) = it.next().unwrap() {
        n += 1;
    }
    assert!(n <= 11 && n >= 1);
}

fn reader_case() {
    let mut w = Writer::builder();
    w.index_levels(2);
    w.verif_block_size_unclamped(48);
    let mut w = w.memory();
    for i in 0..40u32 {
        w.insert(i.to_be_bytes(), [i as u8; 3]).unwrap();
    }
    let bytes = w.into_inner().unwrap();
    let mut c = Reader::new(Cursor::new(bytes)).unwrap().into_cursor().unwrap();
    let mut held: Vec<(Vec<u8>, Vec<u8>)> = Vec::new();
    while let Some((k, v)) = c.move_on_next().unwrap() {
        held.push((k.to_vec(), v.to_vec()));
    }
    assert_eq!(held.len(), 40);
    let (k, _) = c.move_on_key_lower_than_or_equal_to(17u32.to_be_bytes()).unwrap().unwrap();
    assert_eq!(k, 17u32.to_be_bytes());
    let c2 = c.clone();
    drop(c);
    assert_eq!(c2.current().unwrap().0, 17u32.to_be_bytes());
    let r = Reader::new(Cursor::new(c2.into_inner().into_inner())).unwrap();
    let mut it = r.into_rev_range_iter(5u32.to_be_bytes()..=9u32.to_be_bytes()).unwrap();
    let mut n = 0;
    while let Some(_) = it.next().unwrap() {
        n += 1;
    }
    assert_eq!(n, 5);
}

fn main() {
    // exact fit, repeated growth, entry larger than the buffer, realloc off
    sorter_case(256, 16, true, &[0, 1, 5, 40, 3, 0, 200, 7, 600, 2]);
    sorter_case(64, 64, false, &[0, 0, 0, 10, 48, 1, 100, 3]);
    sorter_case(128, 32, true, &[112, 0, 96, 16, 15, 17]);
    // capacities that are not a multiple of the bound size (rounded up on allocation)
    sorter_case(70, 70, false, &[1, 2, 30, 3]);
    sorter_case(100, 23, true, &[5, 50, 9, 70, 1]);
    reader_case();
    merger_case();
    println!("miri-scenarios-ok");
}
