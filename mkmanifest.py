#!/usr/bin/env python3
"""Regenerates MANIFEST.json from props.py (single source of truth for what is claimed)."""
import json, os, sys
ROOT = os.path.dirname(os.path.abspath(__file__))
sys.path.insert(0, ROOT)
from props import PROPS
ALL = [json.loads(l)["id"] for l in open(os.path.join(ROOT, "properties.jsonl"))]
NOT_YET = "check not built yet in this round (the Lean model and harness exist; the property module is pending)"
checks = []
for pid in ALL:
    if pid not in PROPS:
        continue
    c = PROPS[pid]
    checks.append({
        "property_id": pid,
        "quick_cmd": f"./check {pid} --tier quick",
        "thorough_cmd": f"./check {pid} --tier thorough",
        "evidence_file": f"evidence/{pid}.json",
        "replay_cmd_template": f"./check {pid} --replay {{path}}",
        "engine": "lean-proof+correspondence",
        "level_claimed": {
            "category": "proof",
            "text": c.get("level_text", "Lean 4 theorems about the hand-written model (all inputs, no bound), tied to /repo by the correspondence check on every run.")
                    + ((" Translator tie (DESIGN.md §3.5): the functions this property rests on are regenerated from /repo/src into Lean on every run and proved equal to the model, with property corollaries stated directly on the regenerated code (modules " + ", ".join(m.split(".")[-1] for m in c["srctie"]) + "; theorems src_*).") if c.get("srctie") else ""),
            "design_ref": c.get("design_ref", "DESIGN.md §5"),
        },
        "level_note": c.get("level_note", "Trusted: Lean kernel; axioms propext/Classical.choice/Quot.sound only; the model-to-code tie is the sampled correspondence check (harness + gmodel); codec crates, std and rayon are modelled by their contracts."),
        "technique": c.get("technique", "machine-checked proof in Lean 4 (induction/invariants over a hand-written model) + differential correspondence check against the real crate"
                           + ("; for the leaf functions it rests on, Lean definitions regenerated from /repo/src by a translator on every run and proved equal to the model (" + ", ".join(m.split(".")[-1] for m in c["srctie"]) + ")" if c.get("srctie") else "")),
    })
m = {
    "version": 1,
    "setup_cmd": "./setup.sh",
    "hooks": {
        "guard": "grenad_verif",
        "enable": "RUSTFLAGS=\"--cfg grenad_verif\" (set in harness/.cargo/config.toml); harness has a path dependency on /repo",
        "baseline_off_cmd": "cd /repo && cargo test --workspace --no-fail-fast --offline",
        "source_commits": [l.strip() for l in open(os.path.join(ROOT, "hook_commits.txt"))] if os.path.exists(os.path.join(ROOT, "hook_commits.txt")) else [],
        "add_only": True,
    },
    "engines": [{
        "name": "lean-proof+correspondence",
        "path": "check",
        "serves_properties": [c["property_id"] for c in checks],
        "kind_free_text": "Lean 4 theorems (lean/Grenad/Props) about an executable hand-written model (lean/Grenad/Model), audited with #print axioms; a translator (r2l) regenerates Lean definitions of leaf functions from /repo/src on every run and lean/Grenad/SrcTie proves them equal to the model; Rust harness (harness/) drives the real crate and the compiled model (gmodel) on the same operation lines and compares them with the L0 specification",
    }],
    "checks": checks,
    "notes": "See DESIGN.md. Every check rebuilds the harness against /repo's working tree and the Lean property module, then runs proof audit + correspondence.",
    "not_applicable": [{"property_id": p, "reason": NOT_YET} for p in ALL if p not in PROPS],
}
json.dump(m, open(os.path.join(ROOT, "MANIFEST.json"), "w"), indent=1)
print("claimed:", [c["property_id"] for c in checks])
