"""Per-property configuration of ./check: proof obligations, correspondence streams, rules."""

def T(mod, names):
    return [f"{mod}.{n}" for n in names]

PROPS = {}

import json, os, subprocess, time
from concurrent.futures import ThreadPoolExecutor


def extra_c14(tier, seed, workdir, sh, GH, GM):
    """Varint tie, digest-based: quick = 16 shards of 2^16 consecutive values at random places plus
    the shards around every framing boundary; thorough = ALL 2^32 values (exhaustive), 16 shards."""
    if tier == "thorough":
        shards = [(i << 28, 1 << 28) for i in range(16)]
    else:
        import random
        rnd = random.Random(seed)
        shards = [(rnd.randrange(0, (1 << 32) - (1 << 16)), 1 << 16) for _ in range(8)]
        shards += [(max(0, (1 << b) - (1 << 15)), 1 << 16) for b in (7, 14, 21, 28)] + [((1 << 32) - (1 << 16), 1 << 16)]

    def one(sh_):
        start, count = sh_
        rc, o = sh([GH, "vshard", str(start), str(count)], timeout=1500)
        a = (o.strip().splitlines() or ["?"])[-1] if rc == 0 else "TIMEOUT-OR-CRASH"
        rc, o = sh([GM], inp=f"vrange {start} {count} 1\n", timeout=3000)
        b = o.split("\t")[0].strip()
        return start, count, a, b

    def first_diff(start, count):
        # bisect to the first value on which the two sides differ
        while count > 1:
            half = count // 2
            _, _, a, b = one((start, half))
            if a != b:
                count = half
            else:
                start, count = start + half, count - half
        return start

    with ThreadPoolExecutor(max_workers=16) as ex:
        rows = list(ex.map(one, shards))
    findings, evals = [], 0
    for start, count, a, b in rows:
        evals += count
        if a != b:
            v = first_diff(start, count)
            rc, o = sh([GH, "gen", "varint", "0", "0"])
            # classify on the implementation itself: does the real codec round-trip this value?
            script = os.path.join(workdir, f"v{v}.script")
            open(script, "w").write(f"S varint-first-diff\nvenc {v}\n")
            rc, o = sh([GH, "run", script, script + ".tr"])
            impl = open(script + ".tr").read().split("\n")[1].split("\t")[1] if os.path.exists(script + ".tr") else "?"
            kind = "oracle" if impl.startswith("ORACLE-FAIL") else "model"
            findings.append(dict(kind=kind, scenario="varint-first-diff", cfg="", line=0, op=f"venc {v}", impl=impl, model=b, spec="-",
                                 note=f"shard [{start}, {start + count}) digests differ (impl {a}, model {b}); first differing value {v}",
                                 script=[f"S varint-first-diff", f"venc {v}"]))
    return [dict(evaluations=evals, findings=findings, nontrivial=[("vshard", s, c) for s, c, _, _ in rows],
                 samples=[{"shard_start": rows[0][0], "count": rows[0][1], "impl_digest": rows[0][2], "model_digest": rows[0][3]}],
                 stats={"varint_values_compared": evals, "varint_shards": len(rows)})]


def extra_c09(tier, seed, workdir, sh, GH, GM):
    """Source-level measurement for the 0.4.7 half of C09 (informative, never an alarm): how far the
    format-relevant sources of the frozen grenad 0.4.7 are from /repo's working tree, after removing
    tests, comments, cfg(grenad_verif) hooks and purely cosmetic rewrites. 0 differing lines for a file
    means the modelled code IS the 0.4.7 code there, so the theorems about the model apply to it."""
    import glob, re
    cands = glob.glob(os.path.expanduser("~/.cargo/registry/src/*/grenad-0.4.7/src"))
    if not cands:
        return []
    old = cands[0]
    files = ["varint.rs", "block_writer.rs", "block.rs", "writer.rs", "metadata.rs", "compression.rs", "count_write.rs",
             "reader/reader_cursor.rs", "reader/mod.rs"]

    def norm(path):
        try:
            src = open(path).read()
        except OSError:
            return None
        src = src.split("#[cfg(test)]")[0]
        out, skip, depth = [], False, 0
        for line in src.splitlines():
            t = line.strip()
            if "cfg(grenad_verif)" in t:
                skip, depth = True, 0
                continue
            if skip:
                depth += line.count("{") - line.count("}")
                if depth <= 0 and ("}" in line or ";" in line):
                    skip = False
                continue
            if not t or t.startswith("//") or t.startswith("#["):
                continue
            t = re.sub(r"//.*$", "", t).strip()
            t = t.replace("u32::max_value()", "u32::MAX").replace("crate::Result<", "Result<").replace(", Error>", ">")
            t = t.replace("last_key.as_slice()", "last_key")
            if t:
                out.append(t)
        return out

    stats, sample = {}, {}
    import difflib
    for f in files:
        a, b = norm(os.path.join(old, f)), norm(os.path.join("/repo/src", f))
        if a is None or b is None:
            continue
        d = [l for l in difflib.unified_diff(a, b, lineterm="", n=0) if l[:1] in "+-" and l[:3] not in ("+++", "---")]
        stats["interop_source_diff_lines:" + f] = len(d)
        if d:
            sample[f] = d[:6]
    return [dict(evaluations=len(files), findings=[], nontrivial=[("interop-src", f) for f in files],
                 samples=[{"grenad_0_4_7_vs_working_tree_non_cosmetic_diff": sample or "none"}], stats=stats)]


def extra_c17(tier, seed, workdir, sh, GH, GM):
    """Pointer-level half of C17 (explored, not proved): the reduced sorter / reader scenarios of
    miri/ under Miri (both tiers: ~10 s warm, ~1 min when the Miri sysroot must be built)."""
    root = os.path.dirname(os.path.abspath(__file__))
    mdir = os.path.join(root, "miri")
    if not os.path.exists(os.path.join(mdir, "Cargo.lock")):
        import shutil
        shutil.copy("/repo/Cargo.lock", os.path.join(mdir, "Cargo.lock"))
    rc, out = sh(["cargo", "+nightly", "miri", "run"], cwd=mdir, timeout=600)
    ok = rc == 0 and "miri-scenarios-ok" in out
    findings = []
    if not ok:
        tail = out[-1500:]
        if "Undefined Behavior" in out or "panicked" in out:
            findings.append(dict(kind="oracle", scenario="miri", cfg="", line=0, op="cargo +nightly miri run (verif/miri)", impl=tail[-400:], model="-", spec="-",
                                 note="Miri reports undefined behaviour or a panic in the buffer / borrowed-entry paths", script=["# cd /verif/miri && cargo +nightly miri run"]))
        else:
            # Miri itself unavailable (e.g. sysroot cannot be built): not evidence either way
            return [dict(evaluations=0, findings=[], nontrivial=[], samples=[{"miri": "unavailable", "output": tail[-300:]}], stats={"miri_unavailable": 1})]
    return [dict(evaluations=1, findings=findings, nontrivial=[("miri", 1)], samples=[{"miri": "5 sorter cases + 1 reader case + 1 merger case (borrowed merge results)", "result": "ok" if ok else "failed"}], stats={"miri_runs": 1})]

PROPS["C14"] = dict(
    module="Grenad.Props.C14",
    extra=extra_c14,
    streams={"varint": (96, 2880), "edge": (64, 640), "huge": (1, 4)},
    rules={},
    exhaustive_in="thorough",
    assumptions=["u32 arithmetic of varint.rs is modelled on Nat with explicit % and / (checked against the real functions)"],
)

PROPS["C13"] = dict(
    module="Grenad.Props.C13",
    streams={"open": (256, 7680), "trunc": (64, 960), "truncall": (0, 480)},
    rules={"ops": ["open", "openio", "!openfault"]},
    min_features_streams=["open", "trunc"],
    assumptions=["the source is an in-memory Cursor (seek before the start fails, reads are exact)"],
)

PROPS["C01"] = dict(
    module="Grenad.Props.C01",
    streams={"write": (640, 19200), "edge": (64, 640)},
    rules={"ops": ["ins", "finish", "file", "c", "interop"], "finish_must_succeed": True},
)

PROPS["C03"] = dict(
    module="Grenad.Props.C03",
    streams={"cursor": (960, 28800), "exh": (2, 72)},
    rules={"ops": ["c", "file"], "fingerprint": "thorough"},
)

PROPS["C02"] = dict(module="Grenad.Props.C02", streams={"seek": (640, 19200), "edge": (64, 640)}, rules={"ops": ["c", "file"]})
PROPS["C04"] = dict(module="Grenad.Props.C04", streams={"iter": (640, 19200), "edge": (64, 640)}, rules={"ops": ["range", "file"]})
PROPS["C05"] = dict(module="Grenad.Props.C05", streams={"iter": (640, 19200), "edge": (64, 640)}, rules={"ops": ["prefix", "file"]})
PROPS["C06"] = dict(module="Grenad.Props.C06", streams={"merge": (1280, 38400)}, rules={"ops": ["merge", "mergew"], "calls": True})
PROPS["C07"] = dict(module="Grenad.Props.C07", streams={"sorter": (960, 28800)}, rules={"ops": ["sfinish"], "calls": "thorough"})
PROPS["C08"] = dict(module="Grenad.Props.C08", streams={"sorter": (960, 28800), "faultbig": (8, 64)}, rules={"ops": ["sins", "snew", "!sins", "!sfinish"], "sorter_bounds": True})
PROPS["C09"] = dict(extra=extra_c09, module="Grenad.Props.C09", streams={"write": (640, 19200), "edge": (64, 640)}, rules={"ops": ["finish", "interop", "file"], "blocks": True, "finish_must_succeed": True})
PROPS["C10"] = dict(module="Grenad.Props.C10", streams={"v1": (480, 14400)}, rules={"ops": ["file", "c", "range", "prefix", "!v1big"]})
PROPS["C11"] = dict(module="Grenad.Props.C11", streams={"wio": (640, 19200), "rio": (480, 14400), "sorterio": (480, 14400)},
                    rules={"ops": ["ins", "finish", "sinkstate", "c", "range", "prefix", "file", "sfinish", "sins", "snew"]})
PROPS["C12"] = dict(module="Grenad.Props.C12", streams={"fault": (64, 1920), "faultbig": (8, 64)},
                    rules={"ops": ["ins", "finish", "sinkstate", "c", "merge", "mergew", "sins", "!sins", "sfinish", "!sfinish", "snew", "!merge", "!mergew"]})
PROPS["C15"] = dict(module="Grenad.Props.C15", streams={"write": (640, 19200), "unsorted": (320, 9600)}, rules={"ops": ["finish", "ins"], "blocks": True})
PROPS["C16"] = dict(module="Grenad.Props.C16", streams={"cursor": (640, 19200), "seek": (320, 9600), "open": (128, 3840), "big": (4, 144)},
                    rules={"ops": ["c", "open", "file"], "loads": True, "fingerprint": False})
PROPS["C17"] = dict(extra=extra_c17, module="Grenad.Props.C17", streams={"sorter": (960, 28800), "corrupt": (64, 1920)}, rules={"ops": ["sins", "snew", "sfinish", "!corrupt"], "alloc": True})
PROPS["C18"] = dict(module="Grenad.Props.C18", streams={"unsorted": (960, 28800)}, rules={"ops": ["ins", "finish"], "blocks": True})


# ---------------------------------------------------------------- translator tie (DESIGN.md §3.5)
# SrcTie module -> (generated module, names that must be translated for the tie to apply)
SRCTIE = {
    "Grenad.SrcTie.Varint": ("SrcVarint", ["varint_length_packed", "varint_encode32", "varint_decode32"]),
    "Grenad.SrcTie.Meta": ("SrcMeta", ["CompressionType", "CompressionType.from_u8", "MAGIC_V1", "MAGIC_V2", "METADATA_V1_SIZE",
                                       "METADATA_V2_SIZE", "FileVersion", "Metadata", "Metadata.read_from", "Metadata.write_into"]),
    "Grenad.SrcTie.IterRange": ("SrcIter", ["end_contains", "start_contains"]),
    "Grenad.SrcTie.IterPrefix": ("SrcIter", ["advance_key"]),
    "Grenad.SrcTie.Block": ("SrcBlock", ["Block", "Block.payload", "Block.entry_at", "varint_decode32", "varint_length_packed", "CompressionType"]),
    "Grenad.SrcTie.C14Src": ("SrcBlock,SrcBlockWriter", ["Block", "Block.payload", "Block.entry_at", "varint_decode32", "varint_length_packed", "CompressionType",
                                                        "varint_encode32", "BlockWriter", "BlockWriter.insert"]),
    "Grenad.SrcTie.C13Src": ("SrcMeta", ["CompressionType", "CompressionType.from_u8", "MAGIC_V1", "MAGIC_V2", "METADATA_V1_SIZE",
                                         "METADATA_V2_SIZE", "FileVersion", "Metadata", "Metadata.read_from", "Metadata.write_into"]),
    "Grenad.SrcTie.WriterBuilder": ("SrcWriterBuilder", ["DEFAULT_BLOCK_SIZE", "MIN_BLOCK_SIZE", "WriterBuilder", "WriterBuilder.default", "WriterBuilder.new",
                                                         "WriterBuilder.block_size", "WriterBuilder.index_key_interval", "WriterBuilder.index_levels", "CompressionType"]),
    "Grenad.SrcTie.C05Src": ("SrcIter", ["advance_key"]),
    "Grenad.SrcTie.C10Src": ("SrcMeta", ["CompressionType", "CompressionType.from_u8", "MAGIC_V1", "MAGIC_V2", "METADATA_V1_SIZE",
                                         "METADATA_V2_SIZE", "FileVersion", "Metadata", "Metadata.read_from"]),
    "Grenad.SrcTie.C18Src": ("SrcBlockWriter", ["BlockWriter", "BlockWriter.insert", "varint_encode32"]),
    "Grenad.SrcTie.BlockCursor": ("SrcBlockCursor", ["Block", "Block.payload", "Block.entry_at", "Block.index_offsets", "BlockCursor", "BlockCursor.current",
                                                     "BlockCursor.move_on_first", "BlockCursor.move_on_last", "BlockCursor.move_on_next", "BlockCursor.move_on_prev",
                                                     "BlockCursor.move_on_key_lower_than_or_equal_to", "BlockCursor.move_on_key_greater_than_or_equal_to",
                                                     "varint_decode32", "varint_length_packed", "CompressionType"]),
    "Grenad.SrcTie.TBlockSrc": ("SrcBlockCursor", ["Block", "Block.payload", "Block.entry_at", "Block.index_offsets", "BlockCursor", "BlockCursor.current",
                                                   "BlockCursor.move_on_first", "BlockCursor.move_on_last", "BlockCursor.move_on_next", "BlockCursor.move_on_prev",
                                                   "BlockCursor.move_on_key_lower_than_or_equal_to", "BlockCursor.move_on_key_greater_than_or_equal_to"]),
    "Grenad.SrcTie.IterNext": ("SrcIterNext", ["RangeIter", "RangeIter.next", "RevRangeIter", "RevRangeIter.next", "PrefixIter", "PrefixIter.next",
                                                "move_on_last_prefix", "RevPrefixIter", "RevPrefixIter.next", "advance_key", "end_contains", "start_contains"]),
    "Grenad.SrcTie.C04C05Src": ("SrcIterNext", ["RangeIter", "RangeIter.next", "RevRangeIter", "RevRangeIter.next", "PrefixIter", "PrefixIter.next",
                                                 "move_on_last_prefix", "RevPrefixIter", "RevPrefixIter.next", "advance_key", "end_contains", "start_contains"]),
    "Grenad.SrcTie.BuiltSrc": ("SrcBlockCursor,SrcBlockWriter", ["BlockWriter", "BlockWriter.insert", "BlockWriter.finish", "varint_encode32", "Block", "Block.entry_at",
                                                                 "BlockCursor", "BlockCursor.move_on_first", "BlockCursor.move_on_last", "BlockCursor.move_on_next",
                                                                 "BlockCursor.move_on_prev", "BlockCursor.move_on_key_greater_than_or_equal_to",
                                                                 "BlockCursor.move_on_key_lower_than_or_equal_to"]),
    "Grenad.SrcTie.NoPanic": ("SrcBlockCursor", ["Block", "Block.entry_at", "Block.payload", "Block.index_offsets",
                                                                 "BlockCursor", "BlockCursor.current", "BlockCursor.move_on_first", "BlockCursor.move_on_last", "BlockCursor.move_on_next",
                                                                 "BlockCursor.move_on_prev", "BlockCursor.move_on_key_greater_than_or_equal_to",
                                                                 "BlockCursor.move_on_key_lower_than_or_equal_to"]),
    "Grenad.SrcTie.EndToEnd": ("SrcBlockCursor,SrcBlockWriter", ["BlockWriter", "BlockWriter.insert", "BlockWriter.finish", "varint_encode32", "Block", "Block.entry_at", "Block.payload", "Block.index_offsets",
                                                                 "BlockCursor", "BlockCursor.current", "BlockCursor.move_on_first", "BlockCursor.move_on_last", "BlockCursor.move_on_next",
                                                                 "BlockCursor.move_on_prev", "BlockCursor.move_on_key_greater_than_or_equal_to",
                                                                 "BlockCursor.move_on_key_lower_than_or_equal_to"]),
    "Grenad.SrcTie.Smoke": ("SrcBlockCursor,SrcBlockWriter", ["BlockCursor.move_on_next", "BlockCursor.move_on_prev", "BlockCursor.move_on_last",
                                                              "BlockCursor.move_on_key_lower_than_or_equal_to", "BlockCursor.move_on_key_greater_than_or_equal_to",
                                                              "BlockWriter.insert", "BlockWriter.finish"]),
    "Grenad.SrcTie.BlockWriter": ("SrcBlockWriter", ["BlockWriter", "BlockWriter.reset", "BlockWriter.current_size_estimate",
                                                     "BlockWriter.insert", "BlockWriter.finish", "varint_encode32"]),
    "Grenad.SrcTie.Merger": ("SrcMerger", ["Entry", "Entry.cmp"]),
    "Grenad.SrcTie.BlockLoad": ("SrcBlock", ["Block", "Block.read_from", "CompressionType"]),
    "Grenad.SrcTie.CountWrite": ("SrcCountWrite", ["CountWrite", "CountWrite.new", "CountWrite.count", "CountWrite.write", "CountWrite.flush",
                                                   "CountWrite.into_inner"]),
    "Grenad.SrcTie.WriterBlock": ("SrcWriterBlock", ["BlockBuffer", "compress_and_write_block"]),
    "Grenad.SrcTie.WriterLemmas": ("SrcWriter", ["DEFAULT_INDEX_KEY_INTERVAL", "BlockWriterBuilder", "BlockWriterBuilder.new",
                                                 "BlockWriterBuilder.index_key_interval", "BlockWriterBuilder.build", "BlockWriter.builder",
                                                 "BlockWriter.last_key", "Writer", "WriterBuilder.build", "Writer.insert", "Writer.into_inner"]),
    "Grenad.SrcTie.IndexCursorLoad": ("SrcReaderCursor", ["Block", "Block.read_from", "CompressionType", "Block.new", "BlockCursor.new", "Block.into_cursor", "IndexBlockCursor", "IndexBlockCursor.new",
                                                   "IndexBlockCursor.reset", "IndexBlockCursor.initial_index_blocks", "IndexBlockCursor.iter_index_blocks",
                                                   "IndexBlockCursor.recursive_index_block.recursive", "IndexBlockCursor.recursive_index_block",
                                                   "IndexBlockCursor.move_on_first", "IndexBlockCursor.move_on_last", "IndexBlockCursor.move_on_next",
                                                   "IndexBlockCursor.move_on_prev", "IndexBlockCursor.move_on_key_greater_than_or_equal_to"]),
    "Grenad.SrcTie.IndexCursorInit": ("SrcReaderCursor", ["Block", "Block.read_from", "CompressionType", "Block.new", "BlockCursor.new", "Block.into_cursor", "IndexBlockCursor", "IndexBlockCursor.new",
                                                   "IndexBlockCursor.reset", "IndexBlockCursor.initial_index_blocks", "IndexBlockCursor.iter_index_blocks",
                                                   "IndexBlockCursor.recursive_index_block.recursive", "IndexBlockCursor.recursive_index_block",
                                                   "IndexBlockCursor.move_on_first", "IndexBlockCursor.move_on_last", "IndexBlockCursor.move_on_next",
                                                   "IndexBlockCursor.move_on_prev", "IndexBlockCursor.move_on_key_greater_than_or_equal_to"]),
    "Grenad.SrcTie.IndexCursorIter": ("SrcReaderCursor", ["Block", "Block.read_from", "CompressionType", "Block.new", "BlockCursor.new", "Block.into_cursor", "IndexBlockCursor", "IndexBlockCursor.new",
                                                   "IndexBlockCursor.reset", "IndexBlockCursor.initial_index_blocks", "IndexBlockCursor.iter_index_blocks",
                                                   "IndexBlockCursor.recursive_index_block.recursive", "IndexBlockCursor.recursive_index_block",
                                                   "IndexBlockCursor.move_on_first", "IndexBlockCursor.move_on_last", "IndexBlockCursor.move_on_next",
                                                   "IndexBlockCursor.move_on_prev", "IndexBlockCursor.move_on_key_greater_than_or_equal_to"]),
    "Grenad.SrcTie.IndexCursorRec": ("SrcReaderCursor", ["Block", "Block.read_from", "CompressionType", "Block.new", "BlockCursor.new", "Block.into_cursor", "IndexBlockCursor", "IndexBlockCursor.new",
                                                   "IndexBlockCursor.reset", "IndexBlockCursor.initial_index_blocks", "IndexBlockCursor.iter_index_blocks",
                                                   "IndexBlockCursor.recursive_index_block.recursive", "IndexBlockCursor.recursive_index_block",
                                                   "IndexBlockCursor.move_on_first", "IndexBlockCursor.move_on_last", "IndexBlockCursor.move_on_next",
                                                   "IndexBlockCursor.move_on_prev", "IndexBlockCursor.move_on_key_greater_than_or_equal_to"]),
    "Grenad.SrcTie.IndexCursor": ("SrcReaderCursor", ["Block", "Block.read_from", "CompressionType", "Block.new", "BlockCursor.new", "Block.into_cursor", "IndexBlockCursor", "IndexBlockCursor.new",
                                                   "IndexBlockCursor.reset", "IndexBlockCursor.initial_index_blocks", "IndexBlockCursor.iter_index_blocks",
                                                   "IndexBlockCursor.recursive_index_block.recursive", "IndexBlockCursor.recursive_index_block",
                                                   "IndexBlockCursor.move_on_first", "IndexBlockCursor.move_on_last", "IndexBlockCursor.move_on_next",
                                                   "IndexBlockCursor.move_on_prev", "IndexBlockCursor.move_on_key_greater_than_or_equal_to"]),
    "Grenad.SrcTie.IndexCursorSmoke": ("SrcReaderCursor", ["Block", "Block.read_from", "CompressionType", "Block.new", "BlockCursor.new", "Block.into_cursor", "IndexBlockCursor", "IndexBlockCursor.new",
                                                   "IndexBlockCursor.reset", "IndexBlockCursor.initial_index_blocks", "IndexBlockCursor.iter_index_blocks",
                                                   "IndexBlockCursor.recursive_index_block.recursive", "IndexBlockCursor.recursive_index_block",
                                                   "IndexBlockCursor.move_on_first", "IndexBlockCursor.move_on_last", "IndexBlockCursor.move_on_next",
                                                   "IndexBlockCursor.move_on_prev", "IndexBlockCursor.move_on_key_greater_than_or_equal_to"]),
    "Grenad.SrcTie.ReaderCursorTie": ("SrcReaderCursor,SrcReaderCursor2", ["Block", "Block.read_from", "CompressionType", "Block.new", "BlockCursor.new", "Block.into_cursor", "IndexBlockCursor", "IndexBlockCursor.new",
      "IndexBlockCursor.reset", "IndexBlockCursor.move_on_first", "IndexBlockCursor.move_on_last", "IndexBlockCursor.move_on_next",
      "IndexBlockCursor.move_on_prev", "IndexBlockCursor.move_on_key_greater_than_or_equal_to", "Reader", "Reader.compression_type", "Reader.index_block_offset",
      "Reader.index_levels", "ReaderCursor", "ReaderCursor.current", "ReaderCursor.reset", "ReaderCursor.new", "ReaderCursor.next_block_from_index",
      "ReaderCursor.prev_block_from_index", "ReaderCursor.move_on_first", "ReaderCursor.move_on_last", "ReaderCursor.move_on_next", "ReaderCursor.move_on_prev",
      "ReaderCursor.move_on_key_greater_than_or_equal_to", "ReaderCursor.move_on_key_lower_than_or_equal_to", "ReaderCursor.move_on_key_equal_to"]),
    "Grenad.SrcTie.ReaderCursorTieStep": ("SrcReaderCursor,SrcReaderCursor2", ["Block", "Block.read_from", "CompressionType", "Block.new", "BlockCursor.new", "Block.into_cursor", "IndexBlockCursor", "IndexBlockCursor.new",
      "IndexBlockCursor.reset", "IndexBlockCursor.move_on_first", "IndexBlockCursor.move_on_last", "IndexBlockCursor.move_on_next",
      "IndexBlockCursor.move_on_prev", "IndexBlockCursor.move_on_key_greater_than_or_equal_to", "Reader", "Reader.compression_type", "Reader.index_block_offset",
      "Reader.index_levels", "ReaderCursor", "ReaderCursor.current", "ReaderCursor.reset", "ReaderCursor.new", "ReaderCursor.next_block_from_index",
      "ReaderCursor.prev_block_from_index", "ReaderCursor.move_on_first", "ReaderCursor.move_on_last", "ReaderCursor.move_on_next", "ReaderCursor.move_on_prev",
      "ReaderCursor.move_on_key_greater_than_or_equal_to", "ReaderCursor.move_on_key_lower_than_or_equal_to", "ReaderCursor.move_on_key_equal_to"]),
    "Grenad.SrcTie.ReaderE2E": ("SrcReaderCursor", ["Block", "Block.read_from", "CompressionType", "Block.new", "BlockCursor.new", "Block.into_cursor", "IndexBlockCursor", "IndexBlockCursor.new",
                                                   "IndexBlockCursor.reset", "IndexBlockCursor.initial_index_blocks", "IndexBlockCursor.iter_index_blocks",
                                                   "IndexBlockCursor.recursive_index_block.recursive", "IndexBlockCursor.recursive_index_block",
                                                   "IndexBlockCursor.move_on_first", "IndexBlockCursor.move_on_last", "IndexBlockCursor.move_on_next",
                                                   "IndexBlockCursor.move_on_prev", "IndexBlockCursor.move_on_key_greater_than_or_equal_to"]),
    "Grenad.SrcTie.ReaderE2EIdx": ("SrcReaderCursor,SrcReaderCursor2", ["Block", "Block.read_from", "CompressionType", "Block.new", "BlockCursor.new", "Block.into_cursor", "IndexBlockCursor", "IndexBlockCursor.new",
      "IndexBlockCursor.reset", "IndexBlockCursor.move_on_first", "IndexBlockCursor.move_on_last", "IndexBlockCursor.move_on_next",
      "IndexBlockCursor.move_on_prev", "IndexBlockCursor.move_on_key_greater_than_or_equal_to", "Reader", "Reader.compression_type", "Reader.index_block_offset",
      "Reader.index_levels", "ReaderCursor", "ReaderCursor.current", "ReaderCursor.reset", "ReaderCursor.new", "ReaderCursor.next_block_from_index",
      "ReaderCursor.prev_block_from_index", "ReaderCursor.move_on_first", "ReaderCursor.move_on_last", "ReaderCursor.move_on_next", "ReaderCursor.move_on_prev",
      "ReaderCursor.move_on_key_greater_than_or_equal_to", "ReaderCursor.move_on_key_lower_than_or_equal_to", "ReaderCursor.move_on_key_equal_to", "IndexBlockCursor.initial_index_blocks", "IndexBlockCursor.iter_index_blocks", "IndexBlockCursor.recursive_index_block.recursive", "IndexBlockCursor.recursive_index_block", "Reader.new", "Reader.into_cursor", "Metadata", "Metadata.read_from"]),
    "Grenad.SrcTie.ReaderE2EGen": ("SrcMeta,SrcReaderCursor,SrcReaderCursor2", ["Block", "Block.read_from", "CompressionType", "Block.new", "BlockCursor.new", "Block.into_cursor", "IndexBlockCursor", "IndexBlockCursor.new",
      "IndexBlockCursor.reset", "IndexBlockCursor.move_on_first", "IndexBlockCursor.move_on_last", "IndexBlockCursor.move_on_next",
      "IndexBlockCursor.move_on_prev", "IndexBlockCursor.move_on_key_greater_than_or_equal_to", "Reader", "Reader.compression_type", "Reader.index_block_offset",
      "Reader.index_levels", "ReaderCursor", "ReaderCursor.current", "ReaderCursor.reset", "ReaderCursor.new", "ReaderCursor.next_block_from_index",
      "ReaderCursor.prev_block_from_index", "ReaderCursor.move_on_first", "ReaderCursor.move_on_last", "ReaderCursor.move_on_next", "ReaderCursor.move_on_prev",
      "ReaderCursor.move_on_key_greater_than_or_equal_to", "ReaderCursor.move_on_key_lower_than_or_equal_to", "ReaderCursor.move_on_key_equal_to", "IndexBlockCursor.initial_index_blocks", "IndexBlockCursor.iter_index_blocks", "IndexBlockCursor.recursive_index_block.recursive", "IndexBlockCursor.recursive_index_block", "Reader.new", "Reader.into_cursor", "Metadata", "Metadata.read_from"]),
    "Grenad.SrcTie.ReaderE2ESmoke": ("SrcMeta,SrcReaderCursor,SrcReaderCursor2", ["Block", "Block.read_from", "CompressionType", "Block.new", "BlockCursor.new", "Block.into_cursor", "IndexBlockCursor", "IndexBlockCursor.new",
      "IndexBlockCursor.reset", "IndexBlockCursor.move_on_first", "IndexBlockCursor.move_on_last", "IndexBlockCursor.move_on_next",
      "IndexBlockCursor.move_on_prev", "IndexBlockCursor.move_on_key_greater_than_or_equal_to", "Reader", "Reader.compression_type", "Reader.index_block_offset",
      "Reader.index_levels", "ReaderCursor", "ReaderCursor.current", "ReaderCursor.reset", "ReaderCursor.new", "ReaderCursor.next_block_from_index",
      "ReaderCursor.prev_block_from_index", "ReaderCursor.move_on_first", "ReaderCursor.move_on_last", "ReaderCursor.move_on_next", "ReaderCursor.move_on_prev",
      "ReaderCursor.move_on_key_greater_than_or_equal_to", "ReaderCursor.move_on_key_lower_than_or_equal_to", "ReaderCursor.move_on_key_equal_to", "IndexBlockCursor.initial_index_blocks", "IndexBlockCursor.iter_index_blocks", "IndexBlockCursor.recursive_index_block.recursive", "IndexBlockCursor.recursive_index_block", "Reader.new", "Reader.into_cursor", "Metadata", "Metadata.read_from"]),
    "Grenad.SrcTie.IterNew": ("SrcIterNext", ["map_bound", "RangeIter", "RangeIter.new", "RevRangeIter", "RevRangeIter.new", "PrefixIter", "PrefixIter.new",
                                              "RevPrefixIter", "RevPrefixIter.new"]),
    "Grenad.SrcTie.SorterInsert": ("SrcSorter", ["EntryBound", "EntryBoundAlignedBuffer", "EntryBoundAlignedBuffer.deref", "Entries", "Entries.remaining", "Entries.entry_size", "Entries.fits",
                                                  "Entries.memory_usage", "Sorter", "Sorter.threshold_exceeded", "Entries.insert", "Sorter.write_chunk", "Sorter.merge_chunks", "Sorter.insert"]),
    "Grenad.SrcTie.SorterBuilder": ("SrcSorter", ["INITIAL_SORTER_VEC_SIZE", "DEFAULT_SORTER_MEMORY", "MIN_SORTER_MEMORY", "DEFAULT_NB_CHUNKS", "MIN_NB_CHUNKS",
                                                   "SorterBuilder", "SorterBuilder.new", "SorterBuilder.dump_threshold", "SorterBuilder.allow_realloc",
                                                   "SorterBuilder.max_nb_chunks", "SorterBuilder.build", "Entries.with_capacity", "Sorter", "Entries"]),
    "Grenad.SrcTie.ReaderTotalBase": ("SrcMeta,SrcReaderCursor,SrcReaderCursor2", ["Block", "Block.read_from", "CompressionType", "Block.new", "BlockCursor.new", "Block.into_cursor", "IndexBlockCursor", "IndexBlockCursor.new",
      "IndexBlockCursor.reset", "IndexBlockCursor.move_on_first", "IndexBlockCursor.move_on_last", "IndexBlockCursor.move_on_next",
      "IndexBlockCursor.move_on_prev", "IndexBlockCursor.move_on_key_greater_than_or_equal_to", "Reader", "Reader.compression_type", "Reader.index_block_offset",
      "Reader.index_levels", "ReaderCursor", "ReaderCursor.current", "ReaderCursor.reset", "ReaderCursor.new", "ReaderCursor.next_block_from_index",
      "ReaderCursor.prev_block_from_index", "ReaderCursor.move_on_first", "ReaderCursor.move_on_last", "ReaderCursor.move_on_next", "ReaderCursor.move_on_prev",
      "ReaderCursor.move_on_key_greater_than_or_equal_to", "ReaderCursor.move_on_key_lower_than_or_equal_to", "ReaderCursor.move_on_key_equal_to", "IndexBlockCursor.initial_index_blocks", "IndexBlockCursor.iter_index_blocks", "IndexBlockCursor.recursive_index_block.recursive", "IndexBlockCursor.recursive_index_block", "Reader.new", "Reader.into_cursor", "Metadata", "Metadata.read_from"]),
    "Grenad.SrcTie.ReaderTotalIdx": ("SrcMeta,SrcReaderCursor,SrcReaderCursor2", ["Block", "Block.read_from", "CompressionType", "Block.new", "BlockCursor.new", "Block.into_cursor", "IndexBlockCursor", "IndexBlockCursor.new",
      "IndexBlockCursor.reset", "IndexBlockCursor.move_on_first", "IndexBlockCursor.move_on_last", "IndexBlockCursor.move_on_next",
      "IndexBlockCursor.move_on_prev", "IndexBlockCursor.move_on_key_greater_than_or_equal_to", "Reader", "Reader.compression_type", "Reader.index_block_offset",
      "Reader.index_levels", "ReaderCursor", "ReaderCursor.current", "ReaderCursor.reset", "ReaderCursor.new", "ReaderCursor.next_block_from_index",
      "ReaderCursor.prev_block_from_index", "ReaderCursor.move_on_first", "ReaderCursor.move_on_last", "ReaderCursor.move_on_next", "ReaderCursor.move_on_prev",
      "ReaderCursor.move_on_key_greater_than_or_equal_to", "ReaderCursor.move_on_key_lower_than_or_equal_to", "ReaderCursor.move_on_key_equal_to", "IndexBlockCursor.initial_index_blocks", "IndexBlockCursor.iter_index_blocks", "IndexBlockCursor.recursive_index_block.recursive", "IndexBlockCursor.recursive_index_block", "Reader.new", "Reader.into_cursor", "Metadata", "Metadata.read_from"]),
    "Grenad.SrcTie.ReaderTotal": ("SrcMeta,SrcReaderCursor,SrcReaderCursor2", ["Block", "Block.read_from", "CompressionType", "Block.new", "BlockCursor.new", "Block.into_cursor", "IndexBlockCursor", "IndexBlockCursor.new",
      "IndexBlockCursor.reset", "IndexBlockCursor.move_on_first", "IndexBlockCursor.move_on_last", "IndexBlockCursor.move_on_next",
      "IndexBlockCursor.move_on_prev", "IndexBlockCursor.move_on_key_greater_than_or_equal_to", "Reader", "Reader.compression_type", "Reader.index_block_offset",
      "Reader.index_levels", "ReaderCursor", "ReaderCursor.current", "ReaderCursor.reset", "ReaderCursor.new", "ReaderCursor.next_block_from_index",
      "ReaderCursor.prev_block_from_index", "ReaderCursor.move_on_first", "ReaderCursor.move_on_last", "ReaderCursor.move_on_next", "ReaderCursor.move_on_prev",
      "ReaderCursor.move_on_key_greater_than_or_equal_to", "ReaderCursor.move_on_key_lower_than_or_equal_to", "ReaderCursor.move_on_key_equal_to", "IndexBlockCursor.initial_index_blocks", "IndexBlockCursor.iter_index_blocks", "IndexBlockCursor.recursive_index_block.recursive", "IndexBlockCursor.recursive_index_block", "Reader.new", "Reader.into_cursor", "Metadata", "Metadata.read_from"]),
    "Grenad.SrcTie.ReaderTotalSmoke": ("SrcMeta,SrcReaderCursor,SrcReaderCursor2", ["Block", "Block.read_from", "CompressionType", "Block.new", "BlockCursor.new", "Block.into_cursor", "IndexBlockCursor", "IndexBlockCursor.new",
      "IndexBlockCursor.reset", "IndexBlockCursor.move_on_first", "IndexBlockCursor.move_on_last", "IndexBlockCursor.move_on_next",
      "IndexBlockCursor.move_on_prev", "IndexBlockCursor.move_on_key_greater_than_or_equal_to", "Reader", "Reader.compression_type", "Reader.index_block_offset",
      "Reader.index_levels", "ReaderCursor", "ReaderCursor.current", "ReaderCursor.reset", "ReaderCursor.new", "ReaderCursor.next_block_from_index",
      "ReaderCursor.prev_block_from_index", "ReaderCursor.move_on_first", "ReaderCursor.move_on_last", "ReaderCursor.move_on_next", "ReaderCursor.move_on_prev",
      "ReaderCursor.move_on_key_greater_than_or_equal_to", "ReaderCursor.move_on_key_lower_than_or_equal_to", "ReaderCursor.move_on_key_equal_to", "IndexBlockCursor.initial_index_blocks", "IndexBlockCursor.iter_index_blocks", "IndexBlockCursor.recursive_index_block.recursive", "IndexBlockCursor.recursive_index_block", "Reader.new", "Reader.into_cursor", "Metadata", "Metadata.read_from"]),
    "Grenad.SrcTie.FullRoundTrip": ("SrcMeta,SrcReaderCursor,SrcReaderCursor2,SrcWriter,SrcIter,SrcIterNext", ["Block", "Block.read_from", "CompressionType", "Block.new", "BlockCursor.new", "Block.into_cursor", "IndexBlockCursor", "IndexBlockCursor.new",
      "IndexBlockCursor.reset", "IndexBlockCursor.move_on_first", "IndexBlockCursor.move_on_last", "IndexBlockCursor.move_on_next",
      "IndexBlockCursor.move_on_prev", "IndexBlockCursor.move_on_key_greater_than_or_equal_to", "Reader", "Reader.compression_type", "Reader.index_block_offset",
      "Reader.index_levels", "ReaderCursor", "ReaderCursor.current", "ReaderCursor.reset", "ReaderCursor.new", "ReaderCursor.next_block_from_index",
      "ReaderCursor.prev_block_from_index", "ReaderCursor.move_on_first", "ReaderCursor.move_on_last", "ReaderCursor.move_on_next", "ReaderCursor.move_on_prev",
      "ReaderCursor.move_on_key_greater_than_or_equal_to", "ReaderCursor.move_on_key_lower_than_or_equal_to", "ReaderCursor.move_on_key_equal_to", "IndexBlockCursor.initial_index_blocks", "IndexBlockCursor.iter_index_blocks", "IndexBlockCursor.recursive_index_block.recursive", "IndexBlockCursor.recursive_index_block", "Reader.new", "Reader.into_cursor", "Metadata", "Metadata.read_from", "DEFAULT_INDEX_KEY_INTERVAL", "BlockWriterBuilder", "BlockWriterBuilder.new",
                                                 "BlockWriterBuilder.index_key_interval", "BlockWriterBuilder.build", "BlockWriter.builder",
                                                 "BlockWriter.last_key", "Writer", "WriterBuilder.build", "Writer.insert", "Writer.into_inner"]),
    "Grenad.SrcTie.MergerBuilder": ("SrcMerger,SrcMergerIter", ["Merger", "MergerBuilder", "MergerBuilder.new", "MergerBuilder.push", "MergerBuilder.add", "MergerBuilder.build", "Merger.builder"]),
    "Grenad.SrcTie.EntriesInsert": ("SrcSorter", ["EntryBound", "EntryBoundAlignedBuffer", "EntryBoundAlignedBuffer.deref", "EntryBoundAlignedBuffer.new", "Entries", "Entries.remaining", "Entries.entry_size",
                                                   "Entries.fits", "Entries.memory_usage", "Entries.reallocate_buffer", "Entries.insert", "Sorter", "Sorter.threshold_exceeded",
                                                   "Sorter.write_chunk", "Sorter.merge_chunks", "Sorter.insert"]),
    "Grenad.SrcTie.MergeWrite": ("SrcMerger,SrcMergerIter,SrcWriter,SrcMergeWrite", ["Entry", "Entry.cmp", "MergerIter", "MergerIter.next", "Merger", "Merger.into_stream_merger_iter", "Merger.write_into_stream_writer", "DEFAULT_INDEX_KEY_INTERVAL", "BlockWriterBuilder", "BlockWriterBuilder.new",
                                                 "BlockWriterBuilder.index_key_interval", "BlockWriterBuilder.build", "BlockWriter.builder",
                                                 "BlockWriter.last_key", "Writer", "WriterBuilder.build", "Writer.insert", "Writer.into_inner"]),
    "Grenad.SrcTie.ReaderAccessors": ("SrcReaderCursor2", ["Reader", "Reader.len", "Reader.is_empty", "Reader.file_version", "Reader.compression_type",
                                                      "Reader.index_block_offset", "Reader.index_levels"]),
    "Grenad.SrcTie.IterE2E": ("SrcMeta,SrcReaderCursor,SrcReaderCursor2,SrcIter,SrcIterNext", ["Block", "Block.read_from", "CompressionType", "Block.new", "BlockCursor.new", "Block.into_cursor", "IndexBlockCursor", "IndexBlockCursor.new",
      "IndexBlockCursor.reset", "IndexBlockCursor.move_on_first", "IndexBlockCursor.move_on_last", "IndexBlockCursor.move_on_next",
      "IndexBlockCursor.move_on_prev", "IndexBlockCursor.move_on_key_greater_than_or_equal_to", "Reader", "Reader.compression_type", "Reader.index_block_offset",
      "Reader.index_levels", "ReaderCursor", "ReaderCursor.current", "ReaderCursor.reset", "ReaderCursor.new", "ReaderCursor.next_block_from_index",
      "ReaderCursor.prev_block_from_index", "ReaderCursor.move_on_first", "ReaderCursor.move_on_last", "ReaderCursor.move_on_next", "ReaderCursor.move_on_prev",
      "ReaderCursor.move_on_key_greater_than_or_equal_to", "ReaderCursor.move_on_key_lower_than_or_equal_to", "ReaderCursor.move_on_key_equal_to", "IndexBlockCursor.initial_index_blocks", "IndexBlockCursor.iter_index_blocks", "IndexBlockCursor.recursive_index_block.recursive", "IndexBlockCursor.recursive_index_block", "Reader.new", "Reader.into_cursor", "Metadata", "Metadata.read_from", "RangeIter", "RangeIter.next", "RevRangeIter", "RevRangeIter.next", "PrefixIter", "PrefixIter.next",
                                                "move_on_last_prefix", "RevPrefixIter", "RevPrefixIter.next", "advance_key", "end_contains", "start_contains", "map_bound", "RangeIter", "RangeIter.new", "RevRangeIter", "RevRangeIter.new", "PrefixIter", "PrefixIter.new",
                                              "RevPrefixIter", "RevPrefixIter.new"]),
    "Grenad.SrcTie.MergerSim": ("SrcMerger,SrcMergerIter", ["Entry", "Entry.cmp", "MergerIter", "MergerIter.next", "Merger", "Merger.into_stream_merger_iter"]),
    "Grenad.SrcTie.Compression": ("SrcCompression", ["CompressionType", "compress", "decompress"]),
    "Grenad.SrcTie.MergerIter": ("SrcMerger,SrcMergerIter", ["Entry", "Entry.cmp", "MergerIter", "MergerIter.next", "Merger", "Merger.into_stream_merger_iter"]),
    "Grenad.SrcTie.MergerIterNext": ("SrcMerger,SrcMergerIter", ["Entry", "Entry.cmp", "MergerIter", "MergerIter.next", "Merger", "Merger.into_stream_merger_iter"]),
    "Grenad.SrcTie.MergerIterStep": ("SrcMerger,SrcMergerIter", ["Entry", "Entry.cmp", "MergerIter", "MergerIter.next", "Merger", "Merger.into_stream_merger_iter"]),
    "Grenad.SrcTie.MergerIterRun": ("SrcMerger,SrcMergerIter", ["Entry", "Entry.cmp", "MergerIter", "MergerIter.next", "Merger", "Merger.into_stream_merger_iter"]),
    "Grenad.SrcTie.Sorter": ("SrcSorter", ["EntryBound", "EntryBoundAlignedBuffer", "EntryBoundAlignedBuffer.deref", "Entries", "Entries.clear",
                                           "Entries.remaining", "Entries.entry_size", "Entries.fits", "Entries.memory_usage",
                                           "Entries.estimated_entries_memory_usage", "Sorter", "Sorter.threshold_exceeded"]),
}
for _p, _mods in {"C14": ["Varint", "Block", "C14Src"], "C13": ["Meta", "C13Src"], "C10": ["Meta", "C10Src"],
                  "C09": ["Meta", "BlockWriter", "Varint", "C13Src", "CountWrite", "WriterBlock", "WriterInsert", "WriterFinish", "WriterRun", "Compression"], "C04": ["IterRange", "IterNext", "C04C05Src", "IterNew", "IterE2E", "FullRoundTrip"],
                  "C05": ["IterPrefix", "C05Src", "IterNext", "C04C05Src", "IterNew", "IterE2E", "FullRoundTrip"], "C18": ["BlockWriter", "C18Src", "WriterBlock", "WriterInsert", "WriterRun"], "C15": ["BlockWriter", "WriterBuilder", "WriterCut", "WriterInsert", "WriterBuild"],
                  "C01": ["BlockWriter", "Varint", "Meta", "Block", "BlockCursor", "TBlockSrc", "BuiltSrc", "NoPanic", "EndToEnd", "BlockLoad", "WriterBlock", "WriterLemmas", "WriterCut", "WriterInsert", "WriterFinish", "WriterRun", "WriterBounds", "WriterBuild", "Compression", "ReaderCursorTie", "ReaderCursorTieStep", "ReaderE2E", "ReaderE2EIdx", "ReaderE2EGen", "ReaderE2ESmoke", "ReaderTotalBase", "ReaderTotalIdx", "ReaderTotal", "ReaderTotalSmoke", "FullRoundTrip", "ReaderAccessors"],
                  "C02": ["BlockCursor", "Smoke", "TBlockSrc", "NoPanic", "IndexCursorLoad", "IndexCursorIter", "IndexCursor", "ReaderCursorTie", "ReaderCursorTieStep", "ReaderE2E", "ReaderE2EIdx", "ReaderE2EGen", "ReaderTotal"],
                  "C03": ["IndexCursorLoad", "IndexCursorInit", "IndexCursorIter", "IndexCursorRec", "IndexCursor", "IndexCursorSmoke", "ReaderCursorTie", "ReaderCursorTieStep", "ReaderE2E", "ReaderE2EIdx", "ReaderE2EGen", "ReaderE2ESmoke", "ReaderTotalBase", "ReaderTotalIdx", "ReaderTotal", "ReaderTotalSmoke"],
                  "C16": ["IndexCursorLoad", "IndexCursorInit", "IndexCursorIter", "IndexCursorRec", "IndexCursor", "ReaderCursorTie", "ReaderCursorTieStep"], "C06": ["Merger", "MergerIter", "MergerIterNext", "MergerIterStep", "MergerIterRun", "MergerBuilder", "MergeWrite", "MergerSim"], "C11": ["CountWrite"], "C08": ["Sorter", "SorterInsert", "SorterBuilder", "EntriesInsert"], "C07": ["Sorter", "SorterInsert", "EntriesInsert"], "C17": ["Sorter", "EntriesInsert"]}.items():
    PROPS[_p]["srctie"] = ["Grenad.SrcTie." + m for m in _mods]


# ---------------------------------------------------------------- texts for MANIFEST.json

_COMMON_NOTE = ("Trusted: Lean 4.33 kernel; axioms propext / Classical.choice / Quot.sound only (audited per theorem on every run); "
                "the theorems are about the hand-written model in lean/Grenad/Model, tied to /repo by the correspondence check "
                "(harness + gmodel + L0 spec + independent decoder), which is sampled, not proved; codec crates (lawfulness), std "
                "(BinaryHeap, sorts, binary_search, write_all/read_exact/read_to_end) and rayon are modelled by their contracts.")

TEXTS = {
 "C01": ("C01_roundtrip: for every lawful codec, configuration and strictly ascending input the model writer succeeds and the byte-level model reader opens the file (version/codec/count/levels) and scans it forward and backward exactly; C01_bytes_history: every cursor history on the written file agrees with the specification cursor. Composition of T-writer, T-block, simulation lifting and T-cursor. Tie: whole-file bytes for all six codecs, block layout, scans, 0.4.7 matrix.",
         "Output-size side conditions (file < 2^64 bytes, blocks < 2^32 bytes) are hypotheses. " + _COMMON_NOTE),
 "C02": ("C02_ge/le/eq (+ _from any reachable state, _after any history, _reset): the multi-level cursor over any well-formed file returns exactly ceiling/floor/lookup, for all probes and index depths; byte-level versions in Props/C01.", _COMMON_NOTE),
 "C03": ("C03_step/C03_history/C03_clone: every finite history of the repaired cursor agrees with the specification cursor (results depend on content and logical position only); invariant = cache soundness + root-to-leaf path. C03_counterexample_pinned shows the pinned code violated it (finding F1, fixed). Tie also compares the recorded index offsets after every operation and runs every history of length <= 3 on small deep files.", _COMMON_NOTE),
 "C04": ("C04_range / C04_range_rev for all nine bound-kind pairs with arbitrary (also inverted) bounds, over the specification cursor and over any cursor refining it; byte-level C04_bytes_* in Props/C01.", _COMMON_NOTE),
 "C05": ("C05_prefix / C05_prefix_rev for all prefixes, advanceKey_spec/none; the reverse iterator's side condition (current() after a failed floor seek) is proved necessary and discharged for the byte-level reader.", _COMMON_NOTE),
 "C06": ("C06_run/C06_merge/C06_calls/C06_sorted/C06_lone/C06_merge_err: the k-way merge equals the grouped union, one merge call per key in key order with values in source order, for any number of sources and any (also failing) merge function.", "std BinaryHeap is replaced by 'pop the minimum of (key, source index)'. " + _COMMON_NOTE),
 "C07": ("C07_stable/C07_keys/C07_any_order: the sorter output equals group-by-key of all inserts (values in insertion order under the stable sort, some permutation under any key-sorted permutation), for EVERY spill / chunk-merge schedule — the content invariant does not mention thresholds.", "Unstable and parallel sorts are modelled as an arbitrary key-sorted permutation chosen at each spill. " + _COMMON_NOTE),
 "C08": ("C08_volume*/C08_chunks/C08_creator by induction over unboundedly many inserts of the numeric buffer state machine; bounds also evaluated directly on the implementation's fingerprint and chunk events.", "Entry-size hypotheses (2*size <= budget, resp. size <= budget without realloc) are necessary (counterexamples in the module). " + _COMMON_NOTE),
 "C09": ("C09_conforms (WellFormedV2: layout, trailer, offsets, per-level index entries, data concatenation) and C09_spec_decoder (an independent decoder recovers the input). The grenad 0.4.7 half cannot be a Lean theorem: it is checked by the correspondence matrix (old reader on new files, new reader on old files, byte equality of the two writers) — exploration strength for that half.", "0.4.7 interop is sampled only. " + _COMMON_NOTE),
 "C10": ("C10_open pins the 21-byte V1 trailer layout; C10_same_blocks / C10_same_cursor: the blocks and the initial cursor state are identical for the V1 and V2 trailers, so all results coincide (they are functions of block loads); V1 files are built by the harness from real V2 files and every query is compared.", _COMMON_NOTE),
 "C11": ("writeAll/writeMany/readExact/readToEndTake are schedule independent (full characterisations under arbitrary schedules); the counter equals the offset at each block start; every reader-side result factors through loadBlock, hence is schedule independent. Tie: random per-call write schedules, choppy/short/interrupted sources and chunk storage.", "std loops modelled from their documented contract; framed decoders assumed to consume input through Read (finding F3 was a violation of exactly that by lz4_flex, repaired in grenad). " + _COMMON_NOTE),
 "C12": ("C12_write_fault/C12_read_fault/C12_cursor_*/C12_merge_fault/C12_sorter_*: a consumed fault is reported by the current call with its tag, nothing is reported without a fault, no trap is converted. Thin by nature in a monadic model; the weight is on exhaustive fault enumeration in the tie (every write call, every seek/read, every merge call, every create; chunk-storage operations through an implementation-only oracle).", _COMMON_NOTE),
 "C13": ("C13_open_iff: Meta.parse succeeds exactly on byte strings ending in a valid trailer (stated on the bytes), total (no trap), fields as specified; truncations; the sink holds a prefix under any schedule. Tie: every truncation and single-bit/byte trailer corruption, structured malformed stream, plus the same predicate evaluated directly on the implementation.", _COMMON_NOTE),
 "C14": ("C14_roundtrip/C14_width/C14_entry for all v < 2^32 and all lengths; tie exhaustive over all 2^32 values in the thorough tier (digest per shard, bisected on mismatch), boundaries and samples in the quick tier.", _COMMON_NOTE),
 "C15": ("C15_cut/C15_bound/C15_pending/C15_clamp for arbitrary insert sequences and configurations: every data block and every index block more than one level below the root is below B without its final entry and at least B when emitted by a cut. Also evaluated on every generated file by the independent decoder.", _COMMON_NOTE),
 "C16": ("C16_loads: any single operation from any state with the shape invariant loads at most 2*(levels+2) blocks, for ANY loader and bytes (no well-formedness needed), with tight per-operation bounds; C16_open. Tie: block loads per operation compared one-sidedly (impl <= model) and against the bound.", _COMMON_NOTE),
 "C17": ("Arithmetic half proved (C17_invariant, C17_no_trap, C17_fuel, C17_alloc_pairing: guarded buffer primitives never trap, one live allocation, equal layouts, nothing live at the end). The pointer-level half (provenance of from_raw_parts, soundness of the lifetime transmutes) is not expressible in an executable model: PARTIAL — explored by the allocation-trace oracle on every sorter scenario and by Miri in the thorough tier.", "Pointer-level memory safety is explored, not proved. " + _COMMON_NOTE),
 "C18": ("C18_sorted_or_trap/C18_traps/C18_trap_point/C18_trap_first/C18_sorted_input_ok for arbitrary (unsorted, duplicate-laden) insert sequences: either a named trap or every emitted block, data and index alike, is strictly ascending.", _COMMON_NOTE),
}
for _p, (_t, _n) in TEXTS.items():
    if _p in PROPS:
        PROPS[_p]["level_text"] = _t
        PROPS[_p]["level_note"] = _n
        PROPS[_p]["design_ref"] = "DESIGN.md §5 (" + _p + "), §3, §6"
