"""Per-property configuration of ./check: proof obligations, correspondence streams, rules."""

def T(mod, names):
    return [f"{mod}.{n}" for n in names]

PROPS = {}

PROPS["C14"] = dict(
    module="Grenad.Props.C14",
    theorems=T("Grenad.Props.C14", ["C14_roundtrip", "C14_width", "C14_entry", "C14_writer_accepts"]),
    streams={"varint": (24, 200)},
    rules={},
    exhaustive_in="thorough",
    assumptions=["u32 arithmetic of varint.rs is modelled on Nat with explicit % and / (checked against the real functions)"],
)

PROPS["C13"] = dict(
    module="Grenad.Props.C13",
    theorems=T("Grenad.Props.C13", ["C13_open_iff", "C13_total", "C13_fields_v2", "C13_fields_v1", "C13_truncation", "C13_crash_prefix"]),
    streams={"open": (64, 800), "trunc": (16, 160)},
    rules={"ops": ["open"]},
    assumptions=["the source is an in-memory Cursor (seek before the start fails, reads are exact)"],
)

PROPS["C01"] = dict(
    module="Grenad.Props.C01",
    theorems=T("Grenad.Props.C01", ["C01_levels255_trapped_when_pinned"]),
    streams={"write": (160, 1600)},
    rules={"ops": ["ins", "finish", "file", "c", "interop"], "finish_must_succeed": True, "blocks": True},
)

PROPS["C03"] = dict(
    module="Grenad.Props.C03",
    theorems=T("Grenad.Props.C03", ["C03_counterexample_pinned", "C03_witness_repaired"]),
    streams={"cursor": (240, 2400)},
    rules={"ops": ["c", "file"], "fingerprint": True},
)
