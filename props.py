"""Per-property configuration of ./check: proof obligations, correspondence streams, rules."""

def T(mod, names):
    return [f"{mod}.{n}" for n in names]

PROPS = {}

PROPS["C14"] = dict(
    module="Grenad.Props.C14",
    streams={"varint": (24, 200)},
    rules={},
    exhaustive_in="thorough",
    assumptions=["u32 arithmetic of varint.rs is modelled on Nat with explicit % and / (checked against the real functions)"],
)

PROPS["C13"] = dict(
    module="Grenad.Props.C13",
    streams={"open": (64, 800), "trunc": (16, 160)},
    rules={"ops": ["open"]},
    assumptions=["the source is an in-memory Cursor (seek before the start fails, reads are exact)"],
)

PROPS["C01"] = dict(
    module="Grenad.Props.C01",
    streams={"write": (160, 1600)},
    rules={"ops": ["ins", "finish", "file", "c", "interop"], "finish_must_succeed": True, "blocks": True},
)

PROPS["C03"] = dict(
    module="Grenad.Props.C03",
    streams={"cursor": (240, 2400)},
    rules={"ops": ["c", "file"], "fingerprint": True},
)

PROPS["C02"] = dict(module="Grenad.Props.C02", streams={"seek": (160, 1600)}, rules={"ops": ["c", "file"]})
PROPS["C04"] = dict(module="Grenad.Props.C04", streams={"iter": (160, 1600)}, rules={"ops": ["range", "file"]})
PROPS["C05"] = dict(module="Grenad.Props.C05", streams={"iter": (160, 1600)}, rules={"ops": ["prefix", "file"]})
PROPS["C06"] = dict(module="Grenad.Props.C06", streams={"merge": (320, 3200)}, rules={"ops": ["merge", "mergew"], "calls": True})
PROPS["C07"] = dict(module="Grenad.Props.C07", streams={"sorter": (240, 2400)}, rules={"ops": ["sfinish", "sins", "snew"], "calls": True})
PROPS["C08"] = dict(module="Grenad.Props.C08", streams={"sorter": (240, 2400)}, rules={"ops": ["sins", "snew"], "sorter_bounds": True})
PROPS["C09"] = dict(module="Grenad.Props.C09", streams={"write": (160, 1600)}, rules={"ops": ["finish", "interop", "file"], "blocks": True, "finish_must_succeed": True})
PROPS["C10"] = dict(module="Grenad.Props.C10", streams={"v1": (120, 1200)}, rules={"ops": ["file", "c", "range", "prefix"]})
PROPS["C11"] = dict(module="Grenad.Props.C11", streams={"wio": (160, 1600), "rio": (120, 1200), "sorterio": (120, 1200)},
                    rules={"ops": ["ins", "finish", "sinkstate", "c", "range", "prefix", "file", "sfinish", "sins", "snew"]})
PROPS["C12"] = dict(module="Grenad.Props.C12", streams={"fault": (16, 160)},
                    rules={"ops": ["ins", "finish", "sinkstate", "c", "merge", "mergew", "sins", "!sins", "sfinish", "!sfinish", "snew"]})
PROPS["C15"] = dict(module="Grenad.Props.C15", streams={"write": (160, 1600), "unsorted": (80, 800)}, rules={"ops": ["finish", "ins"], "blocks": True})
PROPS["C16"] = dict(module="Grenad.Props.C16", streams={"cursor": (160, 1600), "seek": (80, 800), "open": (32, 320)},
                    rules={"ops": ["c", "open", "file"], "loads": True, "fingerprint": False})
PROPS["C17"] = dict(module="Grenad.Props.C17", streams={"sorter": (240, 2400)}, rules={"ops": ["sins", "snew", "sfinish"], "alloc": True})
PROPS["C18"] = dict(module="Grenad.Props.C18", streams={"unsorted": (240, 2400)}, rules={"ops": ["ins", "finish"], "blocks": True})
