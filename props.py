"""Per-property configuration of ./check: proof obligations, correspondence streams, rules."""

def T(mod, names):
    return [f"{mod}.{n}" for n in names]

PROPS = {}

import json, os, subprocess, time
from concurrent.futures import ThreadPoolExecutor


def extra_c14(tier, seed, workdir, sh, GH, GM):
    """Varint tie, digest-based: quick = 16 shards of 2^16 consecutive values at random places plus
    the shards around every framing boundary; thorough = ALL 2^32 values (exhaustive), 16 shards."""
    if tier == "thorough":
        shards = [(i << 28, 1 << 28) for i in range(16)]
    else:
        import random
        rnd = random.Random(seed)
        shards = [(rnd.randrange(0, (1 << 32) - (1 << 16)), 1 << 16) for _ in range(8)]
        shards += [(max(0, (1 << b) - (1 << 15)), 1 << 16) for b in (7, 14, 21, 28)] + [((1 << 32) - (1 << 16), 1 << 16)]

    def one(sh_):
        start, count = sh_
        a = subprocess.run([GH, "vshard", str(start), str(count)], stdout=subprocess.PIPE, text=True).stdout.strip().splitlines()[-1]
        b = subprocess.run([GM], input=f"vrange {start} {count} 1\n", stdout=subprocess.PIPE, text=True).stdout.split("\t")[0].strip()
        return start, count, a, b

    def first_diff(start, count):
        # bisect to the first value on which the two sides differ
        while count > 1:
            half = count // 2
            _, _, a, b = one((start, half))
            if a != b:
                count = half
            else:
                start, count = start + half, count - half
        return start

    with ThreadPoolExecutor(max_workers=16) as ex:
        rows = list(ex.map(one, shards))
    findings, evals = [], 0
    for start, count, a, b in rows:
        evals += count
        if a != b:
            v = first_diff(start, count)
            rc, o = sh([GH, "gen", "varint", "0", "0"])
            # classify on the implementation itself: does the real codec round-trip this value?
            script = os.path.join(workdir, f"v{v}.script")
            open(script, "w").write(f"S varint-first-diff\nvenc {v}\n")
            rc, o = sh([GH, "run", script, script + ".tr"])
            impl = open(script + ".tr").read().split("\n")[1].split("\t")[1] if os.path.exists(script + ".tr") else "?"
            kind = "oracle" if impl.startswith("ORACLE-FAIL") else "model"
            findings.append(dict(kind=kind, scenario="varint-first-diff", cfg="", line=0, op=f"venc {v}", impl=impl, model=b, spec="-",
                                 note=f"shard [{start}, {start + count}) digests differ (impl {a}, model {b}); first differing value {v}",
                                 script=[f"S varint-first-diff", f"venc {v}"]))
    return [dict(evaluations=evals, findings=findings, nontrivial=[("vshard", s, c) for s, c, _, _ in rows],
                 samples=[{"shard_start": rows[0][0], "count": rows[0][1], "impl_digest": rows[0][2], "model_digest": rows[0][3]}],
                 stats={"varint_values_compared": evals, "varint_shards": len(rows)})]


def extra_c17(tier, seed, workdir, sh, GH, GM):
    """Pointer-level half of C17 (explored, not proved): the reduced sorter / reader scenarios of
    miri/ under Miri. Thorough tier only (needs the Miri sysroot, ~1 min cold)."""
    if tier != "thorough":
        return []
    root = os.path.dirname(os.path.abspath(__file__))
    mdir = os.path.join(root, "miri")
    if not os.path.exists(os.path.join(mdir, "Cargo.lock")):
        import shutil
        shutil.copy("/repo/Cargo.lock", os.path.join(mdir, "Cargo.lock"))
    rc, out = sh(["cargo", "+nightly", "miri", "run"], cwd=mdir, timeout=3000)
    ok = rc == 0 and "miri-scenarios-ok" in out
    findings = []
    if not ok:
        tail = out[-1500:]
        if "Undefined Behavior" in out or "panicked" in out:
            findings.append(dict(kind="oracle", scenario="miri", cfg="", line=0, op="cargo +nightly miri run (verif/miri)", impl=tail[-400:], model="-", spec="-",
                                 note="Miri reports undefined behaviour or a panic in the buffer / borrowed-entry paths", script=["# cd /verif/miri && cargo +nightly miri run"]))
        else:
            # Miri itself unavailable (e.g. sysroot cannot be built): not evidence either way
            return [dict(evaluations=0, findings=[], nontrivial=[], samples=[{"miri": "unavailable", "output": tail[-300:]}], stats={"miri_unavailable": 1})]
    return [dict(evaluations=1, findings=findings, nontrivial=[("miri", 1)], samples=[{"miri": "5 sorter cases + 1 reader case", "result": "ok" if ok else "failed"}], stats={"miri_runs": 1})]

PROPS["C14"] = dict(
    module="Grenad.Props.C14",
    extra=extra_c14,
    streams={"varint": (96, 960)},
    rules={},
    exhaustive_in="thorough",
    assumptions=["u32 arithmetic of varint.rs is modelled on Nat with explicit % and / (checked against the real functions)"],
)

PROPS["C13"] = dict(
    module="Grenad.Props.C13",
    streams={"open": (256, 2560), "trunc": (64, 640)},
    rules={"ops": ["open"]},
    assumptions=["the source is an in-memory Cursor (seek before the start fails, reads are exact)"],
)

PROPS["C01"] = dict(
    module="Grenad.Props.C01",
    streams={"write": (640, 6400)},
    rules={"ops": ["ins", "finish", "file", "c", "interop"], "finish_must_succeed": True, "blocks": True},
)

PROPS["C03"] = dict(
    module="Grenad.Props.C03",
    streams={"cursor": (960, 9600), "exh": (2, 24)},
    rules={"ops": ["c", "file"], "fingerprint": True},
)

PROPS["C02"] = dict(module="Grenad.Props.C02", streams={"seek": (640, 6400)}, rules={"ops": ["c", "file"]})
PROPS["C04"] = dict(module="Grenad.Props.C04", streams={"iter": (640, 6400)}, rules={"ops": ["range", "file"]})
PROPS["C05"] = dict(module="Grenad.Props.C05", streams={"iter": (640, 6400)}, rules={"ops": ["prefix", "file"]})
PROPS["C06"] = dict(module="Grenad.Props.C06", streams={"merge": (1280, 12800)}, rules={"ops": ["merge", "mergew"], "calls": True})
PROPS["C07"] = dict(module="Grenad.Props.C07", streams={"sorter": (960, 9600)}, rules={"ops": ["sfinish", "sins", "snew"], "calls": True})
PROPS["C08"] = dict(module="Grenad.Props.C08", streams={"sorter": (960, 9600)}, rules={"ops": ["sins", "snew"], "sorter_bounds": True})
PROPS["C09"] = dict(module="Grenad.Props.C09", streams={"write": (640, 6400)}, rules={"ops": ["finish", "interop", "file"], "blocks": True, "finish_must_succeed": True})
PROPS["C10"] = dict(module="Grenad.Props.C10", streams={"v1": (480, 4800)}, rules={"ops": ["file", "c", "range", "prefix"]})
PROPS["C11"] = dict(module="Grenad.Props.C11", streams={"wio": (640, 6400), "rio": (480, 4800), "sorterio": (480, 4800)},
                    rules={"ops": ["ins", "finish", "sinkstate", "c", "range", "prefix", "file", "sfinish", "sins", "snew"]})
PROPS["C12"] = dict(module="Grenad.Props.C12", streams={"fault": (64, 640)},
                    rules={"ops": ["ins", "finish", "sinkstate", "c", "merge", "mergew", "sins", "!sins", "sfinish", "!sfinish", "snew"]})
PROPS["C15"] = dict(module="Grenad.Props.C15", streams={"write": (640, 6400), "unsorted": (320, 3200)}, rules={"ops": ["finish", "ins"], "blocks": True})
PROPS["C16"] = dict(module="Grenad.Props.C16", streams={"cursor": (640, 6400), "seek": (320, 3200), "open": (128, 1280)},
                    rules={"ops": ["c", "open", "file"], "loads": True, "fingerprint": False})
PROPS["C17"] = dict(extra=extra_c17, module="Grenad.Props.C17", streams={"sorter": (960, 9600)}, rules={"ops": ["sins", "snew", "sfinish"], "alloc": True})
PROPS["C18"] = dict(module="Grenad.Props.C18", streams={"unsorted": (960, 9600)}, rules={"ops": ["ins", "finish"], "blocks": True})
