"""Per-property configuration of ./check: proof obligations, correspondence streams, rules."""

def T(mod, names):
    return [f"{mod}.{n}" for n in names]

PROPS = {}

PROPS["C14"] = dict(
    module="Grenad.Props.C14",
    theorems=T("Grenad.Props.C14", ["C14_roundtrip", "C14_width", "C14_entry", "C14_writer_accepts"]),
    streams={"varint": (24, 200)},
    rules={},
    exhaustive_in="thorough",
    assumptions=["u32 arithmetic of varint.rs is modelled on Nat with explicit % and / (checked against the real functions)"],
)

PROPS["C13"] = dict(
    module="Grenad.Props.C13",
    theorems=T("Grenad.Props.C13", ["C13_open_iff", "C13_total", "C13_fields_v2", "C13_fields_v1", "C13_truncation", "C13_crash_prefix"]),
    streams={"open": (64, 800), "trunc": (16, 160)},
    rules={"ops": ["open"]},
    assumptions=["the source is an in-memory Cursor (seek before the start fails, reads are exact)"],
)
