// included in tr.rs — statements and functions

/// `p` matches every value `q` matches (syntactic approximation, erring on the side of `false`)
fn pat_covers(p: &Pat, q: &Pat) -> bool {
    match (p, q) {
        (Pat::Wild(_), _) => true,
        (Pat::Ident(i), _) if i.subpat.is_none() && i.ident != "None" => true,
        (Pat::Paren(a), _) => pat_covers(&a.pat, q),
        (_, Pat::Paren(b)) => pat_covers(p, &b.pat),
        (Pat::TupleStruct(a), Pat::TupleStruct(b)) => {
            path_str(&a.path) == path_str(&b.path) && a.elems.len() == b.elems.len()
                && a.elems.iter().zip(b.elems.iter()).all(|(x, y)| pat_covers(x, y))
        }
        (Pat::Tuple(a), Pat::Tuple(b)) => a.elems.len() == b.elems.len() && a.elems.iter().zip(b.elems.iter()).all(|(x, y)| pat_covers(x, y)),
        _ => false,
    }
}

fn ind(n: usize) -> String {
    "  ".repeat(n)
}

#[derive(Clone)]
enum Alias {
    /// `x` bound by `PLACE.last_mut()`: `*x = v` replaces the last element of the place
    LastOf(String),
}

impl<'w> Ctx<'w> {
    /// `let mut v = &mut PLACE.as_mut_slice()[LO..];` or `let mut v = PLACE.as_mut_slice();` over a list of structs
    fn view_let(&self, l: &syn::Local) -> Option<(String, Place, String)> {
        let name = match &l.pat { Pat::Ident(i) if i.mutability.is_some() => i.ident.to_string(), _ => return None };
        let init = l.init.as_ref()?;
        let txt = init.expr.to_token_stream().to_string().replace(' ', "");
        let (ptxt, lo) = if let Some(rest) = txt.strip_prefix("&mut") {
            let pos = rest.find(".as_mut_slice()[")?;
            let lo = rest[pos + ".as_mut_slice()[".len()..].strip_suffix("..]")?;
            if !lo.chars().all(|c| c.is_ascii_digit()) { return None; }
            (rest[..pos].to_string(), lo.to_string())
        } else {
            (txt.strip_suffix(".as_mut_slice()")?.to_string(), "0".to_string())
        };
        let pe: Expr = syn::parse_str(&ptxt).ok()?;
        let place = self.place_of(&pe)?;
        match self.resolve(&place.ty) { Ty::List(t) if matches!(*t, Ty::Named(_)) => Some((name, place, lo)), _ => None }
    }

    /// `while let Some((last, head)) = v.split_last_mut() { …; v = head; }` with `v` a recorded view
    fn split_last_loop(&self, w: &syn::ExprWhile) -> Option<(String, String, String)> {
        let l = match &*w.cond { Expr::Let(l) => l, _ => return None };
        let view = match &*l.expr {
            Expr::MethodCall(m) if m.method == "split_last_mut" && m.args.is_empty() => match &*m.receiver {
                Expr::Path(p) if p.path.segments.len() == 1 => p.path.segments[0].ident.to_string(),
                _ => return None,
            },
            _ => return None,
        };
        if !self.views.contains_key(&view) { return None; }
        let ptxt = l.pat.to_token_stream().to_string().replace(' ', "");
        let inner = ptxt.strip_prefix("Some((")?.strip_suffix("))")?;
        let (last, head) = inner.split_once(',')?;
        let ident = |s: &str| !s.is_empty() && s.chars().all(|c| c.is_alphanumeric() || c == '_');
        if !ident(last) || !ident(head) { return None; }
        // the body must end with `v = head;` and use `v` nowhere else
        let tail = w.body.stmts.last()?.to_token_stream().to_string().replace(' ', "");
        if tail != format!("{}={};", view, head) { return None; }
        let body_txt: String = w.body.stmts[..w.body.stmts.len() - 1].iter().map(|s| s.to_token_stream().to_string()).collect::<Vec<_>>().join(" ");
        let uses_view = body_txt.split(|c: char| !(c.is_alphanumeric() || c == '_')).any(|t| t == view);
        if uses_view { return None; }
        Some((view, last.to_string(), head.to_string()))
    }

    /// `if let Some(x) = LIST.last_mut() { .. }` (no else) over struct elements, `LIST` a place or a `split_last_mut` head:
    /// (x, the list place, the Lean guard, the Lean index of the element)
    fn last_mut_elem(&self, i: &ExprIf) -> Option<(String, Place, String, String)> {
        if i.else_branch.is_some() { return None; }
        let l = match &*i.cond { Expr::Let(l) => l, _ => return None };
        let m = match &*l.expr { Expr::MethodCall(m) if m.method == "last_mut" && m.args.is_empty() => m, _ => return None };
        let ptxt = l.pat.to_token_stream().to_string().replace(' ', "");
        let x = ptxt.strip_prefix("Some(")?.strip_suffix(")")?.to_string();
        if x.is_empty() || !x.chars().all(|c| c.is_alphanumeric() || c == '_') { return None; }
        if let Expr::Path(p) = strip_ref(&m.receiver) {
            if let Some((place, lo, hi)) = self.heads.get(&path_str(&p.path)).cloned() {
                return Some((x, place, format!("decide ({} < {})", lo, hi), format!("{} - 1", hi)));
            }
        }
        let place = self.place_of(&m.receiver)?;
        match self.resolve(&place.ty) { Ty::List(t) if matches!(*t, Ty::Named(_)) => {}, _ => return None }
        let cur = self.place_read(&place);
        Some((x, place, format!("decide (0 < {}.length)", cur), format!("{}.length - 1", cur)))
    }

    /// the two iterator idioms of `MergerIter::next`:
    /// `let a = LIST.iter().filter_map(|e| e.cursor.current().map(|(_, v)| v));` — the values the entries' cursors point at —
    /// and `let b: Vec<_> = once(X).chain(a).map(Cow::Borrowed).collect();`
    fn merger_values_let(&mut self, l: &syn::Local) -> Option<R<(String, String, Ty)>> {
        let name = match &l.pat {
            Pat::Ident(i) if i.subpat.is_none() => i.ident.to_string(),
            Pat::Type(t) => match &*t.pat { Pat::Ident(i) => i.ident.to_string(), _ => return None },
            _ => return None,
        };
        let init = l.init.as_ref()?;
        let txt = init.expr.to_token_stream().to_string().replace(' ', "");
        if let Some(recv) = txt.strip_suffix(".iter().filter_map(|e|e.cursor.current().map(|(_,v)|v))") {
            let pe: Expr = syn::parse_str(recv).ok()?;
            let pl = self.place_of(&pe)?;
            match self.resolve(&pl.ty) { Ty::List(t) if matches!(&*t, Ty::Named(n) if self.w.ext_structs.contains(n)) => {}, _ => return None }
            self.used_step = true;
            let cur = self.place_read(&pl);
            return Some(Ok((name, format!("← List.filterMapM (fun e => do let (_, r) := step e.cursor CurOp.current; pure ((← liftCur r).map (fun (_, v) => v))) {}", cur), Ty::List(Box::new(Ty::Bytes)))));
        }
        if let Some(rest) = txt.strip_prefix("once(") {
            let inner = rest.strip_suffix(").map(Cow::Borrowed).collect()")?;
            let (a, b) = inner.split_once(").chain(")?;
            let (ae, be): (Expr, Expr) = (syn::parse_str(a).ok()?, syn::parse_str(b).ok()?);
            let r = (|| -> R<(String, String, Ty)> {
                let av = self.expr(&ae)?;
                let bv = self.expr(&be)?;
                if self.resolve(&av.ty) != Ty::Bytes || self.resolve(&bv.ty) != Ty::List(Box::new(Ty::Bytes)) || av.eff || bv.eff { return Err("once(..).chain(..) operand types".into()); }
                Ok((name.clone(), format!(":= ([{}] ++ {})", av.s, bv.s), Ty::List(Box::new(Ty::Bytes))))
            })();
            return Some(r);
        }
        None
    }

    fn opt_insert_let(&self, l: &syn::Local) -> Option<(String, Place, Expr)> {
        let name = match &l.pat { Pat::Ident(i) if i.mutability.is_none() && i.subpat.is_none() => i.ident.to_string(), _ => return None };
        let init = l.init.as_ref()?;
        if init.diverge.is_some() { return None; }
        let mc = match &*init.expr { Expr::MethodCall(mc) if mc.method == "insert" && mc.args.len() == 1 => mc, _ => return None };
        let place = self.place_of(&mc.receiver)?;
        if place.opt || place.index.is_some() || place.proj.is_some() || place.range.is_some() { return None; }
        match self.resolve(&place.ty) { Ty::Opt(_) => Some((name, place, mc.args[0].clone())), _ => None }
    }

    /// `for (a, b) in LIST` over a name standing for a place that holds a list of pairs
    fn for_pairs(&self, f: &syn::ExprForLoop) -> Option<(Place, String, String, Vec<Ty>)> {
        let name = match &*f.expr { Expr::Path(p) if p.path.segments.len() == 1 => p.path.segments[0].ident.to_string(), _ => return None };
        let place = self.elems.get(&name)?.clone();
        if place.index.is_some() || place.proj.is_some() || place.range.is_some() { return None; }
        let comps = match self.resolve(&place.ty) { Ty::List(t) => match *t { Ty::Tuple(ts) if ts.len() == 2 => ts, _ => return None }, _ => return None };
        let t = f.pat.to_token_stream().to_string().replace(' ', "");
        let inner = t.strip_prefix("(")?.strip_suffix(")")?;
        let (a0, a1) = inner.split_once(',')?;
        let ident = |s: &str| !s.is_empty() && s.chars().all(|c| c.is_alphanumeric() || c == '_');
        if !ident(a0) || !ident(a1) { return None; }
        Some((place, a0.to_string(), a1.to_string(), comps))
    }

    fn ret_pack(&self, val: Option<&str>) -> String {
        let mut parts: Vec<String> = vec![];
        if self.ret_ty != Ty::Unit {
            parts.push(val.unwrap_or("()").to_string());
        }
        for m in &self.muts {
            parts.push(m.clone());
        }
        match parts.len() {
            0 => "()".into(),
            1 => parts[0].clone(),
            _ => format!("({})", parts.join(", ")),
        }
    }

    fn flush_pre(&mut self, n: usize, out: &mut Vec<String>) {
        for p in self.pre.drain(..) {
            out.push(format!("{}{}", ind(n), p));
        }
    }

    /// statements of a block; `tail`: the block's value is the function's return value
    fn block(&mut self, b: &Block, n: usize, tail: bool, aliases: &BTreeMap<String, Alias>) -> R<Vec<String>> {
        self.vars.push(BTreeMap::new());
        let mut out = vec![];
        let mut aliases = aliases.clone();
        let cnt = b.stmts.len();
        for (k, s) in b.stmts.iter().enumerate() {
            let is_last = k + 1 == cnt;
            let r = self.stmt(s, n, tail && is_last, &mut aliases, &mut out);
            if let Err(e) = r {
                self.vars.pop();
                return Err(e);
            }
        }
        if out.is_empty() {
            out.push(format!("{}pure ()", ind(n)));
        }
        self.vars.pop();
        Ok(out)
    }

    fn stmt(&mut self, s: &Stmt, n: usize, tail: bool, aliases: &mut BTreeMap<String, Alias>, out: &mut Vec<String>) -> R<()> {
        match s {
            Stmt::Local(l) if matches!(&l.pat, Pat::Tuple(_)) => {
                // let (a, b) = <tuple value>;   (also with a match / if initialiser)
                // Off by default (R2L_TUPLE_LET=1 enables it): the `src_*` proofs follow the shape of the code they
                // were written against, and the rewrites seen to introduce tuple lets (harmless/refactor-w-r3,
                // -x-r1) are behaviour-preserving: leaving the subset keeps them on the correspondence tie
                // instead of breaking a proof that could not be re-done automatically (DESIGN.md §3.5).
                let ctrl_init = matches!(l.init.as_ref().map(|i| &*i.expr), Some(Expr::Match(_)) | Some(Expr::If(_)));
                if ctrl_init && std::env::var("R2L_TUPLE_LET").is_err() && !self.tuple_let {
                    return Err(format!("let pattern `{}`", l.pat.to_token_stream()));
                }
                let names: Vec<String> = match &l.pat {
                    Pat::Tuple(t) => {
                        let mut v = vec![];
                        for e in &t.elems {
                            match e {
                                Pat::Ident(i) if i.subpat.is_none() && i.mutability.is_none() => v.push(i.ident.to_string()),
                                Pat::Wild(_) => v.push("_".into()),
                                _ => return Err(format!("let pattern `{}`", l.pat.to_token_stream())),
                            }
                        }
                        v
                    }
                    _ => unreachable!(),
                };
                let init = l.init.as_ref().ok_or("let without initialiser")?;
                if init.diverge.is_some() {
                    return Err("let-else".into());
                }
                let tmp = self.fresh("tup");
                let is_ctrl = matches!(&*init.expr, Expr::Match(_) | Expr::If(_));
                let tys: Vec<Ty>;
                if is_ctrl {
                    self.val_mode.push(Some(Ty::Unit));
                    let mut body = vec![];
                    let r = self.expr_stmt(&init.expr, n + 1, true, true, aliases, &mut body);
                    let vt = self.val_mode.pop().unwrap().unwrap();
                    r?;
                    tys = match vt { Ty::Tuple(ts) if ts.len() == names.len() => ts, o => return Err(format!("tuple let of {:?}", o)) };
                    let split = body.iter().position(|l| { let t = l.trim_start(); t.starts_with("match ") || t.starts_with("if ") }).unwrap_or(0);
                    for l in &body[..split] {
                        out.push(format!("{}{}", ind(n), l.trim_start()));
                    }
                    let lt = self.w.lean_ty(&Ty::Tuple(tys.iter().map(|t| self.resolve(t)).collect()))?;
                    out.push(format!("{}let {} : {} ←", ind(n), tmp, lt));
                    out.extend(body[split..].iter().cloned());
                } else {
                    let v = self.expr(&init.expr)?;
                    tys = match self.resolve(&v.ty) { Ty::Tuple(ts) if ts.len() == names.len() => ts, o => return Err(format!("tuple let of {:?}", o)) };
                    self.flush_pre(n, out);
                    let lt = self.w.lean_ty(&Ty::Tuple(tys.iter().map(|t| self.resolve(t)).collect()))?;
                    out.push(format!("{}let {} : {} := {}", ind(n), tmp, lt, v.s));
                }
                // projections (right-nested pairs)
                let k = names.len();
                for (i, (nm, ty)) in names.iter().zip(tys.iter()).enumerate() {
                    if nm == "_" { continue; }
                    let mut proj = tmp.clone();
                    for _ in 0..i { proj = format!("{}.2", proj); }
                    if i + 1 < k { proj = format!("{}.1", proj); }
                    let lt = self.w.lean_ty(&self.resolve(ty))?;
                    let ln = self.bind(nm, ty.clone());
                    out.push(format!("{}let {} : {} := {}", ind(n), ln, lt, proj));
                }
                Ok(())
            }
            Stmt::Local(l) if self.merger_values_let(l).is_some() => {
                let (name, line, ty) = self.merger_values_let(l).unwrap()?;
                self.flush_pre(n, out);
                let lt = self.w.lean_ty(&ty)?;
                let ln = self.bind(&name, ty);
                out.push(format!("{}let {} : {} {}", ind(n), ln, lt, line));
                Ok(())
            }
            Stmt::Local(l) if self.opt_insert_let(l).is_some() => {
                // `let x = PLACE.insert(v);` on an `Option`: the place becomes `Some(v)` and `x` stands for its content
                let (name, place, arg) = self.opt_insert_let(l).unwrap();
                let inner_ty = match self.resolve(&place.ty) { Ty::Opt(t) => *t, o => return Err(format!("insert on {:?}", o)) };
                let v = self.expr(&arg)?;
                if self.resolve(&v.ty) != inner_ty { return Err(format!("Option::insert of {:?} into {:?}", v.ty, place.ty)); }
                self.flush_pre(n, out);
                out.push(format!("{}{}", ind(n), self.place_write(&place, &format!("(Option.some {})", v.s))));
                let mut lp = place.clone();
                lp.opt = true;
                lp.ty = inner_ty;
                self.elems.insert(name, lp);
                Ok(())
            }
            Stmt::Local(l) if self.view_let(l).is_some() => {
                // `let mut v = &mut place.as_mut_slice()[lo..];` — consumed by the `while let … split_last_mut()` after it
                let (name, place, lo) = self.view_let(l).unwrap();
                let cur = self.place_read(&place);
                // slicing `[lo..]` panics when `lo` is past the end
                out.push(format!("{}let _ ← sliceFrom {} {}", ind(n), cur, lo));
                self.views.insert(name, (place, lo));
                Ok(())
            }
            Stmt::Local(l) => {
                let (name, mutable, ann) = match &l.pat {
                    Pat::Ident(i) => (i.ident.to_string(), i.mutability.is_some(), None),
                    Pat::Type(t) => match &*t.pat {
                        Pat::Ident(i) if t.ty.to_token_stream().to_string().contains('_') && matches!(&*t.ty, Type::Reference(r) if matches!(&*r.elem, Type::Infer(_))) =>
                            (i.ident.to_string(), i.mutability.is_some(), None), // `&'static _`: a lifetime-only annotation
                        Pat::Ident(i) => (i.ident.to_string(), i.mutability.is_some(), Some((*t.ty).clone())),
                        _ => return Err("let pattern".into()),
                    },
                    Pat::Wild(_) => ("_".to_string(), false, None),
                    _ => return Err(format!("let pattern `{}`", l.pat.to_token_stream())),
                };
                let init = l.init.as_ref().ok_or("let without initialiser")?;
                if init.diverge.is_some() {
                    return Err("let-else".into());
                }
                if matches!(&*init.expr, Expr::Match(_)) || matches!(&*init.expr, Expr::If(i) if i.then_branch.stmts.len() > 1 || matches!(&*i.cond, Expr::Let(_))) {
                    // let x = match .. { arms }   ==>   let x : T ← match .. with | p => (stmts; pure v)
                    self.val_mode.push(Some(Ty::Unit));
                    let mut body = vec![];
                    let r = self.expr_stmt(&init.expr, n + 1, true, true, aliases, &mut body);
                    let vt = self.val_mode.pop().unwrap().unwrap();
                    r?;
                    let g = self.generics.clone();
                    let ty = match ann { Some(a) => self.w.ty_of(&a, &g)?, None => vt };
                    let lt = self.w.lean_ty(&self.resolve(&ty))?;
                    let ln = self.bind(&name, ty);
                    // pre-statements of the scrutinee come first (they were emitted at the head of `body`)
                    let split = body.iter().position(|l| { let t = l.trim_start(); t.starts_with("match ") || t.starts_with("if ") }).unwrap_or(0);
                    for l in &body[..split] {
                        out.push(format!("{}{}", ind(n), l.trim_start()));
                    }
                    out.push(format!("{}let {}{} : {} ←", ind(n), if mutable { "mut " } else { "" }, ln, lt));
                    out.extend(body[split..].iter().cloned());
                    return Ok(());
                }
                let v = self.expr(&init.expr)?;
                let g = self.generics.clone();
                let mut ty = v.ty.clone();
                let mut val = v.s.clone();
                if let Some(a) = ann {
                    let at = self.w.ty_of(&a, &g)?;
                    if v.ty == Ty::Named("TryIntoUnwrapped".into()) {
                        match at {
                            Ty::U(w) => val = format!("(← tryInto {} {})", w, v.s),
                            _ => return Err("try_into target".into()),
                        }
                    } else if self.is_int(&at) {
                        self.unify(&v.ty, &at)?;
                    }
                    ty = at;
                } else if v.ty == Ty::Named("TryIntoUnwrapped".into()) {
                    // `let n = x.try_into().unwrap();` — the width comes from how `n` is used
                    let iv = self.new_ivar();
                    val = format!("(← tryInto {} {})", self.wtxt(&iv)?, v.s);
                    ty = iv;
                }
                self.flush_pre(n, out);
                let lt = self.w.lean_ty(&self.resolve(&ty))?;
                let ln = if name == "_" { "_".to_string() } else { self.bind(&name, ty) };
                out.push(format!("{}let {}{} : {} := {}", ind(n), if mutable { "mut " } else { "" }, ln, lt, val));
                Ok(())
            }
            Stmt::Expr(x, semi) => self.expr_stmt(x, n, tail && semi.is_none(), tail, aliases, out),
            Stmt::Macro(m) => self.macro_stmt(&m.mac, n, out),
            // a nested function translated by a `nested` target of its own
            Stmt::Item(Item::Fn(f)) if self.w.fns.contains_key(&f.sig.ident.to_string()) => Ok(()),
            Stmt::Item(_) => Err("nested item".into()),
        }
    }

    fn macro_stmt(&mut self, mac: &Macro, n: usize, out: &mut Vec<String>) -> R<()> {
        let name = path_str(&mac.path);
        match name.as_str() {
            "assert" | "debug_assert" => {
                // first comma-separated argument is the condition
                let args: syn::punctuated::Punctuated<Expr, Token![,]> =
                    mac.parse_body_with(syn::punctuated::Punctuated::parse_terminated).map_err(|e| e.to_string())?;
                let c = args.first().ok_or("assert without condition")?;
                let ce = self.cond(c)?;
                self.flush_pre(n, out);
                let msg = c.to_token_stream().to_string().replace('"', "'");
                out.push(format!("{}assert {} \"{}: {}\"", ind(n), paren(&ce.s), name, short(&msg)));
                Ok(())
            }
            _ => Err(format!("macro {}!", name)),
        }
    }

    fn assign(&mut self, lhs: &Expr, val: E, n: usize, aliases: &BTreeMap<String, Alias>, out: &mut Vec<String>) -> R<()> {
        // *x = v with x an alias of the last element of a vector
        if let Expr::Unary(ExprUnary { op: UnOp::Deref(_), expr, .. }) = lhs {
            if let Expr::Path(p) = &**expr {
                let nme = path_str(&p.path);
                if let Some(Alias::LastOf(place_txt)) = aliases.get(&nme) {
                    let pe: Expr = syn::parse_str(place_txt).map_err(|e| e.to_string())?;
                    let pl = self.place_of(&pe).ok_or("alias place")?;
                    let cur = self.place_read(&pl);
                    let elem = if self.resolve(&pl.ty) == Ty::Bytes { format!("UInt8.ofNat {}", val.s) } else { val.s.clone() };
                    self.flush_pre(n, out);
                    out.push(format!("{}{}", ind(n), self.place_write(&pl, &format!("({}.dropLast ++ [{}])", cur, elem))));
                    return Ok(());
                }
            }
        }
        if let Expr::Index(ix) = lhs {
            if let Ok(b) = self.expr(&ix.expr) {
                if self.resolve(&b.ty) == Ty::Named("GhostArr".into()) {
                    // an element of a content-free array: the index is checked, the value is not stored
                    let i = self.expr(&ix.index)?;
                    self.unify(&i.ty, &Ty::U(64))?;
                    self.flush_pre(n, out);
                    out.push(format!("{}let _ ← idxCheck {} {}", ind(n), paren(&b.s), paren(&i.s)));
                    let _ = val;
                    return Ok(());
                }
            }
            let pl = self.place_of(&ix.expr).ok_or("indexed assignment to a non-place")?;
            let i = self.expr(&ix.index)?;
            self.unify(&i.ty, &Ty::U(64))?;
            let cur = self.place_read(&pl);
            let elem = match self.resolve(&pl.ty) {
                Ty::Bytes => {
                    self.unify(&val.ty, &Ty::U(8))?;
                    format!("(UInt8.ofNat {})", val.s)
                }
                Ty::List(t) => {
                    if self.is_int(&t) { self.unify(&val.ty, &t)?; }
                    paren(&val.s)
                }
                o => return Err(format!("indexed assignment into {:?}", o)),
            };
            self.flush_pre(n, out);
            let tmp = self.fresh("t");
            out.push(format!("{}let {} ← setIdx {} {} {}", ind(n), tmp, cur, paren(&i.s), elem));
            out.push(format!("{}{}", ind(n), self.place_write(&pl, &tmp)));
            return Ok(());
        }
        let pl = self.place_of(lhs).ok_or_else(|| format!("assignment to `{}`", lhs.to_token_stream()))?;
        if self.is_int(&pl.ty) {
            self.unify(&pl.ty, &val.ty)?;
        }
        self.flush_pre(n, out);
        out.push(format!("{}{}", ind(n), self.place_write(&pl, &val.s)));
        Ok(())
    }

    fn expr_stmt(&mut self, x: &Expr, n: usize, is_value: bool, tail: bool, aliases: &mut BTreeMap<String, Alias>, out: &mut Vec<String>) -> R<()> {
        match x {
            Expr::Assign(a) => {
                let v = self.expr(&a.right)?;
                self.assign(&a.left, v, n, aliases, out)
            }
            Expr::Binary(b) if matches!(b.op, BinOp::AddAssign(_) | BinOp::SubAssign(_) | BinOp::MulAssign(_) | BinOp::BitOrAssign(_) | BinOp::BitAndAssign(_) | BinOp::ShlAssign(_) | BinOp::ShrAssign(_)) => {
                let op: BinOp = match b.op {
                    BinOp::AddAssign(_) => syn::parse_quote!(+),
                    BinOp::SubAssign(_) => syn::parse_quote!(-),
                    BinOp::MulAssign(_) => syn::parse_quote!(*),
                    BinOp::BitOrAssign(_) => syn::parse_quote!(|),
                    BinOp::BitAndAssign(_) => syn::parse_quote!(&),
                    BinOp::ShlAssign(_) => syn::parse_quote!(<<),
                    _ => syn::parse_quote!(>>),
                };
                let nb = ExprBinary { attrs: vec![], left: b.left.clone(), op, right: b.right.clone() };
                let v = self.binary(&nb)?;
                self.assign(&b.left, v, n, aliases, out)
            }
            Expr::If(i) => self.if_stmt(i, n, tail, aliases, out),
            Expr::Match(m) => self.match_stmt(m, n, tail, aliases, out),
            Expr::ForLoop(f) if f.expr.to_token_stream().to_string().replace(' ', "").starts_with("once(") => {
                // for mut x in once(A).chain(P.drain(..)) { .. }: the element A, then the elements of P, which is left empty
                let txt = f.expr.to_token_stream().to_string().replace(' ', "");
                let inner = txt.strip_prefix("once(").and_then(|r| r.strip_suffix(".drain(..))")).ok_or("for over once(..)")?;
                let (a, ptxt) = inner.split_once(").chain(").ok_or("for over once(..) without chain")?;
                let ae: Expr = syn::parse_str(a).map_err(|e| e.to_string())?;
                let pe: Expr = syn::parse_str(ptxt).map_err(|e| e.to_string())?;
                let av = self.expr(&ae)?;
                let pl = self.place_of(&pe).ok_or("drain of a non-place")?;
                let et = match self.resolve(&pl.ty) { Ty::List(t) => *t, o => return Err(format!("drain of {:?}", o)) };
                if self.resolve(&av.ty) != et || av.eff { return Err("once(..).chain(..) element types".into()); }
                let (x, is_mut) = match &*f.pat { Pat::Ident(i) => (i.ident.to_string(), i.mutability.is_some()), _ => return Err("for pattern".into()) };
                self.flush_pre(n, out);
                let items = self.fresh("items");
                out.push(format!("{}let {} := ([{}] ++ {})", ind(n), items, av.s, self.place_read(&pl)));
                out.push(format!("{}{}", ind(n), self.place_write(&pl, "[]")));
                self.vars.push(BTreeMap::new());
                let ln = self.bind(&x, et);
                out.push(format!("{}for {} in {} do", ind(n), ln, items));
                if is_mut { out.push(format!("{}let mut {} := {}", ind(n + 1), ln, ln)); self.local_muts.push(x.clone()); }
                self.loop_fin.push(None);
                let body = self.block(&f.body, n + 1, false, aliases);
                self.loop_fin.pop();
                self.vars.pop();
                out.extend(body?);
                Ok(())
            }
            Expr::ForLoop(f) if f.expr.to_token_stream().to_string().replace(' ', "").ends_with(".into_iter().enumerate()") => {
                // for (i, mut x) in LIST.into_iter().enumerate() { .. }
                let txt = f.expr.to_token_stream().to_string().replace(' ', "");
                let ptxt = txt.strip_suffix(".into_iter().enumerate()").unwrap();
                let pe: Expr = syn::parse_str(ptxt).map_err(|e| e.to_string())?;
                let lv = self.expr(&pe)?;
                let et = match self.resolve(&lv.ty) { Ty::List(t) => *t, o => return Err(format!("enumerate over {:?}", o)) };
                if lv.eff { return Err("effectful enumerate source".into()); }
                let (iname, xname, x_mut) = match &*f.pat {
                    Pat::Tuple(t) if t.elems.len() == 2 => match (&t.elems[0], &t.elems[1]) {
                        (Pat::Ident(a), Pat::Ident(b)) => (a.ident.to_string(), b.ident.to_string(), b.mutability.is_some()),
                        _ => return Err("for pattern".into()),
                    },
                    _ => return Err("for pattern".into()),
                };
                self.flush_pre(n, out);
                let items = self.fresh("items");
                out.push(format!("{}let {} := {}", ind(n), items, lv.s));
                self.vars.push(BTreeMap::new());
                let il = self.bind(&iname, Ty::U(64));
                let xl = self.bind(&xname, et);
                out.push(format!("{}for ({}, {}) in {}.zipIdx do", ind(n), xl, il, items));
                if x_mut { out.push(format!("{}let mut {} := {}", ind(n + 1), xl, xl)); self.local_muts.push(xname.clone()); }
                self.loop_fin.push(None);
                let body = self.block(&f.body, n + 1, false, aliases);
                self.loop_fin.pop();
                self.vars.pop();
                out.extend(body?);
                Ok(())
            }
            Expr::ForLoop(f) if self.for_pairs(f).is_some() => {
                // for (a, b) in LIST   with LIST a `&mut Vec<(A, B)>` place: a, b stand for the components of element i
                let (place, a0, a1, comps) = self.for_pairs(f).unwrap();
                let cur = self.place_read(&place);
                let i = self.fresh("i");
                let len = self.fresh("len");
                out.push(format!("{}let {} : Nat := {}.length", ind(n), len, cur));
                out.push(format!("{}for {} in List.range' 0 {} do", ind(n), i, len));
                for (k, nm) in [(0usize, &a0), (1usize, &a1)] {
                    let mut lp = place.clone();
                    lp.index = Some(i.clone());
                    lp.proj = Some((k, 2));
                    lp.ty = comps[k].clone();
                    self.elems.insert(nm.clone(), lp);
                }
                self.loop_fin.push(None);
                let body = self.block(&f.body, n + 1, false, aliases);
                self.loop_fin.pop();
                self.elems.remove(&a0);
                self.elems.remove(&a1);
                out.extend(body?);
                Ok(())
            }
            Expr::ForLoop(f) => {
                let (lo, hi) = match &*f.expr {
                    Expr::Range(r) if matches!(r.limits, RangeLimits::HalfOpen(_)) => {
                        (r.start.as_ref().ok_or("open range")?, r.end.as_ref().ok_or("open range")?)
                    }
                    _ => return Err("for loop over something else than a..b".into()),
                };
                let l = self.expr(lo)?;
                let h = self.expr(hi)?;
                let ty = self.unify(&l.ty, &h.ty)?;
                self.flush_pre(n, out);
                self.vars.push(BTreeMap::new());
                let v = match &*f.pat {
                    Pat::Wild(_) => "_".to_string(),
                    Pat::Ident(i) => self.bind(&i.ident.to_string(), ty),
                    _ => return Err("for pattern".into()),
                };
                out.push(format!("{}for {} in List.range' {} ({} - {}) do", ind(n), v, paren(&l.s), paren(&h.s), paren(&l.s)));
                self.loop_fin.push(None);
                let body = self.block(&f.body, n + 1, false, aliases);
                self.loop_fin.pop();
                self.vars.pop();
                out.extend(body?);
                Ok(())
            }
            Expr::While(w) if self.split_last_loop(w).is_some() => {
                // while let Some((last, head)) = v.split_last_mut() { body; v = head; }
                //   ==>  for j in (indices lo .. len of the place).reverse: last = place[j], head = place[lo..j]
                let (view, last, head) = self.split_last_loop(w).unwrap();
                let (place, lo) = self.views.remove(&view).unwrap();
                let elem_ty = match self.resolve(&place.ty) { Ty::List(t) => *t, o => return Err(format!("split_last_mut on {:?}", o)) };
                let cur = self.place_read(&place);
                let j = self.fresh("j");
                out.push(format!("{}for {} in (List.range' {} ({}.length - {})).reverse do", ind(n), j, lo, cur, lo));
                let mut lp = place.clone();
                lp.index = Some(j.clone());
                lp.ty = elem_ty;
                self.elems.insert(last.clone(), lp);
                self.heads.insert(head.clone(), (place.clone(), lo.clone(), j.clone()));
                let mut body = w.body.clone();
                body.stmts.pop(); // `v = head;`
                self.loop_fin.push(None);
                let r = self.block(&body, n + 1, false, aliases);
                self.loop_fin.pop();
                self.elems.remove(&last);
                self.heads.remove(&head);
                out.extend(r?);
                Ok(())
            }
            Expr::While(w) => {
                let fuel = self.fuel.clone().ok_or("while loop without a `fuel=` bound in the target list")?;
                if fuel == "@param" { self.fuel_param = true; }
                let fuel = if fuel == "@param" { "fuel".to_string() } else { fuel };
                let fin = self.fresh("fin");
                out.push(format!("{}let mut {} : Bool := false", ind(n), fin));
                out.push(format!("{}for _ in List.range' 0 ({}) do", ind(n), fuel));
                match &*w.cond {
                    Expr::Let(l) => {
                        // while let PAT = e { body }
                        let (scrut, arms_alias) = self.scrutinee(&l.expr)?;
                        let mut al = aliases.clone();
                        self.vars.push(BTreeMap::new());
                        let pat = self.pattern(&l.pat, &scrut.ty, arms_alias.as_ref(), &mut al)?;
                        let mut pre = vec![];
                        self.flush_pre(n + 1, &mut pre);
                        out.extend(pre);
                        out.push(format!("{}match {} with", ind(n + 1), scrut.s));
                        out.push(format!("{}| {} =>", ind(n + 1), pat));
                        for m in std::mem::take(&mut self.mut_pat_binds) {
                            out.push(format!("{}let mut {} := {}", ind(n + 2), m, m));
                        }
                        self.loop_fin.push(Some(fin.clone()));
                        let body = self.block(&w.body, n + 2, false, &al);
                        self.loop_fin.pop();
                        self.vars.pop();
                        out.extend(body?);
                        out.push(format!("{}| _ =>", ind(n + 1)));
                        out.push(format!("{}{} := true", ind(n + 2), fin));
                        out.push(format!("{}break", ind(n + 2)));
                    }
                    c => {
                        let ce = self.cond(c)?;
                        let mut pre = vec![];
                        self.flush_pre(n + 1, &mut pre);
                        out.extend(pre);
                        out.push(format!("{}if !{} then", ind(n + 1), paren(&ce.s)));
                        out.push(format!("{}{} := true", ind(n + 2), fin));
                        out.push(format!("{}break", ind(n + 2)));
                        self.loop_fin.push(Some(fin.clone()));
                        let body = self.block(&w.body, n + 1, false, aliases);
                        self.loop_fin.pop();
                        out.extend(body?);
                    }
                }
                out.push(format!("{}if !{} then", ind(n), fin));
                out.push(format!("{}throw (Fail.panic \"r2l: loop fuel exhausted\")", ind(n + 1)));
                Ok(())
            }
            Expr::Break(b) if b.expr.is_none() && b.label.is_none() => {
                // leaving a fuel-bounded `while` through `break` is a regular exit, not fuel exhaustion
                if let Some(Some(fin)) = self.loop_fin.last() {
                    out.push(format!("{}{} := true", ind(n), fin));
                }
                out.push(format!("{}break", ind(n)));
                Ok(())
            }
            Expr::Continue(_) => {
                out.push(format!("{}continue", ind(n)));
                Ok(())
            }
            Expr::Return(r) => {
                let v = match &r.expr {
                    Some(x) => Some(self.expr(x)?),
                    None => None,
                };
                self.flush_pre(n, out);
                out.push(format!("{}return {}", ind(n), self.ret_pack(v.as_ref().map(|v| v.s.as_str()))));
                Ok(())
            }
            Expr::Block(b) => {
                let body = self.block(&b.block, n, tail, aliases)?;
                out.extend(body);
                Ok(())
            }
            Expr::Macro(m) => self.macro_stmt(&m.mac, n, out),
            other => {
                let v = self.expr(other)?;
                self.flush_pre(n, out);
                if is_value && self.val_mode.last().map_or(false, |v| v.is_some()) {
                    // the value of a `let x = match/if ...` arm
                    let prev = self.val_mode.last().unwrap().clone().unwrap();
                    let ty = if prev == Ty::Unit { v.ty.clone() } else if self.is_int(&prev) || matches!(prev, Ty::Opt(_)) { self.unify(&prev, &v.ty)? } else { prev };
                    *self.val_mode.last_mut().unwrap() = Some(ty);
                    out.push(format!("{}pure {}", ind(n), paren(&v.s)));
                } else if is_value {
                    // `self` returned by builder methods is the &mut receiver itself: nothing to add
                    let is_self = matches!(strip_ref(other), Expr::Path(p) if p.path.is_ident("self"));
                    if is_self && self.muts.iter().any(|m| m == "self_") {
                        out.push(format!("{}return {}", ind(n), self.ret_pack(None)));
                    } else if self.ret_ty == Ty::Unit && v.eff && v.s != "()" {
                        // a unit function ending in a fallible call: its failure is the function's
                        out.push(format!("{}let _ := {}", ind(n), v.s));
                        out.push(format!("{}return {}", ind(n), self.ret_pack(None)));
                    } else {
                        out.push(format!("{}return {}", ind(n), self.ret_pack(Some(&v.s))));
                    }
                } else if v.eff && v.s != "()" {
                    out.push(format!("{}let _ := {}", ind(n), v.s));
                } else if tail && self.ret_ty == Ty::Unit {
                    // statement in tail position of a unit function
                }
                Ok(())
            }
        }
    }

    /// the value matched on, and (for `&mut PLACE` / `PLACE.last_mut()`) the place to write back to
    fn scrutinee(&mut self, x: &Expr) -> R<(E, Option<(String, bool)>)> {
        // PLACE.last_mut()
        if let Expr::MethodCall(m) = x {
            if m.method == "last_mut" {
                let pl = self.place_of(&m.receiver).ok_or("last_mut on a non-place")?;
                let cur = self.place_read(&pl);
                let (s, ty) = match self.resolve(&pl.ty) {
                    Ty::Bytes => (format!("({}.getLast?.map UInt8.toNat)", cur), Ty::Opt(Box::new(Ty::U(8)))),
                    Ty::List(t) => (format!("{}.getLast?", cur), Ty::Opt(t)),
                    o => return Err(format!("last_mut on {:?}", o)),
                };
                return Ok((e(s, ty), Some((m.receiver.to_token_stream().to_string(), true))));
            }
        }
        if let Expr::Reference(r) = x {
            if r.mutability.is_some() {
                if let Some(_) = self.place_of(&r.expr) {
                    let v = self.expr(&r.expr)?;
                    return Ok((v, Some((r.expr.to_token_stream().to_string(), false))));
                }
            }
        }
        let v = self.expr(x)?;
        Ok((v, None))
    }

    /// Lean pattern for a Rust pattern against a scrutinee of type `ty`; binds the variables
    fn pattern(&mut self, p: &Pat, ty: &Ty, place: Option<&(String, bool)>, aliases: &mut BTreeMap<String, Alias>) -> R<String> {
        let ty = self.resolve(ty);
        match p {
            Pat::Wild(_) => Ok("_".into()),
            Pat::Lit(l) => match &l.lit {
                Lit::Int(i) => Ok(i.base10_parse::<u128>().map_err(|e| e.to_string())?.to_string()),
                _ => Err("literal pattern".into()),
            },
            Pat::Ident(i) if i.subpat.is_none() => {
                let n = i.ident.to_string();
                if n == "None" {
                    return Ok("Option.none".into());
                }
                if i.mutability.is_some() {
                    self.mut_pat_binds.push(lean_ident(&n));
                }
                Ok(self.bind(&n, ty))
            }
            Pat::Tuple(t) => {
                let tys = match &ty { Ty::Tuple(ts) if ts.len() == t.elems.len() => ts.clone(), o => return Err(format!("tuple pattern against {:?}", o)) };
                let mut parts = vec![];
                for (e, et) in t.elems.iter().zip(tys.iter()) {
                    parts.push(self.pattern(e, et, None, aliases)?);
                }
                Ok(format!("({})", parts.join(", ")))
            }
            Pat::Paren(p) => self.pattern(&p.pat, &ty, place, aliases),
            Pat::TupleStruct(ts) => {
                let name = path_str(&ts.path);
                let last = name.rsplit("::").next().unwrap().to_string();
                if ts.elems.len() != 1 {
                    return Err("pattern arity".into());
                }
                let inner_ty = match (&ty, last.as_str()) {
                    (Ty::Opt(t), "Some") => (**t).clone(),
                    (Ty::Named(n), "Ok" | "Err") if n == "SearchRes" => Ty::U(64),
                    (Ty::Bound(t), "Included" | "Excluded") => (**t).clone(),
                    (Ty::Named(n), "Ok") if n == "MergeRes" => Ty::Named("Cow".into()),
                    (Ty::Named(n), "Err") if n == "MergeRes" => Ty::Unit,
                    (Ty::Named(n), "Owned" | "Borrowed") if n == "Cow" => Ty::Bytes,
                    _ => return Err(format!("pattern {} against {:?}", name, ty)),
                };
                if let (Some((ptxt, true)), Pat::Ident(i)) = (place, &ts.elems[0]) {
                    aliases.insert(i.ident.to_string(), Alias::LastOf(ptxt.clone()));
                }
                let inner = self.pattern(&ts.elems[0], &inner_ty, None, aliases)?;
                let inner = if inner.contains(' ') && !inner.starts_with('(') { format!("({})", inner) } else { inner };
                Ok(match last.as_str() {
                    "Ok" => format!("Except.ok {}", inner),
                    "Err" => format!("Except.error {}", inner),
                    "Some" => format!("Option.some {}", inner),
                    "Included" => format!(".included {}", inner),
                    "Owned" => format!(".owned {}", inner),
                    "Borrowed" => format!(".borrowed {}", inner),
                    _ => format!(".excluded {}", inner),
                })
            }
            Pat::Path(pp) => {
                let name = path_str(&pp.path);
                let last = name.rsplit("::").next().unwrap();
                match (&ty, last) {
                    (Ty::Opt(_), "None") => Ok("Option.none".into()),
                    (Ty::Bound(_), "Unbounded") => Ok(".unbounded".into()),
                    (Ty::Named(en), v) if self.w.enums.get(en).map_or(false, |vs| vs.iter().any(|(x, _)| x == v)) => Ok(format!(".{}", lower_first(v))),
                    _ => Err(format!("path pattern {} against {:?}", name, ty)),
                }
            }
            _ => Err(format!("pattern `{}`", p.to_token_stream())),
        }
    }

    fn if_stmt(&mut self, i: &ExprIf, n: usize, tail: bool, aliases: &mut BTreeMap<String, Alias>, out: &mut Vec<String>) -> R<()> {
        if let Some((x, place, guard, idx)) = self.last_mut_elem(i) {
            // if let Some(x) = list.last_mut() { A }   with struct elements: x stands for the last element
            let elem_ty = match self.resolve(&place.ty) { Ty::List(t) => *t, o => return Err(format!("last_mut on {:?}", o)) };
            out.push(format!("{}if {} then", ind(n), guard));
            let mut lp = place.clone();
            lp.index = Some(idx);
            lp.ty = elem_ty;
            let shadowed = self.elems.insert(x.clone(), lp);
            let r = self.block(&i.then_branch, n + 1, false, aliases);
            match shadowed { Some(o) => { self.elems.insert(x, o); } None => { self.elems.remove(&x); } }
            out.extend(r?);
            return Ok(());
        }
        if let Expr::Let(l) = &*i.cond {
            // if let PAT = e { A } else { B }
            let (scrut, place) = self.scrutinee(&l.expr)?;
            self.flush_pre(n, out);
            let mut al = aliases.clone();
            self.vars.push(BTreeMap::new());
            let pat = self.pattern(&l.pat, &scrut.ty, place.as_ref(), &mut al);
            let pat = match pat { Ok(p) => p, Err(e) => { self.vars.pop(); return Err(e); } };
            out.push(format!("{}match {} with", ind(n), scrut.s));
            out.push(format!("{}| {} =>", ind(n), pat));
            for m in std::mem::take(&mut self.mut_pat_binds) {
                out.push(format!("{}let mut {} := {}", ind(n + 1), m, m));
            }
            let body = self.block(&i.then_branch, n + 1, tail, &al);
            self.vars.pop();
            out.extend(body?);
            out.push(format!("{}| _ =>", ind(n)));
            match &i.else_branch {
                Some((_, eb)) => match &**eb {
                    Expr::Block(b) => out.extend(self.block(&b.block, n + 1, tail, aliases)?),
                    Expr::If(i2) => {
                        let mut o2 = vec![];
                        self.if_stmt(i2, n + 1, tail, aliases, &mut o2)?;
                        out.extend(o2);
                    }
                    _ => return Err("else branch".into()),
                },
                None => out.push(format!("{}pure ()", ind(n + 1))),
            }
            return Ok(());
        }
        let c = self.cond(&i.cond)?;
        self.flush_pre(n, out);
        out.push(format!("{}if {} then", ind(n), c.s));
        out.extend(self.block(&i.then_branch, n + 1, tail, aliases)?);
        if let Some((_, eb)) = &i.else_branch {
            out.push(format!("{}else", ind(n)));
            match &**eb {
                Expr::Block(b) => out.extend(self.block(&b.block, n + 1, tail, aliases)?),
                Expr::If(i2) => {
                    let mut o2 = vec![];
                    self.if_stmt(i2, n + 1, tail, aliases, &mut o2)?;
                    out.extend(o2);
                }
                _ => return Err("else branch".into()),
            }
        } else if tail && self.ret_ty != Ty::Unit {
            return Err("if without else in value position".into());
        }
        Ok(())
    }

    /// `match sv { P if g => A, Q => B, .. }` in general: `| P => if g then A else (match sv with | Q => B ..)`,
    /// the remaining arms being repeated after the guarded one (exact, at the price of duplicated text)
    fn match_general(&mut self, sv: &str, ty: &Ty, arms: &[Arm], n: usize, tail: bool, aliases: &BTreeMap<String, Alias>, out: &mut Vec<String>) -> R<()> {
        if arms.is_empty() {
            return Err("match guard on the last arm without a fallback".into());
        }
        out.push(format!("{}match {} with", ind(n), sv));
        for (ai, arm) in arms.iter().enumerate() {
            // an arm wholly covered by the pattern of an earlier *guarded* arm is only reachable through
            // that arm's fallback: at this level Lean would reject it as redundant
            if arms[..ai].iter().any(|prev| prev.guard.is_some() && pat_covers(&prev.pat, &arm.pat)) {
                continue;
            }
            let mut al = aliases.clone();
            self.vars.push(BTreeMap::new());
            let pat = self.pattern(&arm.pat, ty, None, &mut al);
            let pat = match pat { Ok(p) => p, Err(e) => { self.vars.pop(); return Err(e); } };
            out.push(format!("{}| {} =>", ind(n), pat));
            for m in std::mem::take(&mut self.mut_pat_binds) {
                out.push(format!("{}let mut {} := {}", ind(n + 1), m, m));
            }
            let mut body_at = |this: &mut Self, depth: usize, o: &mut Vec<String>| -> R<()> {
                match &*arm.body {
                    Expr::Block(b) => { o.extend(this.block(&b.block, depth, tail, &al)?); Ok(()) }
                    other => {
                        let mut al2 = al.clone();
                        let before = o.len();
                        this.expr_stmt(other, depth, tail, tail, &mut al2, o)?;
                        if o.len() == before { o.push(format!("{}pure ()", ind(depth))); }
                        Ok(())
                    }
                }
            };
            let res: R<()> = match &arm.guard {
                None => body_at(self, n + 1, out),
                Some((_, g)) => {
                    match self.cond(g) {
                        Err(e) => Err(e),
                        Ok(c) => {
                            self.flush_pre(n + 1, out);
                            out.push(format!("{}if {} then", ind(n + 1), c.s));
                            match body_at(self, n + 2, out) {
                                Err(e) => Err(e),
                                Ok(()) => {
                                    out.push(format!("{}else", ind(n + 1)));
                                    self.match_general(sv, ty, &arms[ai + 1..], n + 2, tail, aliases, out)
                                }
                            }
                        }
                    }
                }
            };
            self.vars.pop();
            res?;
        }
        Ok(())
    }

    fn arm_body_lines(&mut self, body: &Expr, depth: usize, tail: bool, aliases: &BTreeMap<String, Alias>) -> R<Vec<String>> {
        match body {
            Expr::Block(b) => self.block(&b.block, depth, tail, aliases),
            other => {
                let mut o = vec![];
                let mut al2 = aliases.clone();
                self.expr_stmt(other, depth, tail, tail, &mut al2, &mut o)?;
                if o.is_empty() { o.push(format!("{}pure ()", ind(depth))); }
                Ok(o)
            }
        }
    }

    /// `match PLACE.as_mut() { Some(x) => A, None => B }` (and `match &mut PLACE { .. }` in tail position), `PLACE` an
    /// `Option`: inside `A` the name `x` stands for the content of the place — every write goes through to it at once,
    /// so an early `return` in `A` hands back the updated value.
    fn match_opt_alias(&mut self, m: &ExprMatch, n: usize, tail: bool, aliases: &BTreeMap<String, Alias>, out: &mut Vec<String>) -> Option<R<()>> {
        let pe: &Expr = match &*m.expr {
            Expr::MethodCall(mc) if mc.method == "as_mut" && mc.args.is_empty() => &mc.receiver,
            Expr::Reference(r) if r.mutability.is_some() && tail => &r.expr,
            _ => return None,
        };
        let place = self.place_of(pe)?;
        if place.opt || place.index.is_some() || place.proj.is_some() || place.range.is_some() { return None; }
        let inner_ty = match self.resolve(&place.ty) { Ty::Opt(t) => *t, _ => return None };
        if m.arms.len() != 2 || m.arms.iter().any(|a| a.guard.is_some()) { return None; }
        let mut some_name: Option<String> = None;
        let mut kinds = vec![];
        for a in &m.arms {
            let t = a.pat.to_token_stream().to_string().replace(' ', "");
            if t == "None" { kinds.push(false); continue; }
            let x = t.strip_prefix("Some(")?.strip_suffix(")")?;
            if x.is_empty() || !x.chars().all(|c| c.is_alphanumeric() || c == '_') { return None; }
            some_name = Some(x.to_string());
            kinds.push(true);
        }
        if kinds.iter().filter(|k| **k).count() != 1 { return None; }
        let x = some_name?;
        let mut go = || -> R<()> {
            out.push(format!("{}match {} with", ind(n), self.place_read(&place)));
            for (a, is_some) in m.arms.iter().zip(kinds.iter()) {
                if *is_some {
                    out.push(format!("{}| Option.some _ =>", ind(n)));
                    let mut lp = place.clone();
                    lp.opt = true;
                    lp.ty = inner_ty.clone();
                    let shadowed = self.elems.insert(x.clone(), lp);
                    let r = self.arm_body_lines(&a.body, n + 1, tail, aliases);
                    match shadowed { Some(o) => { self.elems.insert(x.clone(), o); } None => { self.elems.remove(&x); } }
                    out.extend(r?);
                } else {
                    out.push(format!("{}| Option.none =>", ind(n)));
                    out.extend(self.arm_body_lines(&a.body, n + 1, tail, aliases)?);
                }
            }
            Ok(())
        };
        Some(go())
    }

    /// `match LIST.split_last_mut() { Some(((a, b), head)) => A, None => B }`, `LIST` a place holding a list of pairs:
    /// `a`, `b` stand for the components of its last element, `head` for the elements before it.
    fn match_split_last(&mut self, m: &ExprMatch, n: usize, tail: bool, aliases: &BTreeMap<String, Alias>, out: &mut Vec<String>) -> Option<R<()>> {
        let mc = match &*m.expr { Expr::MethodCall(mc) if mc.method == "split_last_mut" && mc.args.is_empty() => mc, _ => return None };
        let place = self.place_of(&mc.receiver)?;
        if place.range.is_some() || place.proj.is_some() || place.index.is_some() { return None; }
        let elem_ty = match self.resolve(&place.ty) { Ty::List(t) => *t, _ => return None };
        let comps = match &elem_ty { Ty::Tuple(ts) if ts.len() == 2 => ts.clone(), _ => return None };
        if m.arms.len() != 2 || m.arms.iter().any(|a| a.guard.is_some()) { return None; }
        let ident = |s: &str| !s.is_empty() && s.chars().all(|c| c.is_alphanumeric() || c == '_');
        let mut names: Option<(String, String, String)> = None;
        let mut kinds = vec![];
        for a in &m.arms {
            let t = a.pat.to_token_stream().to_string().replace(' ', "");
            if t == "None" { kinds.push(false); continue; }
            let inner = t.strip_prefix("Some(((")?.strip_suffix("))")?;
            let (pair, head) = inner.split_once("),")?;
            let (a0, a1) = pair.split_once(',')?;
            if !ident(a0) || !ident(a1) || !ident(head) { return None; }
            names = Some((a0.to_string(), a1.to_string(), head.to_string()));
            kinds.push(true);
        }
        if kinds.iter().filter(|k| **k).count() != 1 { return None; }
        let (a0, a1, head) = names?;
        let mut go = || -> R<()> {
            let cur = self.place_read(&place);
            let j = self.fresh("j");
            // arms in source order; the `Some` arm is the `then` branch
            let some_first = kinds[0];
            let (some_arm, none_arm) = if some_first { (&m.arms[0], &m.arms[1]) } else { (&m.arms[1], &m.arms[0]) };
            out.push(format!("{}if 0 < {}.length then", ind(n), cur));
            out.push(format!("{}let {} : Nat := {}.length - 1", ind(n + 1), j, cur));
            for (k, nm) in [(0usize, &a0), (1usize, &a1)] {
                let mut lp = place.clone();
                lp.index = Some(j.clone());
                lp.proj = Some((k, 2));
                lp.ty = comps[k].clone();
                self.elems.insert(nm.clone(), lp);
            }
            self.heads.insert(head.clone(), (place.clone(), "0".to_string(), j.clone()));
            let r = self.arm_body_lines(&some_arm.body, n + 1, tail, aliases);
            self.elems.remove(&a0);
            self.elems.remove(&a1);
            self.heads.remove(&head);
            out.extend(r?);
            out.push(format!("{}else", ind(n)));
            out.extend(self.arm_body_lines(&none_arm.body, n + 1, tail, aliases)?);
            Ok(())
        };
        Some(go())
    }

    fn match_stmt(&mut self, m: &ExprMatch, n: usize, tail: bool, aliases: &mut BTreeMap<String, Alias>, out: &mut Vec<String>) -> R<()> {
        {
            let al = aliases.clone();
            if let Some(r) = self.match_opt_alias(m, n, tail, &al, out) { return r; }
            if let Some(r) = self.match_split_last(m, n, tail, &al, out) { return r; }
        }
        let (scrut, place) = self.scrutinee(&m.expr)?;
        self.flush_pre(n, out);
        // guards outside the restricted form `P(x) if g => A, P(_) => B`: the general translation
        let restricted = |i: usize| -> bool {
            match (m.arms.get(i), m.arms.get(i + 1)) {
                (Some(a), Some(nxt)) => match (&a.pat, &nxt.pat) {
                    (Pat::TupleStruct(x), Pat::TupleStruct(y)) => path_str(&x.path) == path_str(&y.path)
                        && y.elems.iter().all(|e| matches!(e, Pat::Wild(_))) && nxt.guard.is_none(),
                    _ => false,
                },
                _ => false,
            }
        };
        if m.arms.iter().enumerate().any(|(i, a)| a.guard.is_some() && !restricted(i)) {
            if place.is_some() {
                return Err("match guard on a `&mut` scrutinee".into());
            }
            let sv = self.fresh("scrut");
            out.push(format!("{}let {} := {}", ind(n), sv, scrut.s));
            let al = aliases.clone();
            return self.match_general(&sv, &scrut.ty, &m.arms, n, tail, &al, out);
        }
        // constants in patterns: an if-chain on equality (a Lean identifier pattern would be a binder)
        let has_const = m.arms.iter().any(|a| matches!(&a.pat, Pat::Ident(i) if self.w.consts.contains_key(&i.ident.to_string()))
            || matches!(&a.pat, Pat::Path(p) if self.w.consts.contains_key(&path_str(&p.path))));
        let sv = if has_const {
            let t = self.fresh("scrut");
            out.push(format!("{}let {} := {}", ind(n), t, scrut.s));
            Some(t)
        } else {
            out.push(format!("{}match {} with", ind(n), scrut.s));
            None
        };
        let mut first = true;
        let mut skip_next = false;
        for (ai, arm) in m.arms.iter().enumerate() {
            if skip_next {
                skip_next = false;
                continue;
            }
            // `P if g => A, P' => B` where P' is P with wildcards: `| P => if g then A else B`
            let guarded: Option<(&Expr, &Arm)> = match &arm.guard {
                Some((_, g)) => {
                    let nxt = m.arms.get(ai + 1).ok_or("match guard on the last arm")?;
                    let same_ctor = match (&arm.pat, &nxt.pat) {
                        (Pat::TupleStruct(a), Pat::TupleStruct(b)) => path_str(&a.path) == path_str(&b.path)
                            && b.elems.iter().all(|e| matches!(e, Pat::Wild(_))) && nxt.guard.is_none(),
                        _ => false,
                    };
                    if !same_ctor || sv.is_some() {
                        return Err("match guard (only `P(x) if g => .., P(_) => ..` is in the subset)".into());
                    }
                    skip_next = true;
                    Some((&**g, nxt))
                }
                None => None,
            };
            let mut al = aliases.clone();
            self.vars.push(BTreeMap::new());
            let header = if let Some(t) = &sv {
                let cname = match &arm.pat {
                    Pat::Ident(i) => Some(i.ident.to_string()),
                    Pat::Path(p) => Some(path_str(&p.path)),
                    Pat::Wild(_) => None,
                    _ => { self.vars.pop(); return Err("pattern next to constant patterns".into()); }
                };
                match cname {
                    Some(c) if self.w.consts.contains_key(&c) => {
                        let h = format!("{}{} ({} == {}) then", ind(n), if first { "if" } else { "else if" }, t, c);
                        h
                    }
                    Some(_) => { self.vars.pop(); return Err("binding pattern next to constant patterns".into()); }
                    None => format!("{}else", ind(n)),
                }
            } else {
                let pat = self.pattern(&arm.pat, &scrut.ty, place.as_ref(), &mut al);
                match pat {
                    Ok(p) => format!("{}| {} =>", ind(n), p),
                    Err(e) => { self.vars.pop(); return Err(e); }
                }
            };
            first = false;
            out.push(header);
            for m in std::mem::take(&mut self.mut_pat_binds) {
                out.push(format!("{}let mut {} := {}", ind(n + 1), m, m));
            }
            // write-back of a `&mut PLACE` scrutinee bound by Some(x)
            let mut wb: Option<(String, String)> = None;
            if let (Some((ptxt, false)), Pat::TupleStruct(ts)) = (&place, &arm.pat) {
                if let Some(Pat::Ident(i)) = ts.elems.first() {
                    let ln = lean_ident(&i.ident.to_string());
                    out.push(format!("{}let mut {} := {}", ind(n + 1), ln, ln));
                    wb = Some((ptxt.clone(), ln));
                }
            }
            let mut arm_body = |this: &mut Self, body: &Expr, depth: usize, al: &BTreeMap<String, Alias>| -> R<Vec<String>> {
                match body {
                    Expr::Block(b) => this.block(&b.block, depth, tail, al),
                    other => {
                        let mut o = vec![];
                        let mut al2 = al.clone();
                        this.expr_stmt(other, depth, tail, tail, &mut al2, &mut o).map(|_| {
                            if o.is_empty() { o.push(format!("{}pure ()", ind(depth))); }
                            o
                        })
                    }
                }
            };
            let res: R<Vec<String>> = match guarded {
                None => arm_body(self, &arm.body, n + 1, &al),
                Some((g, nxt)) => {
                    let c = self.cond(g);
                    match c {
                        Err(e) => Err(e),
                        Ok(c) => {
                            let mut o = vec![];
                            self.flush_pre(n + 1, &mut o);
                            o.push(format!("{}if {} then", ind(n + 1), c.s));
                            match arm_body(self, &arm.body, n + 2, &al) {
                                Err(e) => Err(e),
                                Ok(a) => {
                                    o.extend(a);
                                    o.push(format!("{}else", ind(n + 1)));
                                    match arm_body(self, &nxt.body, n + 2, &al) {
                                        Err(e) => Err(e),
                                        Ok(b) => { o.extend(b); Ok(o) }
                                    }
                                }
                            }
                        }
                    }
                }
            };
            let res = match res { Ok(r) => r, Err(e) => { self.vars.pop(); return Err(e); } };
            out.extend(res);
            if let Some((ptxt, ln)) = wb {
                let pe: Expr = syn::parse_str(&ptxt).map_err(|e| e.to_string())?;
                let pl = self.place_of(&pe).ok_or("write-back place")?;
                out.push(format!("{}{}", ind(n + 1), self.place_write(&pl, &format!("(Option.some {})", ln))));
            }
            self.vars.pop();
        }
        Ok(())
    }
}

impl World {
    /// `FnMut(&mut T) -> U` among the bounds of a type parameter
    fn fnmut_bound(&self, bounds: &syn::punctuated::Punctuated<TypeParamBound, Token![+]>, generics: &BTreeMap<String, Ty>) -> Option<Ty> {
        for b in bounds {
            if let TypeParamBound::Trait(tb) = b {
                let seg = tb.path.segments.last()?;
                if seg.ident == "FnOnce" || seg.ident == "Fn" {
                    if let PathArguments::Parenthesized(pa) = &seg.arguments {
                        if pa.inputs.len() != 1 || matches!(&pa.inputs[0], Type::Reference(r) if r.mutability.is_some()) { return None; }
                        let a = self.ty_of(&pa.inputs[0], generics).ok()?;
                        let r = match &pa.output { ReturnType::Type(_, t) => self.ty_of(t, generics).ok()?, _ => return None };
                        return Some(Ty::FnOnce1(Box::new(a), Box::new(r)));
                    }
                }
                if seg.ident != "FnMut" { continue; }
                if let PathArguments::Parenthesized(pa) = &seg.arguments {
                    if pa.inputs.len() != 1 { return None; }
                    let is_mut_ref = matches!(&pa.inputs[0], Type::Reference(r) if r.mutability.is_some());
                    if !is_mut_ref { return None; }
                    let a = self.ty_of(&pa.inputs[0], generics).ok()?;
                    let r = match &pa.output { ReturnType::Type(_, t) => self.ty_of(t, generics).ok()?, _ => return None };
                    return Some(Ty::FnMut1(Box::new(a), Box::new(r)));
                }
            }
        }
        None
    }

    /// `extern <file> <Type> <method>`: the method stays outside the translation; its callers take it as a parameter whose type
    /// is read off the CURRENT signature (`&mut self` and `&mut` parameters are handed back next to the result).
    pub fn tr_extern(&mut self, f: &File, ty_name: &str, name: &str, opts: &BTreeMap<String, String>) -> R<String> {
        for it in &f.items {
            if let Item::Impl(im) = it {
                let self_name = match &*im.self_ty { Type::Path(p) => p.path.segments.last().map(|s| s.ident.to_string()).unwrap_or_default(), _ => String::new() };
                if self_name != ty_name { continue; }
                for ii in &im.items {
                    if let ImplItem::Fn(m) = ii {
                        if m.sig.ident != name || m.attrs.iter().any(|a| a.path().is_ident("cfg")) { continue; }
                        let mut generics: BTreeMap<String, Ty> = BTreeMap::new();
                        generics.insert("Self".into(), Ty::Named(ty_name.to_string()));
                        for (k, v) in opts { if v.starts_with('@') { generics.insert(k.clone(), crate::tr::inst_ty(v)); } }
                        let mut params: Vec<(Ty, bool)> = vec![];
                        let (mut has_self, mut self_mut) = (false, false);
                        for inp in &m.sig.inputs {
                            match inp {
                                FnArg::Receiver(r) => { has_self = true; self_mut = r.reference.is_some() && r.mutability.is_some(); params.push((Ty::Named(ty_name.to_string()), self_mut)); }
                                FnArg::Typed(pt) => {
                                    let by_mut = matches!(&*pt.ty, Type::Reference(r) if r.mutability.is_some());
                                    params.push((self.ty_of(&pt.ty, &generics)?, by_mut));
                                }
                            }
                        }
                        let (ret, is_res) = match &m.sig.output { ReturnType::Default => (Ty::Unit, false), ReturnType::Type(_, t) => match self.ty_of(t, &generics)? { Ty::Res(x) => (*x, true), o => (o, false) } };
                        let mut outs: Vec<String> = vec![];
                        if ret != Ty::Unit { outs.push(self.lean_ty(&ret)?); }
                        for (t, bm) in &params { if *bm { outs.push(self.lean_ty(t)?); } }
                        let out = match outs.len() { 0 => "Unit".to_string(), 1 => outs[0].clone(), _ => format!("({})", outs.join(" × ")) };
                        let ins: R<Vec<String>> = params.iter().map(|(t, _)| self.lean_ty(t)).collect();
                        let lean_ty = format!("{} → M {}", ins?.join(" → "), paren(&out));
                        let pname = format!("ext_{}_{}", ty_name, name);
                        self.fns.insert(format!("{}.{}", ty_name, name), FnSig { lean: pname.clone(), params, ret, self_mut, has_self, uses_step: false, ret_is_res: is_res,
                            uses_decompress: false, uses_w: false, view: None, uses_compress: false, rec_self: false, ext_ty: Some(lean_ty.clone()), externs: vec![], uses_merge: false });
                        return Ok(format!("-- external: `{}::{}` is a parameter `{} : {}` of its callers (signature read from the source)\n", ty_name, name, pname, lean_ty));
                    }
                }
            }
        }
        Err(format!("method {}::{} not found", ty_name, name))
    }

    pub fn tr_fn(&mut self, f: &File, ty_name: Option<&str>, name: &str, opts: &BTreeMap<String, String>) -> R<String> {
        // locate
        let mut found: Option<(Signature, Block, Generics)> = None;
        for it in &f.items {
            match (it, ty_name) {
                (Item::Fn(func), None) if func.sig.ident == name => found = Some((func.sig.clone(), (*func.block).clone(), Generics::default())),
                (Item::Impl(im), Some(tn)) => {
                    let self_name = match &*im.self_ty {
                        Type::Path(p) => p.path.segments.last().map(|s| s.ident.to_string()).unwrap_or_default(),
                        _ => String::new(),
                    };
                    if self_name != tn {
                        continue;
                    }
                    // skip cfg(test)/cfg(grenad_verif) methods
                    for ii in &im.items {
                        if let ImplItem::Fn(m) = ii {
                            if m.sig.ident == name && !m.attrs.iter().any(|a| a.path().is_ident("cfg")) {
                                found = Some((m.sig.clone(), m.block.clone(), im.generics.clone()));
                            }
                        }
                    }
                }
                _ => {}
            }
        }
        let (mut sig, mut body, mut impl_generics) = found.ok_or_else(|| format!("function {} not found", name))?;
        // `nested=<fn>`: the function item declared inside that method's body
        let nested = opts.get("nested").cloned();
        if let Some(nf) = &nested {
            let mut inner: Option<(Signature, Block)> = None;
            for st in &body.stmts {
                if let Stmt::Item(Item::Fn(f)) = st {
                    if f.sig.ident == nf.as_str() { inner = Some((f.sig.clone(), (*f.block).clone())); }
                }
            }
            let (s2, b2) = inner.ok_or_else(|| format!("nested function {} not found in {}", nf, name))?;
            sig = s2;
            body = b2;
            impl_generics = Generics::default();
        }
        let is_rec = opts.contains_key("rec");
        let declared_uses: Vec<&str> = opts.get("uses").map(|u| u.split(',').collect()).unwrap_or_default();
        // `drop_ret=1`: the returned value is a wrapper around `&mut self` (BlockBuffer): only the effect on self is translated
        let drop_ret = opts.contains_key("drop_ret");
        if drop_ret {
            if let Some(Stmt::Expr(_, None)) = body.stmts.last() {
                body.stmts.pop();
            }
        }

        let mut generics: BTreeMap<String, Ty> = BTreeMap::new();
        // explicit instantiations first (`T=@bytes`): the bounds of later parameters may mention them
        for gp in impl_generics.params.iter().chain(sig.generics.params.iter()) {
            if let GenericParam::Type(tp) = gp {
                if let Some(inst) = opts.get(&tp.ident.to_string()) {
                    generics.insert(tp.ident.to_string(), crate::tr::inst_ty(inst));
                }
            }
        }
        for gp in impl_generics.params.iter().chain(sig.generics.params.iter()) {
            if let GenericParam::Type(tp) = gp {
                if generics.contains_key(&tp.ident.to_string()) { continue; }
                let b = tp.bounds.to_token_stream().to_string();
                let t = if let Some(ft) = self.fnmut_bound(&tp.bounds, &generics) { ft } else if b.contains("Seek") || b.contains("Read") { Ty::Src } else if b.contains("Write") { Ty::Sink } else if b.replace(' ', "").contains("AsRef<[u8]>") { Ty::Bytes } else if b.contains("RangeBounds") { Ty::Tuple(vec![Ty::Bound(Box::new(Ty::Bytes)), Ty::Bound(Box::new(Ty::Bytes))]) } else { continue };
                generics.insert(tp.ident.to_string(), t);
            }
        }
        if let Some(wc) = sig.generics.where_clause.as_ref().or(impl_generics.where_clause.as_ref()) {
            for p in &wc.predicates {
                if let WherePredicate::Type(pt) = p {
                    let b = pt.bounds.to_token_stream().to_string();
                    let n = pt.bounded_ty.to_token_stream().to_string();
                    let t = if let Some(ft) = self.fnmut_bound(&pt.bounds, &generics) { ft } else if b.contains("Seek") || b.contains("Read") { Ty::Src } else if b.contains("Write") { Ty::Sink } else if b.replace(' ', "").contains("AsRef<[u8]>") { Ty::Bytes } else if b.contains("RangeBounds") { Ty::Tuple(vec![Ty::Bound(Box::new(Ty::Bytes)), Ty::Bound(Box::new(Ty::Bytes))]) } else { continue };
                    generics.insert(n, t);
                }
            }
        }
        if let Some(tn) = ty_name {
            generics.insert("Self".into(), Ty::Named(tn.to_string()));
        }
        for (k, v) in opts {
            if v.starts_with('@') {
                generics.insert(k.clone(), crate::tr::inst_ty(v));
            }
        }
        // explicit instantiations from the target line (`B=Block`)
        for gp in impl_generics.params.iter().chain(sig.generics.params.iter()) {
            if let GenericParam::Type(tp) = gp {
                if let Some(inst) = opts.get(&tp.ident.to_string()) {
                    generics.insert(tp.ident.to_string(), crate::tr::inst_ty(inst));
                }
            }
        }

        let lean_name = opts.get("as").cloned().unwrap_or_else(|| match (ty_name, &nested) {
            (Some(t), Some(nf)) => format!("{}.{}.{}", t, name, nf),
            (None, Some(nf)) => format!("{}.{}", name, nf),
            _ => String::new(),
        });
        let lean_name = if !lean_name.is_empty() { lean_name } else { match ty_name {
            // a method named like a field of its struct (builders): Lean keeps the projection, the method gets `_fn`
            Some(t) if self.structs.get(t).map_or(false, |fs| fs.iter().any(|(f, _)| f == name)) => format!("{}.{}_fn", t, name),
            Some(t) => format!("{}.{}", t, name),
            None => name.to_string(),
        } };
        let fn_key = match (&nested, ty_name) { (Some(nf), _) => nf.clone(), (None, Some(t)) => format!("{}.{}", t, name), (None, None) => name.to_string() };
        if is_rec {
            // the signature is known before the body: register it so that the body can call itself
            let fuel = opts.get("fuel").ok_or("rec=1 needs fuel=")?;
            let _ = fuel;
            let mut ps: Vec<(Ty, bool)> = vec![];
            let (mut rec_has_self, mut rec_self_mut) = (false, false);
            for inp in &sig.inputs {
                match inp {
                    FnArg::Receiver(r) => {
                        let tn = ty_name.ok_or("self outside impl")?;
                        let bm = r.reference.is_some() && r.mutability.is_some();
                        rec_has_self = true;
                        rec_self_mut = bm;
                        ps.push((Ty::Named(tn.to_string()), bm));
                    }
                    FnArg::Typed(pt) => {
                        let by_mut = matches!(&*pt.ty, Type::Reference(r) if r.mutability.is_some());
                        let t = self.ty_of(&pt.ty, &generics)?;
                        let by_mut = (by_mut && !matches!(t, Ty::FnMut1(_, _))) || t == Ty::Sink || (t == Ty::Src && opts.contains_key("rback"));
                        ps.push((t, by_mut));
                    }
                }
            }
            let (rt, is_res) = match &sig.output { ReturnType::Default => (Ty::Unit, false), ReturnType::Type(_, t) => match self.ty_of(t, &generics)? { Ty::Res(x) => (*x, true), o => (o, false) } };
            self.fns.insert(fn_key.clone(), FnSig { lean: format!("{}.go", lean_name), params: ps, ret: rt, self_mut: rec_self_mut, has_self: rec_has_self, uses_step: false, ret_is_res: is_res,
                uses_decompress: declared_uses.contains(&"decompress"), uses_w: false, view: None, uses_compress: false, rec_self: true, ext_ty: None, externs: vec![], uses_merge: false });
        }
        let mut ctx = Ctx {
            w: self, vars: vec![BTreeMap::new()], widths: Rc::new(RefCell::new(vec![])), ivar_parent: Rc::new(RefCell::new(vec![])),
            pre: vec![], ret_ty: Ty::Unit, muts: vec![], generics: generics.clone(), fuel: opts.get("fuel").cloned(),
            self_ty: ty_name.map(|s| s.to_string()), fresh: 0, val_mode: vec![], mut_pat_binds: vec![], loop_fin: vec![], used_step: false, local_muts: vec![], used_decompress: false, used_wwrite: false, used_wflush: false, used_compress: false, used_merge: false, tuple_let: opts.contains_key("tuplelet"), xcodec: opts.contains_key("xcodec"), used_xcompress: false, used_xdecompress: false, used_externs: vec![], fuel_param: false, pending_drops: vec![], elems: BTreeMap::new(), heads: BTreeMap::new(), views: BTreeMap::new(),
        };
        let mut params: Vec<String> = vec![];
        let mut rebinds: Vec<String> = vec![];
        let mut sig_params: Vec<(Ty, bool)> = vec![];
        let mut self_mut = false;
        let mut has_self = false;
        for inp in &sig.inputs {
            match inp {
                FnArg::Receiver(r) => {
                    let tn = ty_name.ok_or("self outside impl")?;
                    has_self = true;
                    let by_mut = r.reference.is_some() && r.mutability.is_some();
                    self_mut = by_mut;
                    ctx.bind("self", Ty::Named(tn.to_string()));
                    params.push(format!("(self_ : {})", self.lean_ty(&Ty::Named(tn.to_string()))?));
                    sig_params.push((Ty::Named(tn.to_string()), by_mut));
                    if by_mut {
                        ctx.muts.push("self_".into());
                        ctx.local_muts.push("self".into());
                        rebinds.push("let mut self_ := self_".into());
                    } else if r.mutability.is_some() {
                        ctx.local_muts.push("self".into());
                        rebinds.push("let mut self_ := self_".into());
                    }
                }
                FnArg::Typed(pt) => {
                    let (n, is_mut_binding) = match &*pt.pat {
                        Pat::Ident(i) => (i.ident.to_string(), i.mutability.is_some()),
                        _ => return Err("parameter pattern".into()),
                    };
                    let by_mut = matches!(&*pt.ty, Type::Reference(r) if r.mutability.is_some());
                    let t = self.ty_of(&pt.ty, &generics)?;
                    // `rback=1`: a by-value `R: Read + Seek` is a `&mut` reader at every call site: its position is handed back
                    // a `&mut F` closure is the stateless function itself: nothing to hand back
                    let by_mut = (by_mut && !matches!(t, Ty::FnMut1(_, _))) || t == Ty::Sink || (t == Ty::Src && opts.contains_key("rback"));
                    let ln = ctx.bind(&n, t.clone());
                    params.push(format!("({} : {})", ln, self.lean_ty(&t)?));
                    sig_params.push((t, by_mut));
                    if by_mut {
                        ctx.muts.push(ln.clone());
                    }
                    if by_mut || is_mut_binding {
                        ctx.local_muts.push(n.clone());
                        rebinds.push(format!("let mut {} := {}", ln, ln));
                    }
                }
            }
        }
        let ret = match &sig.output {
            ReturnType::Default => Ty::Unit,
            _ if drop_ret => Ty::Unit,
            ReturnType::Type(_, t) => {
                // `&mut Self` returned by builder methods: the receiver itself
                if matches!(&**t, Type::Reference(r) if r.mutability.is_some()) && self_mut { Ty::Unit } else { self.ty_of(t, &generics)? }
            }
        };
        let ret_inner = match &ret { Ty::Res(t) => (**t).clone(), o => o.clone() };
        ctx.ret_ty = ret_inner.clone();
        // a `drop_ret` function returning a checked wrapper: callers see the exposed field and owe the drop call
        let view: Option<String> = if drop_ret {
            match &sig.output {
                ReturnType::Type(_, t) => match &**t {
                    Type::Path(p) => p.path.segments.last().map(|s| s.ident.to_string()),
                    _ => None,
                },
                _ => None,
            }
        } else { None };
        // returned type
        let mut parts: Vec<String> = vec![];
        if ret_inner != Ty::Unit {
            parts.push(self.lean_ty(&ret_inner)?);
        }
        for (t, by_mut) in &sig_params {
            if *by_mut {
                parts.push(self.lean_ty(t)?);
            }
        }
        let lean_ret = match parts.len() { 0 => "Unit".to_string(), 1 => parts[0].clone(), _ => format!("({})", parts.join(" × ")) };

        let no_alias = BTreeMap::new();
        let mut lines = ctx.block(&body, 1, true, &no_alias)?;
        // a unit function whose body ends without a value still has to hand back its &mut parameters
        let ends_with_return = lines.last().map_or(false, |l| l.trim_start().starts_with("return "));
        if !ends_with_return && (ret_inner == Ty::Unit) {
            if lines.len() == 1 && lines[0].trim() == "pure ()" { lines.clear(); }
            lines.push(format!("  return {}", ctx.ret_pack(None)));
        }
        if !ctx.pending_drops.is_empty() {
            // wrappers alive until the end of the body: their `Drop` runs just before the (single, final) return
            let nret = lines.iter().filter(|l| l.trim_start().starts_with("return ")).count();
            if nret != 1 || !lines.last().map_or(false, |l| l.trim_start().starts_with("return ")) {
                return Err("a dropped wrapper in a function with early returns".into());
            }
            let last = lines.pop().unwrap();
            let drops: Vec<(String, String)> = ctx.pending_drops.iter().rev().cloned().collect();
            for (place, callee) in drops {
                lines.push(format!("  {} ← Grenad.Gen.{} {}", place, callee, place));
            }
            lines.push(last);
        }
        // patch integer widths
        let mut text = String::new();
        let plain_name = lean_name.clone();
        let lean_name = if is_rec { format!("{}.go", lean_name) } else { lean_name };
        if is_rec {
            text.push_str(&format!("def {} {} (fuel : Nat) : M {} :=\n  match fuel with\n  | 0 => throw (Fail.panic \"r2l: recursion fuel exhausted\")\n  | fuel + 1 => do\n", lean_name, params.join(" "), paren(&lean_ret)));
            for r in &rebinds {
                text.push_str(&format!("    {}\n", r));
            }
            for l in &lines {
                text.push_str("  ");
                text.push_str(l);
                text.push('\n');
            }
        } else {
        text.push_str(&format!("def {} {} : M {} := do\n", lean_name, params.join(" "), paren(&lean_ret)));
        for r in &rebinds {
            text.push_str(&format!("  {}\n", r));
        }
        for l in &lines {
            text.push_str(l);
            text.push('\n');
        }
        }
        let used_decompress = ctx.used_decompress;
        let used_compress = ctx.used_compress;
        if used_compress {
            text = text.replacen(&format!("def {} ", lean_name), &format!("def {} (compress : CompressionType → Nat → List UInt8 → Option (List UInt8)) ", lean_name), 1);
        }
        if used_decompress {
            text = text.replacen(&format!("def {} ", lean_name), &format!("def {} (decompress : CompressionType → List UInt8 → Option (List UInt8)) ", lean_name), 1);
        }
        if ctx.fuel_param {
            // `fuel=@param`: the loop bound is an explicit first argument (the tie proves which values suffice)
            text = text.replacen(&format!("def {} ", lean_name), &format!("def {} (fuel : Nat) ", lean_name), 1);
        }
        for (pn, pt) in ctx.used_externs.iter().rev() {
            text = text.replacen(&format!("def {} ", lean_name), &format!("def {} ({} : {}) ", lean_name, pn, pt), 1);
        }
        let has_externs = !ctx.used_externs.is_empty();
        let my_externs: Vec<(String, String)> = ctx.used_externs.clone();
        if ctx.used_xdecompress {
            text = text.replacen(&format!("def {} ", lean_name), &format!("def {} (xdecompress : String → List UInt8 → Option (List UInt8)) ", lean_name), 1);
        }
        if ctx.used_xcompress {
            text = text.replacen(&format!("def {} ", lean_name), &format!("def {} (xcompress : String → Nat → List UInt8 → Option (List UInt8)) ", lean_name), 1);
        }
        let used_merge = ctx.used_merge;
        if ctx.used_merge {
            text = text.replacen(&format!("def {} ", lean_name), &format!("def {} (merge : List UInt8 → List (List UInt8) → Except Unit Cow) ", lean_name), 1);
        }
        let used_step = ctx.used_step;
        if used_step {
            text = text.replacen(&format!("def {} ", lean_name), &format!("def {} (step : γ → CurOp → γ × CurRes) ", lean_name), 1);
        }
        let uses_w = ctx.used_wwrite || ctx.used_wflush;
        if ctx.used_wflush {
            text = text.replacen(&format!("def {} ", lean_name), &format!("def {} (wflush : γ → γ × Except IoErr Unit) ", lean_name), 1);
        }
        if ctx.used_wwrite {
            text = text.replacen(&format!("def {} ", lean_name), &format!("def {} (wwrite : γ → List UInt8 → γ × Except IoErr Nat) ", lean_name), 1);
        }
        if text.contains('γ') {
            text = text.replacen(&format!("def {} ", lean_name), &format!("def {} {{γ : Type}} ", lean_name), 1);
        }
        let nvars = ctx.widths.borrow().len();
        for i in 0..nvars {
            let ph = format!("⟪W{}⟫", i);
            if text.contains(&ph) {
                match ctx.resolve(&Ty::IntVar(i)) {
                    Ty::U(w) => text = text.replace(&ph, &w.to_string()),
                    _ => return Err("integer width of a literal could not be inferred".into()),
                }
            }
        }
        drop(ctx);
        if has_externs && is_rec {
            // the calls of the function to itself were emitted before its externals were known: hand them on
            let extn: String = my_externs.iter().map(|(n, _)| format!("{} ", n)).collect();
            text = text.replace(&format!("← Grenad.Gen.{} ", lean_name), &format!("← Grenad.Gen.{} {}", lean_name, extn));
        }
        if is_rec {
            if used_step || uses_w || used_compress { return Err("recursive function over an external cursor / writer".into()); }
            if used_decompress != declared_uses.contains(&"decompress") { return Err("recursive function: declare `uses=decompress` exactly when it is used".into()); }
            let fuel = opts.get("fuel").unwrap();
            let names: Vec<String> = sig.inputs.iter().filter_map(|i| match i { FnArg::Receiver(_) => Some("self_".to_string()), FnArg::Typed(pt) => match &*pt.pat { Pat::Ident(i) => Some(lean_ident(&i.ident.to_string())), _ => None } }).collect();
            let mut ext = if used_decompress { "(decompress : CompressionType → List UInt8 → Option (List UInt8)) ".to_string() } else { String::new() };
            let mut extn = if used_decompress { "decompress ".to_string() } else { String::new() };
            for (n, t) in &my_externs { ext.push_str(&format!("({} : {}) ", n, t)); extn.push_str(&format!("{} ", n)); }
            text.push_str(&format!("\ndef {} {}{} : M {} :=\n  {} {}{} ({})\n", plain_name, ext, params.join(" "), paren(&lean_ret), lean_name, extn, names.join(" "), fuel));
        }
        self.fns.insert(
            fn_key,
            FnSig { lean: plain_name, params: sig_params, ret: ret_inner, self_mut, has_self, uses_step: used_step, ret_is_res: matches!(ret, Ty::Res(_)), uses_decompress: used_decompress, uses_w, view, uses_compress: used_compress, rec_self: false, ext_ty: None, externs: my_externs, uses_merge: used_merge },
        );
        Ok(text)
    }
}
