// included in tr.rs — expressions

fn path_str(p: &Path) -> String {
    p.segments.iter().map(|s| s.ident.to_string()).collect::<Vec<_>>().join("::")
}

fn strip_ref(ex: &Expr) -> &Expr {
    match ex {
        Expr::Reference(r) => strip_ref(&r.expr),
        Expr::Paren(p) => strip_ref(&p.expr),
        Expr::Group(g) => strip_ref(&g.expr),
        Expr::Unary(ExprUnary { op: UnOp::Deref(_), expr, .. }) => strip_ref(expr),
        o => o,
    }
}

/// a place: variable followed by a field path
#[derive(Clone)]
pub struct Place {
    root: String,      // rust name
    fields: Vec<String>,
    ty: Ty,
    /// the place is element `index` (a Lean `Nat` term) of the list at root.fields
    index: Option<String>,
    /// the place is the content of the `Option` at root.fields (inside a `Some(_)` arm); applied before `index`
    opt: bool,
    /// component `k` of the `n`-tuple found there; applied after `index`
    proj: Option<(usize, usize)>,
    /// the elements `[lo, hi)` (Lean `Nat` terms) of the list found there (a `split_last_mut` head)
    range: Option<(String, String)>,
}

impl<'w> Ctx<'w> {
    fn place_of(&self, ex: &Expr) -> Option<Place> {
        match strip_ref(ex) {
            Expr::Path(p) if p.path.segments.len() == 1 => {
                let n = p.path.segments[0].ident.to_string();
                let masked = self.lookup(&n).map_or(false, |v| v.masks_alias);
                if masked {
                    let v = self.lookup(&n)?;
                    return Some(Place { root: n, fields: vec![], ty: v.ty, index: None, opt: false, proj: None, range: None });
                }
                if let Some(pl) = self.elems.get(&n) {
                    return Some(pl.clone());
                }
                if let Some((pl, lo, hi)) = self.heads.get(&n) {
                    let mut q = pl.clone();
                    q.range = Some((lo.clone(), hi.clone()));
                    return Some(q);
                }
                let v = self.lookup(&n)?;
                Some(Place { root: n, fields: vec![], ty: v.ty, index: None, opt: false, proj: None, range: None })
            }
            Expr::Field(f) => {
                let mut base = self.place_of(&f.base)?;
                if base.index.is_some() || base.opt || base.proj.is_some() || base.range.is_some() {
                    return None;
                }
                let fname = match &f.member {
                    Member::Named(i) => i.to_string(),
                    Member::Unnamed(_) => return None,
                };
                let sname = match self.resolve(&base.ty) {
                    Ty::Named(s) => s,
                    _ => return None,
                };
                let fty = self.w.structs.get(&sname)?.iter().find(|(n, _)| *n == fname)?.1.clone();
                base.fields.push(fname);
                base.ty = fty;
                Some(base)
            }
            _ => None,
        }
    }
    fn place_read(&self, p: &Place) -> String {
        let mut s = self.lookup(&p.root).map(|v| v.lean).unwrap_or(lean_ident(&p.root));
        for f in &p.fields {
            s = format!("{}.{}", s, lean_ident(f));
        }
        if p.opt {
            s = format!("({}.getD default)", s);
        }
        if let Some(i) = &p.index {
            s = format!("({}[{}]!)", s, i);
        }
        if let Some((k, n)) = p.proj {
            for _ in 0..k { s = format!("{}.2", s); }
            if k + 1 < n { s = format!("{}.1", s); }
        }
        if let Some((lo, hi)) = &p.range {
            s = if lo == "0" { format!("({}.take {})", s, paren(hi)) } else { format!("(({}.drop {}).take ({} - {}))", s, paren(lo), hi, lo) };
        }
        s
    }
    /// the statement that stores `val` (a pure Lean term) into the place
    fn place_write(&self, p: &Place, val: &str) -> String {
        let root = self.lookup(&p.root).map(|v| v.lean).unwrap_or(lean_ident(&p.root));
        if let Some((lo, hi)) = &p.range {
            // a sub-range of a list: the elements around it stay
            let mut q = p.clone();
            q.range = None;
            let list = self.place_read(&q);
            let v = if lo == "0" { format!("({} ++ {}.drop {})", val, list, paren(hi)) } else { format!("({}.take {} ++ {} ++ {}.drop {})", list, paren(lo), val, list, paren(hi)) };
            return self.place_write(&q, &v);
        }
        if let Some((k, n)) = p.proj {
            // one component of a tuple: the others stay
            let mut q = p.clone();
            q.proj = None;
            let cur = self.place_read(&q);
            let mut parts = vec![];
            for i in 0..n {
                if i == k { parts.push(paren(val)); continue; }
                let mut c = cur.clone();
                for _ in 0..i { c = format!("{}.2", c); }
                if i + 1 < n { c = format!("{}.1", c); }
                parts.push(c);
            }
            return self.place_write(&q, &format!("({})", parts.join(", ")));
        }
        if p.opt && p.index.is_none() {
            let mut q = p.clone();
            q.opt = false;
            return self.place_write(&q, &format!("(Option.some {})", val));
        }
        if let Some(i) = &p.index {
            // element of a list: replace it in the list, then store the list
            let mut q = p.clone();
            q.index = None;
            let list = self.place_read(&q);
            return self.place_write(&q, &format!("({}.set {} {})", list, paren(i), paren(val)));
        }
        if p.fields.is_empty() {
            return format!("{} := {}", root, val);
        }
        // nested structure update
        let mut prefixes = vec![root.clone()];
        for f in &p.fields[..p.fields.len() - 1] {
            let last = prefixes.last().unwrap().clone();
            prefixes.push(format!("{}.{}", last, lean_ident(f)));
        }
        let mut v = val.to_string();
        for (i, f) in p.fields.iter().enumerate().rev() {
            v = format!("{{ {} with {} := {} }}", prefixes[i], lean_ident(f), v);
        }
        format!("{} := {}", root, v)
    }

    fn int_lit(&mut self, l: &LitInt) -> R<E> {
        let v = l.base10_parse::<u128>().map_err(|e| e.to_string())?;
        let ty = match l.suffix() {
            "" => self.new_ivar(),
            "u8" => Ty::U(8),
            "u16" => Ty::U(16),
            "u32" => Ty::U(32),
            "u64" | "usize" => Ty::U(64),
            "i64" => Ty::I(64),
            s => return Err(format!("literal suffix {}", s)),
        };
        Ok(e(v.to_string(), ty))
    }

    fn is_int(&self, t: &Ty) -> bool {
        matches!(self.resolve(t), Ty::U(_) | Ty::I(_) | Ty::IntVar(_))
    }

    fn size_of(&self, t: &Type) -> R<u64> {
        let g = self.generics.clone();
        match self.w.ty_of(t, &g)? {
            Ty::U(w) | Ty::I(w) => Ok((w / 8) as u64),
            Ty::Named(n) => {
                // repr(C) struct of integers: sum with natural alignment
                let fields = self.w.structs.get(&n).ok_or("size_of unknown struct")?;
                let mut off = 0u64;
                let mut maxa = 1u64;
                for (_, t) in fields {
                    let s = match t {
                        Ty::U(w) | Ty::I(w) => (*w / 8) as u64,
                        _ => return Err("size_of struct with non-integer field".into()),
                    };
                    maxa = maxa.max(s);
                    off = (off + s - 1) / s * s + s;
                }
                Ok((off + maxa - 1) / maxa * maxa)
            }
            o => Err(format!("size_of {:?}", o)),
        }
    }

    fn expr(&mut self, ex: &Expr) -> R<E> {
        match ex {
            Expr::Paren(p) => {
                let i = self.expr(&p.expr)?;
                Ok(E { s: format!("({})", i.s), ..i })
            }
            Expr::Group(g) => self.expr(&g.expr),
            Expr::Reference(r) => self.expr(&r.expr),
            Expr::Lit(ExprLit { lit: Lit::Int(i), .. }) => self.int_lit(i),
            Expr::Lit(ExprLit { lit: Lit::Bool(b), .. }) => Ok(e(if b.value { "true" } else { "false" }, Ty::Bool)),
            Expr::Path(p) => {
                let s = path_str(&p.path);
                if p.path.segments.len() == 1 {
                    let masked = self.lookup(&s).map_or(false, |v| v.masks_alias);
                    if let (false, Some(pl)) = (masked, self.elems.get(&s).cloned()) {
                        return Ok(e(self.place_read(&pl), pl.ty.clone()));
                    }
                    if !masked && self.heads.contains_key(&s) {
                        let pl = self.place_of(ex).ok_or("split_last_mut head")?;
                        return Ok(e(self.place_read(&pl), pl.ty.clone()));
                    }
                    if let Some(v) = self.lookup(&s) {
                        return Ok(e(v.lean, v.ty));
                    }
                    if let Some(t) = self.w.consts.get(&s) {
                        return Ok(e(s.clone(), t.clone()));
                    }
                    if s == "None" {
                        return Ok(e("Option.none", Ty::Opt(Box::new(Ty::Any))));
                    }
                }
                // Enum::Variant, u32::MAX, Ordering::Equal, Bound::Unbounded
                let segs: Vec<String> = p.path.segments.iter().map(|s| s.ident.to_string()).collect();
                if segs.len() == 2 {
                    let (a, b) = (segs[0].as_str(), segs[1].as_str());
                    if let Some(vs) = self.w.enums.get(a) {
                        if vs.iter().any(|(v, _)| v == b) {
                            return Ok(e(format!("{}.{}", a, lower_first(b)), Ty::Named(a.to_string())));
                        }
                    }
                    match (a, b) {
                        ("u8", "MAX") => return Ok(e("255", Ty::U(8))),
                        ("u32", "MAX") => return Ok(e("4294967295", Ty::U(32))),
                        ("u64", "MAX") | ("usize", "MAX") => return Ok(e("18446744073709551615", Ty::U(64))),
                        ("Bound", "Unbounded") => return Ok(e("Bound.unbounded", Ty::Bound(Box::new(Ty::Any)))),
                        ("Ordering", "Equal") => return Ok(e("Ordering.eq", Ty::Ordering)),
                        ("Ordering", "Less") => return Ok(e("Ordering.lt", Ty::Ordering)),
                        ("Ordering", "Greater") => return Ok(e("Ordering.gt", Ty::Ordering)),
                        ("Error", v) => return Ok(e(format!("RErr.{}", lower_first(v)), Ty::Named("RErr".into()))),
                        _ => {}
                    }
                }
                Err(format!("path `{}` is outside the subset", s))
            }
            Expr::Field(_) => {
                let p = self.place_of(ex).ok_or_else(|| format!("field access `{}`", ex.to_token_stream()))?;
                Ok(e(self.place_read(&p), p.ty))
            }
            Expr::Unary(u) => {
                let i = self.expr(&u.expr)?;
                match u.op {
                    UnOp::Not(_) if self.resolve(&i.ty) == Ty::Bool => Ok(E { s: format!("(!{})", i.s), ..i }),
                    UnOp::Neg(_) if matches!(self.resolve(&i.ty), Ty::I(_)) => Ok(E { s: format!("(-{})", i.s), ..i }),
                    UnOp::Deref(_) => Ok(i),
                    _ => Err(format!("unary `{}`", ex.to_token_stream())),
                }
            }
            Expr::Cast(c) => {
                let i = self.expr(&c.expr)?;
                let g = self.generics.clone();
                let to = self.w.ty_of(&c.ty, &g)?;
                let from = self.resolve(&i.ty);
                match (&from, &to) {
                    (Ty::Named(n), Ty::U(w)) if self.w.enums.contains_key(n) => {
                        Ok(E { s: format!("(castU {} ({}.toNat {}))", w, n, i.s), ty: to, eff: i.eff })
                    }
                    (Ty::U(a), Ty::U(b)) if a <= b => Ok(E { s: i.s, ty: to, eff: i.eff }),
                    (Ty::U(_), Ty::U(b)) => Ok(E { s: format!("(castU {} {})", b, i.s), ty: to, eff: i.eff }),
                    (Ty::IntVar(_), Ty::U(b)) => Ok(E { s: format!("(castU {} {})", b, i.s), ty: to, eff: i.eff }),
                    // unsigned -> wider signed is exact
                    (Ty::U(a), Ty::I(b)) if a < b => Ok(E { s: format!("(({} : Nat) : Int)", i.s), ty: to, eff: i.eff }),
                    (Ty::U(_), Ty::I(b)) => Ok(E { s: format!("(castI {} {})", b, i.s), ty: to, eff: i.eff }),
                    (Ty::IntVar(_), Ty::I(_)) => {
                        self.unify(&i.ty, &to)?;
                        Ok(E { s: i.s, ty: to, eff: i.eff })
                    }
                    _ => Err(format!("cast `{}` ({:?} -> {:?})", ex.to_token_stream(), from, to)),
                }
            }
            Expr::Binary(b) => self.binary(b),
            Expr::Index(ix) => {
                let base = self.expr(&ix.expr)?;
                // a buffer whose content is not represented (a struct with a checked `Deref`), or a sub-slice of one: only lengths
                let ghost_len: Option<String> = match self.resolve(&base.ty) {
                    Ty::Named(n) if n == "GhostLen" => Some(base.s.clone()),
                    Ty::Named(n) if self.w.slice_len.contains_key(&n) => Some(format!("{}.{}", base.s, self.w.slice_len[&n])),
                    _ => None,
                };
                if let (Some(len), Expr::Range(r)) = (&ghost_len, &*ix.index) {
                    if matches!(r.limits, RangeLimits::Closed(_)) { return Err("inclusive range index".into()); }
                    let lo = match &r.start { Some(s) => Some(self.expr(s)?), None => None };
                    let hi = match &r.end { Some(s) => Some(self.expr(s)?), None => None };
                    for x in [&lo, &hi].into_iter().flatten() { self.unify(&x.ty, &Ty::U(64))?; }
                    let s = match (&lo, &hi) {
                        (None, Some(h)) => format!("(← ghostTo {} {})", paren(len), paren(&h.s)),
                        (Some(l), None) => format!("(← ghostFrom {} {})", paren(len), paren(&l.s)),
                        (Some(l), Some(h)) => format!("(← ghostRange {} {} {})", paren(len), paren(&l.s), paren(&h.s)),
                        (None, None) => len.clone(),
                    };
                    return Ok(E { s, ty: Ty::Named("GhostLen".into()), eff: true });
                }
                // range index: &x[a..b]
                if let Expr::Range(r) = &*ix.index {
                    let lo = match &r.start { Some(s) => Some(self.expr(s)?), None => None };
                    let hi = match &r.end { Some(s) => Some(self.expr(s)?), None => None };
                    if matches!(r.limits, RangeLimits::Closed(_)) {
                        return Err("inclusive range index".into());
                    }
                    for x in [&lo, &hi].into_iter().flatten() {
                        self.unify(&x.ty, &Ty::U(64))?;
                    }
                    let s = match (&lo, &hi) {
                        (None, Some(h)) => format!("(← sliceTo {} {})", base.s, h.s),
                        (Some(l), None) => format!("(← sliceFrom {} {})", base.s, l.s),
                        (Some(l), Some(h)) => format!("(← sliceRange {} {} {})", base.s, l.s, h.s),
                        (None, None) => base.s.clone(),
                    };
                    return Ok(E { s, ty: base.ty, eff: true });
                }
                let i = self.expr(&ix.index)?;
                self.unify(&i.ty, &Ty::U(64))?;
                match self.resolve(&base.ty) {
                    Ty::Bytes => Ok(E { s: format!("(← idx {} {}).toNat", base.s, i.s), ty: Ty::U(8), eff: true }),
                    Ty::List(t) => Ok(E { s: format!("(← idx {} {})", base.s, i.s), ty: *t, eff: true }),
                    o => Err(format!("index into {:?}", o)),
                }
            }
            Expr::If(i) => {
                // value-producing if: each branch is its own `do` block so that effects stay inside it
                let c = self.cond(&i.cond)?;
                let t = self.block_value(&i.then_branch)?;
                let el = match &i.else_branch {
                    Some((_, eb)) => match &**eb {
                        Expr::Block(b) => self.block_value(&b.block)?,
                        other => {
                            let v = self.expr(other)?;
                            E { s: format!("pure {}", paren(&v.s)), ty: v.ty, eff: v.eff }
                        }
                    },
                    None => return Err("if without else used as a value".into()),
                };
                let ty = self.unify(&t.ty, &el.ty)?;
                Ok(E { s: format!("(← (if {} then (do {}) else (do {})))", c.s, t.s, el.s), ty, eff: true })
            }
            Expr::Call(c) => self.call(c),
            Expr::MethodCall(m) => self.method(m),
            Expr::Tuple(t) if t.elems.is_empty() => Ok(e("()", Ty::Unit)),
            Expr::Tuple(t) => {
                let mut parts = vec![];
                let mut tys = vec![];
                let mut eff = false;
                for x in &t.elems {
                    let v = self.expr(x)?;
                    eff |= v.eff;
                    parts.push(v.s);
                    tys.push(v.ty);
                }
                Ok(E { s: format!("({})", parts.join(", ")), ty: Ty::Tuple(tys), eff })
            }
            Expr::Repeat(r) => {
                // [0; N]
                let n = self.expr(&r.len)?;
                let v = self.expr(&r.expr)?;
                self.unify(&v.ty, &Ty::U(8))?;
                Ok(E { s: format!("(List.replicate {} (UInt8.ofNat {}))", n.s, v.s), ty: Ty::Bytes, eff: n.eff || v.eff })
            }
            Expr::Struct(st) if st.rest.is_none() => {
                let name = st.path.segments.last().unwrap().ident.to_string();
                let name = if name == "Self" { self.self_ty.clone().ok_or("Self outside impl")? } else { name };
                let fields = self.w.structs.get(&name).cloned().ok_or_else(|| format!("struct literal of {}", name))?;
                let mut parts = vec![];
                let mut eff = false;
                for fv in &st.fields {
                    let fname = match &fv.member { Member::Named(i) => i.to_string(), _ => return Err("tuple struct literal".into()) };
                    if self.w.partial_structs.contains(&name) && !fields.iter().any(|(n, _)| *n == fname) {
                        // a field outside `only=`: invisible to every translated function (its initialiser must be a plain path)
                        let is_default_call = matches!(strip_ref(&fv.expr), Expr::Call(c) if c.args.is_empty() && matches!(&*c.func, Expr::Path(p) if p.path.segments.last().map_or(false, |s| s.ident == "default")));
                        if !matches!(strip_ref(&fv.expr), Expr::Path(_) | Expr::Field(_) | Expr::Lit(_)) && !is_default_call { return Err("initialiser of an untranslated field".into()); }
                        continue;
                    }
                    let fty = fields.iter().find(|(n, _)| *n == fname).ok_or("unknown field")?.1.clone();
                    let v = self.expr(&fv.expr)?;
                    if self.is_int(&fty) { self.unify(&v.ty, &fty)?; }
                    eff |= v.eff;
                    parts.push(format!("{} := {}", lean_ident(&fname), v.s));
                }
                if parts.len() != fields.len() { return Err("struct literal with missing fields".into()); }
                let lt = self.w.lean_ty(&Ty::Named(name.clone()))?;
                Ok(E { s: format!("({{ {} }} : {})", parts.join(", "), lt), ty: Ty::Named(name), eff })
            }
            Expr::Try(t) => {
                // errors travel in the monad: `e?` is just `e`
                let i = self.expr(&t.expr)?;
                match self.resolve(&i.ty) {
                    Ty::Res(t) => Ok(E { s: i.s, ty: *t, eff: i.eff }),
                    Ty::Opt(t) if matches!(self.ret_ty, Ty::Opt(_)) => {
                        // `e?` in a function returning Option: `let some x := e | return None`
                        let v = self.fresh("v");
                        let none = self.ret_pack(Some("Option.none"));
                        self.pre.push(format!("let Option.some {} := {} | return {}", v, i.s, none));
                        Ok(E { s: v, ty: *t, eff: false })
                    }
                    o => Err(format!("`?` on {:?}", o)),
                }
            }
            Expr::Block(b) if b.block.stmts.len() == 1 && b.label.is_none() => match &b.block.stmts[0] {
                Stmt::Expr(x, None) => self.expr(x),
                _ => Err("block expression".into()),
            },
            Expr::Unsafe(u) if u.block.stmts.len() == 1 => match &u.block.stmts[0] {
                Stmt::Expr(x, None) => self.expr(x),
                _ => Err("unsafe block".into()),
            },
            Expr::Macro(m) if m.mac.path.is_ident("vec") => {
                // vec![a, b, ..]  /  vec![x; n]
                let toks = m.mac.tokens.clone();
                if let Ok(rep) = syn::parse2::<syn::ExprRepeat>(quote::quote!([#toks])) {
                    let v = self.expr(&rep.expr)?;
                    let n = self.expr(&rep.len)?;
                    self.unify(&n.ty, &Ty::U(64))?;
                    return Ok(E { s: format!("(List.replicate {} {})", paren(&n.s), paren(&v.s)), ty: Ty::List(Box::new(v.ty)), eff: v.eff || n.eff });
                }
                let arr = syn::parse2::<syn::ExprArray>(quote::quote!([#toks])).map_err(|e| e.to_string())?;
                let mut parts = vec![];
                let mut ty = Ty::Any;
                let mut eff = false;
                for x in &arr.elems {
                    let v = self.expr(x)?;
                    ty = self.unify(&ty, &v.ty)?;
                    eff |= v.eff;
                    parts.push(v.s);
                }
                Ok(E { s: format!("[{}]", parts.join(", ")), ty: Ty::List(Box::new(ty)), eff })
            }
            Expr::Macro(m) if m.mac.path.is_ident("unreachable") => Ok(e("(← throw (Fail.panic \"unreachable\"))", Ty::Unit)),
            other => Err(format!("expression `{}` is outside the subset", short(&other.to_token_stream().to_string()))),
        }
    }

    /// `{ stmts; value }` as a single-line do sequence ending in `pure value`
    fn block_value(&mut self, b: &Block) -> R<E> {
        if b.stmts.len() != 1 {
            return Err("multi-statement block used as a value".into());
        }
        match &b.stmts[0] {
            Stmt::Expr(x, None) => {
                let v = self.expr(x)?;
                Ok(E { s: format!("pure {}", paren(&v.s)), ty: v.ty, eff: v.eff })
            }
            _ => Err("block used as a value does not end in an expression".into()),
        }
    }

    /// a condition as a Lean Bool
    fn cond(&mut self, ex: &Expr) -> R<E> {
        let c = self.expr(ex)?;
        match self.resolve(&c.ty) {
            Ty::Bool => Ok(c),
            o => Err(format!("condition of type {:?}", o)),
        }
    }

    fn binary(&mut self, b: &ExprBinary) -> R<E> {
        let l = self.expr(&b.left)?;
        let r = self.expr(&b.right)?;
        let eff = l.eff || r.eff;
        let both_int = self.is_int(&l.ty) && self.is_int(&r.ty);
        let cmp = |op: &str, l: &E, r: &E| -> String {
            match op {
                "==" => format!("({} == {})", l.s, r.s),
                "!=" => format!("({} != {})", l.s, r.s),
                "<" => format!("(decide ({} < {}))", l.s, r.s),
                "<=" => format!("(decide ({} ≤ {}))", l.s, r.s),
                ">" => format!("(decide ({} < {}))", r.s, l.s),
                ">=" => format!("(decide ({} ≤ {}))", r.s, l.s),
                _ => unreachable!(),
            }
        };
        let opstr = match b.op {
            BinOp::Eq(_) => "==", BinOp::Ne(_) => "!=", BinOp::Lt(_) => "<", BinOp::Le(_) => "<=",
            BinOp::Gt(_) => ">", BinOp::Ge(_) => ">=", _ => "",
        };
        if !opstr.is_empty() {
            // integers, byte strings, options of byte strings, enums
            let lt = self.resolve(&l.ty);
            let rt = self.resolve(&r.ty);
            if both_int {
                self.unify(&l.ty, &r.ty)?;
            } else if lt != rt {
                return Err(format!("comparison between {:?} and {:?}", lt, rt));
            } else if !matches!(lt, Ty::Bytes | Ty::Named(_) | Ty::Ordering | Ty::Bool) && !(matches!(&lt, Ty::Opt(t) if **t == Ty::Bytes)) {
                return Err(format!("comparison at type {:?}", lt));
            }
            if matches!(lt, Ty::Opt(_)) && (opstr != "==" && opstr != "!=") {
                return Ok(E { s: format!("(optLe{} {} {})", match opstr { "<" => "Lt", "<=" => "Le", ">" => "Gt", _ => "Ge" }, l.s, r.s), ty: Ty::Bool, eff });
            }
            if r.eff && !l.eff {
                // keep Rust's left-to-right evaluation visible: both sides are evaluated anyway
            }
            return Ok(E { s: cmp(opstr, &l, &r), ty: Ty::Bool, eff });
        }
        match b.op {
            BinOp::And(_) | BinOp::Or(_) => {
                let is_and = matches!(b.op, BinOp::And(_));
                if r.eff {
                    // short circuit: the right operand's effects (possible panics) only happen when needed
                    let s = if is_and {
                        format!("(← (if {} then (do pure {}) else pure false))", l.s, paren(&r.s))
                    } else {
                        format!("(← (if {} then pure true else (do pure {})))", l.s, paren(&r.s))
                    };
                    Ok(E { s, ty: Ty::Bool, eff: true })
                } else {
                    Ok(E { s: format!("({} {} {})", l.s, if is_and { "&&" } else { "||" }, r.s), ty: Ty::Bool, eff })
                }
            }
            BinOp::Add(_) | BinOp::Sub(_) | BinOp::Mul(_) => {
                let ty = self.unify(&l.ty, &r.ty)?;
                if let Ty::I(w) = self.resolve(&ty) {
                    let f = match b.op { BinOp::Add(_) => "addI", BinOp::Sub(_) => "subI", _ => "mulI" };
                    return Ok(E { s: format!("(← {} {} {} {})", f, w, l.s, r.s), ty, eff: true });
                }
                let f = match b.op { BinOp::Add(_) => "add", BinOp::Sub(_) => "sub", _ => "mul" };
                Ok(E { s: format!("(← {} {} {} {})", f, self.wtxt(&ty)?, l.s, r.s), ty, eff: true })
            }
            BinOp::Div(_) | BinOp::Rem(_) => {
                let ty = self.unify(&l.ty, &r.ty)?;
                let f = if matches!(b.op, BinOp::Div(_)) { "div" } else { "rem" };
                Ok(E { s: format!("(← {} {} {})", f, l.s, r.s), ty, eff: true })
            }
            BinOp::BitAnd(_) | BinOp::BitOr(_) | BinOp::BitXor(_) => {
                let ty = self.unify(&l.ty, &r.ty)?;
                let op = match b.op { BinOp::BitAnd(_) => "&&&", BinOp::BitOr(_) => "|||", _ => "^^^" };
                Ok(E { s: format!("({} {} {})", l.s, op, r.s), ty, eff })
            }
            BinOp::Shl(_) | BinOp::Shr(_) => {
                // the shift amount has its own type
                let f = if matches!(b.op, BinOp::Shl(_)) { "shl" } else { "shr" };
                if !self.is_int(&l.ty) {
                    return Err("shift of a non-integer".into());
                }
                Ok(E { s: format!("(← {} {} {} {})", f, self.wtxt(&l.ty)?, l.s, r.s), ty: l.ty, eff: true })
            }
            _ => Err(format!("operator `{}`", b.op.to_token_stream())),
        }
    }

    fn call(&mut self, c: &ExprCall) -> R<E> {
        let func = match &*c.func { Expr::Paren(p) => &*p.expr, o => o };
        let f = match func {
            Expr::Path(p) => p,
            _ => return Err("call of a non-path".into()),
        };
        if f.path.segments.len() == 1 {
            if let Some(v) = self.lookup(&f.path.segments[0].ident.to_string()) {
                if let Ty::FnOnce1(a, r) = v.ty.clone() {
                    if c.args.len() != 1 { return Err("closure call arity".into()); }
                    let x = self.expr(&c.args[0])?;
                    if self.resolve(&x.ty) != *a { return Err(format!("closure argument of type {:?}", x.ty)); }
                    return Ok(E { s: format!("(← {} {})", v.lean, paren(&x.s)), ty: *r, eff: true });
                }
                if let Ty::FnMut1(a, r) = v.ty.clone() {
                    // `(mov)(&mut place)`: apply the function, store the handed-back argument
                    if c.args.len() != 1 { return Err("closure call arity".into()); }
                    let pl = self.place_of(&c.args[0]).ok_or("closure argument is not a place")?;
                    if self.resolve(&pl.ty) != *a { return Err(format!("closure argument of type {:?}", pl.ty)); }
                    let cur = self.place_read(&pl);
                    let (r1, a1) = (self.fresh("r"), self.fresh("a"));
                    self.pre.push(format!("let ({}, {}) ← {} {}", r1, a1, v.lean, cur));
                    let w = self.place_write(&pl, &a1);
                    self.pre.push(w);
                    return Ok(E { s: r1, ty: *r, eff: false });
                }
            }
        }
        let name = path_str(&f.path);
        let last = f.path.segments.last().unwrap();
        match name.as_str() {
            "Some" => {
                let a = self.expr(&c.args[0])?;
                Ok(E { s: format!("(Option.some {})", a.s), ty: Ty::Opt(Box::new(a.ty)), eff: a.eff })
            }
            "Ok" => {
                let a = self.expr(&c.args[0])?;
                Ok(E { s: a.s, ty: Ty::Res(Box::new(a.ty)), eff: a.eff })
            }
            "Err" => {
                let a = self.expr(&c.args[0])?;
                let iv = self.new_ivar();
                Ok(E { s: format!("(← throw (Fail.err {}))", a.s), ty: Ty::Res(Box::new(iv)), eff: true })
            }
            "cmp::max" | "cmp::min" | "std::cmp::max" | "std::cmp::min" | "max" | "min" => {
                let a = self.expr(&c.args[0])?;
                let b = self.expr(&c.args[1])?;
                let ty = self.unify(&a.ty, &b.ty)?;
                let f = if name.ends_with("max") { "max" } else { "min" };
                Ok(E { s: format!("({} {} {})", f, a.s, b.s), ty, eff: a.eff || b.eff })
            }
            "mem::size_of" | "size_of" | "std::mem::size_of" => {
                let t = match &last.arguments {
                    PathArguments::AngleBracketed(a) => match a.args.first() {
                        Some(GenericArgument::Type(t)) => t.clone(),
                        _ => return Err("size_of without a type".into()),
                    },
                    _ => return Err("size_of without a type".into()),
                };
                Ok(e(self.size_of(&t)?.to_string(), Ty::U(64)))
            }
            "mem::transmute" | "std::mem::transmute" | "transmute" => self.expr(&c.args[0]), // lifetime extension only
            "crate::transmute_entry_to_static" | "transmute_entry_to_static" => {
                // lifetime extension of a (key, value) pair
                let a = self.expr(&c.args[0])?;
                let b = self.expr(&c.args[1])?;
                Ok(E { s: format!("({}, {})", a.s, b.s), ty: Ty::Tuple(vec![a.ty, b.ty]), eff: a.eff || b.eff })
            }
            "Cow::Borrowed" | "Cow::Owned" if c.args.len() == 1 => self.expr(&c.args[0]),
            n if self.xcodec && f.path.segments.len() == 1 && n.ends_with("_decompress") && c.args.len() == 2 => {
                // `<codec>_decompress(data, out)`: the codec crate, external; it consumes its input through `Read` to the end and appends to `out`
                let codec = n.strip_suffix("_decompress").unwrap().to_string();
                let src = self.place_of(&c.args[0]).ok_or("codec input is not a place")?;
                let dst = self.place_of(&c.args[1]).ok_or("codec output is not a place")?;
                if self.resolve(&src.ty) != Ty::Src || self.resolve(&dst.ty) != Ty::Bytes { return Err("codec argument types".into()); }
                self.used_xdecompress = true;
                let cur = self.place_read(&src);
                let (body, s2, raw) = (self.fresh("body"), self.fresh("s"), self.fresh("raw"));
                self.pre.push(format!("let ({}, {}) := {}.readToEnd", body, s2, cur));
                let w = self.place_write(&src, &s2);
                self.pre.push(w);
                self.pre.push(format!("let {} ← liftDecompress (xdecompress \"{}\" {})", raw, codec, body));
                let dcur = self.place_read(&dst);
                let w2 = self.place_write(&dst, &format!("({} ++ {})", dcur, raw));
                self.pre.push(w2);
                Ok(E { s: "()".into(), ty: Ty::Res(Box::new(Ty::Unit)), eff: false })
            }
            n if self.xcodec && f.path.segments.len() == 1 && n.ends_with("_compress") && c.args.len() == 2 => {
                let codec = n.strip_suffix("_compress").unwrap().to_string();
                let d = self.expr(&c.args[0])?;
                let lvl = self.expr(&c.args[1])?;
                self.unify(&lvl.ty, &Ty::U(32))?;
                if self.resolve(&d.ty) != Ty::Bytes { return Err("codec argument types".into()); }
                self.used_xcompress = true;
                Ok(E { s: format!("(← liftCompress (xcompress \"{}\" {} {}))", codec, paren(&lvl.s), paren(&d.s)), ty: Ty::Res(Box::new(Ty::Bytes)), eff: true })
            }
            "Bound::Included" | "Bound::Excluded" if c.args.len() == 1 => {
                let a = self.expr(&c.args[0])?;
                let ctor = if name.ends_with("Included") { "included" } else { "excluded" };
                Ok(E { s: format!("(Bound.{} {})", ctor, paren(&a.s)), ty: Ty::Bound(Box::new(a.ty)), eff: a.eff })
            }
            "cast_slice_mut" | "cast_slice" | "bytemuck::cast_slice_mut" | "bytemuck::cast_slice" if c.args.len() == 1 => {
                // `cast_slice(_mut)::<_, T>(bytes)` over a content-free slice: how many `T` there are; panics unless the length is a multiple of `size_of::<T>()`
                let t = match &last.arguments {
                    PathArguments::AngleBracketed(a) => a.args.iter().filter_map(|g| match g { GenericArgument::Type(t) if !matches!(t, Type::Infer(_)) => Some(t.clone()), _ => None }).last().ok_or("cast_slice without a target type")?,
                    _ => return Err("cast_slice without a target type".into()),
                };
                let sz = self.size_of(&t)?;
                let a = self.expr(&c.args[0])?;
                if self.resolve(&a.ty) != Ty::Named("GhostLen".into()) { return Err("cast_slice of a slice with content".into()); }
                Ok(E { s: format!("(← castSliceLen {} {})", paren(&a.s), sz), ty: Ty::Named("GhostArr".into()), eff: true })
            }
            "Vec::new" => Ok(e("[]", Ty::Any)),
            "BinaryHeap::new" => Ok(e("[]", Ty::Heap(Box::new(Ty::Any)))),
            "Error::Merge" => Ok(e("RErr.merge", Ty::Named("RErr".into()))),
            "Vec::with_capacity" => {
                // capacity is not observable; the argument is still evaluated (it may overflow)
                let a = self.expr(&c.args[0])?;
                self.unify(&a.ty, &Ty::U(64))?;
                if a.eff { self.pre.push(format!("let _ := {}", a.s)); }
                Ok(e("[]", Ty::List(Box::new(Ty::Any))))
            }
            "SeekFrom::Start" => {
                let a = self.expr(&c.args[0])?;
                self.unify(&a.ty, &Ty::U(64))?;
                Ok(E { s: a.s, ty: Ty::Named("SeekFromStart".into()), eff: a.eff })
            }
            "CountWrite::new" if self.generics.get("CountWrite") == Some(&Ty::Sink) => self.expr(&c.args[0]),
            "compress" => {
                // `compress(codec, level, data)?` — external (a parameter of the generated module)
                if c.args.len() != 3 { return Err("compress arity".into()); }
                let ct = self.expr(&c.args[0])?;
                let lvl = self.expr(&c.args[1])?;
                self.unify(&lvl.ty, &Ty::U(32))?;
                let d = self.expr(&c.args[2])?;
                if self.resolve(&d.ty) != Ty::Bytes { return Err("compress of a non-byte slice".into()); }
                self.used_compress = true;
                Ok(E { s: format!("(← liftCompress (compress {} {} {}))", paren(&ct.s), paren(&lvl.s), paren(&d.s)), ty: Ty::Res(Box::new(Ty::Bytes)), eff: true })
            }
            "decompress" => {
                // `decompress(codec, reader.take(n), &mut buf)?` — the codec is external (a parameter of the
                // generated module): the body is what `take(n)` + `read_to_end` deliver, at most n bytes
                if c.args.len() != 3 { return Err("decompress arity".into()); }
                let ct = self.expr(&c.args[0])?;
                let (src_place, n) = match strip_ref(&c.args[1]) {
                    Expr::MethodCall(mc) if mc.method == "take" => {
                        let p = self.place_of(&mc.receiver).ok_or("decompress: reader is not a place")?;
                        let n = self.expr(&mc.args[0])?;
                        self.unify(&n.ty, &Ty::U(64))?;
                        (p, n)
                    }
                    _ => return Err("decompress: second argument is not `reader.take(n)`".into()),
                };
                let dst = self.place_of(&c.args[2]).ok_or("decompress: destination is not a place")?;
                if self.resolve(&src_place.ty) != Ty::Src || self.resolve(&dst.ty) != Ty::Bytes { return Err("decompress argument types".into()); }
                let cur = self.place_read(&src_place);
                let (body, s2) = (self.fresh("body"), self.fresh("s"));
                self.pre.push(format!("let ({}, {}) := {}.readUpTo {}", body, s2, cur, paren(&n.s)));
                let w = self.place_write(&src_place, &s2);
                self.pre.push(w);
                self.used_decompress = true;
                let raw = self.fresh("raw");
                self.pre.push(format!("let {} ← liftDecompress (decompress {} {})", raw, paren(&ct.s), body));
                // `decompress` appends to the destination buffer
                let dcur = self.place_read(&dst);
                let w2 = self.place_write(&dst, &format!("({} ++ {})", dcur, raw));
                self.pre.push(w2);
                Ok(E { s: "()".into(), ty: Ty::Res(Box::new(Ty::Unit)), eff: false })
            }
            "SeekFrom::End" => {
                let a = self.expr(&c.args[0])?;
                self.unify(&a.ty, &Ty::I(64))?;
                Ok(E { s: a.s, ty: Ty::Named("SeekFromEnd".into()), eff: a.eff })
            }
            _ => {
                // a previously translated function (free or `Type::assoc` / `Self::assoc`)
                let key = if f.path.segments.len() == 2 {
                    let t = f.path.segments[0].ident.to_string();
                    let t = if t == "Self" { self.self_ty.clone().ok_or("Self outside impl")? } else { t };
                    format!("{}.{}", t, last.ident)
                } else {
                    name.clone()
                };
                let sig = self.w.fns.get(&key).cloned().ok_or_else(|| format!("call of `{}`: not a translated function", name))?;
                let args: Vec<&Expr> = c.args.iter().collect();
                self.user_call(&sig, None, &args)
            }
        }
    }

    /// call of a translated function; `&mut` arguments are written back through pre-statements
    fn user_call(&mut self, sig: &FnSig, recv: Option<&Expr>, args: &[&Expr]) -> R<E> {
        let mut argv: Vec<String> = vec![];
        let mut backs: Vec<Place> = vec![];
        let mut all: Vec<(&Expr, (Ty, bool))> = vec![];
        if let Some(r) = recv {
            all.push((r, (Ty::Named(self.self_ty.clone().unwrap_or_default()), sig.self_mut)));
        }
        let skip = if sig.has_self { 1 } else { 0 };
        for (a, p) in args.iter().zip(sig.params.iter().skip(skip)) {
            all.push((a, p.clone()));
        }
        for (a, (pty, by_mut)) in &all {
            if let (Ty::FnOnce1(at, rt), Expr::Closure(cl)) = (pty, strip_ref(a)) {
                // a pure closure over a by-value argument: `fun x => do pure body`
                if cl.inputs.len() != 1 { return Err("closure arity".into()); }
                self.vars.push(BTreeMap::new());
                let mut al = BTreeMap::new();
                let pat = self.pattern(&cl.inputs[0], at, None, &mut al);
                self.mut_pat_binds.clear();
                let npre = self.pre.len();
                let body = pat.and_then(|p| self.expr(&cl.body).map(|b| (p, b)));
                self.vars.pop();
                let (pat, body) = body?;
                if self.pre.len() != npre { return Err("closure body with statements".into()); }
                if self.resolve(&body.ty) != **rt { return Err(format!("closure returns {:?}, expected {:?}", body.ty, rt)); }
                argv.push(format!("(fun {} => do pure {})", pat, paren(&body.s)));
                continue;
            }
            if let (Ty::FnMut1(at, rt), Expr::Closure(cl)) = (pty, strip_ref(a)) {
                argv.push(self.closure_arg(cl, at, rt)?);
                continue;
            }
            let v = self.expr(a)?;
            if self.is_int(pty) {
                self.unify(&v.ty, pty)?;
            }
            argv.push(paren(&v.s));
            if *by_mut {
                backs.push(self.place_of(a).ok_or("&mut argument is not a place")?);
            }
        }
        if sig.uses_w {
            return Err("call of a function over the abstract writer".into());
        }
        if sig.uses_merge {
            self.used_merge = true;
            argv.insert(0, "merge".into());
        }
        if sig.uses_step {
            self.used_step = true;
            argv.insert(0, "step".into());
        }
        if sig.uses_decompress {
            self.used_decompress = true;
            argv.insert(0, "decompress".into());
        }
        if sig.uses_compress {
            self.used_compress = true;
            argv.insert(0, "compress".into());
        }
        // fully qualified: inside `def T.f` the namespace `T` is open and a field of `T` may carry the callee's name
        if sig.rec_self {
            argv.push("fuel".into());
        }
        // externals of a translated callee become externals of the caller, handed on in front
        for (n, t) in sig.externs.iter().rev() {
            if !self.used_externs.iter().any(|(m, _)| m == n) { self.used_externs.push((n.clone(), t.clone())); }
            argv.insert(0, n.clone());
        }
        let call = if let Some(t) = &sig.ext_ty {
            if !self.used_externs.iter().any(|(n, _)| *n == sig.lean) { self.used_externs.push((sig.lean.clone(), t.clone())); }
            format!("{} {}", sig.lean, argv.join(" "))
        } else { format!("Grenad.Gen.{} {}", sig.lean, argv.join(" ")) };
        let ret_ty = if sig.ret_is_res { Ty::Res(Box::new(sig.ret.clone())) } else { sig.ret.clone() };
        if backs.is_empty() {
            return Ok(E { s: format!("(← {})", call), ty: ret_ty, eff: true });
        }
        // let (r, m1, m2) ← call; m1-place := m1; ...
        let r = self.fresh("r");
        let mut names = vec![];
        if sig.ret != Ty::Unit {
            names.push(r.clone());
        }
        let mut writes = vec![];
        for b in &backs {
            let n = self.fresh("m");
            writes.push(self.place_write(b, &n));
            names.push(n);
        }
        let pat = if names.len() == 1 { names[0].clone() } else { format!("({})", names.join(", ")) };
        self.pre.push(format!("let {} ← {}", pat, call));
        self.pre.extend(writes);
        if let Some(wrapper) = &sig.view {
            // the returned wrapper: its `as_ref()` is a field of the receiver, and dropping it runs `on_drop`
            let (target, field, meth) = self.w.drop_views.get(wrapper).cloned()
                .ok_or_else(|| format!("call returning the wrapper `{}`, whose AsRef/Drop impls were not checked", wrapper))?;
            let (field, on_drop) = (&field, &format!("{}.{}", target, meth));
            let b = &backs[0];
            if !b.fields.is_empty() { return Err("wrapper over a field place".into()); }
            let cur = self.place_read(b);
            let tn = match &sig.params[0].0 { Ty::Named(n) => n.clone(), _ => return Err("wrapper receiver".into()) };
            let fty = self.w.structs.get(&tn).and_then(|fs| fs.iter().find(|(f, _)| f == field)).map(|(_, t)| t.clone()).ok_or("exposed field not found")?;
            let callee = self.w.fns.get(on_drop).map(|f| f.lean.clone()).ok_or_else(|| format!("drop calls `{}`: not a translated function", on_drop))?;
            self.pending_drops.push((cur.clone(), callee));
            return Ok(E { s: format!("{}.{}", cur, field), ty: fty, eff: false });
        }
        Ok(E { s: if sig.ret == Ty::Unit { "()".into() } else { r }, ty: ret_ty, eff: false })
    }

    /// a closure `|c| c.method(args)` handed to a parameter `F: FnMut(&mut T) -> U`, `method` a translated
    /// `&mut self` method of `T` returning `U`: the Lean function `fun c => T.method c args`
    fn closure_arg(&mut self, cl: &ExprClosure, at: &Ty, rt: &Ty) -> R<String> {
        if cl.inputs.len() != 1 { return Err("closure arity".into()); }
        let cname = match &cl.inputs[0] { Pat::Ident(i) => i.ident.to_string(), _ => return Err("closure parameter pattern".into()) };
        let mc = match &*cl.body { Expr::MethodCall(mc) => mc, _ => return Err("closure body is not a method call on its parameter".into()) };
        match &*mc.receiver { Expr::Path(p) if p.path.is_ident(&cname) => {}, _ => return Err("closure body is not a method call on its parameter".into()) }
        let tn = match at { Ty::Named(n) => n.clone(), o => return Err(format!("closure over {:?}", o)) };
        let sig = self.w.fns.get(&format!("{}.{}", tn, mc.method)).cloned().ok_or_else(|| format!("closure calls `{}.{}`: not a translated function", tn, mc.method))?;
        if !sig.has_self || !sig.self_mut || sig.uses_step || sig.uses_w || sig.uses_compress || sig.uses_decompress || sig.params.iter().skip(1).any(|(_, m)| *m) {
            return Err("closure callee shape".into());
        }
        if sig.ret != *rt { return Err(format!("closure returns {:?}, expected {:?}", sig.ret, rt)); }
        let mut argv = vec![];
        for (a, (pty, _)) in mc.args.iter().zip(sig.params.iter().skip(1)) {
            let v = self.expr(a)?;
            if v.eff { return Err("effectful closure argument".into()); }
            if self.is_int(pty) { self.unify(&v.ty, pty)?; }
            if mentions_ident(a, &cname) { return Err("closure argument mentions the closure parameter".into()); }
            // the closure may run later than it is built: what it captures must not change in between
            if self.local_muts.iter().any(|m| mentions_ident(a, m)) { return Err("closure captures a mutable variable".into()); }
            argv.push(paren(&v.s));
        }
        let c = lean_ident(&cname);
        Ok(format!("(fun {} => Grenad.Gen.{} {} {})", c, sig.lean, c, argv.join(" ")).replace("  ", " ").replace(" )", ")"))
    }

    fn method(&mut self, m: &ExprMethodCall) -> R<E> {
        let name = m.method.to_string();
        let args: Vec<&Expr> = m.args.iter().collect();
        // ---- idioms of src/block.rs, matched on their token text (anything else is not guessed)
        let txt = m.to_token_stream().to_string().replace(' ', "");
        // `bytes.try_into().map(u32::from_be_bytes).unwrap()`: a 4-byte slice as a big-endian u32
        for (suffix, n) in [(".try_into().map(u32::from_be_bytes).unwrap()", 4u32), (".try_into().map(u64::from_be_bytes).unwrap()", 8)] {
            if let Some(rest) = txt.strip_suffix(suffix) {
                if let Ok(inner) = syn::parse_str::<Expr>(rest) {
                    let a = self.expr(&inner)?;
                    if self.resolve(&a.ty) != Ty::Bytes { return Err("from_be_bytes of a non-byte slice".into()); }
                    return Ok(E { s: format!("(← beValueN {} {})", n, paren(&a.s)), ty: Ty::U(n * 8), eff: true });
                }
            }
        }
        // `buf.align_to::<T>().1.len()` on a buffer allocated with T's alignment: how many whole T fit
        if let Some(pos) = txt.find(".align_to::<") {
            if let Some(tname) = txt[pos + ".align_to::<".len()..].strip_suffix(">().1.len()") {
                if let (Ok(r), Ok(t)) = (syn::parse_str::<Expr>(&txt[..pos]), syn::parse_str::<Type>(tname)) {
                    let sz = self.size_of(&t)?;
                    let r = self.expr(&r)?;
                    let len = match self.resolve(&r.ty) {
                        Ty::Named(n) => match self.w.slice_len.get(&n) { Some(f) => format!("{}.{}", r.s, f), None => return Err("align_to on a struct whose Deref was not checked".into()) },
                        Ty::Bytes => format!("{}.length", r.s),
                        o => return Err(format!("align_to on {:?}", o)),
                    };
                    return Ok(E { s: format!("({} / {})", len, sz), ty: Ty::U(64), eff: r.eff });
                }
            }
        }
        // `bytes.chunks_exact(N).filter_map(|s| TryInto::try_into(s).ok()).map(u64::from_be_bytes)`
        if let Some(pos) = txt.find(".chunks_exact(") {
            if txt.ends_with(").filter_map(|s|TryInto::try_into(s).ok()).map(u64::from_be_bytes)") {
                let recv_txt = &txt[..pos];
                let arg_txt = &txt[pos + ".chunks_exact(".len()..txt.len() - ").filter_map(|s|TryInto::try_into(s).ok()).map(u64::from_be_bytes)".len()];
                if let (Ok(r), Ok(n)) = (syn::parse_str::<Expr>(recv_txt), syn::parse_str::<Expr>(arg_txt)) {
                    let r = self.expr(&r)?;
                    let n = self.expr(&n)?;
                    if self.resolve(&r.ty) != Ty::Bytes { return Err("chunks_exact of a non-byte slice".into()); }
                    if n.s != "8" { return Err("chunks_exact(n) with n != size_of::<u64>()".into()); }
                    return Ok(E { s: format!("(chunksBE 8 {})", paren(&r.s)), ty: Ty::List(Box::new(Ty::U(64))), eff: r.eff });
                }
            }
        }
        // `PLACE.as_mut().map(Type::method)`, `method` a translated `&mut self` method: run on the content, written back
        if name == "map" && m.args.len() == 1 {
            if let (Expr::MethodCall(am), Expr::Path(pth)) = (&*m.receiver, &m.args[0]) {
                if am.method == "as_mut" && am.args.is_empty() && pth.path.segments.len() == 2 {
                    if let Some(pl) = self.place_of(&am.receiver) {
                        if let Ty::Opt(t) = self.resolve(&pl.ty) {
                            let key = format!("{}.{}", pth.path.segments[0].ident, pth.path.segments[1].ident);
                            let sig = self.w.fns.get(&key).cloned().ok_or_else(|| format!("as_mut().map({}): not a translated function", key))?;
                            if !sig.has_self || !sig.self_mut || sig.params.len() != 1 || sig.params[0].0 != *t || sig.uses_step || sig.uses_w || sig.uses_compress || sig.uses_decompress || sig.ret_is_res {
                                return Err("as_mut().map callee shape".into());
                            }
                            let cur = self.place_read(&pl);
                            let (r, o) = (self.fresh("r"), self.fresh("o"));
                            self.pre.push(format!("let ({}, {}) ← optMapMut {} (fun x => Grenad.Gen.{} x)", r, o, cur, sig.lean));
                            let w = self.place_write(&pl, &o);
                            self.pre.push(w);
                            return Ok(E { s: r, ty: Ty::Opt(Box::new(sig.ret.clone())), eff: false });
                        }
                    }
                }
            }
        }
        // `head.is_empty()` on the front part of a list walked with `split_last_mut`
        if let Expr::Path(rp) = strip_ref(&m.receiver) {
            if let Some((_, lo, hi)) = self.heads.get(&path_str(&rp.path)).cloned() {
                return match name.as_str() {
                    "is_empty" => Ok(E { s: format!("(decide ({} ≤ {}))", hi, lo), ty: Ty::Bool, eff: false }),
                    "len" => Ok(E { s: format!("({} - {})", hi, lo), ty: Ty::U(64), eff: false }),
                    o => Err(format!("`{}` on a `split_last_mut` head", o)),
                };
            }
        }
        // the user's merge function: `self.merge_function.merge(key, &values)`
        if name == "merge" && args.len() == 2 && m.receiver.to_token_stream().to_string().replace(' ', "") == "self.merge_function" {
            let k = self.expr(args[0])?;
            let v = self.expr(args[1])?;
            if self.resolve(&k.ty) != Ty::Bytes || self.resolve(&v.ty) != Ty::List(Box::new(Ty::Bytes)) || k.eff || v.eff { return Err("merge call argument types".into()); }
            self.used_merge = true;
            return Ok(E { s: format!("(merge {} {})", paren(&k.s), paren(&v.s)), ty: Ty::Named("MergeRes".into()), eff: false });
        }
        // `BinaryHeap` by its contract
        if let Some(p) = self.place_of(&m.receiver) {
            if let Ty::Heap(et) = self.resolve(&p.ty) {
                let cur = self.place_read(&p);
                let cmp = |this: &mut Self| -> R<String> {
                    let tn = match &*et { Ty::Named(n) => n.clone(), o => return Err(format!("heap of {:?}", o)) };
                    let sig = this.w.fns.get(&format!("{}.cmp", tn)).cloned().ok_or_else(|| format!("heap order `{}::cmp` is not a translated function", tn))?;
                    if sig.uses_step { this.used_step = true; Ok(format!("(Grenad.Gen.{} step)", sig.lean)) } else { Ok(format!("Grenad.Gen.{}", sig.lean)) }
                };
                match name.as_str() {
                    "pop" => {
                        let c = cmp(self)?;
                        let (r, h) = (self.fresh("r"), self.fresh("h"));
                        self.pre.push(format!("let ({}, {}) ← heapPopM {} {}", r, h, c, cur));
                        let w = self.place_write(&p, &h);
                        self.pre.push(w);
                        return Ok(E { s: r, ty: Ty::Opt(et), eff: false });
                    }
                    "peek" => {
                        let c = cmp(self)?;
                        return Ok(E { s: format!("(← heapPeekM {} {})", c, cur), ty: Ty::Opt(et), eff: true });
                    }
                    "push" => {
                        let a = self.expr(args[0])?;
                        let w = self.place_write(&p, &format!("({} ++ [{}])", cur, a.s));
                        self.pre.push(w);
                        return Ok(e("()", Ty::Unit));
                    }
                    o => return Err(format!("`{}` on a BinaryHeap", o)),
                }
            }
        }
        // user methods on self / translated structs
        if let Some(p) = self.place_of(&m.receiver) {
            if let Ty::Named(sn) = self.resolve(&p.ty) {
                if let Some(sig) = self.w.fns.get(&format!("{}.{}", sn, name)).cloned() {
                    return self.user_call(&sig, Some(&m.receiver), &args);
                }
            }
        }
        // mutating calls on places
        if let Some(p) = self.place_of(&m.receiver) {
            let cur = self.place_read(&p);
            match (self.resolve(&p.ty), name.as_str()) {
                (Ty::Bytes | Ty::List(_), "clear") => {
                    let w = self.place_write(&p, "[]");
                    self.pre.push(w);
                    return Ok(e("()", Ty::Unit));
                }
                (t @ (Ty::Bytes | Ty::List(_)), "push") => {
                    let a = self.expr(args[0])?;
                    let v = if t == Ty::Bytes {
                        self.unify(&a.ty, &Ty::U(8))?;
                        format!("UInt8.ofNat {}", a.s)
                    } else {
                        if let Ty::List(et) = &t {
                            if self.is_int(et) { self.unify(&a.ty, et)?; }
                        }
                        a.s
                    };
                    let w = self.place_write(&p, &format!("({} ++ [{}])", cur, v));
                    self.pre.push(w);
                    return Ok(e("()", Ty::Unit));
                }
                (Ty::Bytes | Ty::List(_), "pop") => {
                    let w = self.place_write(&p, &format!("{}.dropLast", cur));
                    self.pre.push(w);
                    return Ok(e("()", Ty::Unit)); // the popped value is not used in the subset
                }
                (Ty::Bytes | Ty::List(_), "truncate") => {
                    let a = self.expr(args[0])?;
                    self.unify(&a.ty, &Ty::U(64))?;
                    let w = self.place_write(&p, &format!("({}.take {})", cur, a.s));
                    self.pre.push(w);
                    return Ok(e("()", Ty::Unit));
                }
                (Ty::Bytes, "extend_from_slice") => {
                    let a = self.expr(args[0])?;
                    if self.resolve(&a.ty) != Ty::Bytes {
                        return Err("extend_from_slice of a non-byte slice".into());
                    }
                    let w = self.place_write(&p, &format!("({} ++ {})", cur, a.s));
                    self.pre.push(w);
                    return Ok(e("()", Ty::Unit));
                }
                (Ty::List(t), "extend") => {
                    let a = self.expr(args[0])?;
                    if self.resolve(&a.ty) != Ty::List(t.clone()) { return Err("extend with a different element type".into()); }
                    let w = self.place_write(&p, &format!("({} ++ {})", cur, a.s));
                    self.pre.push(w);
                    return Ok(e("()", Ty::Unit));
                }
                (Ty::Bytes, "extend") => {
                    // the one idiom of block_writer.rs: xs.iter().copied().flat_map(u64::to_be_bytes)
                    let txt = args[0].to_token_stream().to_string().replace(' ', "");
                    if let Some(rest) = txt.strip_suffix(".iter().copied().flat_map(u64::to_be_bytes)") {
                        let inner: Expr = syn::parse_str(rest).map_err(|e| e.to_string())?;
                        let a = self.expr(&inner)?;
                        if self.resolve(&a.ty) != Ty::List(Box::new(Ty::U(64))) {
                            return Err("flat_map(u64::to_be_bytes) over a non-u64 list".into());
                        }
                        let w = self.place_write(&p, &format!("({} ++ {}.flatMap (beBytes 8))", cur, a.s));
                        self.pre.push(w);
                        return Ok(e("()", Ty::Unit));
                    }
                    return Err(format!("extend({}) is outside the subset", short(&txt)));
                }
                (Ty::Cursor, "move_on_first" | "move_on_last" | "move_on_next" | "move_on_prev" | "current"
                    | "move_on_key_greater_than_or_equal_to" | "move_on_key_lower_than_or_equal_to") => {
                    // a call on the external cursor: one application of `step`, the new cursor written back
                    let op = match name.as_str() {
                        "move_on_first" => "CurOp.first".to_string(),
                        "move_on_last" => "CurOp.last".to_string(),
                        "move_on_next" => "CurOp.next".to_string(),
                        "move_on_prev" => "CurOp.prev".to_string(),
                        "current" => "CurOp.current".to_string(),
                        other => {
                            let a = self.expr(args[0])?;
                            if self.resolve(&a.ty) != Ty::Bytes { return Err("cursor seek with a non-byte key".into()); }
                            if a.eff { return Err("effectful cursor seek key".into()); }
                            format!("(CurOp.{} {})", if other.contains("greater") { "ge" } else { "le" }, paren(&a.s))
                        }
                    };
                    self.used_step = true;
                    let (c2, r) = (self.fresh("c"), self.fresh("r"));
                    self.pre.push(format!("let ({}, {}) := step {} {}", c2, r, cur, op));
                    // `current()` through a shared reference reads only: nothing to write back
                    let root_mut = self.muts.iter().any(|m| *m == lean_ident(&p.root)) || self.local_muts.contains(&p.root);
                    if !(name == "current" && !root_mut) {
                        let w = self.place_write(&p, &c2);
                        self.pre.push(w);
                    }
                    let inner = Ty::Opt(Box::new(Ty::Tuple(vec![Ty::Bytes, Ty::Bytes])));
                    // `current()` returns the Option itself, the moves a `Result` of it
                    let ty = if name == "current" { inner } else { Ty::Res(Box::new(inner)) };
                    return Ok(E { s: format!("(← liftCur {})", r), ty, eff: true });
                }
                (Ty::ExtW, "write") => {
                    // `inner.write(buf)` on the abstract writer: it may take fewer bytes than offered, or fail
                    let a = self.expr(args[0])?;
                    if self.resolve(&a.ty) != Ty::Bytes { return Err("write of a non-byte slice".into()); }
                    if a.eff { return Err("effectful write argument".into()); }
                    self.used_wwrite = true;
                    let (w2, r) = (self.fresh("w"), self.fresh("r"));
                    self.pre.push(format!("let ({}, {}) := wwrite {} {}", w2, r, cur, paren(&a.s)));
                    let w = self.place_write(&p, &w2);
                    self.pre.push(w);
                    return Ok(E { s: format!("(← liftIo {})", r), ty: Ty::Res(Box::new(Ty::U(64))), eff: true });
                }
                (Ty::ExtW, "flush") => {
                    self.used_wflush = true;
                    let (w2, r) = (self.fresh("w"), self.fresh("r"));
                    self.pre.push(format!("let ({}, {}) := wflush {}", w2, r, cur));
                    let w = self.place_write(&p, &w2);
                    self.pre.push(w);
                    return Ok(E { s: format!("(← liftIo {})", r), ty: Ty::Res(Box::new(Ty::Unit)), eff: true });
                }
                (Ty::Src, "seek") => {
                    let a = self.expr(args[0])?;
                    if a.ty == Ty::Named("SeekFromStart".into()) {
                        let (r, s2) = (self.fresh("r"), self.fresh("s"));
                        self.pre.push(format!("let ({}, {}) := {}.seekStart {}", r, s2, cur, paren(&a.s)));
                        let w = self.place_write(&p, &s2);
                        self.pre.push(w);
                        return Ok(E { s: format!("(← liftIo {})", r), ty: Ty::Res(Box::new(Ty::U(64))), eff: true });
                    }
                    if a.ty != Ty::Named("SeekFromEnd".into()) {
                        return Err("seek other than SeekFrom::End".into());
                    }
                    let (r, s2) = (self.fresh("r"), self.fresh("s"));
                    self.pre.push(format!("let ({}, {}) := {}.seekEnd {}", r, s2, cur, paren(&a.s)));
                    let w = self.place_write(&p, &s2);
                    self.pre.push(w);
                    return Ok(E { s: format!("(← liftIo {})", r), ty: Ty::Res(Box::new(Ty::U(64))), eff: true });
                }
                (Ty::Src, "read_to_end") => {
                    let dst = self.place_of(args[0]).ok_or("read_to_end destination is not a place")?;
                    if self.resolve(&dst.ty) != Ty::Bytes { return Err("read_to_end into a non-byte buffer".into()); }
                    let (body, s2) = (self.fresh("body"), self.fresh("s"));
                    self.pre.push(format!("let ({}, {}) := {}.readToEnd", body, s2, cur));
                    let w = self.place_write(&p, &s2);
                    self.pre.push(w);
                    let dcur = self.place_read(&dst);
                    let w2 = self.place_write(&dst, &format!("({} ++ {})", dcur, body));
                    self.pre.push(w2);
                    return Ok(E { s: format!("{}.length", body), ty: Ty::Res(Box::new(Ty::U(64))), eff: false });
                }
                (Ty::Src, "read_u8" | "read_u16" | "read_u32" | "read_u64") => {
                    let n: u32 = name[6..].parse::<u32>().unwrap() / 8;
                    let endian = turbofish(m).unwrap_or("LittleEndian".into());
                    let f = if endian == "BigEndian" { "readBE" } else { "readLE" };
                    let (r, s2) = (self.fresh("r"), self.fresh("s"));
                    self.pre.push(format!("let ({}, {}) := {}.{} {}", r, s2, cur, f, n));
                    let w = self.place_write(&p, &s2);
                    self.pre.push(w);
                    return Ok(E { s: format!("(← liftIo {})", r), ty: Ty::Res(Box::new(Ty::U(n * 8))), eff: true });
                }
                (Ty::Sink, "count") => {
                    // `CountWrite::count()` over an all-accepting sink: the bytes written so far (SrcTie.CountWrite)
                    return Ok(E { s: format!("{}.length", cur), ty: Ty::U(64), eff: false });
                }
                (Ty::Sink, "into_inner") => {
                    return Ok(E { s: cur.clone(), ty: Ty::Res(Box::new(Ty::Sink)), eff: false });
                }
                (Ty::Sink, "write_all") => {
                    let a = self.expr(args[0])?;
                    if self.resolve(&a.ty) != Ty::Bytes { return Err("write_all of a non-byte slice".into()); }
                    let w = self.place_write(&p, &format!("({} ++ {})", cur, a.s));
                    self.pre.push(w);
                    return Ok(E { s: "()".into(), ty: Ty::Res(Box::new(Ty::Unit)), eff: a.eff });
                }
                (Ty::Sink, "write_u8" | "write_u16" | "write_u32" | "write_u64") => {
                    let n: u32 = name[7..].parse::<u32>().unwrap() / 8;
                    let endian = turbofish(m).unwrap_or("LittleEndian".into());
                    let f = if endian == "BigEndian" { "beBytes" } else { "leBytes" };
                    let a = self.expr(args[0])?;
                    self.unify(&a.ty, &Ty::U(n * 8))?;
                    let w = self.place_write(&p, &format!("({} ++ {} {} {})", cur, f, n, paren(&a.s)));
                    self.pre.push(w);
                    return Ok(E { s: "()".into(), ty: Ty::Res(Box::new(Ty::Unit)), eff: a.eff });
                }
                _ => {}
            }
        }
        // pure methods
        let recv = self.expr(&m.receiver)?;
        let rt = self.resolve(&recv.ty);
        let eff = recv.eff;
        if let (Ty::Named(n), "len") = (&rt, name.as_str()) {
            if let Some(f) = self.w.slice_len.get(n) {
                return Ok(E { s: format!("{}.{}", recv.s, f), ty: Ty::U(64), eff });
            }
        }
        // `&self` methods of translated structs on a receiver that is not a place (`x.borrow().f(..)`)
        if let Ty::Named(sn) = &rt {
            if let Some(sig) = self.w.fns.get(&format!("{}.{}", sn, name)).cloned() {
                if sig.self_mut || sig.params.iter().any(|(_, m)| *m) {
                    return Err(format!("`&mut` method `{}` on a receiver that is not a place", name));
                }
                let mut argv = vec![paren(&recv.s)];
                for (a, (pty, _)) in args.iter().zip(sig.params.iter().skip(1)) {
                    let v = self.expr(a)?;
                    if self.is_int(pty) { self.unify(&v.ty, pty)?; }
                    argv.push(paren(&v.s));
                }
                if sig.uses_step {
                    self.used_step = true;
                    argv.insert(0, "step".into());
                }
                return Ok(E { s: format!("(← Grenad.Gen.{} {})", sig.lean, argv.join(" ")), ty: sig.ret.clone(), eff: true });
            }
        }
        if rt == Ty::Named("GhostLen".into()) {
            return match name.as_str() {
                "len" => Ok(E { s: recv.s, ty: Ty::U(64), eff }),
                "copy_from_slice" => {
                    let a = self.expr(args[0])?;
                    let alen = match self.resolve(&a.ty) { Ty::Bytes => format!("{}.length", paren(&a.s)), Ty::Named(n) if n == "GhostLen" => a.s.clone(), o => return Err(format!("copy_from_slice of {:?}", o)) };
                    Ok(E { s: format!("(← copyLenCheck {} {})", paren(&recv.s), paren(&alen)), ty: Ty::Unit, eff: true })
                }
                o => Err(format!("`{}` on a content-free slice", o)),
            };
        }
        match (rt.clone(), name.as_str()) {
            (Ty::Bytes | Ty::List(_), "len") => Ok(E { s: format!("{}.length", paren(&recv.s)), ty: Ty::U(64), eff }),
            (Ty::Bytes | Ty::List(_), "is_empty") => Ok(E { s: format!("{}.isEmpty", paren(&recv.s)), ty: Ty::Bool, eff }),
            (Ty::Bytes | Ty::List(_), "as_slice" | "as_ref" | "to_vec" | "clone" | "to_owned" | "iter") => Ok(recv),
            (Ty::Opt(_), "as_ref" | "clone" | "as_deref" | "copied" | "cloned") => Ok(recv),
            (Ty::U(_), "get" | "clone") => Ok(recv), // NonZeroUsize::get
            (Ty::U(_) | Ty::IntVar(_), "min" | "max") => {
                let a = self.expr(args[0])?;
                let ty = self.unify(&recv.ty, &a.ty)?;
                let f = if name == "min" { "min" } else { "max" };
                Ok(E { s: format!("({} {} {})", f, recv.s, a.s), ty, eff: eff || a.eff })
            }
            (Ty::U(w), "checked_add") => {
                let a = self.expr(args[0])?;
                self.unify(&a.ty, &rt)?;
                Ok(E { s: format!("(checkedAdd {} {} {})", w, recv.s, a.s), ty: Ty::Opt(Box::new(rt)), eff: eff || a.eff })
            }
            (Ty::U(_), "div_ceil") => {
                let a = self.expr(args[0])?;
                self.unify(&a.ty, &rt)?;
                Ok(E { s: format!("(← divCeil {} {})", recv.s, a.s), ty: rt, eff: true })
            }
            (Ty::U(w), "to_be_bytes" | "to_le_bytes") => {
                let f = if name == "to_be_bytes" { "beBytes" } else { "leBytes" };
                Ok(E { s: format!("({} {} {})", f, w / 8, recv.s), ty: Ty::Bytes, eff })
            }
            (Ty::U(_), "into") => {
                // lossless widening `u32 -> u64`: the target width comes from the context
                let iv = self.new_ivar();
                Ok(E { s: recv.s, ty: iv, eff })
            }
            (Ty::U(_), "try_into") => {
                // `x.try_into().unwrap()` is resolved by the annotated type of the enclosing let
                Ok(E { s: recv.s, ty: Ty::Named("TryInto".into()), eff })
            }
            (Ty::Named(n), "unwrap") if n == "TryInto" => Ok(E { s: recv.s, ty: Ty::Named("TryIntoUnwrapped".into()), eff }),
            (Ty::Opt(t), "unwrap") => Ok(E { s: format!("(← unwrap {})", recv.s), ty: *t, eff: true }),
            (Ty::Opt(t), "ok_or") => {
                let a = self.expr(args[0])?;
                Ok(E { s: format!("(← okOr {} {})", recv.s, paren(&a.s)), ty: Ty::Res(t), eff: true })
            }
            (Ty::Opt(t), "is_some") => { let _ = t; Ok(E { s: format!("{}.isSome", paren(&recv.s)), ty: Ty::Bool, eff }) }
            (Ty::Opt(t), "is_none") => { let _ = t; Ok(E { s: format!("{}.isNone", paren(&recv.s)), ty: Ty::Bool, eff }) }
            (Ty::Res(_), "map") if matches!(args[0], Expr::Path(p) if p.path.is_ident("drop")) => {
                // the value is discarded; evaluating it has already happened
                if recv.eff { self.pre.push(format!("let _ := {}", recv.s)); }
                Ok(E { s: "()".into(), ty: Ty::Res(Box::new(Ty::Unit)), eff: false })
            }
            (Ty::Res(t), "map") if matches!(args[0], Expr::Path(p) if p.path.is_ident("Some")) => {
                Ok(E { s: format!("(Option.some {})", recv.s), ty: Ty::Res(Box::new(Ty::Opt(t))), eff })
            }
            (Ty::Res(t), "map") if matches!(args[0], Expr::Closure(_)) => {
                // `result.map(|x| body)`: errors travel in the monad, the closure runs on the value
                let c = match args[0] { Expr::Closure(c) => c, _ => unreachable!() };
                if c.inputs.len() != 1 { return Err("closure arity".into()); }
                let tmp = self.fresh("v");
                self.pre.push(format!("let {} := {}", tmp, recv.s));
                self.vars.push(BTreeMap::new());
                let mut al = BTreeMap::new();
                let pat = self.pattern(&c.inputs[0], &t, None, &mut al);
                self.mut_pat_binds.clear();
                let r = pat.and_then(|p| { self.pre.push(format!("let {} := {}", p, tmp)); self.expr(&c.body) });
                self.vars.pop();
                let body = r?;
                Ok(E { s: body.s, ty: Ty::Res(Box::new(body.ty)), eff: body.eff })
            }
            // the error type changes, the value does not: errors travel in the monad
            (Ty::Res(_), "map_err") if matches!(args[0], Expr::Path(_)) => Ok(recv),
            (Ty::Opt(t), "filter") => {
                match args[0] {
                    Expr::Closure(c) if c.inputs.len() == 1 => {
                        self.vars.push(BTreeMap::new());
                        let mut al = BTreeMap::new();
                        let pat = self.pattern(&c.inputs[0], &t, None, &mut al);
                        self.mut_pat_binds.clear();
                        let body = pat.and_then(|p| self.cond(&c.body).map(|b| (p, b)));
                        self.vars.pop();
                        let (pat, body) = body?;
                        if body.eff { return Err("effectful filter predicate".into()); }
                        Ok(E { s: format!("({}.filter (fun {} => {}))", paren(&recv.s), pat, body.s), ty: Ty::Opt(t), eff })
                    }
                    _ => Err("Option::filter argument".into()),
                }
            }
            (Ty::Opt(t), "map" | "and_then") if matches!(args[0], Expr::Path(p) if p.path.segments.len() == 2 && !path_str(&p.path).ends_with("as_ref")) => {
                // `opt.map(Type::f)` / `opt.and_then(Type::f)`, `f` a translated function of the content taken by value or `&self`
                let pth = match args[0] { Expr::Path(p) => p, _ => unreachable!() };
                let key = format!("{}.{}", pth.path.segments[0].ident, pth.path.segments[1].ident);
                let sig = self.w.fns.get(&key).cloned().ok_or_else(|| format!("Option::{}({}): not a translated function", name, key))?;
                if sig.params.len() != 1 || sig.params[0].1 || sig.params[0].0 != *t || sig.uses_step || sig.uses_w || sig.uses_compress || sig.uses_decompress || sig.ret_is_res {
                    return Err("Option::map callee shape".into());
                }
                if name == "map" {
                    Ok(E { s: format!("(← optMapM {} (fun x => Grenad.Gen.{} x))", paren(&recv.s), sig.lean), ty: Ty::Opt(Box::new(sig.ret.clone())), eff: true })
                } else {
                    if !matches!(sig.ret, Ty::Opt(_)) { return Err("and_then callee does not return an Option".into()); }
                    Ok(E { s: format!("(← optBindM {} (fun x => Grenad.Gen.{} x))", paren(&recv.s), sig.lean), ty: sig.ret.clone(), eff: true })
                }
            }
            (Ty::Res(t), "map") if matches!(args[0], Expr::Path(_)) => {
                // `result.map(Type::f)`, `f` a translated by-value function of one argument: errors travel in the monad
                let pth = match args[0] { Expr::Path(p) => p, _ => unreachable!() };
                if pth.path.segments.len() != 2 { return Err("Result::map argument".into()); }
                let key = format!("{}.{}", pth.path.segments[0].ident, pth.path.segments[1].ident);
                let sig = self.w.fns.get(&key).cloned().ok_or_else(|| format!("Result::map({}): not a translated function", key))?;
                if sig.params.len() != 1 || sig.params[0].1 || sig.params[0].0 != *t || sig.uses_step || sig.uses_w || sig.uses_compress || sig.uses_decompress || sig.ret_is_res {
                    return Err("Result::map callee shape".into());
                }
                Ok(E { s: format!("(← Grenad.Gen.{} {})", sig.lean, paren(&recv.s)), ty: Ty::Res(Box::new(sig.ret.clone())), eff: true })
            }
            (Ty::Opt(t), "map" | "and_then") => {
                let is_map = name == "map";
                match args[0] {
                    Expr::Path(p) if is_map && path_str(&p.path).ends_with("as_ref") => Ok(recv),
                    Expr::Closure(c) if c.inputs.len() == 1 => {
                        self.vars.push(BTreeMap::new());
                        let mut al = BTreeMap::new();
                        let pat = self.pattern(&c.inputs[0], &t, None, &mut al);
                        self.mut_pat_binds.clear();
                        let body = pat.and_then(|p| self.expr(&c.body).map(|b| (p, b)));
                        self.vars.pop();
                        let (pat, body) = body?;
                        let rty = if is_map { Ty::Opt(Box::new(body.ty.clone())) } else {
                            match self.resolve(&body.ty) { Ty::Opt(_) => body.ty.clone(), o => return Err(format!("and_then closure returning {:?}", o)) }
                        };
                        if body.eff {
                            let wrap = if is_map { format!("(Option.some {})", body.s) } else { paren(&body.s) };
                            Ok(E { s: format!("(← (match {} with | Option.some {} => (do pure {}) | Option.none => pure Option.none))", recv.s, pat, wrap), ty: rty, eff: true })
                        } else if is_map {
                            Ok(E { s: format!("({}.map (fun {} => {}))", paren(&recv.s), pat, body.s), ty: rty, eff })
                        } else {
                            Ok(E { s: format!("({}.bind (fun {} => {}))", paren(&recv.s), pat, body.s), ty: rty, eff })
                        }
                    }
                    _ => Err("Option::map / and_then argument".into()),
                }
            }
            (Ty::List(t), "first") => Ok(E { s: format!("{}.head?", paren(&recv.s)), ty: Ty::Opt(t), eff }),
            (Ty::List(t), "last") => Ok(E { s: format!("{}.getLast?", paren(&recv.s)), ty: Ty::Opt(t), eff }),
            (Ty::List(t), "get") => {
                let a = self.expr(args[0])?;
                self.unify(&a.ty, &Ty::U(64))?;
                Ok(E { s: format!("{}[{}]?", paren(&recv.s), a.s), ty: Ty::Opt(t), eff: eff || a.eff })
            }
            (Ty::Named(_), "borrow") => Ok(recv), // B: Borrow<Block>
            (Ty::Tuple(ts), "start_bound" | "end_bound") if ts.len() == 2 && matches!(ts[0], Ty::Bound(_)) => {
                let (proj, t) = if name == "start_bound" { ("1", ts[0].clone()) } else { ("2", ts[1].clone()) };
                Ok(E { s: format!("{}.{}", paren(&recv.s), proj), ty: t, eff })
            }
            (Ty::List(t), "binary_search") if self.is_int(&t) => {
                let a = self.expr(args[0])?;
                self.unify(&a.ty, &t)?;
                Ok(E { s: format!("(binarySearch {} {})", recv.s, paren(&a.s)), ty: Ty::Named("SearchRes".into()), eff: eff || a.eff })
            }
            (Ty::List(t), "binary_search_by_key") => {
                // the key closure may call translated (effectful) functions: a monadic search
                let k = self.expr(args[0])?;
                match args[1] {
                    Expr::Closure(c) if c.inputs.len() == 1 => {
                        self.vars.push(BTreeMap::new());
                        let mut al = BTreeMap::new();
                        let pat = self.pattern(&c.inputs[0], &t, None, &mut al);
                        self.mut_pat_binds.clear();
                        let body = pat.and_then(|p| self.expr(&c.body).map(|b| (p, b)));
                        self.vars.pop();
                        let (pat, body) = body?;
                        if self.resolve(&body.ty) != self.resolve(&k.ty) { return Err(format!("binary_search_by_key: key {:?} vs {:?}", k.ty, body.ty)); }
                        let cmp = match self.resolve(&k.ty) { Ty::Opt(x) if *x == Ty::Bytes => "cmpOptBytes", Ty::Bytes => "cmpBytes", _ => return Err("binary_search_by_key key type".into()) };
                        Ok(E { s: format!("(← binarySearchByKeyM {} {} {} (fun {} => (do pure {})))", cmp, recv.s, paren(&k.s), pat, paren(&body.s)), ty: Ty::Named("SearchRes".into()), eff: true })
                    }
                    _ => Err("binary_search_by_key argument".into()),
                }
            }
            (Ty::Named(n), "unwrap_or_else") if n == "SearchRes" => {
                // `.unwrap_or_else(|x| x)`: extract Err and Ok
                match args[0] {
                    Expr::Closure(c) if c.inputs.len() == 1 && c.inputs[0].to_token_stream().to_string() == c.body.to_token_stream().to_string() => {
                        Ok(E { s: format!("(okOrErr {})", recv.s), ty: Ty::U(64), eff })
                    }
                    _ => Err("unwrap_or_else on a search result".into()),
                }
            }
            (Ty::U(w), "checked_sub") => {
                let a = self.expr(args[0])?;
                self.unify(&a.ty, &rt)?;
                let _ = w;
                Ok(E { s: format!("(checkedSub {} {})", recv.s, a.s), ty: Ty::Opt(Box::new(rt)), eff: eff || a.eff })
            }
            (Ty::Bytes, "last") => Ok(E { s: format!("({}.getLast?.map UInt8.toNat)", paren(&recv.s)), ty: Ty::Opt(Box::new(Ty::U(8))), eff }),
            (Ty::Bytes, "starts_with") => {
                let a = self.expr(args[0])?;
                Ok(E { s: format!("({}.isPrefixOf {})", paren(&a.s), recv.s), ty: Ty::Bool, eff: eff || a.eff })
            }
            (t, "cmp") if t == Ty::Bytes || self.is_int(&t) || matches!(&t, Ty::Opt(x) if **x == Ty::Bytes) => {
                let a = self.expr(args[0])?;
                if self.is_int(&t) { self.unify(&recv.ty, &a.ty)?; }
                let f = match t { Ty::Bytes => "cmpBytes", Ty::Opt(_) => "cmpOptBytes", _ => "compare" };
                Ok(E { s: format!("({} {} {})", f, recv.s, a.s), ty: Ty::Ordering, eff: eff || a.eff })
            }
            (Ty::Ordering, "then") => {
                let a = self.expr(args[0])?;
                Ok(E { s: format!("({}.then {})", paren(&recv.s), a.s), ty: Ty::Ordering, eff: eff || a.eff })
            }
            (Ty::Ordering, "reverse") => Ok(E { s: format!("{}.swap", paren(&recv.s)), ty: Ty::Ordering, eff }),
            (t, m) => Err(format!("method `{}` on {:?} is outside the subset", m, t)),
        }
    }
}

fn mentions_ident(e: &Expr, name: &str) -> bool {
    e.to_token_stream().to_string().split(|c: char| !(c.is_alphanumeric() || c == '_')).any(|t| t == name)
}

fn turbofish(m: &ExprMethodCall) -> Option<String> {
    let t = m.turbofish.as_ref()?;
    match t.args.first()? {
        GenericArgument::Type(Type::Path(p)) => Some(p.path.segments.last()?.ident.to_string()),
        _ => None,
    }
}

fn paren(s: &str) -> String {
    let simple = s.chars().all(|c| c.is_alphanumeric() || c == '_' || c == '.' || c == '\'');
    if simple || (s.starts_with('(') && matching_close(s) == s.len() - 1) {
        s.to_string()
    } else {
        format!("({})", s)
    }
}

fn matching_close(s: &str) -> usize {
    let mut d = 0i32;
    for (i, c) in s.char_indices() {
        if c == '(' { d += 1; }
        if c == ')' { d -= 1; if d == 0 { return i; } }
    }
    usize::MAX
}

fn short(s: &str) -> String {
    if s.len() > 120 { format!("{}…", &s[..s.char_indices().nth(100).map(|x| x.0).unwrap_or(100)]) } else { s.to_string() }
}
