fn main(){ let f = syn::parse_file("fn a(x:u32)->u32{x+1}").unwrap(); println!("{}", f.items.len()); }
