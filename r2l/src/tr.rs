//! Translation core.  Everything outside the subset is an `Err(reason)`; nothing is guessed.
use quote::ToTokens;
use std::cell::RefCell;
use std::collections::BTreeMap;
use std::rc::Rc;
use syn::*;

pub type R<T> = std::result::Result<T, String>;

#[derive(Clone, Debug, PartialEq)]
pub enum Ty {
    U(u32),                  // unsigned integer of that width (usize = 64)
    I(u32),                  // signed integer
    IntVar(usize),           // integer of a width not yet known (literal / untyped let)
    Bool,
    Bytes,                   // [u8], Vec<u8>, [u8; N], &[u8]
    List(Box<Ty>),
    Opt(Box<Ty>),
    Res(Box<Ty>),            // Result<T, _>: errors travel in the monad
    Unit,
    Named(String),           // struct / enum translated elsewhere
    Tuple(Vec<Ty>),
    Ordering,
    Src,                     // R: Read + Seek
    Sink,                    // W: Write
    Bound(Box<Ty>),
    Cursor,                  // ReaderCursor<R>: external, reached through `step`
    ExtW,                    // W: Write kept abstract (`W=@extw`): reached through `wwrite` / `wflush`
    Any,                     // the payload type of a bare `None`: unifies with everything
    /// `F: FnMut(&mut T) -> U` seen as a stateless function `T → M (U × T)` (the argument handed back)
    FnMut1(Box<Ty>, Box<Ty>),
    /// `F: FnOnce(T) -> U` / `Fn(T) -> U` over a by-value argument: a function `T → M U`
    FnOnce1(Box<Ty>, Box<Ty>),
    /// `BinaryHeap<T>` by its contract: a bag of elements, `pop`/`peek` deliver a greatest one by `T::cmp`
    Heap(Box<Ty>),
}

#[derive(Default)]
pub struct World {
    pub structs: BTreeMap<String, Vec<(String, Ty)>>,
    pub enums: BTreeMap<String, Vec<(String, Option<u64>)>>,
    pub consts: BTreeMap<String, Ty>,
    /// translated functions: lean name -> (param types with by-mut flag, return type)
    pub fns: BTreeMap<String, FnSig>,
    /// structs holding an external cursor: `structure S (γ : Type)`
    pub ext_structs: std::collections::BTreeSet<String>,
    /// wrappers around `&mut T` whose `AsRef<[u8]>` exposes a field of `T` and whose `Drop` calls a method of `T`
    /// (checked against the source by a `dropimpl` target): wrapper -> (T, exposed field, method run on drop)
    pub drop_views: BTreeMap<String, (String, String, String)>,
    /// structs that deref to `&[u8]` of length `self.<field>` (checked by a `derefslice` target): struct -> field
    pub slice_len: BTreeMap<String, String>,
    /// structs translated with `only=`: the other fields are invisible to the translated functions
    pub partial_structs: std::collections::BTreeSet<String>,
    /// structs of `slice_len` whose `DerefMut` was checked too
    pub slice_len_mut: std::collections::BTreeSet<String>,
}

#[derive(Clone, Debug)]
pub struct FnSig {
    pub lean: String,
    pub params: Vec<(Ty, bool)>, // (type, passed by &mut and handed back)
    pub ret: Ty,
    pub self_mut: bool,
    pub has_self: bool,
    /// takes the external cursor's `step` as its first argument
    pub uses_step: bool,
    /// declared to return `Result<ret, _>`
    pub ret_is_res: bool,
    /// takes the external `decompress` as an argument
    pub uses_decompress: bool,
    /// takes the abstract writer's `wwrite` / `wflush` as arguments
    pub uses_w: bool,
    /// `drop_ret` function: the name of the wrapper type it returns (looked up in `drop_views` by its callers)
    pub view: Option<String>,
    /// takes the external `compress` as an argument
    pub uses_compress: bool,
    /// a recursive function being translated (`rec=1`): calls from its own body go to `<lean>.go … fuel`
    pub rec_self: bool,
    /// an `extern` target: not translated, a parameter `ext_<Type>_<name>` of every function that calls it (its Lean type)
    pub ext_ty: Option<String>,
    /// the external parameters this translated function takes in front of its own (name, Lean type)
    pub externs: Vec<(String, String)>,
    /// takes the user's merge function `merge` as an argument
    pub uses_merge: bool,
}

/// the type a target line instantiates a type parameter with: `B=Block`, or `W=@extw` for an abstract writer
pub fn inst_ty(s: &str) -> Ty {
    match s {
        "@extw" => Ty::ExtW,
        "@sink" => Ty::Sink,
        "@bytes" => Ty::Bytes,
        "@src" => Ty::Src,
        "@unit" => Ty::Unit,
        _ => Ty::Named(s.to_string()),
    }
}

pub fn lean_ident(s: &str) -> String {
    match s {
        "self" => "self_".into(),
        "end" | "at" | "from" | "open" | "in" | "then" | "do" | "fun" | "show" | "have" | "with" | "def" | "where"
        | "type" | "instance" | "class" | "structure" | "namespace" | "section" | "variable" | "local" | "prefix" => {
            format!("{}_", s)
        }
        _ => s.to_string(),
    }
}

fn lower_first(s: &str) -> String {
    let mut c = s.chars();
    match c.next() {
        Some(f) => f.to_lowercase().collect::<String>() + c.as_str(),
        None => String::new(),
    }
}

impl World {
    pub fn lean_ty(&self, t: &Ty) -> R<String> {
        Ok(match t {
            Ty::U(_) | Ty::IntVar(_) => "Nat".into(),
            Ty::I(_) => "Int".into(),
            Ty::Bool => "Bool".into(),
            Ty::Bytes => "List UInt8".into(),
            Ty::List(e) | Ty::Heap(e) => format!("List ({})", self.lean_ty(e)?),
            Ty::Opt(e) => format!("Option ({})", self.lean_ty(e)?),
            Ty::Res(e) => self.lean_ty(e)?,
            Ty::Unit => "Unit".into(),
            Ty::Named(n) if n == "GhostLen" || n == "GhostArr" => "Nat".into(),
            Ty::Named(n) if self.ext_structs.contains(n) => format!("({} γ)", n),
            Ty::Named(n) => n.clone(),
            Ty::Cursor | Ty::ExtW => "γ".into(),
            Ty::Any => "_".into(),
            Ty::FnMut1(a, r) => format!("({} → M ({} × {}))", self.lean_ty(a)?, self.lean_ty(r)?, self.lean_ty(a)?),
            Ty::FnOnce1(a, r) => format!("({} → M ({}))", self.lean_ty(a)?, self.lean_ty(r)?),
            Ty::Tuple(ts) => {
                let v: R<Vec<String>> = ts.iter().map(|t| self.lean_ty(t)).collect();
                format!("({})", v?.join(" × "))
            }
            Ty::Ordering => "Ordering".into(),
            Ty::Src => "Src".into(),
            Ty::Sink => "Sink".into(),
            Ty::Bound(e) => format!("Bound ({})", self.lean_ty(e)?),
        })
    }

    pub fn ty_of(&self, t: &Type, generics: &BTreeMap<String, Ty>) -> R<Ty> {
        match t {
            Type::Reference(r) => self.ty_of(&r.elem, generics),
            Type::Paren(p) => self.ty_of(&p.elem, generics),
            Type::Slice(s) => {
                let e = self.ty_of(&s.elem, generics)?;
                Ok(if e == Ty::U(8) { Ty::Bytes } else { Ty::List(Box::new(e)) })
            }
            Type::Array(a) => {
                let e = self.ty_of(&a.elem, generics)?;
                Ok(if e == Ty::U(8) { Ty::Bytes } else { Ty::List(Box::new(e)) })
            }
            Type::Tuple(t) if t.elems.is_empty() => Ok(Ty::Unit),
            Type::Tuple(t) => {
                let v: R<Vec<Ty>> = t.elems.iter().map(|e| self.ty_of(e, generics)).collect();
                Ok(Ty::Tuple(v?))
            }
            Type::Path(p) => {
                let seg = p.path.segments.last().ok_or("empty type path")?;
                let name = seg.ident.to_string();
                let arg0 = || -> R<Ty> {
                    match &seg.arguments {
                        PathArguments::AngleBracketed(a) => match a.args.first() {
                            Some(GenericArgument::Type(t)) => self.ty_of(t, generics),
                            _ => Err(format!("type argument of {} not supported", name)),
                        },
                        _ => Err(format!("{} without type argument", name)),
                    }
                };
                Ok(match name.as_str() {
                    "u8" => Ty::U(8),
                    "u16" => Ty::U(16),
                    "u32" => Ty::U(32),
                    "u64" | "usize" | "NonZeroUsize" => Ty::U(64),
                    "i64" | "isize" => Ty::I(64),
                    "i32" => Ty::I(32),
                    "bool" => Ty::Bool,
                    "Ordering" => Ty::Ordering,
                    "Vec" => {
                        let e = arg0()?;
                        if e == Ty::U(8) { Ty::Bytes } else { Ty::List(Box::new(e)) }
                    }
                    "BinaryHeap" => Ty::Heap(Box::new(arg0()?)),
                    // `Cow<[u8]>` / `Cow<'a, [u8]>`: the bytes (owned or borrowed makes no difference to a reader of them)
                    "Cow" => match &seg.arguments {
                        PathArguments::AngleBracketed(a) => {
                            let t = a.args.iter().find_map(|g| match g { GenericArgument::Type(t) => Some(t), _ => None }).ok_or("Cow without a type argument")?;
                            self.ty_of(t, generics)?
                        }
                        _ => return Err("Cow without type argument".into()),
                    },
                    "Option" => Ty::Opt(Box::new(arg0()?)),
                    "Result" => Ty::Res(Box::new(arg0()?)),
                    "Bound" => Ty::Bound(Box::new(arg0()?)),
                    // the cursor held by the iterators is external (`step`) — until `ReaderCursor` itself is translated
                    "ReaderCursor" if !self.structs.contains_key("ReaderCursor") => Ty::Cursor,
                    "Self" => generics.get("Self").cloned().ok_or("Self outside an impl")?,
                    n if generics.contains_key(n) => generics[n].clone(),
                    n if self.structs.contains_key(n) || self.enums.contains_key(n) => Ty::Named(n.to_string()),
                    n => return Err(format!("type {} is outside the subset", n)),
                })
            }
            other => Err(format!("type `{}` is outside the subset", other.to_token_stream())),
        }
    }

    pub fn tr_struct(&mut self, f: &File, name: &str, opts: &BTreeMap<String, String>) -> R<String> {
        for it in &f.items {
            if let Item::Struct(s) = it {
                if s.ident == name {
                    let mut fields = vec![];
                    // type parameters are instantiated from the target line (`B=Block`)
                    let mut g = BTreeMap::new();
                    for gp in &s.generics.params {
                        if let GenericParam::Type(tp) = gp {
                            if let Some(inst) = opts.get(&tp.ident.to_string()) {
                                g.insert(tp.ident.to_string(), inst_ty(inst));
                            }
                        }
                    }
                    // `TypeName=@sink`: a type of the crate seen through an abstraction (justified by a tie of its own)
                    for (k, v) in opts {
                        if v.starts_with('@') {
                            g.insert(k.clone(), inst_ty(v));
                        }
                    }
                    // `only=a,b`: the listed fields (the others have types outside the subset and are not touched
                    // by the translated functions — a function that does touch one is untranslatable)
                    let only: Option<Vec<&str>> = opts.get("only").map(|o| o.split(',').collect());
                    for fl in s.fields.iter() {
                        let n = fl.ident.as_ref().ok_or("tuple struct")?.to_string();
                        if let Some(o) = &only {
                            if !o.contains(&n.as_str()) { continue; }
                        }
                        fields.push((n, self.ty_of(&fl.ty, &g)?));
                    }
                    fn mentions_ext(w: &World, t: &Ty) -> bool {
                        match t {
                            Ty::Cursor | Ty::ExtW => true,
                            Ty::Named(n) => w.ext_structs.contains(n),
                            Ty::List(e) | Ty::Heap(e) | Ty::Opt(e) | Ty::Res(e) | Ty::Bound(e) => mentions_ext(w, e),
                            Ty::Tuple(ts) => ts.iter().any(|t| mentions_ext(w, t)),
                            _ => false,
                        }
                    }
                    let is_ext = fields.iter().any(|(_, t)| mentions_ext(self, t));
                    if only.is_some() { self.partial_structs.insert(name.to_string()); }
                    if is_ext {
                        self.ext_structs.insert(name.to_string());
                    }
                    let mut out = if is_ext { format!("structure {} (γ : Type) where\n", name) } else { format!("structure {} where\n", name) };
                    for (n, t) in &fields {
                        out.push_str(&format!("  {} : {}\n", lean_ident(n), self.lean_ty(t)?));
                    }
                    if !is_ext {
                        out.push_str("  deriving Repr, DecidableEq, Inhabited\n");
                    }
                    self.structs.insert(name.to_string(), fields);
                    return Ok(out);
                }
            }
        }
        Err(format!("struct {} not found", name))
    }

    /// `dropimpl <file> <Wrapper> <Target>`: checks, on the current source, that `Wrapper` is a struct with the single
    /// field `x: &mut Target`, that `impl AsRef<[u8]> for Wrapper` returns `&self.x.<field>` and that
    /// `impl Drop for Wrapper` is exactly `self.x.<method>();` — the facts the translation of its users relies on.
    pub fn tr_dropimpl(&mut self, f: &File, name: &str, target: &str) -> R<String> {
        let mut field_name: Option<String> = None;
        for it in &f.items {
            if let Item::Struct(s) = it {
                if s.ident == name {
                    let fs: Vec<_> = s.fields.iter().collect();
                    if fs.len() != 1 { return Err("wrapper with more than one field".into()); }
                    let ok = matches!(&fs[0].ty, Type::Reference(r) if r.mutability.is_some() && r.elem.to_token_stream().to_string() == target);
                    if !ok { return Err(format!("wrapper field is not `&mut {}`", target)); }
                    field_name = fs[0].ident.as_ref().map(|i| i.to_string());
                }
            }
        }
        let x = field_name.ok_or_else(|| format!("struct {} not found", name))?;
        let (mut exposed, mut on_drop): (Option<String>, Option<String>) = (None, None);
        for it in &f.items {
            if let Item::Impl(im) = it {
                let self_name = match &*im.self_ty { Type::Path(p) => p.path.segments.last().map(|s| s.ident.to_string()).unwrap_or_default(), _ => String::new() };
                if self_name != name { continue; }
                let tr = im.trait_.as_ref().map(|(_, p, _)| p.to_token_stream().to_string().replace(' ', "")).unwrap_or_default();
                for ii in &im.items {
                    if let ImplItem::Fn(m) = ii {
                        let body = m.block.to_token_stream().to_string().replace(' ', "");
                        if tr == "AsRef<[u8]>" && m.sig.ident == "as_ref" {
                            let pre = format!("{{&self.{}.", x);
                            match body.strip_prefix(&pre).and_then(|r| r.strip_suffix("}")) {
                                Some(fld) if fld.chars().all(|c| c.is_alphanumeric() || c == '_') => exposed = Some(fld.to_string()),
                                _ => return Err(format!("AsRef<[u8]> for {} is not `&self.{}.<field>`", name, x)),
                            }
                        }
                        if tr == "Drop" && m.sig.ident == "drop" {
                            let pre = format!("{{self.{}.", x);
                            match body.strip_prefix(&pre).and_then(|r| r.strip_suffix("();}")) {
                                Some(meth) if meth.chars().all(|c| c.is_alphanumeric() || c == '_') => on_drop = Some(meth.to_string()),
                                _ => return Err(format!("Drop for {} is not `self.{}.<method>();`", name, x)),
                            }
                        }
                    }
                }
            }
        }
        let exposed = exposed.ok_or_else(|| format!("no `impl AsRef<[u8]> for {}`", name))?;
        let on_drop = on_drop.ok_or_else(|| format!("no `impl Drop for {}`", name))?;
        self.drop_views.insert(name.to_string(), (target.to_string(), exposed.clone(), on_drop.clone()));
        Ok(format!("-- checked on the source: `{}` wraps `&mut {}`, `as_ref()` is its `{}`, dropping it calls `{}()`\n", name, target, exposed, on_drop))
    }

    /// `derefslice <file> <Struct> <field>`: checks that `impl Deref for Struct` is
    /// `unsafe { slice::from_raw_parts(self.<ptr>.as_ptr(), self.<field>) }`, so that `x.len()` is `x.<field>`.
    pub fn tr_derefslice(&mut self, f: &File, name: &str, field: &str) -> R<String> {
        for it in &f.items {
            if let Item::Impl(im) = it {
                let self_name = match &*im.self_ty { Type::Path(p) => p.path.segments.last().map(|s| s.ident.to_string()).unwrap_or_default(), _ => String::new() };
                let tr = im.trait_.as_ref().map(|(_, p, _)| p.to_token_stream().to_string().replace(' ', "")).unwrap_or_default();
                if self_name != name || !(tr == "Deref" || tr.ends_with("::Deref")) { continue; }
                for ii in &im.items {
                    if let ImplItem::Fn(m) = ii {
                        if m.sig.ident != "deref" { continue; }
                        let body = m.block.to_token_stream().to_string().replace(' ', "");
                        let suffix = format!(".as_ptr(),self.{})}}}}", field);
                        if body.starts_with("{unsafe{slice::from_raw_parts(self.") && body.ends_with(&suffix) {
                            self.slice_len.insert(name.to_string(), field.to_string());
                            // `DerefMut`, when there is one, must expose the same `self.<field>` bytes (writes through it are length-checked only)
                            let mut mut_ok = false;
                            for it2 in &f.items {
                                if let Item::Impl(im2) = it2 {
                                    let sn2 = match &*im2.self_ty { Type::Path(p) => p.path.segments.last().map(|s| s.ident.to_string()).unwrap_or_default(), _ => String::new() };
                                    let tr2 = im2.trait_.as_ref().map(|(_, p, _)| p.to_token_stream().to_string().replace(' ', "")).unwrap_or_default();
                                    if sn2 != name || !(tr2 == "DerefMut" || tr2.ends_with("::DerefMut")) { continue; }
                                    for ii2 in &im2.items {
                                        if let ImplItem::Fn(m2) = ii2 {
                                            let b2 = m2.block.to_token_stream().to_string().replace(' ', "");
                                            if m2.sig.ident == "deref_mut" && b2.starts_with("{unsafe{slice::from_raw_parts_mut(self.") && b2.ends_with(&suffix) { mut_ok = true; }
                                        }
                                    }
                                }
                            }
                            if mut_ok { self.slice_len_mut.insert(name.to_string()); }
                            return Ok(format!("-- checked on the source: `{}` derefs to a byte slice of length `self.{}`{}\n", name, field, if mut_ok { " (Deref and DerefMut)" } else { "" }));
                        }
                        return Err(format!("Deref for {} is not `slice::from_raw_parts(self.<ptr>.as_ptr(), self.{})`", name, field));
                    }
                }
            }
        }
        Err(format!("no `impl Deref for {}`", name))
    }

    pub fn tr_enum(&mut self, f: &File, name: &str) -> R<String> {
        for it in &f.items {
            if let Item::Enum(e) = it {
                if e.ident == name {
                    let mut vars = vec![];
                    for v in &e.variants {
                        if !matches!(v.fields, Fields::Unit) {
                            return Err("enum variant with fields".into());
                        }
                        let d = match &v.discriminant {
                            Some((_, Expr::Lit(ExprLit { lit: Lit::Int(i), .. }))) => Some(i.base10_parse::<u64>().map_err(|e| e.to_string())?),
                            Some(_) => return Err("non-literal discriminant".into()),
                            None => None,
                        };
                        vars.push((v.ident.to_string(), d));
                    }
                    let mut out = format!("inductive {} where\n", name);
                    for (v, _) in &vars {
                        out.push_str(&format!("  | {}\n", lower_first(v)));
                    }
                    out.push_str("  deriving Repr, DecidableEq, Inhabited\n\n");
                    // `x as u8`
                    out.push_str(&format!("def {}.toNat : {} → Nat\n", name, name));
                    let mut next = 0u64;
                    for (v, d) in &vars {
                        let val = d.unwrap_or(next);
                        next = val + 1;
                        out.push_str(&format!("  | .{} => {}\n", lower_first(v), val));
                    }
                    self.enums.insert(name.to_string(), vars);
                    return Ok(out);
                }
            }
        }
        Err(format!("enum {} not found", name))
    }

    pub fn tr_const(&mut self, f: &File, name: &str) -> R<String> {
        for it in &f.items {
            if let Item::Const(c) = it {
                if c.ident == name {
                    let g = BTreeMap::new();
                    let ty = self.ty_of(&c.ty, &g)?;
                    let v = match &*c.expr {
                        Expr::Lit(ExprLit { lit: Lit::Int(i), .. }) => i.base10_parse::<u128>().map_err(|e| e.to_string())?.to_string(),
                        // a product / sum of literals, e.g. 10 * 1024 * 1024
                        e => const_eval(e).ok_or("constant initialiser is not a literal expression")?.to_string(),
                    };
                    self.consts.insert(name.to_string(), ty.clone());
                    return Ok(format!("def {} : {} := {}\n", name, self.lean_ty(&ty)?, v));
                }
            }
        }
        Err(format!("const {} not found", name))
    }
}

fn const_eval(e: &Expr) -> Option<u128> {
    match e {
        Expr::Lit(ExprLit { lit: Lit::Int(i), .. }) => i.base10_parse::<u128>().ok(),
        Expr::Paren(p) => const_eval(&p.expr),
        // `unsafe { NonZeroUsize::new_unchecked(8) }`
        Expr::Unsafe(u) if u.block.stmts.len() == 1 => match &u.block.stmts[0] {
            syn::Stmt::Expr(x, None) => const_eval(x),
            _ => None,
        },
        Expr::Call(c) if c.args.len() == 1 && c.func.to_token_stream().to_string().replace(' ', "") == "NonZeroUsize::new_unchecked" => {
            const_eval(&c.args[0]).filter(|v| *v != 0)
        }
        Expr::Binary(b) => {
            let (l, r) = (const_eval(&b.left)?, const_eval(&b.right)?);
            match b.op {
                BinOp::Mul(_) => l.checked_mul(r),
                BinOp::Add(_) => l.checked_add(r),
                BinOp::Sub(_) => l.checked_sub(r),
                BinOp::Shl(_) => l.checked_shl(r as u32),
                _ => None,
            }
        }
        _ => None,
    }
}

// ------------------------------------------------------------------------------------------------
// functions

#[derive(Clone)]
struct Var {
    ty: Ty,
    lean: String,
    /// bound while a place alias of the same name was in scope: the variable shadows the alias
    masks_alias: bool,
}

pub struct Ctx<'w> {
    w: &'w World,
    vars: Vec<BTreeMap<String, Var>>,
    widths: Rc<RefCell<Vec<Option<u32>>>>, // IntVar id -> resolved width
    ivar_parent: Rc<RefCell<Vec<usize>>>,
    pre: Vec<String>,
    ret_ty: Ty,
    muts: Vec<String>, // lean names of the &mut parameters handed back (in order)
    generics: BTreeMap<String, Ty>,
    fuel: Option<String>,
    self_ty: Option<String>,
    fresh: usize,
    /// innermost `let x = match ..` being translated: the type of the arms' value so far
    val_mode: Vec<Option<Ty>>,
    /// variables bound `mut` inside the pattern being translated: re-declared `let mut` at the arm's head
    mut_pat_binds: Vec<String>,
    /// enclosing loops, innermost last: the "finished regularly" flag of a fuel-bounded `while`
    loop_fin: Vec<Option<String>>,
    /// the body applied the external cursor's `step` (directly or through a callee)
    used_step: bool,
    /// rust names of the parameters / self that are rebound `let mut` (by-value `mut` or `&mut`)
    local_muts: Vec<String>,
    /// the body calls the external `decompress`
    used_decompress: bool,
    pub used_wwrite: bool,
    pub used_wflush: bool,
    pub used_compress: bool,
    /// the body calls the user's merge function (`self.merge_function.merge(key, values)`): external parameter `merge`
    pub used_merge: bool,
    /// `tuplelet=1` on the target line
    pub tuple_let: bool,
    /// `xcodec=1`: calls of `<name>_compress` / `<name>_decompress` go to the external codec table `xcompress` / `xdecompress`
    pub xcodec: bool,
    pub used_xcompress: bool,
    pub used_xdecompress: bool,
    /// external functions called: (parameter name, Lean type), in first-use order
    pub used_externs: Vec<(String, String)>,
    /// the function takes its loop bound as an explicit argument (`fuel=@param`)
    pub fuel_param: bool,
    /// wrappers still alive at the end of the function: (place text, Lean callee, place) dropped before the final return
    pub pending_drops: Vec<(String, String)>,
    /// rust variables standing for one element of a list place (`if let Some(x) = v.last_mut()`, `split_last_mut`)
    pub elems: BTreeMap<String, Place>,
    /// rust variables standing for the elements `[lo, hi)` of a list place: (place, lo, hi) as Lean terms
    pub heads: BTreeMap<String, (Place, String, String)>,
    /// `let mut v = &mut place.as_mut_slice()[lo..]` waiting for its `while let Some((last, head)) = v.split_last_mut()`
    pub views: BTreeMap<String, (Place, String)>,
}

struct E {
    s: String,
    ty: Ty,
    eff: bool,
}

fn e(s: impl Into<String>, ty: Ty) -> E {
    E { s: s.into(), ty, eff: false }
}

impl<'w> Ctx<'w> {
    fn find(&self, i: usize) -> usize {
        let p = self.ivar_parent.borrow()[i];
        if p == i { i } else { self.find(p) }
    }
    fn new_ivar(&mut self) -> Ty {
        let id = self.widths.borrow().len();
        self.widths.borrow_mut().push(None);
        self.ivar_parent.borrow_mut().push(id);
        Ty::IntVar(id)
    }
    fn resolve(&self, t: &Ty) -> Ty {
        match t {
            Ty::IntVar(i) => match self.widths.borrow()[self.find(*i)] {
                Some(w) if w >= 1000 => Ty::I(w - 1000),
                Some(w) => Ty::U(w),
                None => Ty::IntVar(self.find(*i)),
            },
            o => o.clone(),
        }
    }
    /// make two integer types equal; returns the (possibly still unknown) common type
    fn unify(&mut self, a: &Ty, b: &Ty) -> R<Ty> {
        let (a, b) = (self.resolve(a), self.resolve(b));
        match (&a, &b) {
            (Ty::IntVar(i), Ty::IntVar(j)) => {
                let (i, j) = (self.find(*i), self.find(*j));
                self.ivar_parent.borrow_mut()[i] = j;
                Ok(Ty::IntVar(j))
            }
            (Ty::IntVar(i), Ty::U(w)) | (Ty::U(w), Ty::IntVar(i)) => {
                let r = self.find(*i);
                self.widths.borrow_mut()[r] = Some(*w);
                Ok(Ty::U(*w))
            }
            (Ty::IntVar(i), Ty::I(w)) | (Ty::I(w), Ty::IntVar(i)) => {
                let r = self.find(*i);
                self.widths.borrow_mut()[r] = Some(1000 + *w);
                Ok(Ty::I(*w))
            }
            (Ty::Any, y) => Ok(y.clone()),
            (x, Ty::Any) => Ok(x.clone()),
            (x, y) if x == y => Ok(a.clone()),
            (Ty::Opt(x), Ty::Opt(y)) => Ok(Ty::Opt(Box::new(self.unify(x, y)?))),
            (Ty::Bound(x), Ty::Bound(y)) => Ok(Ty::Bound(Box::new(self.unify(x, y)?))),
            (x, y) => Err(format!("type mismatch {:?} vs {:?}", x, y)),
        }
    }
    /// textual width placeholder, patched once the function is done
    fn wtxt(&self, t: &Ty) -> R<String> {
        match self.resolve(t) {
            Ty::U(w) => Ok(w.to_string()),
            Ty::IntVar(i) => Ok(format!("⟪W{}⟫", i)),
            o => Err(format!("arithmetic on non-unsigned type {:?}", o)),
        }
    }
    fn lookup(&self, n: &str) -> Option<Var> {
        for scope in self.vars.iter().rev() {
            if let Some(v) = scope.get(n) {
                return Some(v.clone());
            }
        }
        None
    }
    fn bind(&mut self, n: &str, ty: Ty) -> String {
        let lean = lean_ident(n);
        let masks_alias = self.elems.contains_key(n) || self.heads.contains_key(n);
        self.vars.last_mut().unwrap().insert(n.to_string(), Var { ty, lean: lean.clone(), masks_alias });
        lean
    }
    fn fresh(&mut self, base: &str) -> String {
        self.fresh += 1;
        format!("{}_{}", base, self.fresh)
    }
}

include!("expr.rs");
include!("stmt.rs");
