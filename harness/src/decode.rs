//! An independent decoder of the grenad file format, sharing no code with the crate:
//! trailer, length-prefixed blocks, codec crates called directly, varint frames, offset table,
//! index tree walk.  Written from the format description in property C09.

use std::io::Read;

use crate::util::Entry;

pub fn decompress(codec: u8, body: &[u8]) -> Result<Vec<u8>, String> {
    let mut out = Vec::new();
    match codec {
        0 => out.extend_from_slice(body),
        1 => {
            out = snap::raw::Decoder::new().decompress_vec(body).map_err(|e| e.to_string())?;
        }
        2 => {
            flate2::read::ZlibDecoder::new(body).read_to_end(&mut out).map_err(|e| e.to_string())?;
        }
        3 => {
            lz4_flex::frame::FrameDecoder::new(body)
                .read_to_end(&mut out)
                .map_err(|e| e.to_string())?;
        }
        4 => {
            zstd::stream::copy_decode(body, &mut out).map_err(|e| e.to_string())?;
        }
        5 => {
            snap::read::FrameDecoder::new(body).read_to_end(&mut out).map_err(|e| e.to_string())?;
        }
        _ => return Err("unknown codec".into()),
    }
    Ok(out)
}

#[derive(Debug, Clone)]
pub struct Trailer {
    pub version: u8,
    pub root: u64,
    pub codec: u8,
    pub count: u64,
    pub levels: u8,
    pub size: usize,
}

fn le64(b: &[u8]) -> u64 {
    let mut v = 0u64;
    for (i, x) in b.iter().enumerate() {
        v |= (*x as u64) << (8 * i);
    }
    v
}

fn be64(b: &[u8]) -> u64 {
    let mut v = 0u64;
    for x in b {
        v = (v << 8) | *x as u64;
    }
    v
}

/// `Err("io" | "bad-magic" | "bad-codec")` — the `ValidTrailer` predicate of C13, computed directly.
pub fn trailer(file: &[u8]) -> Result<Trailer, &'static str> {
    let n = file.len();
    if n < 4 {
        return Err("io");
    }
    let magic = le64(&file[n - 4..]);
    if magic == 0x6723D4C4 {
        if n < 22 {
            return Err("io");
        }
        let t = &file[n - 22..];
        if t[8] > 5 {
            return Err("bad-codec");
        }
        Ok(Trailer { version: 2, root: le64(&t[0..8]), codec: t[8], count: le64(&t[9..17]), levels: t[17], size: 22 })
    } else if magic == 0x76324D4C {
        if n < 21 {
            return Err("io");
        }
        let t = &file[n - 21..];
        if t[8] > 5 {
            return Err("bad-codec");
        }
        Ok(Trailer { version: 1, root: le64(&t[0..8]), codec: t[8], count: le64(&t[9..17]), levels: 0, size: 21 })
    } else {
        Err("bad-magic")
    }
}

/// Walks the length-prefixed blocks from offset 0 up to the trailer: (offset, raw, compressed).
pub fn walk_blocks(file: &[u8], codec: u8, trailer_size: usize) -> Vec<(u64, Vec<u8>, Vec<u8>)> {
    let mut out = Vec::new();
    let end = file.len().saturating_sub(trailer_size);
    let mut off = 0usize;
    while off + 8 <= end {
        let len = be64(&file[off..off + 8]) as usize;
        if off + 8 + len > end {
            break;
        }
        let body = &file[off + 8..off + 8 + len];
        match decompress(codec, body) {
            Ok(raw) => out.push((off as u64, raw, body.to_vec())),
            Err(_) => break,
        }
        off += 8 + len;
    }
    out
}

fn varint(b: &[u8], mut at: usize) -> Option<(u32, usize)> {
    let mut v: u64 = 0;
    let mut shift = 0;
    loop {
        let x = *b.get(at)?;
        at += 1;
        v |= ((x & 0x7f) as u64) << shift;
        if x & 0x80 == 0 {
            break;
        }
        shift += 7;
        if shift > 28 {
            return None;
        }
    }
    Some((v as u32, at))
}

#[derive(Debug, Clone)]
pub struct BlockInfo {
    pub level: usize,
    pub offset: u64,
    pub raw_len: usize,
    pub entries: Vec<Entry>,
    pub table: Vec<u64>,
    /// byte offset of every entry inside the payload
    pub entry_offsets: Vec<u64>,
}

pub fn parse_block(raw: &[u8]) -> Result<(Vec<Entry>, Vec<u64>, Vec<u64>), String> {
    let n = raw.len();
    if n < 4 {
        return Err("short block".into());
    }
    let cnt = be64(&raw[n - 4..]) as usize;
    if n < 4 + cnt * 8 {
        return Err("short offset table".into());
    }
    let p = n - 4 - cnt * 8;
    let table: Vec<u64> = raw[p..n - 4].chunks(8).map(be64).collect();
    let payload = &raw[..p];
    let mut at = 0;
    let mut entries = Vec::new();
    let mut offs = Vec::new();
    while at < payload.len() {
        offs.push(at as u64);
        let (kl, a) = varint(payload, at).ok_or("bad varint")?;
        let (vl, a) = varint(payload, a).ok_or("bad varint")?;
        let (kl, vl) = (kl as usize, vl as usize);
        if a + kl + vl > payload.len() {
            return Err("entry overruns payload".into());
        }
        entries.push((payload[a..a + kl].to_vec(), payload[a + kl..a + kl + vl].to_vec()));
        at = a + kl + vl;
    }
    Ok((entries, table, offs))
}

pub fn load_block(file: &[u8], codec: u8, off: u64, level: usize) -> Result<BlockInfo, String> {
    let off = off as usize;
    if off + 8 > file.len() {
        return Err(format!("block offset {} out of file", off));
    }
    let len = be64(&file[off..off + 8]) as usize;
    if off + 8 + len > file.len() {
        return Err("block body out of file".into());
    }
    let raw = decompress(codec, &file[off + 8..off + 8 + len])?;
    let (entries, table, entry_offsets) = parse_block(&raw)?;
    Ok(BlockInfo { level, offset: off as u64, raw_len: raw.len(), entries, table, entry_offsets })
}

pub struct Decoded {
    pub trailer: Trailer,
    /// all blocks reachable from the root, sorted by offset
    pub blocks: Vec<BlockInfo>,
    /// leaves' entries, left to right
    pub entries: Vec<Entry>,
}

fn descend(
    file: &[u8],
    codec: u8,
    off: u64,
    level: usize,
    blocks: &mut Vec<BlockInfo>,
    entries: &mut Vec<Entry>,
) -> Result<Option<Vec<u8>>, String> {
    let b = load_block(file, codec, off, level)?;
    let last_key = b.entries.last().map(|e| e.0.clone());
    if level == 0 {
        entries.extend(b.entries.iter().cloned());
    } else {
        for (k, v) in &b.entries {
            if v.len() != 8 {
                return Err("index value is not 8 bytes".into());
            }
            let child_last = descend(file, codec, be64(v), level - 1, blocks, entries)?;
            if child_last.as_ref() != Some(k) {
                return Err(format!("index key is not the child's last key at level {}", level));
            }
        }
    }
    blocks.push(b);
    Ok(last_key)
}

/// Full structural decode: every index level maps the last key of each child to its offset.
pub fn decode(file: &[u8]) -> Result<Decoded, String> {
    let t = trailer(file).map_err(|e| e.to_string())?;
    let mut blocks = Vec::new();
    let mut entries = Vec::new();
    descend(file, t.codec, t.root, t.levels as usize + 1, &mut blocks, &mut entries)?;
    blocks.sort_by_key(|b| b.offset);
    // structural checks of C09
    for b in &blocks {
        if b.table.first() != Some(&0) {
            return Err("offset table does not start with 0".into());
        }
        for t in &b.table {
            if *t != 0 && !b.entry_offsets.contains(t) {
                return Err("offset table entry is not an entry offset".into());
            }
        }
    }
    if entries.len() as u64 != t.count {
        return Err(format!("count {} != decoded {}", t.count, entries.len()));
    }
    // blocks tile the file up to the trailer
    let mut at = 0u64;
    for b in &blocks {
        if b.offset != at {
            return Err(format!("gap or overlap at {}", at));
        }
        let len = be64(&file[b.offset as usize..b.offset as usize + 8]);
        at = b.offset + 8 + len;
    }
    if at as usize + t.size != file.len() {
        return Err("blocks do not end at the trailer".into());
    }
    Ok(Decoded { trailer: t, blocks, entries })
}

pub fn fmt_blocks(blocks: &[BlockInfo]) -> String {
    blocks
        .iter()
        .map(|b| format!("{}:{}:{}:{}", b.level, b.offset, b.raw_len, b.entries.len()))
        .collect::<Vec<_>>()
        .join(",")
}
