//! Scenario generators: structured, mostly valid inputs aimed at the shapes the pinned test
//! suite never builds (variable-length and prefix-related keys, 0xFF runs, entries larger than a
//! block, several blocks at every index level, spills, chunk merges, choppy and failing I/O).

use crate::util::*;

pub fn gen_keys(r: &mut Rng, n: usize, shape: u64) -> Vec<Vec<u8>> {
    let mut keys: Vec<Vec<u8>> = Vec::new();
    match shape {
        0 => {
            let start = r.below(1000) as u32;
            for i in 0..n {
                keys.push((start + 3 * i as u32).to_be_bytes().to_vec());
            }
        }
        1 => {
            // tiny alphabet, lengths 0..6: many keys are prefixes / extensions of each other
            let alpha = [0x00u8, 0x61, 0x62, 0xff];
            for _ in 0..n * 2 {
                let len = r.below(7) as usize;
                keys.push((0..len).map(|_| *r.pick(&alpha)).collect());
            }
        }
        2 => {
            // long shared prefix
            let plen = r.range(3, 40) as usize;
            let p = r.bytes(plen);
            for _ in 0..n {
                let mut k = p.clone();
                let slen = r.below(4) as usize;
                k.extend(r.bytes(slen));
                keys.push(k);
            }
        }
        3 => {
            // big keys: few entries per block even at 1 KiB
            for i in 0..n {
                let len = r.range(200, 600) as usize;
                let mut k = vec![b'k'; len];
                k.extend_from_slice(&(i as u32).to_be_bytes());
                keys.push(k);
            }
        }
        _ => {
            // 0xFF runs and carries
            for _ in 0..n {
                let a = r.below(3) as usize;
                let mut k = r.bytes(a);
                let f = r.below(4) as usize;
                k.extend(std::iter::repeat(0xff).take(f));
                if r.chance(1, 2) {
                    k.push(r.next() as u8);
                }
                keys.push(k);
            }
        }
    }
    keys.sort();
    keys.dedup();
    keys.truncate(n);
    keys
}

pub fn gen_val(r: &mut Rng) -> Vec<u8> {
    match r.below(10) {
        0 => Vec::new(),
        1 => {
            let n = r.range(100, 300) as usize;
            r.bytes(n)
        }
        _ => {
            let n = r.range(1, 8) as usize;
            r.bytes(n)
        }
    }
}

pub fn gen_entries(r: &mut Rng, n: usize) -> Vec<Entry> {
    let shape = r.below(5);
    gen_keys(r, n, shape).into_iter().map(|k| { let v = gen_val(r); (k, v) }).collect()
}

pub struct CfgOpts {
    pub all_codecs: bool,
    pub deep: bool,
    pub extreme_levels: bool,
}

pub fn gen_cfg(r: &mut Rng, o: &CfgOpts) -> String {
    let codec = if o.all_codecs { r.below(6) } else if r.chance(1, 6) { r.below(6) } else { 0 };
    let level = *r.pick(&[0u64, 1, 3, 9]);
    let (bs, minbs) = if o.deep || r.chance(2, 3) {
        let m = *r.pick(&[32u64, 48, 64, 96, 128, 256]);
        (*r.pick(&[0u64, m, m + 7, 2 * m]), m)
    } else {
        (*r.pick(&[0u64, 1, 1023, 1024, 1025, 4096, 8192]), 1024)
    };
    let iv = *r.pick(&[1u64, 2, 3, 8, 1000]);
    let extreme = o.extreme_levels && r.chance(1, 8);
    let levels = if extreme { *r.pick(&[5u64, 254, 255]) } else { *r.pick(&[0u64, 0, 1, 2, 2, 3]) };
    // very deep indexes only with the real minimum block size: with tiny blocks every level is
    // cut again and again and the file grows to megabytes
    let (bs, minbs) = if extreme && levels > 5 { (*r.pick(&[0u64, 1024, 4096]), 1024) } else { (bs, minbs) };
    format!("cfg codec={} level={} bs={} minbs={} iv={} levels={}", codec, level, bs, minbs, iv, levels)
}

fn ins_lines(out: &mut Vec<String>, es: &[Entry]) {
    for (k, v) in es {
        out.push(format!("ins {} {}", hex(k), hex(v)));
    }
}

/// A probe near the stored keys: present, gap, prefix, extension, before-first, after-last, empty.
pub fn gen_probe(r: &mut Rng, es: &[Entry]) -> Vec<u8> {
    if es.is_empty() || r.chance(1, 12) {
        let n = r.below(4) as usize;
        return r.bytes(n);
    }
    let k = &es[r.below(es.len() as u64) as usize].0;
    let mut q = k.clone();
    match r.below(9) {
        0 | 1 | 2 => {}
        3 => q.push(0),
        4 => {
            q.pop();
        }
        5 => {
            if let Some(l) = q.last_mut() {
                *l = l.wrapping_add(1);
            }
        }
        6 => {
            if let Some(l) = q.last_mut() {
                *l = l.wrapping_sub(1);
            }
        }
        7 => q.push(0xff),
        _ => q = Vec::new(),
    }
    q
}

fn gen_cursor_op(r: &mut Rng, es: &[Entry]) -> String {
    match r.below(20) {
        0 | 1 => "first".into(),
        2 | 3 => "last".into(),
        4..=8 => "next".into(),
        9..=12 => "prev".into(),
        13 | 14 => format!("ge {}", hex(&gen_probe(r, es))),
        15 | 16 => format!("le {}", hex(&gen_probe(r, es))),
        17 => format!("eq {}", hex(&gen_probe(r, es))),
        18 => "current".into(),
        _ => if r.chance(1, 3) { "reset".into() } else { "current".into() },
    }
}

fn build_file(r: &mut Rng, out: &mut Vec<String>, o: &CfgOpts, max_n: u64) -> Vec<Entry> {
    let n = match r.below(10) {
        0 => 0,
        1 => 1,
        _ => r.range(2, max_n),
    } as usize;
    let mut es = gen_entries(r, n);
    let mut cfg = gen_cfg(r, o);
    if o.all_codecs && r.chance(1, 8) {
        // highly compressible blocks (long runs, ratio well above 16:1) under every codec, real block sizes
        for (i, e) in es.iter_mut().enumerate() {
            e.1 = vec![(i % 7) as u8; 3000 + (i % 5) * 1500];
        }
        if let (Some(a), Some(b)) = (cfg.find("bs="), cfg.find(" iv=")) {
            cfg = format!("{}bs=8192 minbs=1024{}", &cfg[..a], &cfg[b..]);
        }
    }
    out.push(cfg);
    out.push("wnew".into());
    if r.chance(1, 5) {
        // the sink stages what it accepts until it is flushed; half of the time the writer is ended with
        // `finish()` while the caller keeps its own handle on the storage
        out.push(if r.chance(1, 2) { "wsinkwb finish".into() } else { "wsinkwb".to_string() });
    }
    ins_lines(out, &es);
    out.push("finish".into());
    es
}

pub fn scenario(stream: &str, r: &mut Rng, idx: u64) -> Vec<String> {
    let mut out = vec![format!("S {}-{}", stream, idx)];
    match stream {
        "varint" => {
            let mut vals: Vec<u64> = vec![0, 1, u32::MAX as u64, u32::MAX as u64 - 1];
            for s in [7u32, 14, 21, 28] {
                for d in [-2i64, -1, 0, 1, 2] {
                    vals.push(((1i64 << s) + d) as u64);
                }
            }
            for _ in 0..200 {
                let bits = r.range(1, 32);
                vals.push(r.next() & ((1u64 << bits) - 1));
            }
            for v in vals {
                out.push(format!("venc {}", v));
            }
            for _ in 0..50 {
                let n = r.range(1, 7) as usize;
                let mut b = r.bytes(n);
                if r.chance(1, 2) {
                    for x in b.iter_mut() {
                        *x |= 0x80;
                    }
                }
                out.push(format!("vdec {}", hex(&b)));
            }
            let stride = 1 + r.below(5000);
            out.push(format!("vrange {} {} {}", r.below(1 << 20), 20000, stride));
            // API level: key / value lengths on both sides of the 2^7 and 2^14 boundaries
            let mut lens = vec![0usize, 1, 126, 127, 128, 129, 16383, 16384, 16385];
            lens.push(r.range(130, 16000) as usize);
            out.push("cfg codec=0 bs=8192 minbs=1024 iv=2 levels=1".into());
            out.push("wnew".into());
            let mut es = Vec::new();
            for (i, l) in lens.iter().enumerate() {
                let mut k = vec![b'a' + i as u8];
                k.extend(std::iter::repeat(0x55).take(*l));
                let v: Vec<u8> = std::iter::repeat(i as u8).take(lens[lens.len() - 1 - i]).collect();
                es.push((k, v));
            }
            es.sort();
            ins_lines(&mut out, &es);
            out.push("finish".into());
            out.push("load".into());
            out.push("cnew 0".into());
            for _ in 0..es.len() + 1 {
                out.push("c 0 next".into());
            }
            for _ in 0..es.len() + 1 {
                out.push("c 0 prev".into());
            }
        }
        "open" => {
            // structured malformed stream: valid trailers with each field perturbed, both magics
            for _ in 0..40 {
                let len = r.below(40) as usize;
                let mut b = r.bytes(len);
                match r.below(6) {
                    0 => {}
                    1 | 2 => {
                        // V2-looking trailer
                        let mut t = r.bytes(18);
                        if r.chance(3, 4) {
                            t[8] = r.below(7) as u8;
                        }
                        t.extend_from_slice(&0x6723D4C4u32.to_le_bytes());
                        let cut = r.below(5) as usize;
                        if r.chance(1, 3) {
                            t.drain(..cut.min(t.len()));
                            b.clear();
                        }
                        b.extend(t);
                    }
                    3 | 4 => {
                        let mut t = r.bytes(17);
                        if r.chance(3, 4) {
                            t[8] = r.below(7) as u8;
                        }
                        t.extend_from_slice(&0x76324D4Cu32.to_le_bytes());
                        let cut = r.below(5) as usize;
                        if r.chance(1, 3) {
                            t.drain(..cut.min(t.len()));
                            b.clear();
                        }
                        b.extend(t);
                    }
                    _ => {
                        // magic with one byte off
                        let mut m = if r.chance(1, 2) { 0x6723D4C4u32 } else { 0x76324D4C }.to_le_bytes();
                        m[r.below(4) as usize] ^= 1 << r.below(8);
                        b.extend(r.bytes(18));
                        b.extend_from_slice(&m);
                    }
                }
                // a complete trailer followed by padding (zero bytes, a repeated byte, a second magic): the
                // string no longer ENDS with a trailer
                if r.chance(1, 5) {
                    let pad = r.range(1, 9) as usize;
                    match r.below(3) {
                        0 => b.extend(std::iter::repeat(0u8).take(pad)),
                        1 => b.extend(std::iter::repeat(0xffu8).take(pad)),
                        _ => b.extend_from_slice(&0x6723D4C4u32.to_le_bytes()[..pad.min(4)]),
                    }
                }
                out.push(format!("open {}", hex(&b)));
                // the same bytes opened through a source that answers every read from a schedule
                let mut sch = Vec::new();
                for _ in 0..r.below(14) {
                    sch.push(match r.below(8) {
                        0 | 1 => "i".to_string(),
                        2 => format!("f{}", 4000 + r.below(100)),
                        _ => format!("s{}", r.below(10)),
                    });
                }
                out.push(format!("openio {} {}", hex(&b), if sch.is_empty() { "-".to_string() } else { sch.join(",") }));
                if r.chance(1, 4) {
                    out.push(format!("openfault {} {} {}", hex(&b), r.range(1, 2), 4100 + r.below(100)));
                }
            }
        }
        "huge" => {
            // C14: wide key-length prefix next to a wide value-length prefix (4+5 bytes of framing and more)
            let cases: [(u64, u64); 4] = [(1 << 21, 1 << 28), ((1 << 21) + 1, (1 << 28) - 1), (1 << 14, 1 << 28), ((1 << 21) - 1, (1 << 21) + 5)];
            let (k, v) = cases[(idx % 4) as usize];
            out.push(format!("!hugeentry {} {}", k, v));
        }
        "corrupt" => {
            // C17: damaged block bytes of small uncompressed files (several blocks / index levels)
            let n = r.range(1, 8) as usize;
            let es = gen_entries(r, n);
            let mut cfg = gen_cfg(r, &CfgOpts { all_codecs: false, deep: true, extreme_levels: false });
            cfg = cfg.replace(&cfg[cfg.find("codec=").unwrap()..cfg.find(" level").unwrap()], "codec=0");
            out.push(cfg);
            out.push("wnew".into());
            ins_lines(&mut out, &es);
            out.push("finish".into());
            out.push("!corrupt".into());
        }
        "trunc" | "truncall" => {
            // every truncation length of a finished file, every single-byte corruption of its trailer
            let n = r.range(0, 6) as usize;
            let es = gen_entries(r, n);
            out.push(gen_cfg(r, &CfgOpts { all_codecs: false, deep: true, extreme_levels: false }));
            out.push("wnew".into());
            ins_lines(&mut out, &es);
            out.push("finish".into());
            out.push(if stream == "truncall" { "truncs all".into() } else { "truncs".to_string() });
        }
        "write" if r.chance(1, 16) => {
            // every default of the builders (block size 8192, interval 8, levels 0, no codec):
            // `cfg default` makes the harness set nothing at all
            out.push("cfg default".into());
            out.push("wnew".into());
            let n = r.range(1200, 2500);
            let es: Vec<Entry> = (0..n).map(|i| ((i as u32).to_be_bytes().to_vec(), r.bytes(4))).collect();
            ins_lines(&mut out, &es);
            out.push("finish".into());
            out.push("load".into());
            out.push("interop".into());
            out.push("cnew 0".into());
            for _ in 0..30 {
                out.push(format!("c 0 {}", gen_cursor_op(r, &es)));
            }
        }
        "exh" => {
            // bounded-exhaustive cursor histories: EVERY operation sequence of length <= 3 over
            // {first,last,next,prev,reset,current} and ge/le/eq at every probe class, on a small
            // deep file; clones give the tree of sequences without re-running prefixes
            let n = r.range(5, 8) as usize;
            let es: Vec<Entry> = gen_keys(r, n, 1).into_iter().map(|k| (k, r.bytes(2))).collect();
            out.push(format!("cfg codec=0 level=0 bs=32 minbs=32 iv={} levels={}", r.range(1, 3), r.range(2, 3)));
            out.push("wnew".into());
            ins_lines(&mut out, &es);
            out.push("finish".into());
            out.push("load".into());
            let mut probes: Vec<Vec<u8>> = vec![Vec::new(), vec![0xff; 7]];
            for (k, _) in &es {
                probes.push(k.clone());
                let mut a = k.clone();
                a.push(0);
                probes.push(a);
            }
            probes.sort();
            probes.dedup();
            let mut ops: Vec<String> = ["first", "last", "next", "prev", "reset", "current"].iter().map(|s| s.to_string()).collect();
            for q in &probes {
                for o in ["ge", "le", "eq"] {
                    ops.push(format!("{} {}", o, hex(q)));
                }
            }
            out.push("cnew 0".into());
            for a in &ops {
                out.push("cclone 0 1".into());
                out.push(format!("c 1 {}", a));
                for b in &ops {
                    out.push("cclone 1 2".into());
                    out.push(format!("c 2 {}", b));
                    for c in &ops {
                        out.push("cclone 2 3".into());
                        out.push(format!("c 3 {}", c));
                    }
                }
            }
        }
        "write" => {
            let o = CfgOpts { all_codecs: true, deep: false, extreme_levels: true };
            let es = build_file(r, &mut out, &o, 60);
            out.push("load".into());
            out.push("interop".into());
            out.push("cnew 0".into());
            for _ in 0..es.len() + 2 {
                out.push("c 0 next".into());
            }
            out.push("c 0 reset".into());
            for _ in 0..es.len() + 2 {
                out.push("c 0 prev".into());
            }
        }
        "unsorted" => {
            let n = r.range(2, 40) as usize;
            let mut es = gen_entries(r, n);
            // mutations of a sorted sequence: swap, duplicate, reset-to-small
            for _ in 0..r.range(1, 3) {
                if es.len() < 2 {
                    break;
                }
                let i = r.below(es.len() as u64 - 1) as usize;
                match r.below(4) {
                    0 => es.swap(i, i + 1),
                    1 => {
                        let e = es[i].clone();
                        es.insert(i + 1, e);
                    }
                    2 => {
                        let j = r.below(es.len() as u64) as usize;
                        let e = es[j].clone();
                        es.insert(i, e);
                    }
                    _ => {
                        let e = es[0].clone();
                        let at = r.below(es.len() as u64) as usize;
                        es.insert(at, e);
                    }
                }
            }
            let mut cfg = gen_cfg(r, &CfgOpts { all_codecs: false, deep: true, extreme_levels: false });
            cfg = cfg.replace(&cfg[cfg.find("codec=").unwrap()..cfg.find(" level").unwrap()], "codec=0");
            out.push(cfg);
            out.push("wnew".into());
            ins_lines(&mut out, &es);
            out.push("finish".into());
        }
        "cursor" => {
            let o = CfgOpts { all_codecs: false, deep: true, extreme_levels: false };
            let es = build_file(r, &mut out, &o, 50);
            out.push("load".into());
            out.push("cnew 0".into());
            let mut live = vec![0u64];
            for _ in 0..r.range(20, 70) {
                let c = *r.pick(&live);
                if r.chance(1, 25) && live.len() < 4 {
                    let j = live.len() as u64;
                    out.push(format!("cclone {} {}", c, j));
                    live.push(j);
                } else {
                    out.push(format!("c {} {}", c, gen_cursor_op(r, &es)));
                }
            }
        }
        "big" => {
            // C16: the bound must not depend on the number of entries
            let n = *r.pick(&[20000u64, 50000, 100000]);
            let levels = *r.pick(&[0u64, 1, 2, 3]);
            let (bs, minbs) = *r.pick(&[(8192u64, 1024u64), (1024, 1024), (256, 256)]);
            out.push(format!("bigfile {} codec=0 bs={} minbs={} iv={} levels={}", n, bs, minbs, r.pick(&[1u64, 8, 64]), levels));
            out.push("cnew 0".into());
            for _ in 0..120 {
                let op = match r.below(10) {
                    0 => "first".to_string(),
                    1 => "last".to_string(),
                    2 | 3 => "next".to_string(),
                    4 | 5 => "prev".to_string(),
                    6 => "reset".to_string(),
                    _ => {
                        let q = (r.below(3 * n + 10) as u32).to_be_bytes();
                        format!("{} {}", r.pick(&["ge", "le", "eq"]), hex(&q))
                    }
                };
                out.push(format!("c 0 {}", op));
            }
        }
        "edge" => {
            // a fixed corpus of tiny inputs (the shapes random generation almost never draws),
            // each under a random configuration: round trip, scans, seeks, iterators
            let corpus: Vec<Vec<(&[u8], &[u8])>> = vec![
                vec![(b"", b"")],
                vec![(b"", b"v")],
                vec![(b"k", b"")],
                vec![(b"", b""), (b"\x00", b"")],
                vec![(b"", b"x"), (b"a", b""), (b"a\x00", b"y")],
                vec![(b"\xff", b""), (b"\xff\xff", b""), (b"\xff\xff\xff", b"z")],
                vec![(b"a", b"1"), (b"ab", b"2"), (b"abc", b"3"), (b"b", b"")],
                vec![(b"\x00", b"\x00")],
            ];
            let es: Vec<Entry> = corpus[(idx % corpus.len() as u64) as usize].iter().map(|(k, v)| (k.to_vec(), v.to_vec())).collect();
            let o = CfgOpts { all_codecs: true, deep: r.chance(1, 2), extreme_levels: false };
            out.push(gen_cfg(r, &o));
            out.push("wnew".into());
            ins_lines(&mut out, &es);
            out.push("finish".into());
            out.push("load".into());
            out.push("interop".into());
            out.push("cnew 0".into());
            for _ in 0..es.len() + 2 {
                out.push("c 0 next".into());
            }
            out.push("c 0 reset".into());
            for _ in 0..es.len() + 2 {
                out.push("c 0 prev".into());
            }
            let mut probes: Vec<Vec<u8>> = vec![Vec::new(), vec![0], vec![0xff], b"a".to_vec(), b"ab\x00".to_vec()];
            probes.extend(es.iter().map(|e| e.0.clone()));
            for q in &probes {
                for op in ["ge", "le", "eq"] {
                    out.push(if r.chance(1, 2) { "c 0 reset".to_string() } else { "c 0 current".to_string() });
                    out.push(format!("c 0 {} {}", op, hex(q)));
                }
            }
            for (i, q) in probes.iter().enumerate() {
                out.push(format!("prefix {} {} {}", i, hex(q), if i % 2 == 0 { "fwd" } else { "rev" }));
                out.push(format!("itall {}", i));
                out.push(format!("range {} I{} U {}", 100 + i, hex(q).replace('-', ""), if i % 2 == 0 { "rev" } else { "fwd" }));
                out.push(format!("itall {}", 100 + i));
                out.push(format!("range {} U E{} fwd", 200 + i, hex(q).replace('-', "")));
                out.push(format!("itall {}", 200 + i));
            }
        }
        "seek" => {
            // C02: fresh / reset cursors, probes at every equivalence class
            let o = CfgOpts { all_codecs: false, deep: true, extreme_levels: false };
            let es = build_file(r, &mut out, &o, 40);
            out.push("load".into());
            out.push("cnew 0".into());
            let mut probes: Vec<Vec<u8>> = vec![Vec::new(), vec![0xff; 8]];
            for (k, _) in &es {
                probes.push(k.clone());
                let mut a = k.clone();
                a.push(0);
                probes.push(a);
                let mut b = k.clone();
                if b.pop().is_some() {
                    probes.push(b);
                }
            }
            for _ in 0..10 {
                probes.push(gen_probe(r, &es));
            }
            for q in probes {
                let op = *r.pick(&["ge", "le", "eq"]);
                if r.chance(1, 2) {
                    out.push("c 0 reset".into());
                } else {
                    out.push("cnew 0".into());
                }
                out.push(format!("c 0 {} {}", op, hex(&q)));
            }
        }
        "iter" | "v1" => {
            let o = CfgOpts { all_codecs: stream == "v1", deep: true, extreme_levels: false };
            let es = if stream == "v1" {
                let n = r.range(0, 40) as usize;
                let es = gen_entries(r, n);
                let mut cfg = gen_cfg(r, &o);
                let a = cfg.find("levels=").unwrap();
                cfg.truncate(a);
                cfg.push_str("levels=0");
                out.push(cfg);
                out.push("wnew".into());
                ins_lines(&mut out, &es);
                out.push("finish".into());
                es
            } else {
                build_file(r, &mut out, &o, 40)
            };
            let mut queries: Vec<String> = Vec::new();
            let bound = |r: &mut Rng, es: &[Entry]| -> String {
                match r.below(3) {
                    0 => "U".to_string(),
                    1 => format!("I{}", hex(&gen_probe(r, es)).replace('-', "")),
                    _ => format!("E{}", hex(&gen_probe(r, es)).replace('-', "")),
                }
            };
            for i in 0..12 {
                let dir = if r.chance(1, 2) { "fwd" } else { "rev" };
                if r.chance(1, 2) {
                    let lo = bound(r, &es);
                    let hi = bound(r, &es);
                    queries.push(format!("range {} {} {} {}", i, lo, hi, dir));
                } else {
                    let mut p = gen_probe(r, &es);
                    if r.chance(1, 2) && !p.is_empty() {
                        let cut = r.below(p.len() as u64) as usize;
                        p.truncate(cut);
                    }
                    if r.chance(1, 6) {
                        p = vec![0xff; r.range(1, 3) as usize];
                    }
                    queries.push(format!("prefix {} {} {}", i, hex(&p), dir));
                }
                queries.push(format!("itall {}", i));
            }
            let mut seeks: Vec<String> = Vec::new();
            if stream == "v1" {
                seeks.push("cnew 0".into());
                for _ in 0..25 {
                    seeks.push(format!("c 0 {}", gen_cursor_op(r, &es)));
                }
            }
            out.push("load".into());
            out.extend(queries.iter().cloned());
            out.extend(seeks.iter().cloned());
            if stream == "v1" {
                if r.chance(1, 2) {
                    out.push(format!("srcopt {}={}", r.pick(&["choppy", "short", "intr"]), r.next() % 1000000));
                }
                out.push("!v1big".into());
                out.push("v1".into());
                out.extend(queries);
                out.extend(seeks);
            }
        }
        "merge" if r.chance(1, 12) => {
            // more sources than a byte can count: the tie-break on the source position must
            // still order equal keys by the position at which their source was added
            let k = r.range(257, 300);
            let shared = gen_keys(r, 3, 1);
            for i in 0..k {
                let mut es: Vec<Entry> = Vec::new();
                for key in &shared {
                    if r.chance(2, 3) {
                        es.push((key.clone(), (i as u16).to_be_bytes().to_vec()));
                    }
                }
                es.sort();
                out.push(format!("msrc {} codec=0 bs=1024", fmt_entries(&es)));
            }
            out.push("merge concat 0".into());
        }
        "merge" if r.chance(1, 10) => {
            // between 14 and 36 sources sharing keys (stack-allocated value lists of 16 / 32 slots and the like)
            let k = *r.pick(&[14u64, 15, 16, 17, 18, 31, 32, 33, 34, 36]);
            let shared = gen_keys(r, 3, 1);
            for i in 0..k {
                let mut es: Vec<Entry> = Vec::new();
                for (j, key) in shared.iter().enumerate() {
                    if j == 0 || r.chance(1, 2) {
                        es.push((key.clone(), vec![b'a' + (i % 26) as u8, i as u8]));
                    }
                }
                es.sort();
                es.dedup_by(|a, b| a.0 == b.0);
                out.push(format!("msrc {} codec=0 bs=1024", fmt_entries(&es)));
            }
            out.push("merge concat 0".into());
            out.push("mergew concat 0".into());
        }
        "merge" => {
            let k = r.below(6);
            let n = r.range(1, 30) as usize;
            let pool = gen_entries(r, n);
            let o = CfgOpts { all_codecs: false, deep: true, extreme_levels: false };
            for _ in 0..k {
                let mut es: Vec<Entry> = Vec::new();
                let density = r.range(0, 4);
                for (key, _) in &pool {
                    if r.below(4) < density {
                        es.push((key.clone(), gen_val(r)));
                    }
                }
                let cfg = gen_cfg(r, &o);
                out.push(format!("msrc {} {}", fmt_entries(&es), &cfg[4..]));
            }
            let mf = *r.pick(&["concat", "concat", "first", "sum", "bag", "frame", "frame"]);
            out.push(format!("merge {} 0", mf));
            out.push(format!("mergew {} 0", mf));
        }
        "sorter" if r.chance(1, 12) => {
            // no hook: the builder's real clamps and initial capacity (10 MiB minimum, 128 KiB
            // initial buffer); a handful of small inserts, every exit
            let thr = *r.pick(&[0u64, 1024, 10485760, 10485767, 20000000]);
            let realloc = r.below(2);
            let maxchunks = *r.pick(&[0u64, 1, 2, 25]);
            out.push(format!("scfg thr={} realloc={} maxchunks={} stable=1 par=0 codec=0 bs=8192", thr, realloc, maxchunks));
            out.push("snew concat 0".into());
            let keys = gen_keys(r, 6, 1);
            for _ in 0..r.range(0, 30) {
                let k = r.pick(&keys[..]).clone();
                let n = r.range(0, 40) as usize;
                out.push(format!("sins {} {}", hex(&k), hex(&r.bytes(n))));
            }
            out.push(format!("sfinish {}", r.pick(&["stream", "writer", "cursors"])));
        }
        "sorter" if r.chance(1, 10) => {
            // C08, volume: a budget a little below one of the buffer sizes init·2^k and entries that pack badly
            // (each at most a quarter of the budget): a spill decision taken on anything but the buffer
            // length lets the buffer double once more and the unspilled volume pass twice the budget
            let init = *r.pick(&[512u64, 1024, 2048]);
            let top = init << r.range(2, 4);
            let budget = top * r.range(86, 97) / 100;
            let realloc = if r.chance(5, 6) { 1 } else { 0 };
            let maxchunks = *r.pick(&[0u64, 2, 5, 25]);
            let creator = *r.pick(&["custom", "custom", "cursorvec"]);
            out.push(format!(
                "scfg creator={} thr={} minmem={} init={} realloc={} maxchunks={} stable=1 par=0 codec=0 bs=8192",
                creator, if r.chance(1, 2) { 0 } else { budget }, budget, init, realloc, maxchunks
            ));
            out.push("snew sum 0".into());
            let frac = r.range(15, 24); // entry size as a percentage of the budget
            let esize = (budget * frac / 100).max(32);
            for i in 0..r.range(12, 40) {
                let k = vec![b'k', (i / 256) as u8, (i % 256) as u8];
                let vlen = (esize - 16 - 3 - r.below(8)) as usize;
                out.push(format!("sins {} {}", hex(&k), hex(&vec![b'v'; vlen])));
            }
            out.push(format!("sfinish {}", r.pick(&["stream", "writer"])));
        }
        "sorter" | "sorterio" => {
            let minmem = *r.pick(&[64u64, 128, 256, 512, 1024]);
            let init = *r.pick(&[16u64, 32, 64, 128]);
            let thr = *r.pick(&[0u64, minmem, 2 * minmem, minmem + 7, 2 * minmem + 9]);
            let realloc = r.below(2);
            let maxchunks = *r.pick(&[0u64, 1, 2, 3, 5, 25]);
            let stable = if r.chance(3, 4) { 1 } else { 0 };
            let par = if r.chance(1, 5) { 1 } else { 0 };
            let o = CfgOpts { all_codecs: true, deep: false, extreme_levels: false };
            let cfg = gen_cfg(r, &o);
            let creator = if stream == "sorter" { *r.pick(&["custom", "custom", "custom", "cursorvec", "tempfile"]) } else { "custom" };
            out.push(format!(
                "scfg creator={} thr={} minmem={} init={} realloc={} maxchunks={} stable={} par={} {}",
                creator, thr, minmem, init, realloc, maxchunks, stable, par, &cfg[4..]
            ));
            if stream == "sorterio" {
                out.push(format!("sfault choppy:{}", r.next() % 100000));
            }
            if creator == "custom" && r.chance(1, 3) {
                // write-behind chunk storage: bytes become readable only after `flush`
                out.push("sfault wb:1".into());
            }
            let mf = if stable == 1 && par == 0 { *r.pick(&["concat", "concat", "sum", "bag"]) } else { *r.pick(&["sum", "bag"]) };
            out.push(format!("snew {} 0", mf));
            let budget = thr.max(minmem);
            let n = r.range(1, 25) as usize;
            let shape = r.below(5);
            let pool = gen_keys(r, n, shape);
            let only_empty = r.chance(1, 10);
            let tail_empty = r.chance(1, 6);
            for _ in 0..r.range(0, 120) {
                let k = r.pick(&pool).clone();
                let k: Vec<u8> = k.into_iter().take(budget as usize / 8).collect();
                let vlen = match r.below(12) {
                    0 => 0,
                    1 => r.range(budget / 4, budget / 2 + 4),      // big relative to the budget
                    2 => if r.chance(1, 4) { r.range(budget, budget * 3) } else { 3 }, // larger than the buffer
                    _ => r.range(1, 6),
                } as usize;
                let v = r.bytes(vlen);
                if only_empty {
                    out.push("sins - -".into());
                } else {
                    out.push(format!("sins {} {}", hex(&k), hex(&v)));
                }
            }
            if tail_empty {
                // the entries pending at the final flush are all (empty key, empty value)
                for _ in 0..r.range(1, 3) {
                    out.push("sins - -".into());
                }
            }
            out.push(format!("sfinish {}", r.pick(&["stream", "writer", "cursors"])));
        }
        "wio" => {
            // C11, write side: the same inserts under a random per-call schedule
            let o = CfgOpts { all_codecs: false, deep: true, extreme_levels: false };
            let n = r.range(0, 30) as usize;
            let es = gen_entries(r, n);
            let mut cfg = gen_cfg(r, &o);
            cfg = cfg.replace(&cfg[cfg.find("codec=").unwrap()..cfg.find(" level").unwrap()], "codec=0");
            out.push(cfg);
            out.push("wnew".into());
            let mut sched = Vec::new();
            for _ in 0..r.range(0, 400) {
                sched.push(match r.below(5) {
                    0 => "i".to_string(),
                    1 => "a1".to_string(),
                    _ => format!("a{}", r.range(1, 40)),
                });
            }
            out.push(format!("wsched {}", if sched.is_empty() { "-".into() } else { sched.join(",") }));
            ins_lines(&mut out, &es);
            out.push("finish".into());
            out.push("sinkstate".into());
        }
        "rio" => {
            // C11, read side: every reader-side scenario again over a choppy source
            let o = CfgOpts { all_codecs: true, deep: true, extreme_levels: false };
            let es = build_file(r, &mut out, &o, 40);
            out.push(format!("srcopt {}={}", r.pick(&["choppy", "short", "intr"]), r.next() % 1000000));
            out.push("load".into());
            if r.chance(1, 3) {
                out.push("v1".into());
            }
            out.push("cnew 0".into());
            for _ in 0..40 {
                out.push(format!("c 0 {}", gen_cursor_op(r, &es)));
            }
            for i in 0..4 {
                let dir = if r.chance(1, 2) { "fwd" } else { "rev" };
                out.push(format!("prefix {} {} {}", i, hex(&gen_probe(r, &es)), dir));
                out.push(format!("itall {}", i));
            }
        }
        _ => {}
    }
    out
}

/// C08 / C12 under persistent chunk-storage faults (implementation-only oracles).
pub fn faultbig_scenarios(r: &mut Rng, idx: u64, out: &mut Vec<String>) {
    let tag = 7000 + idx;
    // persistent fault: every write growing a chunk beyond `limit` bytes fails, so spills succeed and
    // the larger merged chunks keep failing; the caller goes on inserting (C08 under faults, C12)
    for (j, limit) in [700u64, 1100, 1500, 2500].iter().enumerate() {
        for maxchunks in [1u64, 2, 3] {
            out.push(format!("S fault-big-{}-{}-{}", idx, j, maxchunks));
            out.push(format!("scfg thr=0 minmem=512 init=512 realloc=0 maxchunks={} stable=1 par=0 codec=0 bs=1024", maxchunks));
            out.push(format!("sfault big:{}:{}", limit, tag));
            out.push("snew concat 0".into());
            for i in 0..220u32 {
                out.push(format!("!sins {} {}", hex(&(i * 7919 % 1000).to_be_bytes()), hex(&r.bytes(20))));
            }
            out.push("!sfinish stream".into());
        }
    }
}

/// C12: one base scenario, then the same scenario with the k-th call of one component failing,
/// for every k (exhaustive up to the number of calls the base run issues, capped).
pub fn fault_scenarios(r: &mut Rng, idx: u64, out: &mut Vec<String>) {
    let tag = 7000 + idx;
    let o = CfgOpts { all_codecs: false, deep: true, extreme_levels: false };
    match idx % 4 {
        0 => {
            // sink write faults and flush faults
            let n = r.range(1, 12) as usize;
            let es = gen_entries(r, n);
            let mut cfg = gen_cfg(r, &o);
            cfg = cfg.replace(&cfg[cfg.find("codec=").unwrap()..cfg.find(" level").unwrap()], "codec=0");
            for k in 0..60 {
                out.push(format!("S fault-w-{}-{}", idx, k));
                out.push(cfg.clone());
                out.push("wnew".into());
                let mut sched: Vec<String> = (0..k).map(|_| "a100000".to_string()).collect();
                sched.push(format!("f{}", tag));
                out.push(format!("wsched {}", sched.join(",")));
                ins_lines(out, &es);
                out.push("finish".into());
                out.push("sinkstate".into());
            }
            out.push(format!("S fault-flush-{}", idx));
            out.push(cfg.clone());
            out.push("wnew".into());
            out.push(format!("wflushfault 1 {}", tag));
            ins_lines(out, &es);
            out.push("finish".into());
        }
        1 => {
            // source faults under a cursor history
            let mut base = Vec::new();
            let es = build_file(r, &mut base, &o, 25);
            base.push("load".into());
            let ops: Vec<String> = (0..25).map(|_| format!("c 0 {}", gen_cursor_op(r, &es))).collect();
            for k in 1..40 {
                for kind in ["seek", "read", "seekintr"] {
                    out.push(format!("S fault-r-{}-{}-{}", idx, kind, k));
                    out.extend(base.iter().cloned());
                    out.push(format!("srcopt fault={}:{}:{}", kind, k, tag));
                    out.push("cnew 0".into());
                    out.extend(ops.iter().cloned());
                }
            }
        }
        2 => {
            // merge-function faults in a merger and in a sorter
            let n = r.range(1, 12) as usize;
            let pool = gen_entries(r, n);
            let mut srcs = Vec::new();
            for _ in 0..3 {
                let mut es: Vec<Entry> = Vec::new();
                for (k, _) in &pool {
                    if r.chance(2, 3) {
                        es.push((k.clone(), gen_val(r)));
                    }
                }
                srcs.push(format!("msrc {} {}", fmt_entries(&es), &gen_cfg(r, &o)[4..]));
            }
            for k in 1..=(pool.len() as u64 + 1) {
                out.push(format!("S fault-m-{}-{}", idx, k));
                out.extend(srcs.iter().cloned());
                out.push(format!("merge concat {}", k));
                out.push(format!("mergew concat {}", k));
            }
            let keys = gen_keys(r, 6, 1);
            let inserts: Vec<String> = (0..40).map(|_| format!("sins {} {}", hex(&r.pick(&keys[..]).clone()), hex(&r.bytes(3)))).collect();
            for k in 1..50 {
                out.push(format!("S fault-sm-{}-{}", idx, k));
                out.push("scfg thr=0 minmem=128 init=32 realloc=1 maxchunks=3 stable=1 par=0 codec=0 bs=1024".into());
                out.push(format!("snew concat {}", k));
                out.extend(inserts.iter().cloned());
                out.push("sfinish stream".into());
            }
        }
        _ => {
            // chunk creator faults (predicted by the model) and chunk storage faults (impl-only oracle)
            let keys = gen_keys(r, 8, 1);
            let inserts: Vec<(String, String)> = (0..50).map(|_| (hex(&r.pick(&keys[..]).clone()), hex(&r.bytes(4)))).collect();
            for k in 1..25 {
                out.push(format!("S fault-cc-{}-{}", idx, k));
                out.push("scfg thr=0 minmem=128 init=32 realloc=1 maxchunks=3 stable=1 par=0 codec=0 bs=1024".into());
                out.push(format!("sfault create:{}:{}", k, tag));
                out.push("snew concat 0".into());
                for (k, v) in &inserts {
                    out.push(format!("sins {} {}", k, v));
                }
                out.push("sfinish stream".into());
            }
            for k in 1..400 {
                out.push(format!("S fault-co-{}-{}", idx, k));
                out.push("scfg thr=0 minmem=128 init=32 realloc=1 maxchunks=3 stable=1 par=0 codec=0 bs=1024".into());
                out.push(format!("sfault op:{}:{}", k, tag));
                out.push("snew concat 0".into());
                for (k, v) in &inserts {
                    out.push(format!("!sins {} {}", k, v));
                }
                out.push("!sfinish stream".into());
            }
            // chunks spanning several blocks: faults while a merge crosses a block boundary
            let big: Vec<(String, String)> = (0..60u32).map(|i| (hex(&(i * 7 % 60).to_be_bytes()), hex(&r.bytes(150)))).collect();
            for k in 1..260 {
                out.push(format!("S fault-cb-{}-{}", idx, k));
                out.push("scfg thr=0 minmem=4096 init=4096 realloc=0 maxchunks=2 stable=1 par=0 codec=0 bs=1024".into());
                out.push(format!("sfault op:{}:{}", k, tag));
                out.push("snew concat 0".into());
                for (k, v) in &big {
                    out.push(format!("!sins {} {}", k, v));
                }
                out.push("!sfinish stream".into());
            }
            // merger sources spanning several blocks, one of them failing at its n-th seek / read
            let mut srcs = Vec::new();
            for j in 0..3u32 {
                let es: Vec<Entry> = (0..40u32).filter(|i| (i + j) % 3 != 0).map(|i| (i.to_be_bytes().to_vec(), r.bytes(100))).collect();
                srcs.push(format!("msrc {} codec=0 bs=1024 levels={}", fmt_entries(&es), j % 3));
            }
            // a single source, and sources of very different extents: the failing source is the last one running
            // (nothing left in the heap to carry on after it)
            let lone: Vec<Entry> = (0..60u32).map(|i| (i.to_be_bytes().to_vec(), r.bytes(100))).collect();
            let short: Vec<Entry> = (0..6u32).map(|i| ((i * 2).to_be_bytes().to_vec(), r.bytes(10))).collect();
            for k in 1..14 {
                for kind in ["seek", "read", "seekintr"] {
                    out.push(format!("S fault-ms1-{}-{}-{}", idx, kind, k));
                    out.push(format!("msrc {} codec=0 bs=1024 levels=1", fmt_entries(&lone)));
                    out.push(format!("srcopt fault={}:{}:{}", kind, k, tag));
                    out.push("!merge concat 0".into());
                    out.push("!mergew concat 0".into());
                    out.push(format!("S fault-ms2-{}-{}-{}", idx, kind, k));
                    out.push(format!("msrc {} codec=0 bs=1024 levels=0", fmt_entries(&short)));
                    out.push(format!("msrc {} codec=0 bs=1024 levels=1", fmt_entries(&lone)));
                    out.push(format!("srcopt fault={}:{}:{}", kind, 2 * k + 1, tag));
                    out.push("!merge concat 0".into());
                    out.push("!mergew concat 0".into());
                }
            }
            for k in 1..40 {
                for kind in ["seek", "read", "seekintr"] {
                    out.push(format!("S fault-ms-{}-{}-{}", idx, kind, k));
                    out.extend(srcs.iter().cloned());
                    out.push(format!("srcopt fault={}:{}:{}", kind, k, tag));
                    out.push("!merge concat 0".into());
                    out.push("!mergew concat 0".into());
                }
            }
        }
    }
}
