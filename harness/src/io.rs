//! Instrumented sink / source / chunk storage: schedules, faults, counters.

use std::cell::RefCell;
use std::io::{self, Read, Seek, SeekFrom, Write};
use std::rc::Rc;
use std::sync::Arc;

use crate::util::Rng;

pub const TAG_BASE: u64 = 0x7a6700000000;

pub fn tagged_error(tag: u64) -> io::Error {
    io::Error::new(io::ErrorKind::Other, format!("verif-fault-{}", tag))
}

/// Extracts the tag of an injected fault from an error message.
pub fn tag_of(msg: &str) -> Option<u64> {
    let i = msg.find("verif-fault-")?;
    let rest = &msg[i + "verif-fault-".len()..];
    let digits: String = rest.chars().take_while(|c| c.is_ascii_digit()).collect();
    digits.parse().ok()
}

#[derive(Clone, Debug)]
pub enum WResp {
    Accept(usize),
    Interrupted,
    Fail(u64),
}

pub fn parse_sched(s: &str) -> Vec<WResp> {
    if s == "-" {
        return Vec::new();
    }
    s.split(',')
        .filter_map(|t| {
            let (c, n) = t.split_at(1);
            match c {
                "a" => n.parse().ok().map(WResp::Accept),
                "i" => Some(WResp::Interrupted),
                "f" => n.parse().ok().map(WResp::Fail),
                _ => None,
            }
        })
        .collect()
}

#[derive(Default)]
pub struct SinkState {
    pub data: Vec<u8>,
    pub sched: std::collections::VecDeque<WResp>,
    pub writes: u64,
    pub flushes: u64,
    /// fail the n-th flush (1-based) with this tag
    pub flush_fault: Option<(u64, u64)>,
    /// (offset, length) of every write call that was accepted in full, in order
    pub calls: Vec<(usize, usize)>,
    /// write-behind sink (BufWriter-like): accepted bytes are staged and reach `data` only at `flush`
    pub write_behind: bool,
    pub staged: Vec<u8>,
}

/// A sink answering every `write` from a schedule; an exhausted schedule accepts everything.
#[derive(Clone)]
pub struct Sink(pub Rc<RefCell<SinkState>>);

impl Sink {
    pub fn new(sched: Vec<WResp>) -> Sink {
        Sink(Rc::new(RefCell::new(SinkState { sched: sched.into(), ..Default::default() })))
    }
}

impl Write for Sink {
    fn write(&mut self, buf: &[u8]) -> io::Result<usize> {
        let mut st = self.0.borrow_mut();
        st.writes += 1;
        if buf.is_empty() {
            return Ok(0);
        }
        match st.sched.pop_front() {
            None => {
                if st.write_behind {
                    st.staged.extend_from_slice(buf);
                    return Ok(buf.len());
                }
                let at = st.data.len();
                st.calls.push((at, buf.len()));
                st.data.extend_from_slice(buf);
                Ok(buf.len())
            }
            Some(WResp::Accept(n)) => {
                let m = n.min(buf.len()).max(1);
                if m == buf.len() {
                    let at = st.data.len();
                    st.calls.push((at, m));
                }
                st.data.extend_from_slice(&buf[..m]);
                Ok(m)
            }
            Some(WResp::Interrupted) => Err(io::Error::new(io::ErrorKind::Interrupted, "interrupted")),
            Some(WResp::Fail(tag)) => Err(tagged_error(tag)),
        }
    }

    fn flush(&mut self) -> io::Result<()> {
        let mut st = self.0.borrow_mut();
        st.flushes += 1;
        if let Some((n, tag)) = st.flush_fault {
            if st.flushes == n {
                return Err(tagged_error(tag));
            }
        }
        let staged = std::mem::take(&mut st.staged);
        st.data.extend_from_slice(&staged);
        Ok(())
    }
}

#[derive(Default, Clone, Debug)]
pub struct SrcStats {
    pub seeks: u64,
    pub seek_starts: u64,
    pub reads: u64,
    pub bytes: u64,
    /// lowest absolute position any read touched
    pub low: u64,
}

#[derive(Clone, Debug)]
pub enum SrcFault {
    /// the n-th seek (1-based, counted on this source and its clones) fails
    Seek(u64, u64),
    /// the first read after the n-th seek fails
    ReadAfterSeek(u64, u64),
    /// the n-th seek fails with `ErrorKind::Interrupted` (a seek is not retried by std: the failure must surface)
    SeekIntr(u64, u64),
}

/// A seekable in-memory source with counters, optional short/interrupted reads and faults.
#[derive(Clone)]
pub struct Src {
    pub data: Arc<Vec<u8>>,
    pub pos: u64,
    pub stats: Rc<RefCell<SrcStats>>,
    pub fault: Rc<RefCell<Option<SrcFault>>>,
    pub fired: Rc<RefCell<bool>>,
    /// answers every `read` from an explicit schedule (serve n / interrupted / fail tag)
    pub rsched: Option<Rc<RefCell<std::collections::VecDeque<WResp>>>>,
    pub choppy: Option<Rc<RefCell<Rng>>>,
    /// 0 = short reads and interruptions, 1 = short reads only, 2 = interruptions only
    pub choppy_mode: u8,
}

impl Src {
    pub fn new(data: Arc<Vec<u8>>) -> Src {
        let low = data.len() as u64;
        Src {
            data,
            pos: 0,
            stats: Rc::new(RefCell::new(SrcStats { low, ..Default::default() })),
            fault: Rc::new(RefCell::new(None)),
            fired: Rc::new(RefCell::new(false)),
            rsched: None,
            choppy: None,
            choppy_mode: 0,
        }
    }
    pub fn reset_stats(&self) {
        let mut s = self.stats.borrow_mut();
        *s = SrcStats { low: self.data.len() as u64, ..Default::default() };
    }
}

impl Read for Src {
    fn read(&mut self, buf: &mut [u8]) -> io::Result<usize> {
        {
            let st = self.stats.borrow();
            if let Some(SrcFault::ReadAfterSeek(n, tag)) = &*self.fault.borrow() {
                if st.seeks == *n && !*self.fired.borrow() {
                    *self.fired.borrow_mut() = true;
                    return Err(tagged_error(*tag));
                }
            }
        }
        let avail = (self.data.len() as u64).saturating_sub(self.pos) as usize;
        let mut n = buf.len().min(avail);
        if n > 0 {
            if let Some(q) = &self.rsched {
                match q.borrow_mut().pop_front() {
                    None => {}
                    Some(WResp::Accept(m)) => n = m.min(n).max(1),
                    Some(WResp::Interrupted) => return Err(io::Error::new(io::ErrorKind::Interrupted, "interrupted")),
                    Some(WResp::Fail(tag)) => return Err(tagged_error(tag)),
                }
            }
        }
        if n > 0 {
            if let Some(rng) = &self.choppy {
                let mut r = rng.borrow_mut();
                if self.choppy_mode != 1 && r.chance(1, 4) {
                    return Err(io::Error::new(io::ErrorKind::Interrupted, "interrupted"));
                }
                if self.choppy_mode != 2 && r.chance(3, 4) {
                    n = 1 + r.below(n.min(7) as u64) as usize;
                }
            }
        }
        let start = self.pos as usize;
        buf[..n].copy_from_slice(&self.data[start..start + n]);
        let mut st = self.stats.borrow_mut();
        st.reads += 1;
        st.bytes += n as u64;
        if n > 0 && self.pos < st.low {
            st.low = self.pos;
        }
        self.pos += n as u64;
        Ok(n)
    }
}

impl Seek for Src {
    fn seek(&mut self, to: SeekFrom) -> io::Result<u64> {
        {
            let mut st = self.stats.borrow_mut();
            st.seeks += 1;
            if let SeekFrom::Start(_) = to {
                st.seek_starts += 1;
            }
            if let Some(SrcFault::Seek(n, tag)) = &*self.fault.borrow() {
                if st.seeks == *n {
                    return Err(tagged_error(*tag));
                }
            }
            if let Some(SrcFault::SeekIntr(n, tag)) = &*self.fault.borrow() {
                if st.seeks == *n {
                    return Err(io::Error::new(io::ErrorKind::Interrupted, format!("verif-fault-{}", tag)));
                }
            }
        }
        let len = self.data.len() as i128;
        let target: i128 = match to {
            SeekFrom::Start(o) => o as i128,
            SeekFrom::End(d) => len + d as i128,
            SeekFrom::Current(d) => self.pos as i128 + d as i128,
        };
        if target < 0 {
            return Err(io::Error::new(
                io::ErrorKind::InvalidInput,
                "invalid seek to a negative or overflowing position",
            ));
        }
        self.pos = target as u64;
        Ok(self.pos)
    }
}

/// Chunk storage for the sorter: a growable in-memory file with schedules and faults.
pub struct Chunk {
    pub data: Vec<u8>,
    pub pos: u64,
    pub ctl: Rc<RefCell<ChunkCtl>>,
    /// write-behind storage: (offset, bytes) accepted by `write` but only visible to `read`/`seek`
    /// after `flush` (a BufWriter-like or remote storage)
    pub pending: Vec<(u64, Vec<u8>)>,
}

#[derive(Default)]
pub struct ChunkCtl {
    pub created: u64,
    pub dropped: u64,
    pub events: Vec<char>,
    /// fail the n-th `create`
    pub create_fault: Option<(u64, u64)>,
    /// counts every write / flush / seek / read on any chunk; the n-th such call fails
    pub ops: u64,
    pub op_fault: Option<(u64, u64)>,
    pub choppy: Option<Rng>,
    /// writes become visible only at `flush`
    pub write_behind: bool,
    /// persistent fault: any write that would grow a chunk beyond this many bytes fails
    pub big_fail: Option<(u64, u64)>,
    /// number of faults returned so far (any kind)
    pub faults_fired: u64,
    /// chunks alive right now / the most ever alive at once
    pub live: i64,
    pub max_live: i64,
}

impl Chunk {
    fn tick(&self) -> io::Result<()> {
        let mut c = self.ctl.borrow_mut();
        c.ops += 1;
        if let Some((n, tag)) = c.op_fault {
            if c.ops == n {
                c.faults_fired += 1;
                return Err(tagged_error(tag));
            }
        }
        Ok(())
    }
}

impl Drop for Chunk {
    fn drop(&mut self) {
        let mut c = self.ctl.borrow_mut();
        c.dropped += 1;
        c.live -= 1;
        c.events.push('X');
    }
}

impl Write for Chunk {
    fn write(&mut self, buf: &[u8]) -> io::Result<usize> {
        self.tick()?;
        let mut n = buf.len();
        if n > 0 {
            if let Some(r) = self.ctl.borrow_mut().choppy.as_mut() {
                if r.chance(1, 4) {
                    return Err(io::Error::new(io::ErrorKind::Interrupted, "interrupted"));
                }
                if r.chance(3, 4) {
                    n = 1 + r.below(n.min(7) as u64) as usize;
                }
            }
        }
        let pos = self.pos as usize;
        {
            let mut c = self.ctl.borrow_mut();
            if let Some((limit, tag)) = c.big_fail {
                if (pos + n) as u64 > limit {
                    c.faults_fired += 1;
                    return Err(tagged_error(tag));
                }
            }
            if c.write_behind {
                drop(c);
                self.pending.push((self.pos, buf[..n].to_vec()));
                self.pos += n as u64;
                return Ok(n);
            }
        }
        if self.data.len() < pos + n {
            self.data.resize(pos + n, 0);
        }
        self.data[pos..pos + n].copy_from_slice(&buf[..n]);
        self.pos += n as u64;
        Ok(n)
    }
    fn flush(&mut self) -> io::Result<()> {
        self.tick()?;
        for (off, bytes) in std::mem::take(&mut self.pending) {
            let off = off as usize;
            if self.data.len() < off + bytes.len() {
                self.data.resize(off + bytes.len(), 0);
            }
            self.data[off..off + bytes.len()].copy_from_slice(&bytes);
        }
        Ok(())
    }
}

impl Read for Chunk {
    fn read(&mut self, buf: &mut [u8]) -> io::Result<usize> {
        self.tick()?;
        let avail = (self.data.len() as u64).saturating_sub(self.pos) as usize;
        let mut n = buf.len().min(avail);
        if n > 0 {
            if let Some(r) = self.ctl.borrow_mut().choppy.as_mut() {
                if r.chance(1, 4) {
                    return Err(io::Error::new(io::ErrorKind::Interrupted, "interrupted"));
                }
                if r.chance(3, 4) {
                    n = 1 + r.below(n.min(7) as u64) as usize;
                }
            }
        }
        let start = self.pos as usize;
        buf[..n].copy_from_slice(&self.data[start..start + n]);
        self.pos += n as u64;
        Ok(n)
    }
}

impl Seek for Chunk {
    fn seek(&mut self, to: SeekFrom) -> io::Result<u64> {
        self.tick()?;
        let len = self.data.len() as i128;
        let target: i128 = match to {
            SeekFrom::Start(o) => o as i128,
            SeekFrom::End(d) => len + d as i128,
            SeekFrom::Current(d) => self.pos as i128 + d as i128,
        };
        if target < 0 {
            return Err(io::Error::new(io::ErrorKind::InvalidInput, "invalid seek"));
        }
        self.pos = target as u64;
        Ok(self.pos)
    }
}

pub struct Creator(pub Rc<RefCell<ChunkCtl>>);

impl grenad::ChunkCreator for Creator {
    type Chunk = Chunk;
    type Error = io::Error;

    fn create(&self) -> Result<Chunk, io::Error> {
        let mut c = self.0.borrow_mut();
        c.created += 1;
        if let Some((n, tag)) = c.create_fault {
            if c.created == n {
                c.faults_fired += 1;
                return Err(tagged_error(tag));
            }
        }
        c.events.push('C');
        c.live += 1;
        c.max_live = c.max_live.max(c.live);
        Ok(Chunk { data: Vec::new(), pos: 0, ctl: self.0.clone(), pending: Vec::new() })
    }
}
