//! Executes a scenario script on the real crate and produces the transcript for `gmodel`:
//! one line per operation, `op \t impl-result \t impl-extra`.

use std::borrow::Cow;
use std::cell::RefCell;
use std::collections::{BTreeMap, HashMap};
use std::num::NonZeroUsize;
use std::ops::Bound;
use std::panic::{catch_unwind, AssertUnwindSafe};
use std::rc::Rc;
use std::sync::Arc;

use grenad::{
    CompressionType, Merger, MergerIter, PrefixIter, RangeIter, Reader, ReaderCursor, RevPrefixIter,
    RevRangeIter, SortAlgorithm, Sorter, SorterBuilder, Writer, WriterBuilder,
};

use crate::decode;
use crate::io::{self as vio, ChunkCtl, Creator, Sink, Src, SrcFault};
use crate::util::*;

pub struct Line {
    pub op: String,
    pub f1: String,
    pub f2: String,
}

#[derive(Clone, Debug)]
pub struct WCfg {
    pub codec: u8,
    pub level: u32,
    pub bs: usize,
    pub minbs: usize,
    pub iv: usize,
    pub levels: u8,
    /// nothing is set on the builder: the crate's own defaults apply
    pub dflt: bool,
}

impl Default for WCfg {
    fn default() -> WCfg {
        WCfg { codec: 0, level: 0, bs: 8192, minbs: 1024, iv: 8, levels: 0, dflt: false }
    }
}

impl WCfg {
    pub fn parse(args: &[&str]) -> WCfg {
        if args.first().copied() == Some("default") {
            return WCfg { dflt: true, ..WCfg::default() };
        }
        WCfg {
            dflt: false,
            codec: kv_arg(args, "codec", 0) as u8,
            level: kv_arg(args, "level", 0) as u32,
            bs: kv_arg(args, "bs", 8192) as usize,
            minbs: kv_arg(args, "minbs", 1024) as usize,
            iv: kv_arg(args, "iv", 8) as usize,
            levels: kv_arg(args, "levels", 0) as u8,
        }
    }
    pub fn builder(&self) -> WriterBuilder {
        let mut b = WriterBuilder::new();
        if self.dflt {
            return b;
        }
        b.compression_type(codec_of(self.codec));
        b.compression_level(self.level);
        if self.minbs < 1024 {
            b.verif_block_size_unclamped(self.bs.max(self.minbs));
        } else {
            b.block_size(self.bs);
        }
        b.index_key_interval(NonZeroUsize::new(self.iv.max(1)).unwrap());
        b.index_levels(self.levels);
        b
    }
}

pub fn codec_of(id: u8) -> CompressionType {
    match id {
        1 => CompressionType::SnappyPre05,
        2 => CompressionType::Zlib,
        3 => CompressionType::Lz4,
        4 => CompressionType::Zstd,
        5 => CompressionType::Snappy,
        _ => CompressionType::None,
    }
}

pub fn codec_id(c: CompressionType) -> u8 {
    c as u8
}

fn panic_name(p: Box<dyn std::any::Any + Send>) -> String {
    let msg = if let Some(s) = p.downcast_ref::<String>() {
        s.clone()
    } else if let Some(s) = p.downcast_ref::<&str>() {
        s.to_string()
    } else {
        "unknown".to_string()
    };
    if msg.contains("must be greater than") {
        "keyOrder".into()
    } else if msg.contains("attempt to subtract with overflow") {
        "u8Overflow".into()
    } else {
        let short: String = msg.chars().take(60).map(|c| if c.is_whitespace() { '_' } else { c }).collect();
        format!("other:{}", short)
    }
}

fn fmt_io_err(e: &std::io::Error) -> String {
    match vio::tag_of(&e.to_string()) {
        Some(t) => format!("err io {}", t),
        None => "err io".to_string(),
    }
}

fn fmt_err<U: std::fmt::Display>(e: &grenad::Error<U>) -> String {
    match e {
        grenad::Error::Io(io) => fmt_io_err(io),
        grenad::Error::Merge(_) => "err merge".into(),
        grenad::Error::InvalidCompressionType => "err bad-codec".into(),
        grenad::Error::InvalidFormatVersion => "err bad-magic".into(),
    }
}

// ---------------------------------------------------------------- merge functions

pub type Calls = Rc<RefCell<Vec<(Vec<u8>, Vec<Vec<u8>>)>>>;

#[derive(Clone)]
pub struct Mf {
    pub kind: String,
    pub calls: Calls,
    pub fail_at: u64,
}

fn untag(b: &[u8]) -> Option<Vec<Vec<u8>>> {
    let mut at = 0;
    let mut out = Vec::new();
    while at < b.len() {
        if b.len() - at < 4 {
            return None;
        }
        let n = u32::from_le_bytes([b[at], b[at + 1], b[at + 2], b[at + 3]]) as usize;
        if b.len() - at - 4 < n {
            return None;
        }
        out.push(b[at + 4..at + 4 + n].to_vec());
        at += 4 + n;
    }
    Some(out)
}

pub fn apply_mf(kind: &str, vals: &[Vec<u8>]) -> Vec<u8> {
    match kind {
        "concat" => vals.concat(),
        "first" => vals.first().cloned().unwrap_or_default(),
        // not associative on purpose: the number of values of the call, then every value framed by its length.
        // Merging in several calls (pairwise folding, chunked merges) gives different bytes than one call.
        "frame" => {
            let mut out = (vals.len() as u32).to_le_bytes().to_vec();
            for v in vals {
                out.extend_from_slice(&(v.len() as u32).to_le_bytes());
                out.extend_from_slice(v);
            }
            out
        }
        "sum" => {
            let mut s: u32 = 0;
            for v in vals {
                let mut x = [0u8; 4];
                for (i, b) in v.iter().take(4).enumerate() {
                    x[i] = *b;
                }
                s = s.wrapping_add(u32::from_le_bytes(x));
            }
            s.to_le_bytes().to_vec()
        }
        "bag" => {
            let mut pieces: Vec<Vec<u8>> = Vec::new();
            for v in vals {
                match untag(v) {
                    Some(ps) => pieces.extend(ps),
                    None => pieces.push(v.clone()),
                }
            }
            pieces.sort();
            let mut out = Vec::new();
            for p in pieces {
                out.extend_from_slice(&(p.len() as u32).to_le_bytes());
                out.extend_from_slice(&p);
            }
            out
        }
        _ => Vec::new(),
    }
}

impl grenad::MergeFunction for Mf {
    type Error = String;
    fn merge<'a>(&self, key: &[u8], values: &[Cow<'a, [u8]>]) -> Result<Cow<'a, [u8]>, String> {
        let vals: Vec<Vec<u8>> = values.iter().map(|v| v.to_vec()).collect();
        let n = {
            let mut c = self.calls.borrow_mut();
            c.push((key.to_vec(), vals.clone()));
            c.len() as u64
        };
        if self.fail_at != 0 && n == self.fail_at {
            return Err(format!("verif-merge-fault-{}", n));
        }
        if self.kind == "first" {
            // hand back one of the inputs as it came (typically `Cow::Borrowed`): the borrowed-result path
            return Ok(values[0].clone());
        }
        Ok(Cow::Owned(apply_mf(&self.kind, &vals)))
    }
}

// ---------------------------------------------------------------- interpreter

/// Logical cursor position of the Rust-side specification.
#[derive(Clone, Copy, Debug, PartialEq)]
enum SPos {
    Fresh,
    At(usize),
    Lost,
}

#[derive(Clone, Debug)]
enum IterQ {
    Range(Bound<Vec<u8>>, Bound<Vec<u8>>, bool),
    Prefix(Vec<u8>, bool),
}

/// The specification cursor over a sorted entry list, written independently of the Lean one:
/// `None` = the property leaves the result open.
fn spec_step(es: &[Entry], pos: SPos, op: &str, q: &[u8]) -> (SPos, Option<Option<Entry>>) {
    let land = |i: usize| match es.get(i) {
        Some(e) => (SPos::At(i), Some(Some(e.clone()))),
        None => (SPos::Lost, Some(None)),
    };
    let miss = (SPos::Lost, Some(None));
    match (op, pos) {
        ("first", _) => land(0),
        ("last", _) => if es.is_empty() { miss } else { land(es.len() - 1) },
        ("next", SPos::Fresh) => land(0),
        ("next", SPos::At(i)) => land(i + 1),
        ("next", SPos::Lost) => (SPos::Lost, None),
        ("prev", SPos::Fresh) => if es.is_empty() { miss } else { land(es.len() - 1) },
        ("prev", SPos::At(i)) => if i == 0 { miss } else { land(i - 1) },
        ("prev", SPos::Lost) => (SPos::Lost, None),
        ("ge", _) => match es.iter().position(|e| e.0.as_slice() >= q) {
            Some(i) => land(i),
            None => miss,
        },
        ("le", _) => match es.iter().rposition(|e| e.0.as_slice() <= q) {
            Some(i) => land(i),
            None => miss,
        },
        ("eq", _) => match es.iter().position(|e| e.0.as_slice() == q) {
            Some(i) => land(i),
            None => miss,
        },
        ("reset", _) => (SPos::Fresh, Some(None)),
        ("current", SPos::Fresh) => (SPos::Fresh, Some(None)),
        ("current", SPos::At(i)) => (SPos::At(i), Some(es.get(i).cloned())),
        ("current", SPos::Lost) => (SPos::Lost, None),
        _ => (pos, None),
    }
}

fn in_bounds(lo: &Bound<Vec<u8>>, hi: &Bound<Vec<u8>>, k: &[u8]) -> bool {
    let a = match lo {
        Bound::Unbounded => true,
        Bound::Included(s) => k >= s.as_slice(),
        Bound::Excluded(s) => k > s.as_slice(),
    };
    let b = match hi {
        Bound::Unbounded => true,
        Bound::Included(e) => k <= e.as_slice(),
        Bound::Excluded(e) => k < e.as_slice(),
    };
    a && b
}

enum IterBox {
    RF(RangeIter<Src>),
    RR(RevRangeIter<Src>),
    PF(PrefixIter<Src>),
    PR(RevPrefixIter<Src>),
}

pub enum AnySorter {
    Custom(Sorter<Mf, Creator>),
    Vecs(Sorter<Mf, grenad::CursorVec>),
    Tmp(Sorter<Mf, grenad::TempFileChunk>),
}

fn build_sorter<CC: grenad::ChunkCreator>(cfg: &SCfg, mf: Mf, cc: CC) -> Sorter<Mf, CC> {
    let hooked = cfg.minmem != 10485760 || cfg.init != 131072;
    let mut b = SorterBuilder::new(mf);
    b.dump_threshold(cfg.thr);
    b.allow_realloc(cfg.realloc);
    b.max_nb_chunks(cfg.maxchunks);
    b.sort_algorithm(if cfg.stable { SortAlgorithm::Stable } else { SortAlgorithm::Unstable });
    #[cfg(feature = "allcodecs")]
    b.sort_in_parallel(cfg.par);
    b.chunk_compression_type(codec_of(cfg.chunk.codec));
    b.chunk_compression_level(cfg.chunk.level);
    b.index_key_interval(NonZeroUsize::new(cfg.chunk.iv.max(1)).unwrap());
    b.block_size(cfg.chunk.bs);
    b.index_levels(cfg.chunk.levels);
    let mut s = b.chunk_creator(cc).build();
    if hooked {
        // the hook bypasses the minimum clamp and the initial-size constant only
        let budget = cfg.thr.max(cfg.minmem);
        s.verif_set_budget(budget, if cfg.realloc { cfg.init } else { budget });
    }
    s
}

fn finish_sorter<CC: grenad::ChunkCreator>(s: Sorter<Mf, CC>, mode: &str, mf: &Mf) -> Result<(Vec<Entry>, u64), String> {
    let drain = |mut it: MergerIter<CC::Chunk, Mf>| -> Result<Vec<Entry>, String> {
        let mut acc = Vec::new();
        while let Some((k, v)) = it.next().map_err(|e| fmt_err(&e))? {
            acc.push((k.to_vec(), v.to_vec()));
        }
        Ok(acc)
    };
    match mode {
        "writer" => {
            let mut w = Writer::memory();
            s.write_into_stream_writer(&mut w).map_err(|e| fmt_err(&e))?;
            let bytes = w.into_inner().map_err(|e| fmt_io_err(&e))?;
            Ok((decode::decode(&bytes)?.entries, u64::MAX))
        }
        "cursors" => {
            let cursors = s.into_reader_cursors().map_err(|e| fmt_err(&e))?;
            let chunks = cursors.len() as u64;
            let mut b = Merger::builder(mf.clone());
            b.extend(cursors);
            let it = b.build().into_stream_merger_iter().map_err(|e| fmt_err(&e))?;
            Ok((drain(it)?, chunks))
        }
        _ => {
            // empty chunks are dropped as soon as the merger is built, so the number of
            // live chunks is not the number of chunks here: not compared in this mode
            let it = s.into_stream_merger_iter().map_err(|e| fmt_err(&e))?;
            Ok((drain(it)?, u64::MAX))
        }
    }
}

impl AnySorter {
    fn insert(&mut self, k: &[u8], v: &[u8]) -> Result<(), String> {
        match self {
            AnySorter::Custom(s) => s.insert(k, v).map_err(|e| fmt_err(&e)),
            AnySorter::Vecs(s) => s.insert(k, v).map_err(|e| fmt_err(&e)),
            AnySorter::Tmp(s) => s.insert(k, v).map_err(|e| fmt_err(&e)),
        }
    }
    /// the public estimate (arithmetic on sizes: must not overflow / panic)
    fn estimate(&self) -> u64 {
        match self {
            // only defined for the default chunk creator
            AnySorter::Tmp(s) => s.estimated_dumped_memory_usage(),
            _ => 0,
        }
    }
    fn fingerprint(&self) -> (usize, usize, usize, usize) {
        match self {
            AnySorter::Custom(s) => s.verif_fingerprint(),
            AnySorter::Vecs(s) => s.verif_fingerprint(),
            AnySorter::Tmp(s) => s.verif_fingerprint(),
        }
    }
    fn is_custom(&self) -> bool {
        matches!(self, AnySorter::Custom(_))
    }
    fn finish(self, mode: &str, mf: &Mf) -> Result<(Vec<Entry>, u64), String> {
        match self {
            AnySorter::Custom(s) => finish_sorter(s, mode, mf),
            AnySorter::Vecs(s) => finish_sorter(s, mode, mf),
            AnySorter::Tmp(s) => finish_sorter(s, mode, mf),
        }
    }
}

#[derive(Clone, Debug)]
pub struct SCfg {
    creator: String,
    thr: usize,
    minmem: usize,
    init: usize,
    realloc: bool,
    maxchunks: usize,
    stable: bool,
    par: bool,
    chunk: WCfg,
}

pub struct Interp {
    pub out: Vec<Line>,
    pending: Option<Vec<Line>>,
    wcfg: WCfg,
    finish_by_ref: bool,
    writer: Option<Writer<Sink>>,
    sink: Option<Sink>,
    inserted: Vec<Entry>,
    last_file: Vec<u8>,
    last_es: Vec<Entry>,
    file: Arc<Vec<u8>>,
    es: Vec<Entry>,
    src_choppy: Option<u64>,
    src_choppy_mode: u8,
    src_fault: Option<(String, u64, u64)>,
    cursors: HashMap<usize, ReaderCursor<Src>>,
    iters: HashMap<usize, IterBox>,
    msrcs: Vec<(Vec<Entry>, WCfg)>,
    scfg: SCfg,
    sorter: Option<AnySorter>,
    smf: Option<Mf>,
    sctl: Rc<RefCell<ChunkCtl>>,
    alloc_live: HashMap<usize, (usize, usize)>,
    /// independent Rust-side specification state (second implementation of the L0 spec)
    spos: HashMap<usize, SPos>,
    iter_q: HashMap<usize, IterQ>,
    sorter_inserted: Vec<Entry>,
    /// C08 on the implementation alone: bytes / entries inserted since the last spill, what was seen last
    svol: usize,
    scount: usize,
    ssmall: bool,
    sfits: bool,
    screated_seen: u64,
    selen_seen: usize,
    pub oracle_failures: u64,
    pub stats: BTreeMap<String, u64>,
}

fn parse_bound(s: &str) -> Option<Bound<Vec<u8>>> {
    let (c, rest) = s.split_at(1);
    match c {
        "U" => Some(Bound::Unbounded),
        "I" => unhex(rest).map(Bound::Included),
        "E" => unhex(rest).map(Bound::Excluded),
        _ => None,
    }
}

impl Interp {
    pub fn new() -> Interp {
        Interp {
            out: Vec::new(),
            pending: None,
            wcfg: WCfg::default(),
            finish_by_ref: false,
            writer: None,
            sink: None,
            inserted: Vec::new(),
            last_file: Vec::new(),
            last_es: Vec::new(),
            file: Arc::new(Vec::new()),
            es: Vec::new(),
            src_choppy: None,
            src_choppy_mode: 0,
            src_fault: None,
            cursors: HashMap::new(),
            iters: HashMap::new(),
            msrcs: Vec::new(),
            scfg: SCfg {
                creator: "custom".into(),
                thr: 0,
                minmem: 10485760,
                init: 131072,
                realloc: true,
                maxchunks: 25,
                stable: true,
                par: false,
                chunk: WCfg::default(),
            },
            sorter: None,
            smf: None,
            sctl: Rc::new(RefCell::new(ChunkCtl::default())),
            alloc_live: HashMap::new(),
            spos: HashMap::new(),
            iter_q: HashMap::new(),
            sorter_inserted: Vec::new(),
            svol: 0,
            scount: 0,
            ssmall: true,
            sfits: true,
            screated_seen: 0,
            selen_seen: 0,
            oracle_failures: 0,
            stats: BTreeMap::new(),
        }
    }

    fn emit(&mut self, op: &str, f1: String, f2: String) {
        let line = Line { op: op.to_string(), f1, f2 };
        match self.pending.as_mut() {
            Some(p) => p.push(line),
            None => self.out.push(line),
        }
    }

    pub fn bump(&mut self, key: &str) {
        *self.stats.entry(key.to_string()).or_insert(0) += 1;
    }

    fn emit0(&mut self, op: &str) {
        self.emit(op, "-".into(), "-".into());
    }

    /// Codec table lines for every complete block of `bytes`.
    fn codec_lines(&mut self, codec: u8, bytes: &[u8], trailer: usize) {
        if codec == 0 {
            return;
        }
        for (_, raw, comp) in decode::walk_blocks(bytes, codec, trailer) {
            // the only fact assumed of a codec crate, re-checked on every block seen
            let back = decode::decompress(codec, &comp).ok();
            if back.as_ref() != Some(&raw) {
                self.oracle_failures += 1;
            }
            self.out.push(Line {
                op: format!("codec {} {} {}", codec, hex(&raw), hex(&comp)),
                f1: "-".into(),
                f2: "-".into(),
            });
        }
    }

    fn flush_pending(&mut self, bytes: &[u8], trailer: usize) {
        if let Some(p) = self.pending.take() {
            let codec = self.wcfg.codec;
            self.codec_lines(codec, bytes, trailer);
            self.out.extend(p);
        }
    }

    fn new_src(&self, data: Arc<Vec<u8>>) -> Src {
        let mut s = Src::new(data);
        if let Some(seed) = self.src_choppy {
            s.choppy = Some(Rc::new(RefCell::new(Rng::new(seed))));
            s.choppy_mode = self.src_choppy_mode;
        }
        s
    }

    /// Opens the current file, arming the configured fault *after* the open (fault positions
    /// count the seeks issued by cursor operations, not the two seeks of the open).
    fn open_cursor(&self) -> Result<ReaderCursor<Src>, String> {
        let src = self.new_src(self.file.clone());
        let stats = src.stats.clone();
        let fault = src.fault.clone();
        let reader = Reader::new(src).map_err(|e| fmt_err(&e))?;
        let cursor = reader.into_cursor().map_err(|e| fmt_err(&e))?;
        let low = self.file.len() as u64;
        *stats.borrow_mut() = vio::SrcStats { low, ..Default::default() };
        if let Some((kind, n, tag)) = &self.src_fault {
            *fault.borrow_mut() =
                Some(if kind == "seek" { SrcFault::Seek(*n, *tag) } else if kind == "seekintr" { SrcFault::SeekIntr(*n, *tag) } else { SrcFault::ReadAfterSeek(*n, *tag) });
        }
        Ok(cursor)
    }

    fn set_file(&mut self, bytes: Vec<u8>, es: Vec<Entry>, op_name: &str) {
        self.cursors.clear();
        self.iters.clear();
        let t = decode::trailer(&bytes);
        let codec = t.as_ref().map(|t| t.codec).unwrap_or(0);
        let tsize = t.as_ref().map(|t| t.size).unwrap_or(0);
        self.emit0(&format!("usecodec {}", codec));
        if self.pending.is_none() {
            self.codec_lines(codec, &bytes, tsize);
        }
        self.emit0(&format!("es {}", fmt_entries(&es)));
        // the open itself goes through the configured (possibly choppy) source
        let src = self.new_src(Arc::new(bytes.clone()));
        let r = catch_unwind(AssertUnwindSafe(|| Reader::new(src)));
        let f1 = match r {
            Ok(Ok(rd)) => format!(
                "ok v={} codec={} count={} empty={}",
                rd.file_version() as u32 + 1,
                codec_id(rd.compression_type()),
                rd.len(),
                rd.is_empty()
            ),
            Ok(Err(e)) => fmt_err(&e),
            Err(p) => format!("panic {}", panic_name(p)),
        };
        let f2 = match &t {
            Ok(t) => format!("root={} levels={}", t.root, t.levels),
            Err(_) => "-".into(),
        };
        let _ = op_name;
        self.emit(&format!("file {}", hex(&bytes)), f1, f2);
        self.file = Arc::new(bytes);
        self.es = es;
    }

    pub fn run_line(&mut self, line: &str) {
        let toks: Vec<&str> = line.split_whitespace().collect();
        if toks.is_empty() || toks[0] == "#" {
            return;
        }
        self.bump(&format!("op:{}", if toks[0] == "c" && toks.len() > 2 { format!("c-{}", toks[2]) } else { toks[0].to_string() }));
        match toks[0] {
            "S" => {
                let keep = std::mem::take(&mut self.out);
                let of = self.oracle_failures;
                let st = std::mem::take(&mut self.stats);
                *self = Interp::new();
                self.out = keep;
                self.oracle_failures = of;
                self.stats = st;
                self.bump("scenarios");
                self.emit0(line);
            }
            "fixF1" => self.emit0(line),
            "venc" => {
                let n: u32 = toks[1].parse().unwrap_or(0);
                let mut buf = [0u8; 10];
                let enc = grenad::verif::varint_encode32(&mut buf, n).to_vec();
                // C14 oracle on the real functions: decodes back to the same value, consuming
                // exactly the encoded bytes, whatever follows them
                let mut probe = enc.clone();
                probe.extend_from_slice(&[0xff, 0x00, 0x81]);
                let r = catch_unwind(|| {
                    let mut v = 0u32;
                    let used = grenad::verif::varint_decode32(&probe, &mut v);
                    (v, used)
                });
                let good = matches!(r, Ok((v, used)) if v == n && used == enc.len()) && !enc.is_empty() && enc.len() <= 5;
                if good {
                    self.emit(line, hex(&enc), "-".into());
                } else {
                    self.oracle_failures += 1;
                    self.emit(line, format!("ORACLE-FAIL varint {} encodes to {} and decodes to {:?}", n, hex(&enc), r.ok()).replace(' ', "_").replacen("ORACLE-FAIL_", "ORACLE-FAIL ", 1), "-".into());
                }
            }
            "vdec" => {
                let b = unhex(toks[1]).unwrap_or_default();
                let r = catch_unwind(|| {
                    let mut v = 0u32;
                    let n = grenad::verif::varint_decode32(&b, &mut v);
                    (v, n)
                });
                let f1 = match r {
                    Ok((v, n)) => format!("{} {}", v, n),
                    Err(_) => "panic".into(),
                };
                self.emit(line, f1, "-".into());
            }
            "vrange" => {
                let a: u64 = toks[1].parse().unwrap_or(0);
                let c: u64 = toks[2].parse().unwrap_or(0);
                let s: u64 = toks[3].parse().unwrap_or(1);
                match varint_first_bad(a, c, s) {
                    None => self.emit(line, hex64(varint_digest(a, c, s)), "-".into()),
                    Some(v) => {
                        self.oracle_failures += 1;
                        self.emit(line, format!("ORACLE-FAIL varint_{}_does_not_round_trip", v), "-".into());
                    }
                }
            }
            "open" => {
                let b = unhex(toks[1]).unwrap_or_default();
                let src = Src::new(Arc::new(b.clone()));
                let stats = src.stats.clone();
                let r = catch_unwind(AssertUnwindSafe(|| Reader::new(src)));
                let f1 = match r {
                    Ok(Ok(rd)) => {
                        let t = decode::trailer(&b);
                        format!(
                            "ok v={} root={} codec={} count={} levels={}",
                            rd.file_version() as u32 + 1,
                            t.as_ref().map(|t| t.root).unwrap_or(u64::MAX),
                            codec_id(rd.compression_type()),
                            rd.len(),
                            t.as_ref().map(|t| t.levels as i64).unwrap_or(-1)
                        )
                    }
                    Ok(Err(e)) => fmt_err(&e),
                    Err(p) => format!("panic {}", panic_name(p)),
                };
                // C13 oracle, computed directly from the bytes: accepted exactly when the string ends
                // with a complete trailer (known magic, full record, known codec id); never a panic
                let want = match decode::trailer(&b) {
                    Ok(_) => "ok".to_string(),
                    Err(kind) => format!("err {}", kind),
                };
                let f1 = if f1.starts_with("panic") || (f1.starts_with("ok") != (want == "ok")) {
                    self.oracle_failures += 1;
                    format!("ORACLE-FAIL open_of_{}_bytes_gives_{}_expected_{}", b.len(), f1.replace(' ', "_"), want.replace(' ', "_"))
                } else {
                    f1
                };
                let st = stats.borrow();
                let low = if st.bytes == 0 { 0 } else { b.len() as u64 - st.low };
                self.emit(line, f1, format!("seeks={} bytes={} low={}", st.seeks, st.bytes, low));
            }
            "openio" => {
                // open through a source that answers every read from an explicit schedule
                let b = unhex(toks[1]).unwrap_or_default();
                let sched: std::collections::VecDeque<vio::WResp> = if toks[2] == "-" {
                    Default::default()
                } else {
                    toks[2]
                        .split(',')
                        .filter_map(|t| {
                            let (c, n) = t.split_at(1);
                            match c {
                                "s" => n.parse().ok().map(vio::WResp::Accept),
                                "i" => Some(vio::WResp::Interrupted),
                                "f" => n.parse().ok().map(vio::WResp::Fail),
                                _ => None,
                            }
                        })
                        .collect()
                };
                let mut src = Src::new(Arc::new(b.clone()));
                let q = Rc::new(RefCell::new(sched));
                src.rsched = Some(q.clone());
                let r = catch_unwind(AssertUnwindSafe(|| Reader::new(src)));
                let f1 = match r {
                    Ok(Ok(rd)) => {
                        let t = decode::trailer(&b);
                        format!(
                            "ok v={} root={} codec={} count={} levels={}",
                            rd.file_version() as u32 + 1,
                            t.as_ref().map(|t| t.root).unwrap_or(u64::MAX),
                            codec_id(rd.compression_type()),
                            rd.len(),
                            t.as_ref().map(|t| t.levels as i64).unwrap_or(-1)
                        )
                    }
                    Ok(Err(e)) => fmt_err(&e),
                    Err(p) => format!("panic {}", panic_name(p)),
                };
                let rest = q.borrow().len();
                // implementation-only oracle (C13 / C11): the verdict is a function of the bytes — it is the
                // verdict of a plain in-memory open, unless a scheduled failure surfaced with its tag
                let plain = match catch_unwind(AssertUnwindSafe(|| Reader::new(std::io::Cursor::new(b.clone())))) {
                    Ok(Ok(rd)) => format!("ok v={} codec={} count={}", rd.file_version() as u32 + 1, codec_id(rd.compression_type()), rd.len()),
                    Ok(Err(e)) => fmt_err(&e),
                    Err(p) => format!("panic {}", panic_name(p)),
                };
                let mine = if f1.starts_with("ok ") {
                    let t = tokens_of(&f1);
                    format!("ok v={} codec={} count={}", t.get("v").cloned().unwrap_or_default(), t.get("codec").cloned().unwrap_or_default(), t.get("count").cloned().unwrap_or_default())
                } else { f1.clone() };
                let tagged = toks[2].split(',').filter_map(|t| t.strip_prefix('f')).any(|tag| mine == format!("err io {}", tag));
                if mine != plain && !tagged {
                    self.oracle_failures += 1;
                    self.emit(line, format!("ORACLE-FAIL open_through_a_scheduled_source_gave_{}_but_a_plain_open_of_the_same_bytes_gives_{}", mine.replace(' ', "_"), plain.replace(' ', "_")), format!("rest={}", rest));
                    return;
                }
                self.emit(line, f1, format!("rest={}", rest));
            }
            "openfault" => {
                // the n-th seek of the open fails: the open must return that I/O error (impl-only)
                let b = unhex(toks[1]).unwrap_or_default();
                let n: u64 = toks[2].parse().unwrap_or(1);
                let tag: u64 = toks[3].parse().unwrap_or(0);
                let src = Src::new(Arc::new(b));
                *src.fault.borrow_mut() = Some(SrcFault::Seek(n, tag));
                let stats = src.stats.clone();
                let r = catch_unwind(AssertUnwindSafe(|| Reader::new(src).map(|_| ())));
                let reached = stats.borrow().seeks >= n;
                let got = match r {
                    Ok(Ok(())) => "ok".to_string(),
                    Ok(Err(e)) => fmt_err(&e),
                    Err(p) => format!("panic {}", panic_name(p)),
                };
                let good = if reached { got == format!("err io {}", tag) } else { !got.starts_with("panic") };
                if good {
                    self.emit(&format!("!{}", line), "fault-checked".into(), "-".into());
                } else {
                    self.oracle_failures += 1;
                    self.emit(&format!("!{}", line), format!("ORACLE-FAIL seek_fault_reached={}_got={}", reached, got.replace(' ', "_")), "-".into());
                }
            }
            "cfg" => {
                self.wcfg = WCfg::parse(&toks[1..]);
                self.emit0(line);
            }
            "wnew" => {
                let sink = Sink::new(Vec::new());
                self.writer = Some(self.wcfg.builder().build(sink.clone()));
                self.sink = Some(sink);
                self.inserted.clear();
                if self.wcfg.codec != 0 {
                    self.pending = Some(Vec::new());
                }
                self.emit0(&format!("usecodec {}", self.wcfg.codec));
                self.emit0(line);
            }
            "wsinkwb" => {
                // write-behind sink: bytes reach the storage only when the writer flushes (C01 / C12: a finished
                // writer must have flushed what it wrote)
                if let Some(s) = &self.sink {
                    s.0.borrow_mut().write_behind = true;
                }
                self.finish_by_ref = toks.get(1).copied() == Some("finish");
                self.emit0(line);
            }
            "wsched" => {
                if let Some(s) = &self.sink {
                    s.0.borrow_mut().sched = vio::parse_sched(toks[1]).into();
                }
                self.emit0(line);
            }
            "wflushfault" => {
                if let Some(s) = &self.sink {
                    let n = toks[1].parse().unwrap_or(0);
                    let tag = toks[2].parse().unwrap_or(0);
                    s.0.borrow_mut().flush_fault = Some((n, tag));
                }
                self.emit0(line);
            }
            "ins" => {
                let (k, v) = (unhex(toks[1]).unwrap_or_default(), unhex(toks[2]).unwrap_or_default());
                let f1 = match self.writer.as_mut() {
                    None => "dead".to_string(),
                    Some(w) => {
                        let r = catch_unwind(AssertUnwindSafe(|| w.insert(&k, &v)));
                        match r {
                            Ok(Ok(())) => {
                                self.inserted.push((k, v));
                                "ok".into()
                            }
                            Ok(Err(e)) => {
                                self.writer = None;
                                fmt_io_err(&e)
                            }
                            Err(p) => {
                                self.writer = None;
                                format!("panic {}", panic_name(p))
                            }
                        }
                    }
                };
                let dead = self.writer.is_none();
                self.emit(line, f1, "-".into());
                if dead && self.pending.is_some() {
                    let bytes = self.sink.as_ref().map(|s| s.0.borrow().data.clone()).unwrap_or_default();
                    self.flush_pending(&bytes, 0);
                }
            }
            "finish" => {
                let (f1, f2) = match self.writer.take() {
                    None => ("dead".to_string(), "-".to_string()),
                    Some(w) => {
                        let by_ref = self.finish_by_ref;
                        let keep = self.sink.clone();
                        let r = catch_unwind(AssertUnwindSafe(|| {
                            if by_ref {
                                // `Writer::finish()`: the caller keeps its own handle on the storage
                                w.finish().map(|()| keep.clone().unwrap())
                            } else {
                                w.into_inner()
                            }
                        }));
                        match r {
                            Ok(Ok(sink)) => {
                                let bytes = sink.0.borrow().data.clone();
                                let mut verdict: Option<String> = None;
                                let f2 = match decode::decode(&bytes) {
                                    Ok(d) => {
                                        verdict = crate::oracles::file_oracles(&d, &self.wcfg, &self.inserted);
                                        for (k, v) in crate::oracles::file_stats(&d) {
                                            *self.stats.entry(k).or_insert(0) += v;
                                        }
                                        decode::fmt_blocks(&d.blocks)
                                    }
                                    Err(e) => {
                                        verdict = Some(format!("decode:{}", e));
                                        "-".into()
                                    }
                                };
                                let f1 = match verdict {
                                    None => format!("ok len={} fnv={}", bytes.len(), hex64(fnv_bytes(FNV_INIT, &bytes))),
                                    Some(v) => {
                                        self.oracle_failures += 1;
                                        format!("ORACLE-FAIL {}", v.replace(' ', "_"))
                                    }
                                };
                                self.last_file = bytes;
                                self.last_es = self.inserted.clone();
                                (f1, f2)
                            }
                            Ok(Err(e)) => (fmt_io_err(&e), "-".into()),
                            Err(p) => (format!("panic {}", panic_name(p)), "-".into()),
                        }
                    }
                };
                self.bump(&format!("finish:{}", f1.split(' ').take(2).collect::<Vec<_>>().join("-")));
                self.emit(line, f1, f2);
                let bytes = self.sink.as_ref().map(|s| s.0.borrow().data.clone()).unwrap_or_default();
                let tsize = decode::trailer(&bytes).map(|t| t.size).unwrap_or(0);
                self.flush_pending(&bytes, tsize);
            }
            "sinkstate" => {
                let bytes = self.sink.as_ref().map(|s| s.0.borrow().data.clone()).unwrap_or_default();
                self.emit(line, format!("len={} fnv={}", bytes.len(), hex64(fnv_bytes(FNV_INIT, &bytes))), "-".into());
            }
            "load" => {
                let (b, es) = (self.last_file.clone(), self.last_es.clone());
                self.set_file(b, es, "load");
            }
            "v1" => {
                // re-trailer a levels = 0 V2 file with the 21-byte V1 trailer (C10)
                let b = self.last_file.clone();
                if let Ok(t) = decode::trailer(&b) {
                    if t.version == 2 && t.levels == 0 {
                        let mut v1 = b[..b.len() - 22].to_vec();
                        v1.extend_from_slice(&t.root.to_le_bytes());
                        v1.push(t.codec);
                        v1.extend_from_slice(&t.count.to_le_bytes());
                        v1.extend_from_slice(&0x76324D4Cu32.to_le_bytes());
                        let es = self.last_es.clone();
                        self.set_file(v1, es, "v1");
                    }
                }
            }
            "!hugeentry" => {
                // C14 at the API level with BOTH length prefixes wide: a key of klen and a value of vlen bytes
                // (e.g. 2^21 and 2^28) written by the real writer and read back by the real reader
                let klen: usize = toks[1].parse().unwrap_or(0);
                let vlen: usize = toks[2].parse().unwrap_or(0);
                let r = catch_unwind(AssertUnwindSafe(|| -> Result<(), String> {
                    let key: Vec<u8> = (0..klen).map(|i| (i % 251) as u8 | 1).collect();
                    let val: Vec<u8> = (0..vlen).map(|i| (i % 241) as u8).collect();
                    let mut w = grenad::Writer::memory();
                    w.insert(b"", b"x").map_err(|e| e.to_string())?;
                    w.insert(&key, &val).map_err(|e| e.to_string())?;
                    let mut last = key.clone();
                    last.push(0xff);
                    w.insert(&last, b"tail").map_err(|e| e.to_string())?;
                    let bytes = w.into_inner().map_err(|e| e.to_string())?;
                    let rd = grenad::Reader::new(std::io::Cursor::new(bytes)).map_err(|e| e.to_string())?;
                    let mut c = rd.into_cursor().map_err(|e| e.to_string())?;
                    let e0 = c.move_on_next().map_err(|e| e.to_string())?.map(|(k, v)| (k.len(), v.len()));
                    if e0 != Some((0, 1)) { return Err(format!("first_entry_{:?}", e0)); }
                    match c.move_on_next().map_err(|e| e.to_string())? {
                        Some((k, v)) if k == &key[..] && v == &val[..] => {}
                        Some((k, v)) => return Err(format!("entry_of_{}+{}_bytes_read_back_as_{}+{}_bytes_or_altered", klen, vlen, k.len(), v.len())),
                        None => return Err("entry_lost".into()),
                    }
                    match c.move_on_next().map_err(|e| e.to_string())? {
                        Some((k, v)) if k == &last[..] && v == b"tail" => Ok(()),
                        other => Err(format!("entry_after_the_wide_one_{:?}", other.map(|(k, v)| (k.len(), v.len())))),
                    }
                }));
                let verdict = match r {
                    Ok(Ok(())) => "ok".to_string(),
                    Ok(Err(m)) => { self.oracle_failures += 1; format!("ORACLE-FAIL {}", m.replace(' ', "_")) }
                    Err(p) => { self.oracle_failures += 1; format!("ORACLE-FAIL panic_{}", panic_name(p)) }
                };
                self.emit(line, verdict, "-".into());
            }
            "!v1big" => {
                // C10: the V1 trailer's count is a full u64 next to a hard-wired zero index depth: re-trailer
                // the last levels = 0 file with counts using every byte; open, len and a full scan must be
                // those of the V2 file (implementation-only oracle)
                let b = self.last_file.clone();
                let es = self.last_es.clone();
                let mut verdict = "skip".to_string();
                if let Ok(t) = decode::trailer(&b) {
                    if t.version == 2 && t.levels == 0 {
                        verdict = "ok".into();
                        for count in [1u64 << 32, (1u64 << 40) + 7, 1u64 << 56, 0x0123_4567_89ab_cdef, u64::MAX] {
                            let mut v1 = b[..b.len() - 22].to_vec();
                            v1.extend_from_slice(&t.root.to_le_bytes());
                            v1.push(t.codec);
                            v1.extend_from_slice(&count.to_le_bytes());
                            v1.extend_from_slice(&0x76324D4Cu32.to_le_bytes());
                            let r = catch_unwind(AssertUnwindSafe(|| -> Result<(), String> {
                                let rd = grenad::Reader::new(std::io::Cursor::new(v1)).map_err(|e| format!("open:{}", e))?;
                                if rd.len() != count { return Err(format!("len={}_for_stored_count_{}", rd.len(), count)); }
                                if rd.file_version() != grenad::FileVersion::FormatV1 { return Err("version".into()); }
                                let mut c = rd.into_cursor().map_err(|e| format!("cursor:{}", e))?;
                                let mut got: Vec<Entry> = Vec::new();
                                while let Some((k, v)) = c.move_on_next().map_err(|e| format!("scan:{}", e))? {
                                    got.push((k.to_vec(), v.to_vec()));
                                    if got.len() > es.len() + 1 { break; }
                                }
                                if got != es { return Err(format!("scan_of_{}_entries_returned_{}", es.len(), got.len())); }
                                Ok(())
                            }));
                            match r {
                                Ok(Ok(())) => {}
                                Ok(Err(m)) => { verdict = format!("ORACLE-FAIL v1_count_{}_{}", count, m.replace(' ', "_")); break; }
                                Err(p) => { verdict = format!("ORACLE-FAIL v1_count_{}_panic_{}", count, panic_name(p)); break; }
                            }
                        }
                    }
                }
                if verdict.starts_with("ORACLE") { self.oracle_failures += 1; }
                self.emit(line, verdict, "-".into());
            }
            "truncs" => {
                let b = self.last_file.clone();
                let all = toks.get(1).copied() == Some("all");
                let mut cases: Vec<Vec<u8>> = (0..=b.len()).map(|n| b[..n].to_vec()).collect();
                let tl = b.len().min(22);
                for i in 0..tl {
                    let at = b.len() - tl + i;
                    if all {
                        for x in 1..=255u8 {
                            let mut c = b.clone();
                            c[at] ^= x;
                            cases.push(c);
                        }
                    } else {
                        for bit in 0..8 {
                            let mut c = b.clone();
                            c[at] ^= 1 << bit;
                            cases.push(c);
                        }
                    }
                }
                for c in cases {
                    self.run_line(&format!("open {}", hex(&c)));
                }
            }
            "!corrupt" => {
                // C17, read paths on damaged blocks: every single-byte damage (three masks) of the block
                // region of an uncompressed file; each damaged file is opened and walked under catch_unwind.
                // The crate may return an error or panic (a clean slice-index panic) but must never abort
                // the process or hand out a key / value that cannot lie inside the file's bytes.
                // A damaged length prefix can make an in-block scan spin for ever (zero bytes consumed per
                // step): that is not a memory-safety matter, so the cases run on a worker thread under a
                // watchdog and a case that does not come back is counted and abandoned, not reported.
                let b = self.last_file.clone();
                let mut cases: Vec<(usize, u8)> = Vec::new();
                if let Ok(t) = decode::trailer(&b) {
                    if t.codec == 0 {
                        let end = (t.root as usize + 8).min(b.len());
                        for at in 0..end {
                            for mask in [0x80u8, 0x01, 0x7f] {
                                cases.push((at, mask));
                            }
                        }
                    }
                }
                fn one_case(b: &[u8], at: usize, mask: u8) -> Option<String> {
                    let mut c = b.to_vec();
                    c[at] ^= mask;
                    let flen = c.len();
                    let r = catch_unwind(AssertUnwindSafe(|| -> Option<String> {
                        let rd = match grenad::Reader::new(std::io::Cursor::new(c)) { Ok(r) => r, Err(_) => return None };
                        let mut cur = rd.into_cursor().ok()?;
                        let mut steps = 0;
                        let chk = |k: &[u8], v: &[u8]| if k.len() + v.len() > flen { Some(format!("entry_of_{}+{}_bytes_from_a_{}_byte_file", k.len(), v.len(), flen)) } else { None };
                        while let Ok(Some((k, v))) = cur.move_on_next() {
                            if let Some(m) = chk(k, v) { return Some(m); }
                            steps += 1;
                            if steps > 64 { break; }
                        }
                        cur.reset();
                        steps = 0;
                        while let Ok(Some((k, v))) = cur.move_on_prev() {
                            if let Some(m) = chk(k, v) { return Some(m); }
                            steps += 1;
                            if steps > 64 { break; }
                        }
                        if let Ok(Some((k, v))) = cur.move_on_key_greater_than_or_equal_to([0x61u8]) {
                            if let Some(m) = chk(k, v) { return Some(m); }
                        }
                        None
                    }));
                    match r {
                        Ok(Some(m)) => Some(format!("{}_after_xor_{:#x}_at_{}", m, mask, at)),
                        _ => None,
                    }
                }
                let total = cases.len();
                let cases = Arc::new(cases);
                let data = Arc::new(b);
                let mut next = 0usize;
                let mut hangs = 0u64;
                let mut bad: Option<String> = None;
                while next < total && bad.is_none() {
                    let (tx, rx) = std::sync::mpsc::channel::<(usize, Option<String>)>();
                    let (cs, d, from) = (cases.clone(), data.clone(), next);
                    std::thread::spawn(move || {
                        for i in from..cs.len() {
                            let (at, mask) = cs[i];
                            let r = one_case(&d, at, mask);
                            if tx.send((i, r)).is_err() {
                                return;
                            }
                        }
                    });
                    loop {
                        match rx.recv_timeout(std::time::Duration::from_millis(1500)) {
                            Ok((i, r)) => {
                                next = i + 1;
                                if r.is_some() {
                                    bad = r;
                                    break;
                                }
                                if next >= total {
                                    break;
                                }
                            }
                            Err(_) => {
                                // case `next` did not come back: abandon that worker (it dies with the process)
                                hangs += 1;
                                next += 1;
                                break;
                            }
                        }
                    }
                    if hangs > 8 {
                        break; // do not pile up spinning threads
                    }
                }
                *self.stats.entry("corrupt_cases".into()).or_insert(0) += next as u64;
                *self.stats.entry("corrupt_cases_not_terminating".into()).or_insert(0) += hangs;
                match bad {
                    Some(m) => {
                        self.oracle_failures += 1;
                        self.emit(line, format!("ORACLE-FAIL {}", m), "-".into());
                    }
                    None => self.emit(line, "ok".into(), "-".into()),
                }
            }
            "bigfile" => {
                // a large file built directly (no per-insert lines): n entries, default block size
                let n: u32 = toks[1].parse().unwrap_or(1000);
                let cfg = WCfg::parse(&toks[2..]);
                let es: Vec<Entry> = (0..n).map(|i| ((i * 3).to_be_bytes().to_vec(), vec![(i % 251) as u8; (i % 5) as usize])).collect();
                let bytes = Self::build_file(&es, &cfg);
                if let Ok(d) = decode::decode(&bytes) {
                    for (k, v) in crate::oracles::file_stats(&d) {
                        *self.stats.entry(k).or_insert(0) += v;
                    }
                }
                self.set_file(bytes, es, "bigfile");
            }
            "interop" => self.interop(line),
            "srcopt" => {
                for a in &toks[1..] {
                    if *a == "clear" {
                        self.src_choppy = None;
                        self.src_fault = None;
                    } else if let Some(v) = a.strip_prefix("choppy=") {
                        self.src_choppy = v.parse().ok();
                        self.src_choppy_mode = 0;
                    } else if let Some(v) = a.strip_prefix("short=") {
                        self.src_choppy = v.parse().ok();
                        self.src_choppy_mode = 1;
                    } else if let Some(v) = a.strip_prefix("intr=") {
                        self.src_choppy = v.parse().ok();
                        self.src_choppy_mode = 2;
                    } else if let Some(v) = a.strip_prefix("fault=") {
                        let p: Vec<&str> = v.split(':').collect();
                        if p.len() == 3 {
                            self.src_fault =
                                Some((p[0].to_string(), p[1].parse().unwrap_or(0), p[2].parse().unwrap_or(0)));
                        }
                    }
                }
                self.emit0(line);
            }
            "cnew" => {
                let i: usize = toks[1].parse().unwrap_or(0);
                match self.open_cursor() {
                    Ok(c) => {
                        self.cursors.insert(i, c);
                        self.spos.insert(i, SPos::Fresh);
                        self.emit0(line);
                    }
                    Err(e) => self.emit(line, e, "-".into()),
                }
            }
            "cclone" => {
                let i: usize = toks[1].parse().unwrap_or(0);
                let j: usize = toks[2].parse().unwrap_or(0);
                if let Some(c) = self.cursors.get(&i) {
                    let c2 = c.clone();
                    self.cursors.insert(j, c2);
                    let p = self.spos.get(&i).copied().unwrap_or(SPos::Lost);
                    self.spos.insert(j, p);
                }
                self.emit0(line);
            }
            "c" => self.cursor_op(line, &toks),
            "range" => {
                let i: usize = toks[1].parse().unwrap_or(0);
                let lo = parse_bound(toks[2]).unwrap_or(Bound::Unbounded);
                let hi = parse_bound(toks[3]).unwrap_or(Bound::Unbounded);
                let src = self.new_src(self.file.clone());
                let it = Reader::new(src).and_then(|r| {
                    if toks[4] == "rev" {
                        r.into_rev_range_iter((lo, hi)).map(IterBox::RR)
                    } else {
                        r.into_range_iter((lo, hi)).map(IterBox::RF)
                    }
                });
                if let Ok(it) = it {
                    self.iters.insert(i, it);
                    self.iter_q.insert(i, IterQ::Range(parse_bound(toks[2]).unwrap_or(Bound::Unbounded), parse_bound(toks[3]).unwrap_or(Bound::Unbounded), toks[4] == "rev"));
                }
                self.emit0(line);
            }
            "prefix" => {
                let i: usize = toks[1].parse().unwrap_or(0);
                let p = unhex(toks[2]).unwrap_or_default();
                let src = self.new_src(self.file.clone());
                let it = Reader::new(src).and_then(|r| {
                    if toks[3] == "rev" {
                        r.into_rev_prefix_iter(p).map(IterBox::PR)
                    } else {
                        r.into_prefix_iter(p).map(IterBox::PF)
                    }
                });
                if let Ok(it) = it {
                    self.iters.insert(i, it);
                    self.iter_q.insert(i, IterQ::Prefix(unhex(toks[2]).unwrap_or_default(), toks[3] == "rev"));
                }
                self.emit0(line);
            }
            "it" => {
                let i: usize = toks[1].parse().unwrap_or(0);
                let f1 = match self.iters.get_mut(&i) {
                    Some(it) => {
                        let r = catch_unwind(AssertUnwindSafe(|| iter_next(it)));
                        match r {
                            Ok(Ok(e)) => fmt_opt(e.as_ref().map(|(k, v)| (&k[..], &v[..]))),
                            Ok(Err(e)) => e,
                            Err(p) => format!("panic {}", panic_name(p)),
                        }
                    }
                    None => "bad-op".into(),
                };
                self.emit(line, f1, "-".into());
            }
            "itall" => {
                let i: usize = toks[1].parse().unwrap_or(0);
                let limit = self.es.len() + 2;
                let f1 = match self.iters.get_mut(&i) {
                    Some(it) => {
                        let r = catch_unwind(AssertUnwindSafe(|| {
                            let mut acc = Vec::new();
                            for _ in 0..limit {
                                match iter_next(it)? {
                                    Some(e) => acc.push(e),
                                    None => break,
                                }
                            }
                            Ok::<_, String>(acc)
                        }));
                        match r {
                            Ok(Ok(l)) => {
                                let want: Option<Vec<Entry>> = self.iter_q.get(&i).map(|q| match q {
                                    IterQ::Range(lo, hi, rev) => {
                                        let mut v: Vec<Entry> = self.es.iter().filter(|e| in_bounds(lo, hi, &e.0)).cloned().collect();
                                        if *rev { v.reverse(); }
                                        v
                                    }
                                    IterQ::Prefix(p, rev) => {
                                        let mut v: Vec<Entry> = self.es.iter().filter(|e| e.0.starts_with(p)).cloned().collect();
                                        if *rev { v.reverse(); }
                                        v
                                    }
                                });
                                // a drained iterator is consumed: only its first `itall` is specified
                                self.iter_q.remove(&i);
                                match want {
                                    Some(w) if w != l => {
                                        self.oracle_failures += 1;
                                        format!("ORACLE-FAIL iterator_yielded_{}_entries_specification_{}", l.len(), w.len())
                                    }
                                    _ => format!("ok {}", fmt_list(&l)),
                                }
                            }
                            Ok(Err(e)) => e,
                            Err(p) => format!("panic {}", panic_name(p)),
                        }
                    }
                    None => "bad-op".into(),
                };
                self.emit(line, f1, "-".into());
            }
            "mclear" => {
                self.msrcs.clear();
                self.emit0(line);
            }
            "msrc" => {
                let es = parse_entries(toks[1]).unwrap_or_default();
                let cfg = WCfg::parse(&toks[2..]);
                self.emit0(&format!("msrc {}", toks[1]));
                self.msrcs.push((es, cfg));
            }
            "merge" | "mergew" | "!merge" | "!mergew" => self.merge_op(line, &toks),
            "scfg" => {
                let a = &toks[1..];
                self.scfg = SCfg {
                    creator: a.iter().find_map(|t| t.strip_prefix("creator=")).unwrap_or("custom").to_string(),
                    thr: kv_arg(a, "thr", 0) as usize,
                    minmem: kv_arg(a, "minmem", 10485760) as usize,
                    init: kv_arg(a, "init", 131072) as usize,
                    realloc: kv_arg(a, "realloc", 1) == 1,
                    maxchunks: kv_arg(a, "maxchunks", 25) as usize,
                    stable: kv_arg(a, "stable", 1) == 1,
                    par: kv_arg(a, "par", 0) == 1,
                    chunk: WCfg::parse(a),
                };
                self.emit0(line);
            }
            "sfault" => {
                // sfault create:<n>:<tag> | op:<n>:<tag> | choppy:<seed>
                let p: Vec<&str> = toks[1].split(':').collect();
                {
                    let mut c = self.sctl.borrow_mut();
                    match p[0] {
                        "create" => c.create_fault = Some((p[1].parse().unwrap_or(0), p[2].parse().unwrap_or(0))),
                        "op" => c.op_fault = Some((p[1].parse().unwrap_or(0), p[2].parse().unwrap_or(0))),
                        "choppy" => c.choppy = Some(Rng::new(p[1].parse().unwrap_or(0))),
                        "wb" => c.write_behind = p[1] == "1",
                        "big" => c.big_fail = Some((p[1].parse().unwrap_or(0), p[2].parse().unwrap_or(0))),
                        _ => {}
                    }
                }
                self.emit0(line);
            }
            "snew" => self.sorter_new(line, &toks),
            "sins" | "!sins" => self.sorter_ins(line, &toks),
            "sfinish" | "!sfinish" => self.sorter_finish(line, &toks),
            _ => self.emit(line, "bad-op".into(), "-".into()),
        }
    }

    fn cursor_op(&mut self, line: &str, toks: &[&str]) {
        let i: usize = toks[1].parse().unwrap_or(0);
        let q = toks.get(3).and_then(|h| unhex(h)).unwrap_or_default();
        let Some(c) = self.cursors.get_mut(&i) else {
            self.emit(line, "dead".into(), "-".into());
            return;
        };
        let stats = c.get_ref().stats.clone();
        let before = stats.borrow().seek_starts;
        let op = toks[2];
        let r = catch_unwind(AssertUnwindSafe(|| -> Result<Option<Entry>, String> {
            let own = |o: Option<(&[u8], &[u8])>| o.map(|(k, v)| (k.to_vec(), v.to_vec()));
            match op {
                "first" => c.move_on_first().map(own).map_err(|e| fmt_err(&e)),
                "last" => c.move_on_last().map(own).map_err(|e| fmt_err(&e)),
                "next" => c.move_on_next().map(own).map_err(|e| fmt_err(&e)),
                "prev" => c.move_on_prev().map(own).map_err(|e| fmt_err(&e)),
                "ge" => c.move_on_key_greater_than_or_equal_to(&q).map(own).map_err(|e| fmt_err(&e)),
                "le" => c.move_on_key_lower_than_or_equal_to(&q).map(own).map_err(|e| fmt_err(&e)),
                "eq" => c.move_on_key_equal_to(&q).map(own).map_err(|e| fmt_err(&e)),
                "reset" => {
                    c.reset();
                    Ok(None)
                }
                "current" => Ok(own(c.current())),
                _ => Err("bad-op".into()),
            }
        }));
        let loads = stats.borrow().seek_starts - before;
        // state-level observables: recorded offset and in-block position per index level, and
        // the position of the data cursor
        let fp = match self.cursors.get(&i) {
            Some(c) => {
                let pos = |p: Option<usize>| p.map(|x| x.to_string()).unwrap_or_else(|| "-".into());
                let (ipos, dpos) = c.verif_positions();
                let idx = match (c.verif_fingerprint(), ipos) {
                    (Some(v), Some(ps)) => v.iter().zip(ps.iter()).map(|(o, p)| format!("{}@{}", o, pos(*p))).collect::<Vec<_>>().join(","),
                    _ => "none".into(),
                };
                let d = match dpos {
                    Some(p) => pos(p),
                    None => "none".into(),
                };
                format!("{};d={}", idx, d)
            }
            None => "none".into(),
        };
        // Rust-side specification (independent of gmodel's): compared whenever it is determined
        let spec_bad = if let Ok(Ok(e)) = &r {
            let p = self.spos.get(&i).copied().unwrap_or(SPos::Lost);
            let (p2, want) = spec_step(&self.es, p, op, &q);
            self.spos.insert(i, p2);
            match want {
                Some(w) if &w != e => Some(format!("{}_returned_{}_specification_says_{}", op, fmt_opt(e.as_ref().map(|(k, v)| (&k[..], &v[..]))).replace(' ', "_"), fmt_opt(w.as_ref().map(|(k, v)| (&k[..], &v[..]))).replace(' ', "_"))),
                _ => None,
            }
        } else {
            None
        };
        let (f1, dead) = match r {
            Ok(Ok(_)) if spec_bad.is_some() => {
                self.oracle_failures += 1;
                (format!("ORACLE-FAIL {}", spec_bad.unwrap()), false)
            }
            Ok(Ok(e)) => (fmt_opt(e.as_ref().map(|(k, v)| (&k[..], &v[..]))), false),
            Ok(Err(e)) => (e, true),
            Err(p) => (format!("panic {}", panic_name(p)), true),
        };
        if dead {
            self.cursors.remove(&i);
        }
        self.emit(line, f1, format!("L={} fp={}", loads, fp));
    }

    fn build_file(es: &[Entry], cfg: &WCfg) -> Vec<u8> {
        let mut w = cfg.builder().memory();
        for (k, v) in es {
            w.insert(k, v).unwrap();
        }
        w.into_inner().unwrap()
    }

    fn merge_op(&mut self, line: &str, toks: &[&str]) {
        let kind = toks[1].to_string();
        let fail_at: u64 = toks.get(2).and_then(|s| s.parse().ok()).unwrap_or(0);
        let calls: Calls = Rc::new(RefCell::new(Vec::new()));
        let mf = Mf { kind, calls: calls.clone(), fail_at };
        let to_writer = toks[0].ends_with("mergew");
        let impl_only = toks[0].starts_with('!');
        let msrcs = self.msrcs.clone();
        let choppy = self.src_choppy;
        let fault = if impl_only { self.src_fault.clone() } else { None };
        let fired: Rc<RefCell<Vec<(Rc<RefCell<vio::SrcStats>>, Rc<RefCell<bool>>)>>> = Rc::new(RefCell::new(Vec::new()));
        let fired2 = fired.clone();
        let r = catch_unwind(AssertUnwindSafe(|| -> Result<Vec<Entry>, String> {
            let mut b = Merger::builder(mf);
            for (j, (es, cfg)) in msrcs.iter().enumerate() {
                let bytes = Self::build_file(es, cfg);
                let low = bytes.len() as u64;
                let mut src = Src::new(Arc::new(bytes));
                if let Some(seed) = choppy {
                    src.choppy = Some(Rc::new(RefCell::new(Rng::new(seed))));
                }
                let (stats, flt, fr) = (src.stats.clone(), src.fault.clone(), src.fired.clone());
                let c = Reader::new(src).and_then(|r| r.into_cursor()).map_err(|e| fmt_err(&e))?;
                if let Some((kind, n, tag)) = &fault {
                    // the fault goes to one source, chosen by its position; counted after the open
                    if j as u64 == n % (msrcs.len() as u64) {
                        *stats.borrow_mut() = vio::SrcStats { low, ..Default::default() };
                        *flt.borrow_mut() = Some(if kind == "seek" {
                            SrcFault::Seek(1 + n / msrcs.len() as u64, *tag)
                        } else if kind == "seekintr" {
                            SrcFault::SeekIntr(1 + n / msrcs.len() as u64, *tag)
                        } else {
                            SrcFault::ReadAfterSeek(1 + n / msrcs.len() as u64, *tag)
                        });
                        fired2.borrow_mut().push((stats, fr));
                    }
                }
                // the three ways of registering a source, in turn: `push`, `add`, `extend`; every third
                // cursor makes a round trip through `into_reader` / `into_cursor` first
                let c = if j % 3 == 2 { c.into_reader().into_cursor().map_err(|e| fmt_err(&e))? } else { c };
                match j % 3 {
                    0 => b.push(c),
                    1 => {
                        b = b.add(c);
                    }
                    _ => b.extend(std::iter::once(c)),
                }
            }
            let merger = b.build();
            if to_writer {
                let mut w = Writer::memory();
                merger.write_into_stream_writer(&mut w).map_err(|e| fmt_err(&e))?;
                let bytes = w.into_inner().map_err(|e| fmt_io_err(&e))?;
                decode::decode(&bytes).map(|d| d.entries)
            } else {
                let mut it = merger.into_stream_merger_iter().map_err(|e| fmt_err(&e))?;
                let mut acc = Vec::new();
                while let Some((k, v)) = it.next().map_err(|e| fmt_err(&e))? {
                    acc.push((k.to_vec(), v.to_vec()));
                }
                Ok(acc)
            }
        }));
        let c = calls.borrow();
        let (f1, f2) = match r {
            Ok(Ok(l)) => (
                format!("ok {}", fmt_list(&l)),
                format!("calls={} cfnv={}", c.len(), hex64(fnv_calls(FNV_INIT, &c))),
            ),
            Ok(Err(e)) => (e, format!("calls={}", c.len())),
            Err(p) => (format!("panic {}", panic_name(p)), "-".into()),
        };
        drop(c);
        // Rust-side specification of the merge (independent of gmodel's): grouped union, values in
        // the order their sources were added, one merge per key
        if !impl_only && fail_at == 0 && f1.starts_with("ok ") {
            let mut m: std::collections::BTreeMap<Vec<u8>, Vec<Vec<u8>>> = Default::default();
            for (es, _) in &self.msrcs {
                for (k, v) in es {
                    m.entry(k.clone()).or_default().push(v.clone());
                }
            }
            let want: Vec<Entry> = m.into_iter().map(|(k, vs)| { let v = apply_mf(toks[1], &vs); (k, v) }).collect();
            if f1 != format!("ok {}", fmt_list(&want)) {
                self.oracle_failures += 1;
                self.emit(line, format!("ORACLE-FAIL merge_output_differs_from_the_grouped_union_({}_keys_expected)", want.len()), f2);
                return;
            }
        }
        if impl_only {
            // impl-only oracle (C12): if the armed fault was reached the call must return that
            // I/O error; if it was never reached the result must be the fault-free one
            let (kind, n, tag) = fault.clone().unwrap_or(("seek".into(), 0, 0));
            let nth = 1 + n / (self.msrcs.len().max(1) as u64);
            let reached = fired.borrow().iter().any(|(st, fr)| {
                if kind == "seek" || kind == "seekintr" { st.borrow().seeks >= nth } else { *fr.borrow() }
            });
            let expected: Vec<Entry> = {
                let mut m: std::collections::BTreeMap<Vec<u8>, Vec<Vec<u8>>> = Default::default();
                for (es, _) in &self.msrcs {
                    for (k, v) in es {
                        m.entry(k.clone()).or_default().push(v.clone());
                    }
                }
                m.into_iter().map(|(k, vs)| { let v = apply_mf(toks[1], &vs); (k, v) }).collect()
            };
            let ok = if reached { f1 == format!("err io {}", tag) } else { f1 == format!("ok {}", fmt_list(&expected)) };
            let f1 = if ok {
                if reached { "fault-surfaced".to_string() } else { "ok".to_string() }
            } else {
                self.oracle_failures += 1;
                format!("ORACLE-FAIL fault_reached={} got={}", reached, f1.replace(' ', "_"))
            };
            self.emit(line, f1, "-".into());
            return;
        }
        self.emit(line, f1, f2);
    }

    /// C17 oracle on the allocation trace: every dealloc frees a live allocation with the very
    /// layout it was allocated with; no allocation of size 0; alignment of the bound records.
    fn alloc_oracle(live: &mut HashMap<usize, (usize, usize)>, trace: &[grenad::verif::AllocEvent]) -> Option<String> {
        for e in trace {
            match e {
                grenad::verif::AllocEvent::Alloc { size, align, addr } => {
                    if *size == 0 || *align != 8 || size % 16 != 0 || addr % 8 != 0 {
                        return Some(format!("bad allocation size={} align={}", size, align));
                    }
                    live.insert(*addr, (*size, *align));
                }
                grenad::verif::AllocEvent::Dealloc { size, align, addr } => match live.remove(addr) {
                    Some((s, a)) if s == *size && a == *align => {}
                    Some((s, a)) => {
                        return Some(format!("allocated with size {} align {}, freed with size {} align {}", s, a, size, align))
                    }
                    None => return Some(format!("freed an allocation that is not live (size {})", size)),
                },
            }
        }
        None
    }

    fn sorter_state(&mut self, s: &AnySorter) -> String {
        let (buf, elen, bc, chunks) = s.fingerprint();
        if catch_unwind(AssertUnwindSafe(|| s.estimate())).is_err() {
            self.oracle_failures += 1;
            return "ORACLE-FAIL estimated_dumped_memory_usage_panicked".into();
        }
        let trace = grenad::verif::take_alloc_trace();
        if let Some(msg) = Self::alloc_oracle(&mut self.alloc_live, &trace) {
            self.oracle_failures += 1;
            return format!("ORACLE-FAIL {}", msg.replace(' ', "_"));
        }
        let ev: Vec<String> = trace
            .iter()
            .map(|e| match e {
                grenad::verif::AllocEvent::Alloc { size, align, .. } => {
                    if *align == 8 { format!("A{}", size) } else { format!("A{}@{}", size, align) }
                }
                grenad::verif::AllocEvent::Dealloc { size, align, .. } => {
                    if *align == 8 { format!("D{}", size) } else { format!("D{}@{}", size, align) }
                }
            })
            .collect();
        let cev: String = if s.is_custom() { self.sctl.borrow_mut().events.drain(..).collect() } else { "*".to_string() };
        format!("ok buf={} elen={} bc={} chunks={} ev={} cev={}", buf, elen, bc, chunks, ev.join(","), cev)
    }

    fn sorter_new(&mut self, line: &str, toks: &[&str]) {
        let kind = toks[1].to_string();
        let fail_at: u64 = toks.get(2).and_then(|s| s.parse().ok()).unwrap_or(0);
        let calls: Calls = Rc::new(RefCell::new(Vec::new()));
        let mf = Mf { kind, calls, fail_at };
        self.smf = Some(mf.clone());
        // drop any previous sorter first and forget the allocation events of earlier scenarios
        self.sorter = None;
        self.sorter_inserted.clear();
        self.svol = 0;
        self.scount = 0;
        self.ssmall = true;
        self.sfits = true;
        self.screated_seen = 0;
        self.selen_seen = 0;
        grenad::verif::take_alloc_trace();
        self.alloc_live.clear();
        {
            let mut c = self.sctl.borrow_mut();
            c.events.clear();
            c.created = 0;
            c.dropped = 0;
            c.ops = 0;
        }
        let cfg = self.scfg.clone();
        let ctl = self.sctl.clone();
        let r = catch_unwind(AssertUnwindSafe(|| match cfg.creator.as_str() {
            "cursorvec" => AnySorter::Vecs(build_sorter(&cfg, mf, grenad::CursorVec)),
            "tempfile" => AnySorter::Tmp(build_sorter(&cfg, mf, grenad::TempFileChunk)),
            _ => AnySorter::Custom(build_sorter(&cfg, mf, Creator(ctl))),
        }));
        match r {
            Ok(s) => {
                self.alloc_live.clear();
                let trace = grenad::verif::take_alloc_trace();
                let bad = Self::alloc_oracle(&mut self.alloc_live, &trace);
                let (buf, _, _, _) = s.fingerprint();
                let custom = s.is_custom();
                if let Some(msg) = bad {
                    self.oracle_failures += 1;
                    self.sorter = Some(s);
                    self.emit(line, format!("ORACLE-FAIL {}", msg.replace(' ', "_")), "-".into());
                    return;
                }
                self.sorter = Some(s);
                self.emit(line, format!("ok buf={} elen=0 bc=0 chunks=0 ev=A{} cev={}", buf, buf, if custom { "" } else { "*" }), "-".into());
            }
            Err(p) => {
                self.sorter = None;
                self.emit(line, format!("panic {}", panic_name(p)), "-".into());
            }
        }
    }

    fn sorter_ins(&mut self, line: &str, toks: &[&str]) {
        let (k, v) = (unhex(toks[1]).unwrap_or_default(), unhex(toks[2]).unwrap_or_default());
        let impl_only = toks[0].starts_with('!');
        let Some(mut s) = self.sorter.take() else {
            self.emit(line, "dead".into(), "-".into());
            return;
        };
        let ops_before = self.sctl.borrow().faults_fired;
        let r = catch_unwind(AssertUnwindSafe(|| s.insert(&k, &v)));
        let f1 = match r {
            Ok(Ok(())) => {
                let vol_bad = self.volume_oracle(&s, k.len() + v.len());
                let st = self.sorter_state(&s);
                self.sorter = Some(s);
                self.sorter_inserted.push((k.clone(), v.clone()));
                match vol_bad {
                    Some(msg) => {
                        self.oracle_failures += 1;
                        format!("ORACLE-FAIL {}", msg)
                    }
                    None => st,
                }
            }
            Ok(Err(e)) => {
                let trace = grenad::verif::take_alloc_trace();
                if impl_only && self.sctl.borrow().big_fail.is_some() {
                    // persistent-fault scenarios go on inserting after a failed call (C08: the number of
                    // chunks alive must stay bounded however often a merge fails)
                    let _ = Self::alloc_oracle(&mut self.alloc_live, &trace);
                    self.sorter = Some(s);
                }
                e
            }
            Err(p) => {
                std::mem::forget(s);
                grenad::verif::take_alloc_trace();
                format!("panic {}", panic_name(p))
            }
        };
        let f1 = if impl_only { self.fault_oracle(f1, ops_before) } else { f1 };
        self.emit(line, f1, "-".into());
    }

    /// C08 evaluated on the implementation alone (the statement of `C08_volume_quarter` /
    /// `C08_volume_noRealloc`, with the harness's own running sums): while every entry takes at most a
    /// quarter of the budget, the bytes inserted since the last spill never exceed twice the budget; with
    /// reallocation disabled and entries within the budget, entries plus 16 bytes each stay within it.
    fn volume_oracle(&mut self, s: &AnySorter, size: usize) -> Option<String> {
        let budget = self.scfg.thr.max(self.scfg.minmem);
        let (_, _, bc, _) = s.fingerprint();
        let created = self.sctl.borrow().created;
        // a spill empties the buffer before the entry goes in: the instrumented creator saw a `create`,
        // or (stock creators) the number of entries held did not simply grow by one
        let spilled = if s.is_custom() { created > self.screated_seen } else { bc != self.selen_seen + 1 };
        self.screated_seen = created;
        self.selen_seen = bc;
        if spilled {
            self.svol = size;
            self.scount = 1;
        } else {
            self.svol += size;
            self.scount += 1;
        }
        if 16 + size > budget / 4 {
            self.ssmall = false;
        }
        if 16 + size > budget {
            self.sfits = false;
        }
        if self.scfg.realloc {
            if self.ssmall && self.scfg.init <= budget && budget >= 16 && self.svol > 2 * budget {
                return Some(format!("{}_bytes_inserted_since_the_last_spill_with_budget_{}", self.svol, budget));
            }
        } else if self.sfits && self.svol + 16 * self.scount > budget + 15 {
            return Some(format!("{}_bytes_in_{}_entries_since_the_last_spill_with_budget_{}_and_no_realloc", self.svol, self.scount, budget));
        }
        None
    }

    /// Impl-only oracle for chunk-storage faults: the call during which the armed fault fired
    /// must return `Err(Io)` carrying its tag; any other call must not fail.
    fn fault_oracle(&mut self, f1: String, ops_before: u64) -> String {
        let c = self.sctl.borrow();
        let fired = c.faults_fired > ops_before;
        let tag = c.op_fault.map(|(_, t)| t).or(c.big_fail.map(|(_, t)| t)).unwrap_or(0);
        let ok = if fired { f1 == format!("err io {}", tag) } else { f1.starts_with("ok") };
        // C08 evaluated on the instrumented creator: chunks alive at once
        let maxnb = self.scfg.maxchunks.max(1) as i64;
        if c.max_live > maxnb + 2 {
            let m = c.max_live;
            drop(c);
            self.oracle_failures += 1;
            return format!("ORACLE-FAIL {}_chunks_alive_at_once_with_max_nb_chunks={}", m, maxnb);
        }
        drop(c);
        if ok {
            if fired { "fault-surfaced".into() } else { "ok".into() }
        } else {
            self.oracle_failures += 1;
            format!("ORACLE-FAIL fired={} got={}", fired, f1.replace(' ', "_"))
        }
    }

    fn sorter_finish(&mut self, line: &str, toks: &[&str]) {
        let impl_only = toks[0].starts_with('!');
        let mode = toks.get(1).copied().unwrap_or("stream");
        let Some(s) = self.sorter.take() else {
            self.emit(line, "dead".into(), "-".into());
            return;
        };
        let mf = self.smf.clone().unwrap();
        let ctl = self.sctl.clone();
        let ops_before = ctl.borrow().faults_fired;
        let stable = self.scfg.stable && !self.scfg.par || self.scfg.stable;
        let r = catch_unwind(AssertUnwindSafe(|| s.finish(mode, &mf)));
        let trace = grenad::verif::take_alloc_trace();
        let mut alloc_bad = Self::alloc_oracle(&mut self.alloc_live, &trace);
        if alloc_bad.is_none() && !self.alloc_live.is_empty() && matches!(r, Ok(Ok(_))) {
            alloc_bad = Some(format!("{} sorter buffer allocation(s) leaked", self.alloc_live.len()));
        }
        let aev: Vec<String> = trace
            .iter()
            .map(|e| match e {
                grenad::verif::AllocEvent::Alloc { size, .. } => format!("A{}", size),
                grenad::verif::AllocEvent::Dealloc { size, .. } => format!("D{}", size),
            })
            .collect();
        self.sctl.borrow_mut().events.clear();
        let calls = mf.calls.borrow();
        let (f1, f2) = match r {
            Ok(Ok((l, chunks))) => (
                format!("ok {}", fmt_list(&l)),
{
                    let ch = if chunks == u64::MAX { "*".to_string() } else { chunks.to_string() };
                    if stable {
                        format!("chunks={} calls={} cfnv={} aev={}", ch, calls.len(), hex64(fnv_calls(FNV_INIT, &calls)), aev.join(","))
                    } else {
                        format!("chunks={} calls={} cfnv=* aev={}", ch, calls.len(), aev.join(","))
                    }
                },
            ),
            Ok(Err(e)) => (e, "-".into()),
            Err(p) => (format!("panic {}", panic_name(p)), "-".into()),
        };
        drop(calls);
        // Rust-side specification of the sorter output: group all inserts by key, values in insertion
        // order (order-insensitive merge functions only when the sort is unstable or parallel)
        let order_free = mf.kind == "sum" || mf.kind == "bag";
        let f1 = if !impl_only && mf.fail_at == 0 && f1.starts_with("ok ") && (order_free || (self.scfg.stable && !self.scfg.par) || self.scfg.stable) {
            let mut m: std::collections::BTreeMap<Vec<u8>, Vec<Vec<u8>>> = Default::default();
            for (k, v) in &self.sorter_inserted {
                m.entry(k.clone()).or_default().push(v.clone());
            }
            let want: Vec<Entry> = m.into_iter().map(|(k, vs)| { let v = apply_mf(&mf.kind, &vs); (k, v) }).collect();
            if f1 != format!("ok {}", fmt_list(&want)) && (order_free || mf.kind == "first" || mf.kind == "concat") && !(mf.kind == "concat" && !self.scfg.stable) {
                self.oracle_failures += 1;
                format!("ORACLE-FAIL sorter_output_differs_from_sort_and_merge_of_all_inserts_({}_keys_expected)", want.len())
            } else {
                f1
            }
        } else {
            f1
        };
        let f1 = if impl_only { self.fault_oracle(f1, ops_before) } else { f1 };
        let f1 = match alloc_bad {
            Some(msg) => {
                self.oracle_failures += 1;
                format!("ORACLE-FAIL {}", msg.replace(' ', "_"))
            }
            None => f1,
        };
        self.emit(line, f1, f2);
    }

    /// C09: the current/0.4.7 writer-reader matrix on the last finished file.
    fn interop(&mut self, line: &str) {
        let cfg = self.wcfg.clone();
        let es = self.last_es.clone();
        let cur = self.last_file.clone();
        let r = catch_unwind(AssertUnwindSafe(|| -> Result<String, String> {
            use grenad04 as g4;
            let ct4 = match cfg.codec {
                0 => g4::CompressionType::None,
                1 => g4::CompressionType::SnappyPre05,
                5 => g4::CompressionType::Snappy,
                2 => g4::CompressionType::Zlib,
                3 => g4::CompressionType::Lz4,
                _ => g4::CompressionType::Zstd,
            };
            // 0.4.7 writer, same configuration
            let mut b = g4::WriterBuilder::new();
            b.compression_type(ct4);
            b.compression_level(cfg.level);
            b.block_size(cfg.bs);
            b.index_key_interval(NonZeroUsize::new(cfg.iv.max(1)).unwrap());
            b.index_levels(cfg.levels);
            // 0.4.7 has the `len() as u8 - 1` overflow too: with 255 levels its writer panics in
            // this overflow-checked build, so the old-writer half of the matrix is skipped there
            let old: Vec<u8> = if cfg.levels == 255 {
                cur.clone()
            } else {
                let mut w = b.memory();
                for (k, v) in &es {
                    w.insert(k, v).map_err(|e| e.to_string())?;
                }
                w.into_inner().map_err(|e| e.to_string())?
            };
            // 0.4.7 reader over the current file
            let mut c = g4::Reader::new(std::io::Cursor::new(&cur[..]))
                .and_then(|r| r.into_cursor())
                .map_err(|e| e.to_string())?;
            let mut a = Vec::new();
            while let Some((k, v)) = c.move_on_next().map_err(|e| e.to_string())? {
                a.push((k.to_vec(), v.to_vec()));
            }
            // current reader over the 0.4.7 file
            let mut c = Reader::new(std::io::Cursor::new(&old[..]))
                .and_then(|r| r.into_cursor())
                .map_err(|e| e.to_string())?;
            let mut b2 = Vec::new();
            while let Some((k, v)) = c.move_on_next().map_err(|e| e.to_string())? {
                b2.push((k.to_vec(), v.to_vec()));
            }
            // the independent decoder over both
            let d1 = decode::decode(&cur)?.entries;
            let d2 = decode::decode(&old)?.entries;
            // byte equality whenever the block size is not lowered through the hook (0.4.7 has no hook)
            let same_bytes = if cfg.minbs < 1024 { "n/a".to_string() } else { (old == cur).to_string() };
            Ok(format!(
                "ok old-reads-new={} new-reads-old={} dec-new={} dec-old={} same-bytes={}",
                fmt_list(&a).replace(' ', "/"),
                fmt_list(&b2).replace(' ', "/"),
                fmt_list(&d1).replace(' ', "/"),
                fmt_list(&d2).replace(' ', "/"),
                same_bytes
            ))
        }));
        let f1 = match r {
            Ok(Ok(s)) => s,
            Ok(Err(e)) => format!("err {}", e.replace(' ', "_")),
            Err(p) => format!("panic {}", panic_name(p)),
        };
        // implementation-only oracle (C09): all four readings exist and are exactly the inserted entries
        let want = fmt_list(&es).replace(' ', "/");
        let good = f1.starts_with("ok ")
            && ["old-reads-new=", "new-reads-old=", "dec-new=", "dec-old="].iter().all(|k| f1.contains(&format!("{}{} ", k, want)));
        if !good {
            self.oracle_failures += 1;
            self.emit(line, format!("ORACLE-FAIL interop_matrix_with_grenad_0.4.7_is_not_the_inserted_entries:_{}", f1.chars().take(160).collect::<String>().replace(' ', "_")), "-".into());
            return;
        }
        self.emit(line, f1, "-".into());
    }
}

fn iter_next(it: &mut IterBox) -> Result<Option<Entry>, String> {
    let own = |o: Option<(&[u8], &[u8])>| o.map(|(k, v)| (k.to_vec(), v.to_vec()));
    match it {
        IterBox::RF(i) => i.next().map(own).map_err(|e| fmt_err(&e)),
        IterBox::RR(i) => i.next().map(own).map_err(|e| fmt_err(&e)),
        IterBox::PF(i) => i.next().map(own).map_err(|e| fmt_err(&e)),
        IterBox::PR(i) => i.next().map(own).map_err(|e| fmt_err(&e)),
    }
}

pub fn varint_first_bad(start: u64, count: u64, stride: u64) -> Option<u64> {
    let mut v = start;
    let mut buf = [0u8; 10];
    for _ in 0..count {
        let enc = grenad::verif::varint_encode32(&mut buf, v as u32).to_vec();
        let mut x = 0u32;
        let r = catch_unwind(AssertUnwindSafe(|| grenad::verif::varint_decode32(&enc, &mut x)));
        match r {
            Ok(n) if n == enc.len() && x == v as u32 && (1..=5).contains(&n) => {}
            _ => return Some(v),
        }
        v += stride;
    }
    None
}

pub fn varint_digest(start: u64, count: u64, stride: u64) -> u64 {
    let mut h = FNV_INIT;
    let mut v = start;
    let mut buf = [0u8; 10];
    for _ in 0..count {
        let enc = grenad::verif::varint_encode32(&mut buf, v as u32).to_vec();
        h = fnv_bytes(h, &enc);
        let mut x = 0u32;
        let n = catch_unwind(AssertUnwindSafe(|| grenad::verif::varint_decode32(&enc, &mut x))).unwrap_or(99);
        h = fnv_nat(fnv_nat(h, x as u64), n as u64);
        v += stride;
    }
    h
}

fn tokens_of(s: &str) -> std::collections::BTreeMap<String, String> {
    s.split_whitespace().filter_map(|t| t.split_once('=')).map(|(k, v)| (k.to_string(), v.to_string())).collect()
}
