mod decode;
mod gen;
mod interp;
mod io;
mod oracles;
mod util;

use std::io::Write;

fn main() {
    // panics of the crate under test are results, not noise
    std::panic::set_hook(Box::new(|_| {}));
    let args: Vec<String> = std::env::args().collect();
    let cmd = args.get(1).map(|s| s.as_str()).unwrap_or("");
    match cmd {
        "gen" => {
            let stream = &args[2];
            let seed: u64 = args[3].parse().unwrap();
            let count: u64 = args[4].parse().unwrap();
            let stdout = std::io::stdout();
            let mut o = std::io::BufWriter::new(stdout.lock());
            for i in 0..count {
                let mut r = util::Rng::new(seed.wrapping_mul(1_000_003).wrapping_add(i).wrapping_add(fnv(stream)));
                let lines = if stream == "fault" {
                    let mut v = Vec::new();
                    gen::fault_scenarios(&mut r, seed.wrapping_mul(131).wrapping_add(i), &mut v);
                    v
                } else if stream == "faultbig" {
                    let mut v = Vec::new();
                    gen::faultbig_scenarios(&mut r, seed.wrapping_mul(131).wrapping_add(i), &mut v);
                    v
                } else {
                    gen::scenario(stream, &mut r, seed.wrapping_mul(100000).wrapping_add(i))
                };
                for l in lines {
                    writeln!(o, "{}", l).unwrap();
                }
            }
        }
        "run" => {
            let script = std::fs::read_to_string(&args[2]).unwrap();
            let mut it = interp::Interp::new();
            for line in script.lines() {
                it.run_line(line);
            }
            let f = std::fs::File::create(&args[3]).unwrap();
            let mut o = std::io::BufWriter::new(f);
            for l in &it.out {
                writeln!(o, "{}\t{}\t{}", l.op, l.f1, l.f2).unwrap();
            }
            let stats: Vec<String> = it.stats.iter().map(|(k, v)| format!("\"{}\":{}", k, v)).collect();
            println!("{{\"oracle_failures\":{},\"lines\":{},\"stats\":{{{}}}}}", it.oracle_failures, it.out.len(), stats.join(","));
        }
        "vshard" => {
            let start: u64 = args[2].parse().unwrap();
            let count: u64 = args[3].parse().unwrap();
            println!("{}", util::hex64(interp::varint_digest(start, count, 1)));
        }
        _ => {
            eprintln!("usage: gh gen <stream> <seed> <count> | run <script> <transcript> | vshard <start> <count>");
            std::process::exit(2);
        }
    }
}

fn fnv(s: &str) -> u64 {
    util::fnv_bytes(util::FNV_INIT, s.as_bytes())
}
