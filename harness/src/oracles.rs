//! Property oracles evaluated directly on the implementation's output (independent decoder),
//! so that a concrete failing input is recognised without the model.

use std::collections::BTreeMap;

use crate::decode::Decoded;
use crate::interp::WCfg;
use crate::util::Entry;

fn varint_len(n: usize) -> usize {
    if n < 1 << 7 { 1 } else if n < 1 << 14 { 2 } else if n < 1 << 21 { 3 } else if n < 1 << 28 { 4 } else { 5 }
}

fn frame_len(e: &Entry) -> usize {
    varint_len(e.0.len()) + varint_len(e.1.len()) + e.0.len() + e.1.len()
}

/// C01 (content), C09 (offset table every interval), C15 (cut rule), C18 (sorted blocks).
/// `inserted` may be unsorted (C18 scenarios): content is compared as a sequence.
pub fn file_oracles(d: &Decoded, cfg: &WCfg, inserted: &[Entry]) -> Option<String> {
    if d.entries != inserted {
        return Some("c01:decoded entries differ from the inserted ones".into());
    }
    if d.trailer.version != 2 || d.trailer.codec != cfg.codec || d.trailer.levels != cfg.levels {
        return Some("c09:trailer fields differ from the configuration".into());
    }
    let bsize = cfg.bs.max(cfg.minbs.min(1024));
    let bsize = if cfg.minbs < 1024 { cfg.bs.max(cfg.minbs) } else { bsize.max(1024) };
    let root_level = d.trailer.levels as usize + 1;
    let mut last_at_level: BTreeMap<usize, u64> = BTreeMap::new();
    for b in &d.blocks {
        last_at_level.insert(b.level, b.offset);
    }
    for b in &d.blocks {
        // C18: strictly ascending keys in every block
        for w in b.entries.windows(2) {
            if w[0].0 >= w[1].0 {
                return Some(format!("c18:block at {} level {} is not strictly ascending", b.offset, b.level));
            }
        }
        // C09: one table offset per interval, first 0
        let iv = cfg.iv.max(1);
        let expect: Vec<u64> = if b.entries.is_empty() {
            vec![0]
        } else {
            b.entry_offsets.iter().step_by(iv).copied().collect()
        };
        if b.table != expect {
            return Some(format!("c09:offset table of block at {} is not one entry per interval", b.offset));
        }
        // C15: data blocks and index blocks more than one level below the root
        let cut_level = b.level == 0 || (b.level >= 1 && b.level + 2 <= root_level);
        if cut_level && !b.entries.is_empty() {
            let n = b.entries.len();
            let last = frame_len(&b.entries[n - 1]);
            let slot = if n - 1 > 0 && (n - 1) % iv == 0 { 8 } else { 0 };
            let without_last = b.raw_len - last - slot;
            if without_last >= bsize {
                return Some(format!(
                    "c15:block at {} level {} is {} bytes without its final entry (block size {})",
                    b.offset, b.level, without_last, bsize
                ));
            }
            if last_at_level.get(&b.level) != Some(&b.offset) && b.raw_len < bsize {
                return Some(format!(
                    "c15:block at {} level {} was cut at {} bytes, below the block size {}",
                    b.offset, b.level, b.raw_len, bsize
                ));
            }
        }
    }
    None
}

pub fn file_stats(d: &Decoded) -> Vec<(String, u64)> {
    let mut per_level: BTreeMap<usize, u64> = BTreeMap::new();
    for b in &d.blocks {
        *per_level.entry(b.level).or_insert(0) += 1;
    }
    let root = d.trailer.levels as usize + 1;
    let deep = per_level.iter().any(|(l, n)| *l >= 1 && *l < root && *n >= 2);
    let bucket = |n: usize| match n {
        0 => "0",
        1 => "1",
        2..=9 => "2-9",
        10..=99 => "10-99",
        _ => "100+",
    };
    let mut v = vec![
        ("files".to_string(), 1),
        (format!("files:entries:{}", bucket(d.entries.len())), 1),
        (format!("files:blocks:{}", bucket(d.blocks.len())), 1),
        (format!("files:levels:{}", d.trailer.levels), 1),
        (format!("files:codec:{}", d.trailer.codec), 1),
    ];
    if deep {
        v.push(("files:multi-block-nonroot-index-level".to_string(), 1));
    }
    if per_level.get(&0).copied().unwrap_or(0) >= 2 {
        v.push(("files:multi-data-block".to_string(), 1));
    }
    v
}
