//! hex, digests, PRNG — everything derived from one seed so that a disagreement replays exactly.

pub type Entry = (Vec<u8>, Vec<u8>);

pub fn hex(b: &[u8]) -> String {
    if b.is_empty() {
        return "-".to_string();
    }
    let mut s = String::with_capacity(b.len() * 2);
    for x in b {
        s.push(char::from_digit((*x >> 4) as u32, 16).unwrap());
        s.push(char::from_digit((*x & 15) as u32, 16).unwrap());
    }
    s
}

pub fn unhex(s: &str) -> Option<Vec<u8>> {
    if s == "-" {
        return Some(Vec::new());
    }
    let c: Vec<u8> = s.bytes().collect();
    if c.len() % 2 != 0 {
        return None;
    }
    let mut out = Vec::with_capacity(c.len() / 2);
    for p in c.chunks(2) {
        let a = (p[0] as char).to_digit(16)?;
        let b = (p[1] as char).to_digit(16)?;
        out.push((a * 16 + b) as u8);
    }
    Some(out)
}

pub const FNV_INIT: u64 = 0xcbf29ce484222325;

pub fn fnv_bytes(mut h: u64, b: &[u8]) -> u64 {
    for x in b {
        h = (h ^ (*x as u64)).wrapping_mul(0x100000001b3);
    }
    h
}

pub fn fnv_nat(h: u64, n: u64) -> u64 {
    fnv_bytes(h, &n.to_le_bytes())
}

pub fn fnv_len_bytes(h: u64, b: &[u8]) -> u64 {
    fnv_bytes(fnv_nat(h, b.len() as u64), b)
}

pub fn fnv_entries<'a, I: IntoIterator<Item = (&'a [u8], &'a [u8])>>(mut h: u64, es: I) -> u64 {
    for (k, v) in es {
        h = fnv_len_bytes(fnv_len_bytes(h, k), v);
    }
    h
}

pub fn fnv_calls(mut h: u64, calls: &[(Vec<u8>, Vec<Vec<u8>>)]) -> u64 {
    for (k, vs) in calls {
        h = fnv_nat(fnv_len_bytes(h, k), vs.len() as u64);
        for v in vs {
            h = fnv_len_bytes(h, v);
        }
    }
    h
}

pub fn hex64(h: u64) -> String {
    format!("{:016x}", h)
}

pub fn fmt_list(es: &[Entry]) -> String {
    format!(
        "n={} fnv={}",
        es.len(),
        hex64(fnv_entries(FNV_INIT, es.iter().map(|(k, v)| (&k[..], &v[..]))))
    )
}

pub fn fmt_opt(e: Option<(&[u8], &[u8])>) -> String {
    match e {
        Some((k, v)) => format!("some {} {}", hex(k), hex(v)),
        None => "none".to_string(),
    }
}

pub fn fmt_entries(es: &[Entry]) -> String {
    if es.is_empty() {
        return "-".to_string();
    }
    es.iter().map(|(k, v)| format!("{}:{}", hex(k), hex(v))).collect::<Vec<_>>().join(",")
}

pub fn parse_entries(s: &str) -> Option<Vec<Entry>> {
    if s == "-" || s.is_empty() {
        return Some(Vec::new());
    }
    s.split(',')
        .map(|kv| {
            let mut it = kv.split(':');
            let k = unhex(it.next()?)?;
            let v = unhex(it.next()?)?;
            Some((k, v))
        })
        .collect()
}

pub fn kv_arg(args: &[&str], key: &str, dflt: u64) -> u64 {
    for a in args {
        if let Some((k, v)) = a.split_once('=') {
            if k == key {
                if let Ok(n) = v.parse() {
                    return n;
                }
            }
        }
    }
    dflt
}

/// splitmix64
#[derive(Clone)]
pub struct Rng(pub u64);

impl Rng {
    pub fn new(seed: u64) -> Rng {
        Rng(seed.wrapping_mul(0x9E3779B97F4A7C15) ^ 0xD1B54A32D192ED03)
    }
    pub fn next(&mut self) -> u64 {
        self.0 = self.0.wrapping_add(0x9E3779B97F4A7C15);
        let mut z = self.0;
        z = (z ^ (z >> 30)).wrapping_mul(0xBF58476D1CE4E5B9);
        z = (z ^ (z >> 27)).wrapping_mul(0x94D049BB133111EB);
        z ^ (z >> 31)
    }
    /// uniform in 0..n (n > 0)
    pub fn below(&mut self, n: u64) -> u64 {
        self.next() % n
    }
    pub fn range(&mut self, lo: u64, hi: u64) -> u64 {
        lo + self.below(hi - lo + 1)
    }
    pub fn chance(&mut self, num: u64, den: u64) -> bool {
        self.below(den) < num
    }
    pub fn pick<'a, T>(&mut self, xs: &'a [T]) -> &'a T {
        &xs[self.below(xs.len() as u64) as usize]
    }
    pub fn bytes(&mut self, n: usize) -> Vec<u8> {
        (0..n).map(|_| self.next() as u8).collect()
    }
}
