#!/usr/bin/env python3
"""harmless.py <dir-with-patch.diff> <id>: apply a behaviour-preserving refactoring to /repo, run every
quick check (correspondence part), undo; store it under harmless/<id>/ with the outcome. A check that
raises an alarm here is a false alarm to be understood."""
import json, os, shutil, subprocess, sys
from concurrent.futures import ThreadPoolExecutor
ROOT = os.path.dirname(os.path.abspath(__file__))
ENV = dict(os.environ, CARGO_NET_OFFLINE="true", VERIF_NO_PROOF="1")
def sh(cmd, cwd=None):
    p = subprocess.run(cmd, cwd=cwd, env=ENV, shell=isinstance(cmd, str), stdout=subprocess.PIPE, stderr=subprocess.STDOUT, text=True)
    return p.returncode, p.stdout
src, sid = sys.argv[1], sys.argv[2]
rc, out = sh("git -C /repo status --porcelain"); assert out.strip() == "", out
rc, out = sh(f"git -C /repo apply {src}/patch.diff"); assert rc == 0, out
res = {}
try:
    rc, out = sh("cargo test --offline 2>&1 | grep 'test result'", cwd="/repo")
    res["pinned_suite"] = out.strip().replace("\n", " | ")
    rc, out = sh("cargo build --offline 2>&1 | tail -2", cwd=os.path.join(ROOT, "harness"))
    def one(p):
        rc, out = sh([os.path.join(ROOT, "check"), p], cwd=ROOT)
        return p, rc, [l for l in out.splitlines() if l.startswith("VIOLATION")][:2]
    with ThreadPoolExecutor(max_workers=3) as ex:
        for p, rc, v in ex.map(one, [f"C{i:02d}" for i in range(1, 19)]):
            if rc != 0:
                res[p] = v or [f"exit {rc}"]
finally:
    sh("git -C /repo checkout -- .")
    sh("cd /verif/r2l && ./target/debug/r2l targets.txt /repo/src ../lean/Grenad/Generated/Src > /dev/null")  # generated Lean back to the unchanged tree
d = os.path.join(ROOT, "harmless", sid); os.makedirs(d, exist_ok=True)
shutil.copy(os.path.join(src, "patch.diff"), d)
if os.path.exists(os.path.join(src, "notes.md")): shutil.copy(os.path.join(src, "notes.md"), d)
json.dump({"id": sid, "alarms": {k: v for k, v in res.items() if k != "pinned_suite"}, "pinned_suite": res.get("pinned_suite")}, open(os.path.join(d, "result.json"), "w"), indent=1)
print(sid, "ALARMS:" if len(res) > 1 else "quiet", {k: v for k, v in res.items() if k != "pinned_suite"})
