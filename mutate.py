#!/usr/bin/env python3
"""
mutate.py [--limit N] [--files a.rs,b.rs]   systematic small mutants of /repo/src (non-test code) to
measure what the checks catch beyond the hand-seeded changes. For each mutant: apply to /repo, build,
run the pinned unit tests (mutants they kill are not interesting), then every quick check
(correspondence part only: the Lean proofs do not depend on /repo), undo. Results: mutants/RESULTS.jsonl.
Undetected survivors are either equivalent mutants or blind spots — review them by hand.
"""
import json, os, re, subprocess, sys, time
from concurrent.futures import ThreadPoolExecutor

ROOT = os.path.dirname(os.path.abspath(__file__))
ENV = dict(os.environ, CARGO_NET_OFFLINE="true", VERIF_NO_PROOF="1")
FILES = ["varint.rs", "block_writer.rs", "block.rs", "writer.rs", "metadata.rs", "count_write.rs", "merger.rs",
         "sorter.rs", "reader/reader_cursor.rs", "reader/range_iter.rs", "reader/prefix_iter.rs", "reader/mod.rs"]
PROPS = [f"C{i:02d}" for i in range(1, 19)]

RULES = [
    (r" >= ", " > "), (r" > ", " >= "), (r" <= ", " < "), (r" < ", " <= "), (r" == ", " != "), (r" != ", " == "),
    (r" \+ 1\b", " + 2"), (r" - 1\b", " - 0"), (r" \+= 1;", " += 2;"), (r"\bchecked_sub\(1\)", "checked_sub(2)"),
    (r"\.is_some\(\)", ".is_none()"), (r"\.is_none\(\)", ".is_some()"), (r"\.is_empty\(\)", ".is_empty() == false"),
    (r"&& ", "|| "), (r"\|\| ", "&& "), (r"\.first\(\)", ".last()"), (r"\.last\(\)", ".first()"),
    (r"move_on_next", "move_on_prev"), (r"move_on_first", "move_on_last"), (r"move_on_last\b", "move_on_first"),
    (r"Bound::Included", "Bound::Excluded"), (r"\bmax\(", "min("), (r"\* 2\b", "* 3"), (r"\.reverse\(\)", ""),
    (r"<< 7", "<< 8"), (r"0x7f", "0x3f"), (r"BigEndian", "LittleEndian"), (r"to_be_bytes", "to_le_bytes"),
]


def sh(cmd, cwd=None, timeout=1800):
    # own process group, so that a hanging test binary is killed together with cargo
    p = subprocess.Popen(cmd, cwd=cwd, env=ENV, shell=isinstance(cmd, str), stdout=subprocess.PIPE, stderr=subprocess.STDOUT, text=True, start_new_session=True)
    try:
        out, _ = p.communicate(timeout=timeout)
        return p.returncode, out
    except subprocess.TimeoutExpired:
        import signal
        os.killpg(p.pid, signal.SIGKILL)
        p.communicate()
        return 124, "TIMEOUT"


def code_region(src):
    """Lines of non-test, non-hook code (stop at `#[cfg(test)]`, skip cfg(grenad_verif) items and comments)."""
    out, skip_item, depth = [], False, 0
    for n, line in enumerate(src.splitlines()):
        if line.strip().startswith("#[cfg(test)]"):
            break
        t = line.strip()
        if t.startswith("//") or t.startswith("///") or t.startswith("#["):
            if "grenad_verif" in t:
                skip_item = True
            continue
        if skip_item:
            depth += line.count("{") - line.count("}")
            if depth <= 0 and ("}" in line or ";" in line):
                skip_item, depth = False, 0
            continue
        out.append(n)
    return out


def deletion_mutants(files):
    """Statement deletion: a single-line statement `…;` (assignment, compound assignment or call,
    not a `let`/`return`/`use`) is removed."""
    ms = []
    for f in files:
        path = os.path.join("/repo/src", f)
        src = open(path).read()
        lines = src.splitlines()
        for n in code_region(src):
            t = lines[n].strip()
            if not t.endswith(";") or t.startswith(("let ", "return", "use ", "pub ", "const ", "type ", "mod ", "}", "//")) or "=>" in t:
                continue
            if re.match(r"^[\w\.\*\[\]\(\)&: ]+\s*(\+=|-=|=)\s*[^=].*;$", t) or re.match(r"^[\w\.]+\([^;]*\)\??;$", t):
                ms.append(dict(file=f, line=n + 1, old=t, new="/* deleted */", _new=lines[n][:len(lines[n]) - len(lines[n].lstrip())] + "/* deleted */"))
    return ms


def mutants(files):
    ms = []
    for f in files:
        path = os.path.join("/repo/src", f)
        src = open(path).read()
        lines = src.splitlines()
        for n in code_region(src):
            for pat, rep in RULES:
                for m in re.finditer(pat, lines[n]):
                    new = lines[n][:m.start()] + re.sub(pat, rep, m.group(0)) + lines[n][m.end():]
                    if new != lines[n]:
                        ms.append(dict(file=f, line=n + 1, old=lines[n].strip(), new=new.strip(), _new=new))
    return ms


def run_checks():
    def one(p):
        rc, out = sh([os.path.join(ROOT, "check"), p], cwd=ROOT, timeout=1800)
        v = [l for l in out.splitlines() if l.startswith("VIOLATION")]
        return p, rc, v[:1]
    rc, out = sh("cargo build --offline 2>&1 | tail -3", cwd=os.path.join(ROOT, "harness"))
    if "error" in out:
        return {"harness-build": out[-300:]}
    res = {}
    with ThreadPoolExecutor(max_workers=3) as ex:
        for p, rc, v in ex.map(one, PROPS):
            if rc != 0:
                res[p] = v[0] if v else f"exit {rc}"
    return res


def main():
    args = sys.argv[1:]
    limit = int(args[args.index("--limit") + 1]) if "--limit" in args else 10 ** 9
    files = args[args.index("--files") + 1].split(",") if "--files" in args else FILES
    stride = int(args[args.index("--stride") + 1]) if "--stride" in args else 1
    rc, out = sh("git -C /repo status --porcelain")
    assert out.strip() == "", "/repo not clean"
    os.makedirs(os.path.join(ROOT, "mutants"), exist_ok=True)
    log = open(os.path.join(ROOT, "mutants", "RESULTS.jsonl"), "a")
    ms = (deletion_mutants(files) if "--delete" in args else mutants(files))[::stride][:limit]
    print(len(ms), "mutants")
    for i, m in enumerate(ms):
        path = os.path.join("/repo/src", m["file"])
        orig = open(path).read()
        lines = orig.splitlines()
        lines[m["line"] - 1] = m.pop("_new")
        open(path, "w").write("\n".join(lines) + "\n")
        t0 = time.time()
        try:
            rc, out = sh("cargo build --offline 2>&1 | tail -3", cwd="/repo")
            if "error" in out:
                m["status"] = "does-not-compile"
            else:
                rc, out = sh("cargo test --offline --lib 2>&1 | grep 'test result'", cwd="/repo", timeout=240)
                if " 0 failed" not in out:
                    m["status"] = "killed-by-pinned-tests"
                else:
                    res = run_checks()
                    m["status"] = "detected" if res else "SURVIVED"
                    m["detected_by"] = res
        finally:
            open(path, "w").write(orig)
            sh("git -C /repo checkout -- .")
            sh("cd /verif/r2l && ./target/debug/r2l targets.txt /repo/src ../lean/Grenad/Generated/Src > /dev/null")  # generated Lean back to the unchanged tree
        m["s"] = round(time.time() - t0, 1)
        log.write(json.dumps(m) + "\n"); log.flush()
        print(i, m["file"], m["line"], m["status"], sorted(m.get("detected_by", {}).keys()) if isinstance(m.get("detected_by"), dict) else "", flush=True)


if __name__ == "__main__":
    main()
