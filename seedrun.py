#!/usr/bin/env python3
"""
seedrun.py confirm <src-dir> <id> <prop,prop,...>   confirm a seeded change in a scratch worktree and file it
                                                    under seeded/<id>/ (patch.diff, demo.rs, meta.json)
seedrun.py detect <id> [prop ...]                   apply seeded/<id>/patch.diff to /repo, run the quick
                                                    checks of the given (default: recorded) properties,
                                                    undo the patch, record which checks caught it
"""
import json, os, shutil, subprocess, sys, time

ROOT = os.path.dirname(os.path.abspath(__file__))
ENV = dict(os.environ, CARGO_NET_OFFLINE="true")


def sh(cmd, cwd=None, timeout=3600):
    p = subprocess.run(cmd, cwd=cwd, env=ENV, shell=isinstance(cmd, str), stdout=subprocess.PIPE,
                       stderr=subprocess.STDOUT, text=True, timeout=timeout)
    return p.returncode, p.stdout


def confirm(src, sid, props):
    wt = f"/tmp/wt-confirm-{sid}"
    sh(f"git -C /repo worktree remove --force {wt}")
    rc, out = sh(f"git -C /repo worktree add -q {wt} HEAD")
    assert rc == 0, out
    res = {}
    try:
        patch = os.path.join(src, "patch.diff")
        demo = os.path.join(src, "demo.rs")
        os.makedirs(f"{wt}/tests", exist_ok=True)
        shutil.copy(demo, f"{wt}/tests/demo.rs")
        rc, out = sh("cargo test --offline --test demo 2>&1 | tail -5", cwd=wt)
        res["demo_without"] = "ok" if "test result: ok" in out else "FAILED:" + out[-300:]
        rc, out = sh(f"git apply {patch}", cwd=wt)
        res["apply"] = rc == 0
        rc, out = sh("cargo build --offline 2>&1 | tail -2 && cargo build --offline --features 'zlib lz4 zstd rayon' 2>&1 | tail -2", cwd=wt)
        res["builds"] = "error" not in out
        os.rename(f"{wt}/tests/demo.rs", f"{wt}/demo.rs.off")
        rc, out = sh("cargo test --offline 2>&1 | grep 'test result'", cwd=wt)
        os.rename(f"{wt}/demo.rs.off", f"{wt}/tests/demo.rs")
        res["suite_with"] = out.strip().replace("\n", " | ")
        rc, out = sh("cargo test --offline --test demo 2>&1 | tail -8", cwd=wt)
        res["demo_with"] = "fails" if ("FAILED" in out or "failed" in out) else "PASSES:" + out[-300:]
    finally:
        sh(f"git -C /repo worktree remove --force {wt}")
    ok = res.get("apply") and res.get("builds") and res["demo_without"] == "ok" and res["demo_with"] == "fails" \
        and "34 passed; 0 failed" in res.get("suite_with", "") and "FAILED" not in res.get("suite_with", "")
    res["confirmed"] = bool(ok)
    print(json.dumps(res, indent=1))
    if ok:
        d = os.path.join(ROOT, "seeded", sid)
        os.makedirs(d, exist_ok=True)
        shutil.copy(os.path.join(src, "patch.diff"), d)
        shutil.copy(os.path.join(src, "demo.rs"), d)
        notes = open(os.path.join(src, "notes.md")).read() if os.path.exists(os.path.join(src, "notes.md")) else ""
        meta = {"id": sid, "breaks": props, "needs_to_manifest": notes[:1500], "confirmed": res,
                "ran": ["scratch worktree of /repo HEAD: demo without patch passes; git apply patch; cargo build (default and all features); cargo test --lib --doc all pass; demo with patch fails"],
                "detected_by": {}}
        json.dump(meta, open(os.path.join(d, "meta.json"), "w"), indent=1)
    return ok


def detect(sid, props=None):
    d = os.path.join(ROOT, "seeded", sid)
    meta = json.load(open(os.path.join(d, "meta.json")))
    props = props or meta["breaks"]
    rc, out = sh("git -C /repo status --porcelain")
    assert out.strip() == "", "/repo is not clean: " + out
    rc, out = sh(f"git -C /repo apply {d}/patch.diff")
    assert rc == 0, out
    try:
        for p in props:
            t0 = time.time()
            rc, out = sh([os.path.join(ROOT, "check"), p], cwd=ROOT)
            lines = [l for l in out.splitlines() if l.startswith("VIOLATION") or l.startswith("KNOWN")]
            meta["detected_by"][p] = {"exit": rc, "lines": lines[:3], "s": round(time.time() - t0, 1)}
            print(sid, p, "exit", rc, lines[:2])
            for l in lines[:1]:
                rp = l.split("replay=")[1].split()[0]
                try:
                    f = json.load(open(os.path.join(ROOT, rp)))
                    meta["detected_by"][p]["first_finding"] = {k: str(v)[:200] for k, v in f.get("finding", {}).items() if k in ("kind", "op", "impl", "model", "spec", "note", "scenario")}
                    meta["detected_by"][p]["script_lines"] = len(f.get("script", []))
                except Exception:
                    pass
    finally:
        sh("git -C /repo checkout -- .")
        sh(f"cd {ROOT}/r2l && ./target/debug/r2l targets.txt /repo/src ../lean/Grenad/Generated/Src > /dev/null")  # generated Lean back to the unchanged tree
    json.dump(meta, open(os.path.join(d, "meta.json"), "w"), indent=1)


if __name__ == "__main__":
    if sys.argv[1] == "confirm":
        sys.exit(0 if confirm(sys.argv[2], sys.argv[3], sys.argv[4].split(",")) else 1)
    elif sys.argv[1] == "detect":
        detect(sys.argv[2], sys.argv[3:] or None)
