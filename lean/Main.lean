/-
  gmodel — line-protocol driver around the executable model (DESIGN §3.1).
  One output line per input line.  Fields of an output line are tab-separated:
    field 1: the model's result          field 2: block loads (cursor ops) or extra info
    field 3: the L0 specification's result (`?` = left open by the property, `-` = n/a)
-/
import Grenad.Model.Basic
import Grenad.Model.Varint
import Grenad.Model.Meta
import Grenad.Model.Block
import Grenad.Model.Writer
import Grenad.Model.Reader
import Grenad.Model.Iter
import Grenad.Model.Spec
import Grenad.Model.Merger
import Grenad.Model.Sorter
import Grenad.Model.IO
import Grenad.Model.WriterIO
import Grenad.Model.MetaIO

open Grenad

/-! ### hex, digests, formatting -/

def hexDigit (c : Char) : Option Nat :=
  if '0' ≤ c ∧ c ≤ '9' then some (c.toNat - '0'.toNat)
  else if 'a' ≤ c ∧ c ≤ 'f' then some (c.toNat - 'a'.toNat + 10)
  else if 'A' ≤ c ∧ c ≤ 'F' then some (c.toNat - 'A'.toNat + 10)
  else none

partial def unhexChars : List Char → List UInt8 → Option Bytes
  | [], acc => some acc.reverse
  | [_], _ => none
  | a :: b :: rest, acc =>
    match hexDigit a, hexDigit b with
    | some x, some y => unhexChars rest (UInt8.ofNat (x * 16 + y) :: acc)
    | _, _ => none

def unhex (s : String) : Option Bytes :=
  if s = "-" then some [] else unhexChars s.toList []

def hexChar (n : Nat) : Char := if n < 10 then Char.ofNat (48 + n) else Char.ofNat (87 + n)

def hex (b : Bytes) : String :=
  if b.isEmpty then "-" else
  String.ofList (b.foldr (fun x acc => hexChar (x.toNat / 16) :: hexChar (x.toNat % 16) :: acc) [])

def fnvInit : UInt64 := 0xcbf29ce484222325
def fnvByte (h : UInt64) (b : UInt8) : UInt64 := (h ^^^ b.toUInt64) * 0x100000001b3
def fnvBytes (h : UInt64) (bs : Bytes) : UInt64 := bs.foldl fnvByte h
def fnvNat (h : UInt64) (n : Nat) : UInt64 := fnvBytes h (le64 n)
def fnvLenBytes (h : UInt64) (bs : Bytes) : UInt64 := fnvBytes (fnvNat h bs.length) bs
def fnvEntries (h : UInt64) (es : List Entry) : UInt64 :=
  es.foldl (fun h (k, v) => fnvLenBytes (fnvLenBytes h k) v) h
def fnvCalls (h : UInt64) (cs : List (Bytes × List Bytes)) : UInt64 :=
  cs.foldl (fun h (k, vs) => vs.foldl fnvLenBytes (fnvNat (fnvLenBytes h k) vs.length)) h

def hex64 (h : UInt64) : String := hex (beN 8 h.toNat)

def fmtOpt : Option Entry → String
  | some (k, v) => s!"some {hex k} {hex v}"
  | none => "none"

def fmtRes : Res → String
  | .ok e => fmtOpt e
  | .err => "err io"

def fmtSRes : Spec.SRes → String
  | some e => fmtOpt e
  | none => "?"

def fmtList (es : List Entry) : String := s!"n={es.length} fnv={hex64 (fnvEntries fnvInit es)}"

def parseEntries (s : String) : Option (List Entry) :=
  if s = "-" || s = "" then some [] else
  (s.splitOn ",").mapM (fun kv => match kv.splitOn ":" with
    | [k, v] => do let k ← unhex k; let v ← unhex v; pure (k, v)
    | _ => none)

def parseBound (s : String) : Option Bound :=
  match s.toList with
  | ['U'] => some .unbounded
  | 'I' :: rest => (unhex (String.ofList rest)).map .included
  | 'E' :: rest => (unhex (String.ofList rest)).map .excluded
  | _ => none

/-- `key=value` arguments. -/
def kvArg (args : List String) (key : String) (dflt : Nat) : Nat :=
  match args.findSome? (fun a => match a.splitOn "=" with
      | [k, v] => if k = key then v.toNat? else none
      | _ => none) with
  | some n => n
  | none => dflt

/-! ### merge functions -/

def sumLE (vs : List Bytes) : Bytes :=
  le32 ((vs.map (fun v => leVal (v.take 4))).sum % 2^32)

/-- Insertion sort of byte strings (for the order-insensitive merge function). -/
def insSorted (x : Bytes) : List Bytes → List Bytes
  | [] => [x]
  | y :: ys => if x ≤ y then x :: y :: ys else y :: insSorted x ys

/-- Decode a `tagged` value back into its pieces (le32 length + bytes)*; none if malformed. -/
partial def untag (b : Bytes) (acc : List Bytes) : Option (List Bytes) :=
  if b.isEmpty then some acc.reverse else
  if b.length < 4 then none else
  let n := leVal (b.take 4)
  if b.length < 4 + n then none else untag (b.drop (4 + n)) ((b.drop 4).take n :: acc)

def mergeFnOf (name : String) : MergeFn :=
  match name with
  | "concat" => fun _ vs => some vs.flatten
  | "first" => fun _ vs => some (vs.headD [])
  | "sum" => fun _ vs => some (sumLE vs)
  -- `frame`: not associative on purpose — the number of values of the call, then each value framed by its length
  | "frame" => fun _ vs => some (le32 vs.length ++ vs.flatMap (fun v => le32 v.length ++ v))
  -- `bag`: values are bags of pieces (le32 length + bytes)*; merge = sorted union of the bags.
  -- Associative, commutative, and the identity on a lone well-formed bag with sorted pieces.
  | "bag" => fun _ vs =>
      let pieces := vs.flatMap (fun v => (untag v []).getD [v])
      let sorted := pieces.foldl (fun acc p => insSorted p acc) []
      some (sorted.flatMap (fun p => le32 p.length ++ p))
  | _ => fun _ _ => none

/-! ### driver state -/

structure CursorSlot where
  rc  : RC BlockCursor
  pos : Spec.Pos
  fault : Option (Nat × Nat) := none
  dead : Bool := false

inductive IterKind where
  | rangeFwd | rangeRev | prefixFwd | prefixRev
  deriving DecidableEq

structure IterSlot where
  kind : IterKind
  r    : RangeIter (RC BlockCursor)
  p    : PrefixIter (RC BlockCursor)
  sr   : RangeIter Spec.Pos
  sp   : PrefixIter Spec.Pos

structure St where
  table    : List (Nat × Bytes × Bytes) := []       -- codec id, raw, compressed
  codecId  : Nat := 0
  miss     : Bool := false
  fixF1    : Bool := true
  wcfg     : WCfg := { blockSize := 8192 }
  w        : Option W := none
  wdead    : Bool := false
  wsched   : Option (List IOM.WResp) := none
  sink     : IOM.Sink := {}
  flushed  : Nat := 0
  file     : Bytes := []
  hdr      : Option Meta.Meta := none
  es       : List Entry := []
  cursors  : List (Nat × CursorSlot) := []
  iters    : List (Nat × IterSlot) := []
  msrcs    : List (List Entry) := []
  scfg     : SCfg := { threshold := 0 }
  sorter   : Option Sorter := none
  smf      : String := "concat"
  sfail    : Nat := 0                                -- fail the n-th merge call (0 = never)
  sall     : List Entry := []                        -- every pair inserted so far (reverse)
  wflushFault : Option Nat := none                   -- tag of a fault on the first flush
  srcFault : Option (Nat × Nat) := none              -- (n-th load after open, tag)
  createFault : Option (Nat × Nat) := none           -- (n-th create, tag)

def St.codec (st : St) : Codec :=
  if st.codecId = 0 then Codec.none else
  { id := st.codecId,
    compress := fun raw => match st.table.find? (fun (i, r, _) => i = st.codecId && r = raw) with
      | some (_, _, c) => c
      | none => [0xde, 0xad],
    decompress := fun comp => match st.table.find? (fun (i, _, c) => i = st.codecId && c = comp) with
      | some (_, r, _) => some r
      | none => none }

def St.load (st : St) : Nat → Option BlockCursor := loadCursor st.codec st.file

def St.rcStep (st : St) : RC BlockCursor → Op → RC BlockCursor × Res :=
  RC.step byteOps st.load st.fixF1

def lookupSlot {α} (l : List (Nat × α)) (i : Nat) : Option α := (l.find? (·.1 = i)).map (·.2)
def setSlot {α} (l : List (Nat × α)) (i : Nat) (a : α) : List (Nat × α) :=
  (i, a) :: l.filter (·.1 ≠ i)

def parseOp (toks : List String) : Option Op :=
  match toks with
  | ["first"] => some .first | ["last"] => some .last | ["next"] => some .next
  | ["prev"] => some .prev | ["reset"] => some .reset | ["current"] => some .current
  | ["ge", q] => (unhex q).map .ge | ["le", q] => (unhex q).map .le | ["eq", q] => (unhex q).map .eq
  | _ => none

/-- Count the entries of an uncompressed block. -/
def countEntries (raw : Bytes) : Nat :=
  match Block.parse raw with
  | none => 0
  | some b =>
    let rec go : Nat → Nat → Nat → Nat
      | 0, _, n => n
      | fuel+1, off, n => match b.entryAt off with
        | some (_, _, nxt) => go fuel nxt (n+1)
        | none => n
    go (b.payload.length + 1) 0 0

def fmtBlocks (log : List Emitted) : String :=
  ",".intercalate (log.map (fun e => s!"{e.level}:{e.offset}:{e.raw.length}:{countEntries e.raw}"))

def parseSched (s : String) : List IOM.WResp :=
  if s = "-" then [] else
  (s.splitOn ",").filterMap (fun t => match t.toList with
    | 'a' :: n => (String.ofList n).toNat?.map .accept
    | ['i'] => some .interrupted
    | 'f' :: n => (String.ofList n).toNat?.map .fail
    | _ => none)

/-- Push the not yet flushed blocks through the sink model; `some tag` on a write fault. -/
def St.flushWrites (st : St) (w : W) (extra : List Bytes) : St × Option Nat :=
  match st.wsched with
  | none => ({ st with flushed := w.log.length }, none)
  | some sch =>
    let ws := W.blockWrites st.codec (w.log.drop st.flushed) ++ extra
    let (sink, sch, r) := IOM.writeMany ws st.sink sch
    ({ st with sink := sink, wsched := some sch, flushed := w.log.length }, r)

def sorterLine (s : Sorter) (evFrom : Nat) : String :=
  let evs := s.events.drop evFrom
  let ev := evs.filterMap (fun e => match e with
    | .alloc n => some s!"A{n}" | .dealloc n => some s!"D{n}" | _ => none)
  let cev := String.ofList (evs.filterMap (fun e => match e with
    | .create => some 'C' | .dropChunk => some 'X' | _ => none))
  s!"ok buf={s.entries.bufLen} elen={s.entries.entriesLen} bc={s.entries.boundsCount} chunks={s.chunks.length} ev={",".intercalate ev} cev={cev}"

def fmtSErr : Sorter.SErr → String
  | .trap t => s!"panic {t.name}"
  | .merge => "err merge"

/-- Specification of the sorter output for a lawful merge function. -/
def sorterSpec (mf : MergeFn) (all : List Entry) : Option (List Entry) :=
  (Spec.group all).mapM (fun (k, vs) => (mf k vs).map (fun m => (k, m)))

def varintDigest (start count stride : Nat) : UInt64 := Id.run do
  let mut h := fnvInit
  let mut v := start
  for _ in [0:count] do
    let enc := Varint.encode32 v
    h := fnvBytes h enc
    match Varint.decode32 enc with
    | some (x, n) => h := fnvNat (fnvNat h x) n
    | none => h := fnvNat h 0xffffffffffff
    v := v + stride
  return h

/-! ### one line -/

def out3 (m : String) (extra : String := "-") (spec : String := "-") : String :=
  s!"{m}\t{extra}\t{spec}"

def stepLine (st : St) (line : String) : St × String :=
  let toks := (line.trimAscii.toString.splitOn " ").filter (· ≠ "")
  match toks with
  | [] => (st, out3 "-")
  | "#" :: _ => (st, out3 "-")
  | "!sins" :: _ => (st, out3 "-")
  | "!merge" :: _ => (st, out3 "-")
  | "!openfault" :: _ => (st, out3 "-")
  | "!mergew" :: _ => (st, out3 "-")
  | "!sfinish" :: _ => (st, out3 "-")
  | "S" :: _ => ({ fixF1 := st.fixF1 }, out3 "-")
  | ["fixF1", b] => ({ st with fixF1 := b = "1" }, out3 "-")
  | ["codec", id, raw, comp] =>
    match id.toNat?, unhex raw, unhex comp with
    | some id, some raw, some comp => ({ st with table := (id, raw, comp) :: st.table }, out3 "-")
    | _, _, _ => (st, out3 "bad-op")
  | ["usecodec", id] => ({ st with codecId := id.toNat?.getD 0 }, out3 "-")
  | ["wflushfault", _, tag] => ({ st with wflushFault := tag.toNat? }, out3 "-")
  | "srcopt" :: args =>
    let st := args.foldl (fun st a =>
      if a = "clear" then { st with srcFault := none }
      else match a.splitOn "=" with
        | ["fault", v] => (match v.splitOn ":" with
          | [_, n, tag] => { st with srcFault := (n.toNat?.bind (fun n => tag.toNat?.map (fun t => (n, t)))) }
          | _ => st)
        | _ => st) st
    (st, out3 "-")
  | ["sfault", spec] =>
    (match spec.splitOn ":" with
     | ["create", n, tag] => ({ st with createFault := (n.toNat?.bind (fun n => tag.toNat?.map (fun t => (n, t)))) }, out3 "-")
     | _ => (st, out3 "-"))
  | ["interop"] =>
    let l := (fmtList st.es).replace " " "/"
    let same := if st.wcfg.minBlock < 1024 then "n/a" else "true"
    (st, out3 s!"ok old-reads-new={l} new-reads-old={l} dec-new={l} dec-old={l} same-bytes={same}")
  -- varint
  | ["venc", n] => (st, out3 (match n.toNat? with | some n => hex (Varint.encode32 n) | none => "bad-op"))
  | ["vdec", h] =>
    (st, out3 (match unhex h with
      | some b => (match Varint.decode32 b with | some (v, n) => s!"{v} {n}" | none => "panic")
      | none => "bad-op"))
  | ["vrange", a, c, s] =>
    (st, out3 (match a.toNat?, c.toNat?, s.toNat? with
      | some a, some c, some s => hex64 (varintDigest a c s)
      | _, _, _ => "bad-op"))
  -- metadata / file
  | ["open", h] =>
    (st, match unhex h with
      | some b =>
        let (seeks, bytes, low) := Meta.openIO b
        out3 (match Meta.parse b with
          | .ok m => s!"ok v={m.version} root={m.root} codec={m.codec} count={m.count} levels={m.levels}"
          | .error e => s!"err {e.name}") s!"seeks={seeks} bytes={bytes} low={low}"
      | none => out3 "bad-op")
  | ["openio", h, sch] =>
    (st, match unhex h with
      | some b =>
        let rs : List IOM.RResp := if sch = "-" then [] else
          (sch.splitOn ",").filterMap (fun t => match t.toList with
            | 's' :: n => (String.ofList n).toNat?.map .serve
            | ['i'] => some .interrupted
            | 'f' :: n => (String.ofList n).toNat?.map .fail
            | _ => none)
        let (r, rest, tag) := Meta.parseIO b rs
        out3 (match r with
          | .ok m => s!"ok v={m.version} root={m.root} codec={m.codec} count={m.count} levels={m.levels}"
          | .error .io => (match tag with
              | some t => if t = 0 then "err io" else s!"err io {t}"
              | none => "err io")
          | .error e => s!"err {e.name}") s!"rest={rest.length}"
      | none => out3 "bad-op")
  | ["file", h] =>
    match unhex h with
    | some b =>
      let m := Meta.parse b
      ({ st with file := b, hdr := m.toOption, cursors := [], iters := [] },
       match m with
        | .ok m => out3 s!"ok v={m.version} codec={m.codec} count={m.count} empty={decide (m.count = 0)}" s!"root={m.root} levels={m.levels}"
        | .error e => out3 s!"err {e.name}")
    | none => (st, out3 "bad-op")
  | ["es", s] =>
    match parseEntries s with
    | some es => ({ st with es := es }, out3 "-")
    | none => (st, out3 "bad-op")
  -- writer
  | "cfg" :: args =>
    ({ st with wcfg := { blockSize := kvArg args "bs" 8192, minBlock := kvArg args "minbs" 1024,
                         interval := kvArg args "iv" 8, levels := kvArg args "levels" 0 } }, out3 "-")
  | ["wnew"] => ({ st with w := some (W.new st.wcfg), wdead := false, wsched := none, sink := {}, flushed := 0, wflushFault := none }, out3 "-")
  | ["wsched", s] => ({ st with wsched := some (parseSched s) }, out3 "-")
  | ["ins", k, v] =>
    match st.w, unhex k, unhex v with
    | some w, some k, some v =>
      if st.wdead then (st, out3 "dead") else
      match W.insert st.codec w k v with
      | .ok w' =>
        let (st, r) := st.flushWrites w' []
        (match r with
         | none => ({ st with w := some w' }, out3 "ok")
         | some tag => ({ st with w := some w', wdead := true }, out3 s!"err io {tag}"))
      | .error t => ({ st with wdead := true }, out3 s!"panic {t.name}")
    | _, _, _ => (st, out3 "bad-op")
  | ["finish"] =>
    match st.w with
    | some w =>
      if st.wdead then (st, out3 "dead") else
      match W.finish st.codec w with
      | .ok (file, log) =>
        let m : Meta.Meta := (Meta.parse file).toOption.getD default
        let (st, r) := st.flushWrites { w with log := log } (W.trailerWrites m)
        (match r with
         | none =>
           let st := if st.wsched.isNone then { st with sink := { data := file, count := file.length } } else st
           (match st.wflushFault with
            | some tag => ({ st with wdead := true }, out3 s!"err io {tag}")
            | none =>
              ({ st with wdead := true, file := file },
               out3 s!"ok len={file.length} fnv={hex64 (fnvBytes fnvInit file)}" (fmtBlocks log)))
         | some tag => ({ st with wdead := true }, out3 s!"err io {tag}"))
      | .error t => ({ st with wdead := true }, out3 s!"panic {t.name}")
    | none => (st, out3 "bad-op")
  | ["wfile"] => (st, out3 (hex st.file))
  | ["sinkstate"] =>
    (st, out3 s!"len={st.sink.data.length} fnv={hex64 (fnvBytes fnvInit st.sink.data)}" s!"count={st.sink.count}")
  -- cursors
  | ["cnew", i] =>
    match i.toNat?, st.hdr with
    | some i, some m => ({ st with cursors := setSlot st.cursors i { rc := RC.new m, pos := .fresh, fault := st.srcFault } }, out3 "-")
    | _, _ => (st, out3 "bad-op")
  | ["cclone", i, j] =>
    match i.toNat?, j.toNat? with
    | some i, some j =>
      (match lookupSlot st.cursors i with
       | some s => ({ st with cursors := setSlot st.cursors j s }, out3 "-")
       | none => (st, out3 "bad-op"))
    | _, _ => (st, out3 "bad-op")
  | "c" :: i :: opToks =>
    match i.toNat?, parseOp opToks with
    | some i, some op =>
      (match lookupSlot st.cursors i with
       | some s =>
         if s.dead then (st, out3 "dead") else
         let (rc', r) := st.rcStep s.rc op
         let (pos', sr) := Spec.step st.es s.pos op
         let loads := rc'.log.length - s.rc.log.length
         let faulted : Option Nat := match s.fault with
           | some (n, tag) => if s.rc.log.length < n ∧ n ≤ rc'.log.length then some tag else none
           | none => none
         if let some tag := faulted then
           ({ st with cursors := setSlot st.cursors i { s with dead := true } }, out3 s!"err io {tag}" "L=* fp=*" "-")
         else
         let pos (o : Option Nat) : String := match o with | some x => toString x | none => "-"
         let idx := match rc'.inner with
           | some l => ",".intercalate (l.map (fun (p : Nat × BlockCursor) => s!"{p.1}@{pos p.2.off}"))
           | none => "none"
         let d := match rc'.cur with
           | some b => pos b.off
           | none => "none"
         let fp := s!"{idx};d={d}"
         ({ st with cursors := setSlot st.cursors i { s with rc := rc', pos := pos' } },
          out3 (fmtRes r) s!"L={loads} fp={fp}" (fmtSRes sr))
       | none => (st, out3 "bad-op"))
    | _, _ => (st, out3 "bad-op")
  -- iterators
  | ["range", i, lo, hi, dir] =>
    match i.toNat?, parseBound lo, parseBound hi, st.hdr with
    | some i, some lo, some hi, some m =>
      let slot : IterSlot :=
        { kind := if dir = "rev" then .rangeRev else .rangeFwd,
          r := { cursor := RC.new m, lo := lo, hi := hi },
          p := { cursor := RC.new m, pre := [] },
          sr := { cursor := .fresh, lo := lo, hi := hi },
          sp := { cursor := .fresh, pre := [] } }
      ({ st with iters := setSlot st.iters i slot }, out3 "-")
    | _, _, _, _ => (st, out3 "bad-op")
  | ["prefix", i, p, dir] =>
    match i.toNat?, unhex p, st.hdr with
    | some i, some p, some m =>
      let slot : IterSlot :=
        { kind := if dir = "rev" then .prefixRev else .prefixFwd,
          r := { cursor := RC.new m, lo := .unbounded, hi := .unbounded },
          p := { cursor := RC.new m, pre := p },
          sr := { cursor := .fresh, lo := .unbounded, hi := .unbounded },
          sp := { cursor := .fresh, pre := p } }
      ({ st with iters := setSlot st.iters i slot }, out3 "-")
    | _, _, _ => (st, out3 "bad-op")
  | ["it", i, "next"] =>
    match i.toNat?.bind (lookupSlot st.iters) with
    | some s =>
      let i := i.toNat?.getD 0
      (match s.kind with
       | .rangeFwd => let (r', res) := s.r.next st.rcStep
         ({ st with iters := setSlot st.iters i { s with r := r' } }, out3 (fmtRes res))
       | .rangeRev => let (r', res) := s.r.nextRev st.rcStep
         ({ st with iters := setSlot st.iters i { s with r := r' } }, out3 (fmtRes res))
       | .prefixFwd => let (p', res) := s.p.next st.rcStep
         ({ st with iters := setSlot st.iters i { s with p := p' } }, out3 (fmtRes res))
       | .prefixRev => let (p', res) := s.p.nextRev st.rcStep
         ({ st with iters := setSlot st.iters i { s with p := p' } }, out3 (fmtRes res)))
    | none => (st, out3 "bad-op")
  | ["itall", i] =>
    match i.toNat?.bind (lookupSlot st.iters) with
    | some s =>
      let fuel := st.es.length + 2
      let specStep := Spec.stepTotal st.es
      let (got, viaSpecCursor, direct) : Option (List Entry) × Option (List Entry) × List Entry :=
        match s.kind with
        | .rangeFwd => (collect (RangeIter.next st.rcStep) fuel s.r [],
                        collect (RangeIter.next specStep) fuel s.sr [], Spec.range st.es s.r.lo s.r.hi)
        | .rangeRev => (collect (RangeIter.nextRev st.rcStep) fuel s.r [],
                        collect (RangeIter.nextRev specStep) fuel s.sr [], (Spec.range st.es s.r.lo s.r.hi).reverse)
        | .prefixFwd => (collect (PrefixIter.next st.rcStep) fuel s.p [],
                         collect (PrefixIter.next specStep) fuel s.sp [], Spec.withPrefix st.es s.p.pre)
        | .prefixRev => (collect (PrefixIter.nextRev st.rcStep) fuel s.p [],
                         collect (PrefixIter.nextRev specStep) fuel s.sp [], (Spec.withPrefix st.es s.p.pre).reverse)
      (st, out3 (match got with | some l => "ok " ++ fmtList l | none => "err io")
             (match viaSpecCursor with | some l => "ok " ++ fmtList l | none => "err io")
             ("ok " ++ fmtList direct))
    | none => (st, out3 "bad-op")
  -- merger
  | ["mclear"] => ({ st with msrcs := [] }, out3 "-")
  | ["msrc", s] =>
    match parseEntries s with
    | some es => ({ st with msrcs := st.msrcs ++ [es] }, out3 "-")
    | none => (st, out3 "bad-op")
  -- sorter
  | "scfg" :: args =>
    ({ st with scfg := { threshold := kvArg args "thr" 0, minMemory := kvArg args "minmem" 10485760,
                         initialSize := kvArg args "init" 131072, allowRealloc := kvArg args "realloc" 1 = 1,
                         maxChunks := kvArg args "maxchunks" 25, stable := kvArg args "stable" 1 = 1 } }, out3 "-")
  | ["sins", k, v] =>
    match st.sorter, unhex k, unhex v with
    | some s, some k, some v =>
      (match Sorter.insert (mergeFnOf st.smf) s k v with
       | .ok s' =>
         let creates (s : Sorter) : Nat := (s.events.filter (· == .create)).length
         let mergeAt : Option Nat := if st.sfail ≠ 0 ∧ st.sfail ≤ s'.calls.length then some st.sfail else none
         let createAt : Option (Nat × Nat) := match st.createFault with
           | some (n, tag) => if n ≤ creates s' then some (n, tag) else none
           | none => none
         match mergeAt, createAt with
         | none, none => ({ st with sorter := some s', sall := (k, v) :: st.sall }, out3 (sorterLine s' s.events.length))
         | some _, none => ({ st with sorter := none }, out3 "err merge")
         | none, some (_, tag) => ({ st with sorter := none }, out3 s!"err io {tag}")
         | some _, some _ => ({ st with sorter := none }, out3 "err merge")  -- never generated together
       | .error e => ({ st with sorter := none }, out3 (fmtSErr e)))
    | none, _, _ => (st, out3 "dead")
    | _, _, _ => (st, out3 "bad-op")
  | "sfinish" :: _ =>
    match st.sorter with
    | some s =>
      let mf := mergeFnOf st.smf
      (match Sorter.finish mf s with
       | .ok (out, s') =>
         let creates : Nat := (s'.events.filter (· == .create)).length
         if (match st.createFault with | some (n, _) => decide (n ≤ creates) | none => false) then
           ({ st with sorter := none }, out3 s!"err io {(st.createFault.map (·.2)).getD 0}")
         else if st.sfail ≠ 0 ∧ st.sfail ≤ s'.calls.length then
           ({ st with sorter := none }, out3 "err merge")
         else
           ({ st with sorter := none },
            out3 ("ok " ++ fmtList out)
              s!"chunks={s'.chunks.length} calls={s'.calls.length} cfnv={hex64 (fnvCalls fnvInit s'.calls)} aev={",".intercalate ((s'.events.drop s.events.length).filterMap (fun e => match e with | .alloc n => some s!"A{n}" | .dealloc n => some s!"D{n}" | _ => none))}"
              (match sorterSpec mf st.sall.reverse with
               | some l => "ok " ++ fmtList l
               | none => "?"))
       | .error e => ({ st with sorter := none }, out3 (fmtSErr e)))
    | none => (st, out3 "dead")
  | [mcmd, mfName, failAt] =>
    if mcmd ≠ "merge" ∧ mcmd ≠ "mergew" ∧ mcmd ≠ "snew" then (st, out3 "bad-op") else
    if mcmd = "snew" then
      (match Sorter.new st.scfg with
       | .ok s => ({ st with sorter := some s, smf := mfName, sfail := failAt.toNat?.getD 0, sall := [] },
                   sorterLine s 0 |> out3)
       | .error t => ({ st with sorter := none }, out3 s!"panic {t.name}"))
    else
    let mf := mergeFnOf mfName
    let failAt := failAt.toNat?.getD 0
    let (r, m) := Merger.run mf st.msrcs
    let calls := m.calls.reverse
    let spec := Spec.mergeSpec (fun k vs => (mf k vs).getD []) st.msrcs
    if failAt ≠ 0 ∧ failAt ≤ calls.length then
      (st, out3 "err merge" s!"calls={failAt}")
    else
      (st, out3 (match r with | some l => "ok " ++ fmtList l | none => "err merge")
             s!"calls={calls.length} cfnv={hex64 (fnvCalls fnvInit calls)}"
             ("ok " ++ fmtList spec))
  | _ => (st, out3 "bad-op")

partial def loop (h : IO.FS.Stream) (o : IO.FS.Stream) (st : St) : IO Unit := do
  let line ← h.getLine
  if line.isEmpty then return ()
  let (st', out) := stepLine st line
  o.putStrLn out
  loop h o st'

def main : IO Unit := do
  let stdin ← IO.getStdin
  let stdout ← IO.getStdout
  loop stdin stdout {}
