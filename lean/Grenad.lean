-- Root of the `Grenad` library: the executable model. Proof and property modules are built
-- one by one (`lake build Grenad.Props.Cxx`): independent proof files may reuse lemma names.
import Grenad.Model.Abstract
import Grenad.Model.Basic
import Grenad.Model.Block
import Grenad.Model.IO
import Grenad.Model.Iter
import Grenad.Model.Merger
import Grenad.Model.Meta
import Grenad.Model.Reader
import Grenad.Model.Sorter
import Grenad.Model.Spec
import Grenad.Model.Varint
import Grenad.Model.Writer
import Grenad.Model.WriterIO
import Grenad.Model.EntriesBytes
import Grenad.Model.MetaIO
import Grenad.Model.BinSearch
import Grenad.Model.BinHeap
