-- Root of the `Grenad` library: executable model (import-free), specification, proofs, properties.
import Grenad.Model.Basic
import Grenad.Model.Varint
import Grenad.Model.Meta
import Grenad.Model.Block
import Grenad.Model.Writer
import Grenad.Model.Reader
import Grenad.Model.Iter
import Grenad.Model.Spec
import Grenad.Model.Merger
import Grenad.Model.Sorter
import Grenad.Model.IO
