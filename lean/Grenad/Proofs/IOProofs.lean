/-
  Grenad.Proofs.IOProofs — lemmas about the I/O layer (`Grenad.Model.IO`) used by C11 and C12:
  complete characterisations of `writeAll`, `writeMany`, `readExact`, `readToEndTake` and
  `loadBodyIO` under an arbitrary schedule, and their fault-free corollaries.
-/
import Grenad.Model.IO
import Grenad.Model.Sorter

namespace Grenad

open IOM

/-- A write schedule without any `.fail`. -/
def WFaultFree (sch : List IOM.WResp) : Prop := ∀ r ∈ sch, ∀ t, r ≠ .fail t

/-- A read schedule without any `.fail`. -/
def RFaultFree (sch : List IOM.RResp) : Prop := ∀ r ∈ sch, ∀ t, r ≠ .fail t

/-! ### schedule bookkeeping -/

theorem WFaultFree.nil : WFaultFree [] := by intro r h; cases h

theorem WFaultFree.cons_iff {r : WResp} {rs : List WResp} :
    WFaultFree (r :: rs) ↔ (∀ t, r ≠ .fail t) ∧ WFaultFree rs := by
  simp [WFaultFree]

theorem WFaultFree.append_iff {a b : List WResp} :
    WFaultFree (a ++ b) ↔ WFaultFree a ∧ WFaultFree b := by
  simp only [WFaultFree, List.mem_append]
  constructor
  · intro h; exact ⟨fun r hr => h r (.inl hr), fun r hr => h r (.inr hr)⟩
  · rintro ⟨h1, h2⟩ r (hr | hr)
    · exact h1 r hr
    · exact h2 r hr

theorem WFaultFree.no_fail {a b : List WResp} {t : Nat} : ¬ WFaultFree (a ++ .fail t :: b) := by
  intro h
  exact h (.fail t) (by simp) t rfl

theorem RFaultFree.nil : RFaultFree [] := by intro r h; cases h

theorem RFaultFree.cons_iff {r : RResp} {rs : List RResp} :
    RFaultFree (r :: rs) ↔ (∀ t, r ≠ .fail t) ∧ RFaultFree rs := by
  simp [RFaultFree]

theorem RFaultFree.append_iff {a b : List RResp} :
    RFaultFree (a ++ b) ↔ RFaultFree a ∧ RFaultFree b := by
  simp only [RFaultFree, List.mem_append]
  constructor
  · intro h; exact ⟨fun r hr => h r (.inl hr), fun r hr => h r (.inr hr)⟩
  · rintro ⟨h1, h2⟩ r (hr | hr)
    · exact h1 r hr
    · exact h2 r hr

theorem RFaultFree.no_fail {a b : List RResp} {t : Nat} : ¬ RFaultFree (a ++ .fail t :: b) := by
  intro h
  exact h (.fail t) (by simp) t rfl

/-- The first fault of a schedule is unique: two decompositions around a fault with fault-free
    prefixes coincide. -/
theorem wfirst_fail_unique : ∀ (a a' : List WResp) {b b' : List WResp} {t t' : Nat},
    WFaultFree a → WFaultFree a' → a ++ .fail t :: b = a' ++ .fail t' :: b' →
    a = a' ∧ t = t' ∧ b = b'
  | [], [], _, _, _, _, _, _, h => by
    simp only [List.nil_append, List.cons.injEq, WResp.fail.injEq] at h
    exact ⟨rfl, h.1, h.2⟩
  | [], x :: a', _, _, _, _, _, h', h => by
    simp only [List.nil_append, List.cons_append, List.cons.injEq] at h
    exact absurd h.1.symm ((WFaultFree.cons_iff.mp h').1 _)
  | x :: a, [], _, _, _, _, h0, _, h => by
    simp only [List.nil_append, List.cons_append, List.cons.injEq] at h
    exact absurd h.1 ((WFaultFree.cons_iff.mp h0).1 _)
  | x :: a, y :: a', _, _, _, _, h0, h', h => by
    simp only [List.cons_append, List.cons.injEq] at h
    obtain ⟨e1, e2, e3⟩ := wfirst_fail_unique a a' (WFaultFree.cons_iff.mp h0).2
      (WFaultFree.cons_iff.mp h').2 h.2
    exact ⟨by rw [h.1, e1], e2, e3⟩

theorem rfirst_fail_unique : ∀ (a a' : List RResp) {b b' : List RResp} {t t' : Nat},
    RFaultFree a → RFaultFree a' → a ++ .fail t :: b = a' ++ .fail t' :: b' →
    a = a' ∧ t = t' ∧ b = b'
  | [], [], _, _, _, _, _, _, h => by
    simp only [List.nil_append, List.cons.injEq, RResp.fail.injEq] at h
    exact ⟨rfl, h.1, h.2⟩
  | [], x :: a', _, _, _, _, _, h', h => by
    simp only [List.nil_append, List.cons_append, List.cons.injEq] at h
    exact absurd h.1.symm ((RFaultFree.cons_iff.mp h').1 _)
  | x :: a, [], _, _, _, _, h0, _, h => by
    simp only [List.nil_append, List.cons_append, List.cons.injEq] at h
    exact absurd h.1 ((RFaultFree.cons_iff.mp h0).1 _)
  | x :: a, y :: a', _, _, _, _, h0, h', h => by
    simp only [List.cons_append, List.cons.injEq] at h
    obtain ⟨e1, e2, e3⟩ := rfirst_fail_unique a a' (RFaultFree.cons_iff.mp h0).2
      (RFaultFree.cons_iff.mp h').2 h.2
    exact ⟨by rw [h.1, e1], e2, e3⟩

/-- A fault-free prefix that reaches strictly beyond a fault position cannot exist. -/
theorem wfault_not_passed {a a' b b' : List WResp} {t : Nat}
    (h' : WFaultFree a') (h : a ++ .fail t :: b = a' ++ b') (hl : b'.length ≤ b.length) : False := by
  have hlen := congrArg List.length h
  simp only [List.length_append, List.length_cons] at hlen
  have hmem : (WResp.fail t) ∈ a' := by
    have h1 : (a ++ .fail t :: b)[a.length]? = some (.fail t) := by simp
    rw [h, List.getElem?_append_left (by omega)] at h1
    exact List.mem_of_getElem? h1
  exact h' _ hmem t rfl

theorem rfault_not_passed {a a' b b' : List RResp} {t : Nat}
    (h' : RFaultFree a') (h : a ++ .fail t :: b = a' ++ b') (hl : b'.length ≤ b.length) : False := by
  have hlen := congrArg List.length h
  simp only [List.length_append, List.length_cons] at hlen
  have hmem : (RResp.fail t) ∈ a' := by
    have h1 : (a ++ .fail t :: b)[a.length]? = some (.fail t) := by simp
    rw [h, List.getElem?_append_left (by omega)] at h1
    exact List.mem_of_getElem? h1
  exact h' _ hmem t rfl

/-! ### `writeAll` -/

theorem writeAll_nil (buf : Bytes) (s : Sink) :
    writeAll buf s [] = ({ data := s.data ++ buf, count := s.count + buf.length }, [], none) := by
  simp [writeAll]

theorem writeAll_empty (s : Sink) (sch : List WResp) : writeAll [] s sch = (s, sch, none) := by
  cases sch with
  | nil => simp [writeAll]
  | cons r rs => simp [writeAll]

theorem writeAll_accept {buf : Bytes} (hb : buf ≠ []) (s : Sink) (n : Nat) (rs : List WResp) :
    writeAll buf s (.accept n :: rs) =
      writeAll (buf.drop (max 1 (min n buf.length)))
        { data := s.data ++ buf.take (max 1 (min n buf.length)),
          count := s.count + max 1 (min n buf.length) } rs := by
  have : buf.isEmpty = false := by simpa using hb
  simp [writeAll, this]

theorem writeAll_interrupted {buf : Bytes} (hb : buf ≠ []) (s : Sink) (rs : List WResp) :
    writeAll buf s (.interrupted :: rs) = writeAll buf s rs := by
  have : buf.isEmpty = false := by simpa using hb
  simp [writeAll, this]

theorem writeAll_fail {buf : Bytes} (hb : buf ≠ []) (s : Sink) (t : Nat) (rs : List WResp) :
    writeAll buf s (.fail t :: rs) = (s, rs, some t) := by
  have : buf.isEmpty = false := by simpa using hb
  simp [writeAll, this]

/-- Outcome of a `write_all`/`writeMany` call on the bytes `buf`, for an arbitrary schedule. -/
def WOutcome (buf : Bytes) (s : Sink) (sch : List WResp) (s' : Sink) (rest : List WResp)
    (err : Option Nat) : Prop :=
  ∃ used, WFaultFree used ∧
    ((err = none ∧ sch = used ++ rest ∧ s'.data = s.data ++ buf ∧
        s'.count = s.count + buf.length) ∨
     (∃ t k, err = some t ∧ sch = used ++ .fail t :: rest ∧ k < buf.length ∧
        s'.data = s.data ++ buf.take k ∧ s'.count = s.count + k))

/-- Complete characterisation of `writeAll`: either it succeeds having consumed a fault-free part
    of the schedule and appended exactly `buf`, or it consumed the first fault of the schedule,
    reports exactly that fault's tag and has appended a strict prefix of `buf`. -/
theorem writeAll_char : ∀ (sch : List WResp) (buf : Bytes) (s s' : Sink) (rest : List WResp)
    (err : Option Nat), writeAll buf s sch = (s', rest, err) → WOutcome buf s sch s' rest err := by
  intro sch
  induction sch with
  | nil =>
    intro buf s s' rest err h
    rw [writeAll_nil] at h
    simp only [Prod.mk.injEq] at h
    obtain ⟨rfl, rfl, rfl⟩ := h
    exact ⟨[], WFaultFree.nil, .inl ⟨rfl, rfl, rfl, rfl⟩⟩
  | cons r rs ih =>
    intro buf s s' rest err h
    by_cases hb : buf = []
    · subst hb
      rw [writeAll_empty] at h
      simp only [Prod.mk.injEq] at h
      obtain ⟨rfl, rfl, rfl⟩ := h
      exact ⟨[], WFaultFree.nil, .inl ⟨rfl, rfl, by simp, by simp⟩⟩
    · have hlen : 0 < buf.length := List.length_pos_iff.mpr hb
      cases r with
      | accept n =>
        rw [writeAll_accept hb] at h
        obtain ⟨used, hu, hc⟩ := ih _ _ _ _ _ h
        refine ⟨.accept n :: used, WFaultFree.cons_iff.mpr ⟨by intro t; simp, hu⟩, ?_⟩
        dsimp only at hc
        rcases hc with ⟨e, hs, hd, hcnt⟩ | ⟨t, k, e, hs, hk, hd, hcnt⟩
        · refine .inl ⟨e, by rw [hs]; rfl, ?_, ?_⟩
          · rw [hd]; simp [List.append_assoc]
          · rw [hcnt]; simp only [List.length_drop]; omega
        · refine .inr ⟨t, max 1 (min n buf.length) + k, e, by rw [hs]; rfl, ?_, ?_, ?_⟩
          · simp only [List.length_drop] at hk; omega
          · rw [hd, List.take_add]; simp [List.append_assoc]
          · rw [hcnt, Nat.add_assoc]
      | interrupted =>
        rw [writeAll_interrupted hb] at h
        obtain ⟨used, hu, hc⟩ := ih _ _ _ _ _ h
        refine ⟨.interrupted :: used, WFaultFree.cons_iff.mpr ⟨by intro t; simp, hu⟩, ?_⟩
        rcases hc with ⟨e, hs, hd, hcnt⟩ | ⟨t, k, e, hs, hk, hd, hcnt⟩
        · exact .inl ⟨e, by rw [hs]; rfl, hd, hcnt⟩
        · exact .inr ⟨t, k, e, by rw [hs]; rfl, hk, hd, hcnt⟩
      | fail t =>
        rw [writeAll_fail hb] at h
        simp only [Prod.mk.injEq] at h
        obtain ⟨rfl, rfl, rfl⟩ := h
        exact ⟨[], WFaultFree.nil, .inr ⟨t, 0, rfl, rfl, hlen, by simp, by simp⟩⟩

/-- Fault-free corollary: whatever the split into partial writes and interruptions, exactly `buf`
    is appended and `count` advances by `buf.length`. -/
theorem writeAll_ff {sch : List WResp} (hff : WFaultFree sch) (buf : Bytes) (s : Sink) :
    (writeAll buf s sch).2.2 = none ∧ (writeAll buf s sch).1.data = s.data ++ buf ∧
    (writeAll buf s sch).1.count = s.count + buf.length ∧ WFaultFree (writeAll buf s sch).2.1 := by
  obtain ⟨used, hu, hc⟩ := writeAll_char sch buf s _ _ _ rfl
  rcases hc with ⟨e, hs, hd, hcnt⟩ | ⟨t, k, e, hs, _⟩
  · refine ⟨e, hd, hcnt, ?_⟩
    rw [hs] at hff
    exact (WFaultFree.append_iff.mp hff).2
  · rw [hs] at hff
    exact absurd hff WFaultFree.no_fail

/-- `count = data.length` is preserved by `writeAll` under *every* schedule, faults included
    (this is why `CountWrite::count` is the right value for an index entry's offset). -/
theorem writeAll_count_inv (sch : List WResp) (buf : Bytes) (s : Sink)
    (h : s.count = s.data.length) :
    (writeAll buf s sch).1.count = (writeAll buf s sch).1.data.length := by
  obtain ⟨used, hu, hc⟩ := writeAll_char sch buf s _ _ _ rfl
  rcases hc with ⟨_, _, hd, hcnt⟩ | ⟨t, k, _, _, hk, hd, hcnt⟩
  · rw [hd, hcnt, h]; simp
  · rw [hd, hcnt, h]; simp only [List.length_append, List.length_take]; omega

/-! ### `writeMany` -/

theorem writeMany_nil (s : Sink) (sch : List WResp) : writeMany [] s sch = (s, sch, none) := by
  simp [writeMany]

theorem writeMany_cons_ok {b : Bytes} {s s1 : Sink} {sch sch1 : List WResp}
    (hw : writeAll b s sch = (s1, sch1, none)) (bs : List Bytes) :
    writeMany (b :: bs) s sch = writeMany bs s1 sch1 := by
  simp [writeMany, hw]

theorem writeMany_cons_err {b : Bytes} {s s1 : Sink} {sch sch1 : List WResp} {t : Nat}
    (hw : writeAll b s sch = (s1, sch1, some t)) (bs : List Bytes) :
    writeMany (b :: bs) s sch = (s1, sch1, some t) := by
  simp [writeMany, hw]

/-- Outcome of `writeMany bufs`, for an arbitrary schedule. -/
def WMOutcome (bufs : List Bytes) (s : Sink) (sch : List WResp) (s' : Sink) (rest : List WResp)
    (err : Option Nat) : Prop :=
  ∃ used, WFaultFree used ∧
    ((err = none ∧ sch = used ++ rest ∧ s'.data = s.data ++ bufs.flatten ∧
        s'.count = s.count + bufs.flatten.length) ∨
     (∃ t j b k, err = some t ∧ sch = used ++ .fail t :: rest ∧ bufs[j]? = some b ∧ k < b.length ∧
        s'.data = s.data ++ (bufs.take j).flatten ++ b.take k ∧
        s'.count = s.count + (bufs.take j).flatten.length + k))

/-- Complete characterisation of `writeMany`: success with everything written, or the first fault
    of the schedule was consumed while writing buffer `j`: its tag is reported, buffers `0..j` are
    written completely, a strict prefix of buffer `j` is written, and nothing after it. -/
theorem writeMany_char : ∀ (bufs : List Bytes) (s : Sink) (sch : List WResp) (s' : Sink)
    (rest : List WResp) (err : Option Nat),
    writeMany bufs s sch = (s', rest, err) → WMOutcome bufs s sch s' rest err := by
  intro bufs
  induction bufs with
  | nil =>
    intro s sch s' rest err h
    rw [writeMany_nil] at h
    simp only [Prod.mk.injEq] at h
    obtain ⟨rfl, rfl, rfl⟩ := h
    exact ⟨[], WFaultFree.nil, .inl ⟨rfl, rfl, by simp, by simp⟩⟩
  | cons b bs ih =>
    intro s sch s' rest err h
    rcases hw : writeAll b s sch with ⟨s1, sch1, e1⟩
    obtain ⟨used1, hu1, hc1⟩ := writeAll_char sch b s _ _ _ hw
    cases e1 with
    | none =>
      rw [writeMany_cons_ok hw] at h
      rcases hc1 with ⟨_, hs1, hd1, hcnt1⟩ | ⟨t, k, e, _⟩
      · obtain ⟨used2, hu2, hc2⟩ := ih _ _ _ _ _ h
        refine ⟨used1 ++ used2, WFaultFree.append_iff.mpr ⟨hu1, hu2⟩, ?_⟩
        rcases hc2 with ⟨e, hs2, hd2, hcnt2⟩ | ⟨t, j, b', k, e, hs2, hj, hk, hd2, hcnt2⟩
        · refine .inl ⟨e, by rw [hs1, hs2, List.append_assoc], ?_, ?_⟩
          · rw [hd2, hd1]; simp [List.append_assoc]
          · rw [hcnt2, hcnt1]; simp only [List.flatten_cons, List.length_append]; omega
        · refine .inr ⟨t, j + 1, b', k, e, by rw [hs1, hs2, List.append_assoc], by simpa using hj,
            hk, ?_, ?_⟩
          · rw [hd2, hd1]; simp [List.append_assoc]
          · rw [hcnt2, hcnt1]
            simp only [List.take_succ_cons, List.flatten_cons, List.length_append]; omega
      · cases e
    | some t =>
      rw [writeMany_cons_err hw] at h
      simp only [Prod.mk.injEq] at h
      obtain ⟨rfl, rfl, rfl⟩ := h
      rcases hc1 with ⟨e, _⟩ | ⟨t', k, e, hs1, hk, hd1, hcnt1⟩
      · cases e
      · refine ⟨used1, hu1, .inr ⟨t', 0, b, k, e, hs1, by simp, hk, ?_, ?_⟩⟩
        · rw [hd1]; simp
        · rw [hcnt1]; simp

theorem writeMany_ff {sch : List WResp} (hff : WFaultFree sch) (bufs : List Bytes) (s : Sink) :
    (writeMany bufs s sch).2.2 = none ∧ (writeMany bufs s sch).1.data = s.data ++ bufs.flatten ∧
    (writeMany bufs s sch).1.count = s.count + bufs.flatten.length ∧
    WFaultFree (writeMany bufs s sch).2.1 := by
  obtain ⟨used, hu, hc⟩ := writeMany_char bufs s sch _ _ _ rfl
  rcases hc with ⟨e, hs, hd, hcnt⟩ | ⟨t, j, b, k, e, hs, _⟩
  · refine ⟨e, hd, hcnt, ?_⟩
    rw [hs] at hff
    exact (WFaultFree.append_iff.mp hff).2
  · rw [hs] at hff
    exact absurd hff WFaultFree.no_fail

/-- `writeMany` over a concatenation is `writeMany` of the first part followed, on the remaining
    schedule, by `writeMany` of the second part (for every schedule). -/
theorem writeMany_append (bufs₁ bufs₂ : List Bytes) (s : Sink) (sch : List WResp) :
    writeMany (bufs₁ ++ bufs₂) s sch =
      match writeMany bufs₁ s sch with
      | (s', sch', none) => writeMany bufs₂ s' sch'
      | (s', sch', some t) => (s', sch', some t) := by
  induction bufs₁ generalizing s sch with
  | nil => simp [writeMany_nil]
  | cons b bs ih =>
    rcases hw : writeAll b s sch with ⟨s1, sch1, e1⟩
    cases e1 with
    | none => rw [List.cons_append, writeMany_cons_ok hw, writeMany_cons_ok hw, ih]
    | some t => rw [List.cons_append, writeMany_cons_err hw, writeMany_cons_err hw]

theorem writeMany_count_inv (sch : List WResp) (bufs : List Bytes) (s : Sink)
    (h : s.count = s.data.length) :
    (writeMany bufs s sch).1.count = (writeMany bufs s sch).1.data.length := by
  induction bufs generalizing s sch with
  | nil => simpa [writeMany_nil] using h
  | cons b bs ih =>
    have h1 := writeAll_count_inv sch b s h
    rcases hw : writeAll b s sch with ⟨s1, sch1, e1⟩
    rw [hw] at h1
    cases e1 with
    | none => rw [writeMany_cons_ok hw]; exact ih _ _ h1
    | some t => rw [writeMany_cons_err hw]; exact h1

/-! ### `readExact` -/

theorem io_acc_step {α} (l acc : List α) (p m p' : Nat) (h : p + m ≤ p') :
    (acc ++ (l.drop p).take m) ++ (l.drop (p + m)).take (p' - (p + m)) =
      acc ++ (l.drop p).take (p' - p) := by
  have e : p' - p = m + (p' - (p + m)) := by omega
  rw [e, List.take_add, List.drop_drop, List.append_assoc]

theorem readExact_zero (data : Bytes) (pos : Nat) (acc : Bytes) (sch : List RResp) :
    readExact data 0 pos acc sch = (acc, pos, sch, none) := by
  rw [readExact.eq_def]

theorem readExact_eof (data : Bytes) (want pos : Nat) (acc : Bytes) (sch : List RResp)
    (h : data.length - pos = 0) :
    readExact data (want + 1) pos acc sch = (acc, pos, sch, some 0) := by
  rw [readExact.eq_def]; simp [h]

theorem readExact_nil (data : Bytes) (want pos : Nat) (acc : Bytes)
    (h : data.length - pos ≠ 0) :
    readExact data (want + 1) pos acc [] =
      (acc ++ (data.drop pos).take (min (want + 1) (data.length - pos)),
       pos + min (want + 1) (data.length - pos), [],
       if min (want + 1) (data.length - pos) = want + 1 then none else some 0) := by
  rw [readExact]; simp only [h, if_false]; split <;> simp_all

theorem readExact_serve (data : Bytes) (want pos : Nat) (acc : Bytes) (n : Nat)
    (rs : List RResp) (h : data.length - pos ≠ 0) :
    readExact data (want + 1) pos acc (.serve n :: rs) =
      readExact data (want + 1 - max 1 (min n (min (want + 1) (data.length - pos))))
        (pos + max 1 (min n (min (want + 1) (data.length - pos))))
        (acc ++ (data.drop pos).take (max 1 (min n (min (want + 1) (data.length - pos))))) rs := by
  rw [readExact]; simp only [h, if_false]

theorem readExact_interrupted (data : Bytes) (want pos : Nat) (acc : Bytes)
    (rs : List RResp) (h : data.length - pos ≠ 0) :
    readExact data (want + 1) pos acc (.interrupted :: rs) =
      readExact data (want + 1) pos acc rs := by
  rw [readExact]; simp only [h, if_false]

theorem readExact_fail (data : Bytes) (want pos : Nat) (acc : Bytes) (t : Nat)
    (rs : List RResp) (h : data.length - pos ≠ 0) :
    readExact data (want + 1) pos acc (.fail t :: rs) = (acc, pos, rs, some t) := by
  rw [readExact]; simp only [h, if_false]

/-- Outcome of `readExact data n pos acc sch = (out, pos', rest, err)` for an arbitrary schedule:
    the bytes delivered are always the true bytes `data[pos .. pos']`; then either success with
    exactly `n` bytes, or UnexpectedEof (tag 0) with everything up to the end of data read, or
    the first fault of the schedule was consumed and its tag is reported. -/
def REOutcome (data : Bytes) (n pos : Nat) (acc : Bytes) (sch : List RResp) (out : Bytes)
    (pos' : Nat) (rest : List RResp) (err : Option Nat) : Prop :=
  ∃ used, RFaultFree used ∧ out = acc ++ (data.drop pos).take (pos' - pos) ∧ pos ≤ pos' ∧
    ((err = none ∧ sch = used ++ rest ∧ pos' = pos + n ∧ (n = 0 ∨ pos + n ≤ data.length)) ∨
     (err = some 0 ∧ sch = used ++ rest ∧ data.length < pos + n ∧ pos' = max pos data.length) ∨
     (∃ t, err = some t ∧ sch = used ++ .fail t :: rest ∧ pos' - pos < n ∧
        pos' ≤ max pos data.length))

theorem readExact_char (data : Bytes) : ∀ (sch : List RResp) (n pos : Nat) (acc out : Bytes)
    (pos' : Nat) (rest : List RResp) (err : Option Nat),
    readExact data n pos acc sch = (out, pos', rest, err) →
    REOutcome data n pos acc sch out pos' rest err := by
  intro sch
  induction sch with
  | nil =>
    intro n pos acc out pos' rest err h
    cases n with
    | zero =>
      rw [readExact_zero] at h
      simp only [Prod.mk.injEq] at h
      obtain ⟨rfl, rfl, rfl, rfl⟩ := h
      exact ⟨[], RFaultFree.nil, by simp, Nat.le_refl _, .inl ⟨rfl, rfl, rfl, .inl rfl⟩⟩
    | succ want =>
      by_cases ha : data.length - pos = 0
      · rw [readExact_eof _ _ _ _ _ ha] at h
        simp only [Prod.mk.injEq] at h
        obtain ⟨rfl, rfl, rfl, rfl⟩ := h
        exact ⟨[], RFaultFree.nil, by simp, Nat.le_refl _,
          .inr (.inl ⟨rfl, rfl, by omega, by omega⟩)⟩
      · rw [readExact_nil _ _ _ _ ha] at h
        simp only [Prod.mk.injEq] at h
        obtain ⟨rfl, rfl, rfl, rfl⟩ := h
        refine ⟨[], RFaultFree.nil, by simp, by omega, ?_⟩
        by_cases hm : min (want + 1) (data.length - pos) = want + 1
        · exact .inl ⟨by simp [hm], rfl, by omega, by omega⟩
        · exact .inr (.inl ⟨by simp [hm], rfl, by omega, by omega⟩)
  | cons r rs ih =>
    intro n pos acc out pos' rest err h
    cases n with
    | zero =>
      rw [readExact_zero] at h
      simp only [Prod.mk.injEq] at h
      obtain ⟨rfl, rfl, rfl, rfl⟩ := h
      exact ⟨[], RFaultFree.nil, by simp, Nat.le_refl _, .inl ⟨rfl, rfl, rfl, .inl rfl⟩⟩
    | succ want =>
      by_cases ha : data.length - pos = 0
      · rw [readExact_eof _ _ _ _ _ ha] at h
        simp only [Prod.mk.injEq] at h
        obtain ⟨rfl, rfl, rfl, rfl⟩ := h
        exact ⟨[], RFaultFree.nil, by simp, Nat.le_refl _,
          .inr (.inl ⟨rfl, rfl, by omega, by omega⟩)⟩
      · cases r with
        | serve k =>
          rw [readExact_serve _ _ _ _ _ _ ha] at h
          generalize hm : max 1 (min k (min (want + 1) (data.length - pos))) = m at h
          have hm1 : 1 ≤ m ∧ m ≤ want + 1 ∧ m ≤ data.length - pos := by omega
          obtain ⟨used, hu, ho, hp, hc⟩ := ih _ _ _ _ _ _ _ h
          refine ⟨.serve k :: used, RFaultFree.cons_iff.mpr ⟨by intro t; simp, hu⟩, ?_, by omega, ?_⟩
          · rw [ho, io_acc_step _ _ _ _ _ hp]
          · rcases hc with ⟨e, hs, h1, h2⟩ | ⟨e, hs, h1, h2⟩ | ⟨t, e, hs, h1, h2⟩
            · exact .inl ⟨e, by rw [hs]; rfl, by omega, by omega⟩
            · exact .inr (.inl ⟨e, by rw [hs]; rfl, by omega, by omega⟩)
            · exact .inr (.inr ⟨t, e, by rw [hs]; rfl, by omega, by omega⟩)
        | interrupted =>
          rw [readExact_interrupted _ _ _ _ _ ha] at h
          obtain ⟨used, hu, ho, hp, hc⟩ := ih _ _ _ _ _ _ _ h
          refine ⟨.interrupted :: used, RFaultFree.cons_iff.mpr ⟨by intro t; simp, hu⟩, ho, hp, ?_⟩
          rcases hc with ⟨e, hs, h1, h2⟩ | ⟨e, hs, h1, h2⟩ | ⟨t, e, hs, h1, h2⟩
          · exact .inl ⟨e, by rw [hs]; rfl, h1, h2⟩
          · exact .inr (.inl ⟨e, by rw [hs]; rfl, h1, h2⟩)
          · exact .inr (.inr ⟨t, e, by rw [hs]; rfl, h1, h2⟩)
        | fail t =>
          rw [readExact_fail _ _ _ _ _ _ ha] at h
          simp only [Prod.mk.injEq] at h
          obtain ⟨rfl, rfl, rfl, rfl⟩ := h
          exact ⟨[], RFaultFree.nil, by simp, Nat.le_refl _,
            .inr (.inr ⟨t, rfl, rfl, by omega, by omega⟩)⟩

/-- Fault-free, enough data: exactly the `n` bytes at `pos`, whatever the split. -/
theorem readExact_ff {sch : List RResp} (hff : RFaultFree sch) (data : Bytes) (n pos : Nat)
    (acc : Bytes) (hlen : pos + n ≤ data.length) :
    (readExact data n pos acc sch).1 = acc ++ (data.drop pos).take n ∧
    (readExact data n pos acc sch).2.1 = pos + n ∧
    (readExact data n pos acc sch).2.2.2 = none ∧
    RFaultFree (readExact data n pos acc sch).2.2.1 := by
  obtain ⟨used, hu, ho, hp, hc⟩ := readExact_char data sch n pos acc _ _ _ _ rfl
  rcases hc with ⟨e, hs, h1, h2⟩ | ⟨e, hs, h1, h2⟩ | ⟨t, e, hs, h1, h2⟩
  · refine ⟨?_, h1, e, ?_⟩
    · rw [ho, h1]; simp
    · rw [hs] at hff; exact (RFaultFree.append_iff.mp hff).2
  · omega
  · rw [hs] at hff; exact absurd hff RFaultFree.no_fail

/-- Fault-free, short data: UnexpectedEof (tag 0), and the bytes delivered are the true rest of
    the data — never wrong bytes. -/
theorem readExact_ff_short {sch : List RResp} (hff : RFaultFree sch) (data : Bytes) (n pos : Nat)
    (acc : Bytes) (hlen : data.length - pos < n) :
    (readExact data n pos acc sch).1 = acc ++ data.drop pos ∧
    (readExact data n pos acc sch).2.1 = max pos data.length ∧
    (readExact data n pos acc sch).2.2.2 = some 0 := by
  obtain ⟨used, hu, ho, hp, hc⟩ := readExact_char data sch n pos acc _ _ _ _ rfl
  rcases hc with ⟨e, hs, h1, h2⟩ | ⟨e, hs, h1, h2⟩ | ⟨t, e, hs, h1, h2⟩
  · omega
  · refine ⟨?_, h2, e⟩
    rw [ho, h2, List.take_of_length_le]
    simp only [List.length_drop]; omega
  · rw [hs] at hff; exact absurd hff RFaultFree.no_fail

/-! ### `readToEndTake` -/

theorem readToEndTake_zero (data : Bytes) (pos : Nat) (acc : Bytes) (sch : List RResp) :
    readToEndTake data 0 pos acc sch = (acc, pos, sch, none) := by
  rw [readToEndTake.eq_def]

theorem readToEndTake_eof (data : Bytes) (limit pos : Nat) (acc : Bytes) (sch : List RResp)
    (h : data.length - pos = 0) :
    readToEndTake data (limit + 1) pos acc sch = (acc, pos, sch, none) := by
  rw [readToEndTake.eq_def]; simp [h]

theorem readToEndTake_nil (data : Bytes) (limit pos : Nat) (acc : Bytes)
    (h : data.length - pos ≠ 0) :
    readToEndTake data (limit + 1) pos acc [] =
      (acc ++ (data.drop pos).take (min (limit + 1) (data.length - pos)),
       pos + min (limit + 1) (data.length - pos), [], none) := by
  rw [readToEndTake]; simp only [h, if_false]

theorem readToEndTake_serve (data : Bytes) (limit pos : Nat) (acc : Bytes) (n : Nat)
    (rs : List RResp) (h : data.length - pos ≠ 0) :
    readToEndTake data (limit + 1) pos acc (.serve n :: rs) =
      readToEndTake data (limit + 1 - max 1 (min n (min (limit + 1) (data.length - pos))))
        (pos + max 1 (min n (min (limit + 1) (data.length - pos))))
        (acc ++ (data.drop pos).take (max 1 (min n (min (limit + 1) (data.length - pos))))) rs := by
  rw [readToEndTake]; simp only [h, if_false]

theorem readToEndTake_interrupted (data : Bytes) (limit pos : Nat) (acc : Bytes)
    (rs : List RResp) (h : data.length - pos ≠ 0) :
    readToEndTake data (limit + 1) pos acc (.interrupted :: rs) =
      readToEndTake data (limit + 1) pos acc rs := by
  rw [readToEndTake]; simp only [h, if_false]

theorem readToEndTake_fail (data : Bytes) (limit pos : Nat) (acc : Bytes) (t : Nat)
    (rs : List RResp) (h : data.length - pos ≠ 0) :
    readToEndTake data (limit + 1) pos acc (.fail t :: rs) = (acc, pos, rs, some t) := by
  rw [readToEndTake]; simp only [h, if_false]

/-- Outcome of `readToEndTake data limit pos acc sch = (out, pos', rest, err)`. -/
def RTOutcome (data : Bytes) (limit pos : Nat) (acc : Bytes) (sch : List RResp) (out : Bytes)
    (pos' : Nat) (rest : List RResp) (err : Option Nat) : Prop :=
  ∃ used, RFaultFree used ∧ out = acc ++ (data.drop pos).take (pos' - pos) ∧ pos ≤ pos' ∧
    ((err = none ∧ sch = used ++ rest ∧ pos' = pos + min limit (data.length - pos)) ∨
     (∃ t, err = some t ∧ sch = used ++ .fail t :: rest ∧
        pos' - pos < min limit (data.length - pos)))

theorem readToEndTake_char (data : Bytes) : ∀ (sch : List RResp) (limit pos : Nat)
    (acc out : Bytes) (pos' : Nat) (rest : List RResp) (err : Option Nat),
    readToEndTake data limit pos acc sch = (out, pos', rest, err) →
    RTOutcome data limit pos acc sch out pos' rest err := by
  intro sch
  induction sch with
  | nil =>
    intro n pos acc out pos' rest err h
    cases n with
    | zero =>
      rw [readToEndTake_zero] at h
      simp only [Prod.mk.injEq] at h
      obtain ⟨rfl, rfl, rfl, rfl⟩ := h
      exact ⟨[], RFaultFree.nil, by simp, Nat.le_refl _, .inl ⟨rfl, rfl, by omega⟩⟩
    | succ limit =>
      by_cases ha : data.length - pos = 0
      · rw [readToEndTake_eof _ _ _ _ _ ha] at h
        simp only [Prod.mk.injEq] at h
        obtain ⟨rfl, rfl, rfl, rfl⟩ := h
        exact ⟨[], RFaultFree.nil, by simp, Nat.le_refl _, .inl ⟨rfl, rfl, by omega⟩⟩
      · rw [readToEndTake_nil _ _ _ _ ha] at h
        simp only [Prod.mk.injEq] at h
        obtain ⟨rfl, rfl, rfl, rfl⟩ := h
        exact ⟨[], RFaultFree.nil, by simp, by omega, .inl ⟨rfl, rfl, rfl⟩⟩
  | cons r rs ih =>
    intro n pos acc out pos' rest err h
    cases n with
    | zero =>
      rw [readToEndTake_zero] at h
      simp only [Prod.mk.injEq] at h
      obtain ⟨rfl, rfl, rfl, rfl⟩ := h
      exact ⟨[], RFaultFree.nil, by simp, Nat.le_refl _, .inl ⟨rfl, rfl, by omega⟩⟩
    | succ limit =>
      by_cases ha : data.length - pos = 0
      · rw [readToEndTake_eof _ _ _ _ _ ha] at h
        simp only [Prod.mk.injEq] at h
        obtain ⟨rfl, rfl, rfl, rfl⟩ := h
        exact ⟨[], RFaultFree.nil, by simp, Nat.le_refl _, .inl ⟨rfl, rfl, by omega⟩⟩
      · cases r with
        | serve k =>
          rw [readToEndTake_serve _ _ _ _ _ _ ha] at h
          generalize hm : max 1 (min k (min (limit + 1) (data.length - pos))) = m at h
          have hm1 : 1 ≤ m ∧ m ≤ limit + 1 ∧ m ≤ data.length - pos := by omega
          obtain ⟨used, hu, ho, hp, hc⟩ := ih _ _ _ _ _ _ _ h
          refine ⟨.serve k :: used, RFaultFree.cons_iff.mpr ⟨by intro t; simp, hu⟩, ?_, by omega, ?_⟩
          · rw [ho, io_acc_step _ _ _ _ _ hp]
          · rcases hc with ⟨e, hs, h1⟩ | ⟨t, e, hs, h1⟩
            · exact .inl ⟨e, by rw [hs]; rfl, by omega⟩
            · exact .inr ⟨t, e, by rw [hs]; rfl, by omega⟩
        | interrupted =>
          rw [readToEndTake_interrupted _ _ _ _ _ ha] at h
          obtain ⟨used, hu, ho, hp, hc⟩ := ih _ _ _ _ _ _ _ h
          refine ⟨.interrupted :: used, RFaultFree.cons_iff.mpr ⟨by intro t; simp, hu⟩, ho, hp, ?_⟩
          rcases hc with ⟨e, hs, h1⟩ | ⟨t, e, hs, h1⟩
          · exact .inl ⟨e, by rw [hs]; rfl, h1⟩
          · exact .inr ⟨t, e, by rw [hs]; rfl, h1⟩
        | fail t =>
          rw [readToEndTake_fail _ _ _ _ _ _ ha] at h
          simp only [Prod.mk.injEq] at h
          obtain ⟨rfl, rfl, rfl, rfl⟩ := h
          exact ⟨[], RFaultFree.nil, by simp, Nat.le_refl _, .inr ⟨t, rfl, rfl, by omega⟩⟩

/-- Fault-free: up to `limit` bytes, or up to the end of data, whatever the split. -/
theorem readToEndTake_ff {sch : List RResp} (hff : RFaultFree sch) (data : Bytes)
    (limit pos : Nat) (acc : Bytes) :
    (readToEndTake data limit pos acc sch).1 = acc ++ (data.drop pos).take limit ∧
    (readToEndTake data limit pos acc sch).2.1 = pos + min limit (data.length - pos) ∧
    (readToEndTake data limit pos acc sch).2.2.2 = none ∧
    RFaultFree (readToEndTake data limit pos acc sch).2.2.1 := by
  obtain ⟨used, hu, ho, hp, hc⟩ := readToEndTake_char data sch limit pos acc _ _ _ _ rfl
  rcases hc with ⟨e, hs, h1⟩ | ⟨t, e, hs, h1⟩
  · refine ⟨?_, h1, e, ?_⟩
    · rw [ho, h1, Nat.add_sub_cancel_left]
      rw [List.take_eq_take_min (i := limit), List.length_drop]
    · rw [hs] at hff; exact (RFaultFree.append_iff.mp hff).2
  · rw [hs] at hff; exact absurd hff RFaultFree.no_fail

/-! ### `loadBodyIO` -/

/-- Outcome of `loadBodyIO file off sch = (res, rest, err)` for an arbitrary schedule. -/
def LBOutcome (file : Bytes) (off : Nat) (sch : List RResp) (res : Option Bytes)
    (rest : List RResp) (err : Option Nat) : Prop :=
  ∃ used, RFaultFree used ∧
    ((err = none ∧ sch = used ++ rest ∧ off + 8 ≤ file.length ∧
        res = some ((file.drop (off + 8)).take (beVal ((file.drop off).take 8)))) ∨
     (err = some 0 ∧ res = none ∧ sch = used ++ rest ∧ file.length < off + 8) ∨
     (∃ t, err = some t ∧ res = none ∧ sch = used ++ .fail t :: rest))

theorem loadBodyIO_char (file : Bytes) (off : Nat) (sch : List RResp) (res : Option Bytes)
    (rest : List RResp) (err : Option Nat) (h : loadBodyIO file off sch = (res, rest, err)) :
    LBOutcome file off sch res rest err := by
  unfold loadBodyIO at h
  rcases h1 : readExact file 8 off [] sch with ⟨hdr, pos, sch1, e1⟩
  obtain ⟨used1, hu1, ho1, hp1, hc1⟩ := readExact_char file sch 8 off [] _ _ _ _ h1
  rw [h1] at h
  cases e1 with
  | some t =>
    simp only [Prod.mk.injEq] at h
    obtain ⟨rfl, rfl, rfl⟩ := h
    rcases hc1 with ⟨e, _⟩ | ⟨e, hs, hl, _⟩ | ⟨t', e, hs, _⟩
    · cases e
    · exact ⟨used1, hu1, .inr (.inl ⟨e, rfl, hs, hl⟩)⟩
    · exact ⟨used1, hu1, .inr (.inr ⟨t', e, rfl, hs⟩)⟩
  | none =>
    simp only at h
    rcases hc1 with ⟨_, hs1, hpos, hl⟩ | ⟨e, _⟩ | ⟨t', e, _⟩
    · have hl' : off + 8 ≤ file.length := by omega
      have hhdr : hdr = (file.drop off).take 8 := by
        rw [ho1, hpos]; simp
      rcases h2 : readToEndTake file (beVal hdr) pos [] sch1 with ⟨body, pos2, sch2, e2⟩
      obtain ⟨used2, hu2, ho2, hp2, hc2⟩ := readToEndTake_char file sch1 _ pos [] _ _ _ _ h2
      rw [h2] at h
      cases e2 with
      | some t =>
        simp only [Prod.mk.injEq] at h
        obtain ⟨rfl, rfl, rfl⟩ := h
        rcases hc2 with ⟨e, _⟩ | ⟨t', e, hs2, _⟩
        · cases e
        · exact ⟨used1 ++ used2, RFaultFree.append_iff.mpr ⟨hu1, hu2⟩,
            .inr (.inr ⟨t', e, rfl, by rw [hs1, hs2, List.append_assoc]⟩)⟩
      | none =>
        simp only [Prod.mk.injEq] at h
        obtain ⟨rfl, rfl, rfl⟩ := h
        rcases hc2 with ⟨_, hs2, hpos2⟩ | ⟨t', e, _⟩
        · refine ⟨used1 ++ used2, RFaultFree.append_iff.mpr ⟨hu1, hu2⟩,
            .inl ⟨rfl, by rw [hs1, hs2, List.append_assoc], hl', ?_⟩⟩
          rw [ho2, hpos2, hpos, ← hhdr, Nat.add_sub_cancel_left, List.nil_append,
            List.take_eq_take_min (i := beVal hdr), List.length_drop]
        · cases e
    · cases e
    · cases e

/-- Fault-free `loadBodyIO` agrees with the pure definition used by `loadBlockLen`. -/
theorem loadBodyIO_ff {sch : List RResp} (hff : RFaultFree sch) (file : Bytes) (off : Nat) :
    (∀ hdr, slice? file off 8 = some hdr →
        (loadBodyIO file off sch).1 = some ((file.drop (off + 8)).take (beVal hdr)) ∧
        (loadBodyIO file off sch).2.2 = none) ∧
    (slice? file off 8 = none →
        (loadBodyIO file off sch).1 = none ∧ (loadBodyIO file off sch).2.2 = some 0) ∧
    RFaultFree (loadBodyIO file off sch).2.1 := by
  obtain ⟨used, hu, hc⟩ := loadBodyIO_char file off sch _ _ _ rfl
  unfold slice?
  rcases hc with ⟨e, hs, hl, hr⟩ | ⟨e, hr, hs, hl⟩ | ⟨t, e, hr, hs⟩
  · refine ⟨?_, ?_, ?_⟩
    · intro hdr hh
      simp only [hl, if_true, Option.some.injEq] at hh
      subst hh
      exact ⟨hr, e⟩
    · intro hh; simp [hl] at hh
    · rw [hs] at hff; exact (RFaultFree.append_iff.mp hff).2
  · refine ⟨?_, ?_, ?_⟩
    · intro hdr hh
      have : ¬ off + 8 ≤ file.length := by omega
      simp [this] at hh
    · intro _; exact ⟨hr, e⟩
    · rw [hs] at hff; exact (RFaultFree.append_iff.mp hff).2
  · rw [hs] at hff; exact absurd hff RFaultFree.no_fail

/-- The block a schedule-driven load produces: header and body through the I/O layer, then the
    decompressor and the footer parse. -/
def loadBlockIO (cd : Codec) (file : Bytes) (off : Nat) (sch : List RResp) : Option Block :=
  ((loadBodyIO file off sch).1.bind cd.decompress).bind Block.parse

theorem loadBlockIO_ff {sch : List RResp} (hff : RFaultFree sch) (cd : Codec) (file : Bytes)
    (off : Nat) : loadBlockIO cd file off sch = loadBlock cd file off := by
  obtain ⟨h1, h2, _⟩ := loadBodyIO_ff hff file off
  unfold loadBlockIO loadBlock loadBlockLen
  cases hs : slice? file off 8 with
  | none => rw [(h2 hs).1]; rfl
  | some hdr =>
    rw [(h1 hdr hs).1]
    simp only [Option.bind_some]
    cases cd.decompress ((file.drop (off + 8)).take (beVal hdr)) with
    | none => rfl
    | some raw =>
      simp only [Option.bind_some]
      cases Block.parse raw <;> rfl

/-- Under an *arbitrary* schedule a schedule-driven load either fails or yields the block of
    the pure `loadBlock`: never another block. -/
theorem loadBlockIO_le (cd : Codec) (file : Bytes) (off : Nat) (sch : List RResp) (b : Block)
    (h : loadBlockIO cd file off sch = some b) : loadBlock cd file off = some b := by
  rcases hr : loadBodyIO file off sch with ⟨res, rest, err⟩
  obtain ⟨used, hu, hc⟩ := loadBodyIO_char file off sch _ _ _ hr
  unfold loadBlockIO at h
  rw [hr] at h
  simp only at h
  rcases hc with ⟨_, _, hl, hres⟩ | ⟨_, hres, _⟩ | ⟨t, _, hres, _⟩
  · rw [hres] at h
    unfold loadBlock loadBlockLen slice?
    simp only [hl, if_true]
    simp only [Option.bind_some] at h
    cases hd : cd.decompress ((file.drop (off + 8)).take (beVal ((file.drop off).take 8))) with
    | none => rw [hd] at h; cases h
    | some raw =>
      rw [hd] at h
      simp only [Option.bind_some] at h
      simp only [h, Option.map_some]
  · rw [hres] at h; cases h
  · rw [hres] at h; cases h

/-- The loader of a reader whose every load goes through the I/O layer; `sched off` is the
    schedule the source applies while block `off` is loaded. -/
def ioLoader (cd : Codec) (file : Bytes) (sched : Nat → List RResp) (off : Nat) :
    Option BlockCursor :=
  (loadBlockIO cd file off (sched off)).map BlockCursor.ofBlock

theorem ioLoader_le (cd : Codec) (file : Bytes) (sched : Nat → List RResp) (off : Nat)
    (b : BlockCursor) (h : ioLoader cd file sched off = some b) :
    loadCursor cd file off = some b := by
  unfold ioLoader at h
  cases hb : loadBlockIO cd file off (sched off) with
  | none => rw [hb] at h; cases h
  | some blk =>
    rw [hb] at h
    rw [loadCursor, loadBlockIO_le cd file off _ _ hb]
    exact h

/-! ### The cursor under a loader that never fails -/

section CursorTotal
variable {β : Type} (ops : BlockOps β) (load : Nat → Option β)

theorem initialIndex_ne_none_of_total (hl : ∀ off, (load off).isSome) (mov : Mov) :
    ∀ (d jump : Nat) (acc : List (Nat × β)) (log : List Nat),
      RC.initialIndex ops load mov d jump acc log ≠ none := by
  intro d
  induction d with
  | zero => intro jump acc log; simp [RC.initialIndex]
  | succ d ih =>
    intro jump acc log
    unfold RC.initialIndex
    have := hl jump
    cases hj : load jump with
    | none => simp [hj] at this
    | some c =>
      simp only
      split
      · exact ih _ _ _
      · simp

theorem iterLevels_ne_none_of_total (hl : ∀ off, (load off).isSome) (mov : Mov) :
    ∀ (inner : List (Nat × β)) (jump : Nat) (log : List Nat),
      RC.iterLevels ops load mov jump inner log ≠ none := by
  intro inner
  induction inner with
  | nil => intro jump log; simp [RC.iterLevels]
  | cons p rest ih =>
    intro jump log
    obtain ⟨off, c⟩ := p
    unfold RC.iterLevels
    have hre : ∃ x, (if jump ≠ off then (load jump).map (fun c' => (jump, c', jump :: log))
        else some (off, c, log)) = some x := by
      split
      · cases hj : load jump with
        | none => have := hl jump; simp [hj] at this
        | some c0 => exact ⟨_, rfl⟩
      · exact ⟨_, rfl⟩
    obtain ⟨⟨off', c', log'⟩, hre⟩ := hre
    simp only [hre]
    cases (ops.apply mov c').snd with
    | none => simp
    | some e =>
      simp only
      cases hi : RC.iterLevels ops load mov (offOf e) rest log' with
      | none => exact absurd hi (ih _ _)
      | some x => simp

theorem recurLevels_ne_none_of_total (hl : ∀ off, (load off).isSome) (fix : Bool) (mov : Mov) :
    ∀ (lv : List (Nat × β)) (log : List Nat), RC.recurLevels ops load fix mov lv log ≠ none := by
  intro lv
  induction lv with
  | nil => intro log; simp [RC.recurLevels]
  | cons p parents ih =>
    intro log
    obtain ⟨off, c⟩ := p
    unfold RC.recurLevels
    simp only
    cases (ops.apply mov c).snd with
    | some e => simp
    | none =>
      simp only
      cases hi : RC.recurLevels ops load fix mov parents log with
      | none => exact absurd hi (ih _)
      | some x =>
        obtain ⟨parents', r, log'⟩ := x
        cases r with
        | none => simp
        | some e =>
          simp only
          cases hj : load (offOf e) with
          | none => have := hl (offOf e); simp [hj] at this
          | some nc => simp

theorem iterIndex_ne_none_of_total (hl : ∀ off, (load off).isSome) (mov : Mov) (c : RC β) :
    RC.iterIndex ops load mov c ≠ none := by
  unfold RC.iterIndex
  cases c.inner with
  | some inner =>
    simp only
    cases hi : RC.iterLevels ops load mov c.base inner c.log with
    | none => exact absurd hi (iterLevels_ne_none_of_total ops load hl mov _ _ _)
    | some x => obtain ⟨a, b, d⟩ := x; simp only; split <;> simp
  | none =>
    simp only
    cases hi : RC.initialIndex ops load mov (c.levels + 1) c.base [] c.log with
    | none => exact absurd hi (initialIndex_ne_none_of_total ops load hl mov _ _ _ _)
    | some x => simp

theorem recurIndex_ne_none_of_total (hl : ∀ off, (load off).isSome) (fix : Bool) (mov : Mov) (c : RC β) :
    RC.recurIndex ops load fix mov c ≠ none := by
  unfold RC.recurIndex
  have key : ∀ c1 : RC β, (match c1.inner with
      | none => some (c1, (none : Option Entry))
      | some inner =>
        match RC.recurLevels ops load fix mov inner.reverse c1.log with
        | none => none
        | some (rev', r, log) => some ({ c1 with inner := some rev'.reverse, log := log }, r)) ≠ none := by
    intro c1
    cases c1.inner with
    | none => simp
    | some inner =>
      simp only
      cases hi : RC.recurLevels ops load fix mov inner.reverse c1.log with
      | none => exact absurd hi (recurLevels_ne_none_of_total ops load hl fix mov _ _)
      | some x => simp
  cases c.inner with
  | some inner => exact key c
  | none =>
    simp only
    cases hi : RC.initialIndex ops load mov (c.levels + 1) c.base [] c.log with
    | none => exact absurd hi (initialIndex_ne_none_of_total ops load hl mov _ _ _ _)
    | some x => exact key _

theorem enter_ne_none_of_total (hl : ∀ off, (load off).isSome) (c : RC β) (e : Entry) :
    RC.enter load c e ≠ none := by
  unfold RC.enter
  cases hj : load (offOf e) with
  | none => have := hl (offOf e); simp [hj] at this
  | some b => simp

theorem first_ne_err_of_total (hl : ∀ off, (load off).isSome) (c : RC β) :
    (RC.first ops load c).2 ≠ .err := by
  unfold RC.first
  cases hi : RC.iterIndex ops load .first c with
  | none => exact absurd hi (iterIndex_ne_none_of_total ops load hl _ _)
  | some x =>
    obtain ⟨c1, r⟩ := x
    cases r with
    | none => simp
    | some e =>
      simp only
      cases he : RC.enter load c1 e with
      | none => exact absurd he (enter_ne_none_of_total load hl _ _)
      | some y => simp

theorem last_ne_err_of_total (hl : ∀ off, (load off).isSome) (c : RC β) :
    (RC.last ops load c).2 ≠ .err := by
  unfold RC.last
  cases hi : RC.iterIndex ops load .last c with
  | none => exact absurd hi (iterIndex_ne_none_of_total ops load hl _ _)
  | some x =>
    obtain ⟨c1, r⟩ := x
    cases r with
    | none => simp
    | some e =>
      simp only
      cases he : RC.enter load c1 e with
      | none => exact absurd he (enter_ne_none_of_total load hl _ _)
      | some y => simp

theorem ge_ne_err_of_total (hl : ∀ off, (load off).isSome) (q : Bytes) (c : RC β) :
    (RC.ge ops load q c).2 ≠ .err := by
  unfold RC.ge
  cases hi : RC.iterIndex ops load (.ge q) c with
  | none => exact absurd hi (iterIndex_ne_none_of_total ops load hl _ _)
  | some x =>
    obtain ⟨c1, r⟩ := x
    cases r with
    | none => simp
    | some e =>
      simp only
      cases he : RC.enter load c1 e with
      | none => exact absurd he (enter_ne_none_of_total load hl _ _)
      | some y => simp

theorem next_ne_err_of_total (hl : ∀ off, (load off).isSome) (fix : Bool) (c : RC β) :
    (RC.next ops load fix c).2 ≠ .err := by
  unfold RC.next
  cases c.cur with
  | none => exact first_ne_err_of_total ops load hl c
  | some b =>
    simp only
    rcases hn : ops.next b with ⟨b', r⟩
    cases r with
    | some e => simp
    | none =>
      simp only
      cases hi : RC.recurIndex ops load fix .next (RC.withCur c b') with
      | none => exact absurd hi (recurIndex_ne_none_of_total ops load hl _ _ _)
      | some x =>
        obtain ⟨c1, r⟩ := x
        cases r with
        | none => simp
        | some e =>
          simp only
          cases he : RC.enter load c1 e with
          | none => exact absurd he (enter_ne_none_of_total load hl _ _)
          | some y => simp

theorem prev_ne_err_of_total (hl : ∀ off, (load off).isSome) (fix : Bool) (c : RC β) :
    (RC.prev ops load fix c).2 ≠ .err := by
  unfold RC.prev
  cases c.cur with
  | none => exact last_ne_err_of_total ops load hl c
  | some b =>
    simp only
    rcases hn : ops.prev b with ⟨b', r⟩
    cases r with
    | some e => simp
    | none =>
      simp only
      cases hi : RC.recurIndex ops load fix .prev (RC.withCur c b') with
      | none => exact absurd hi (recurIndex_ne_none_of_total ops load hl _ _ _)
      | some x =>
        obtain ⟨c1, r⟩ := x
        cases r with
        | none => simp
        | some e =>
          simp only
          cases he : RC.enter load c1 e with
          | none => exact absurd he (enter_ne_none_of_total load hl _ _)
          | some y => simp

theorem le_ne_err_of_total (hl : ∀ off, (load off).isSome) (fix : Bool) (q : Bytes) (c : RC β) :
    (RC.le ops load fix q c).2 ≠ .err := by
  unfold RC.le
  have hg := ge_ne_err_of_total ops load hl q c
  rcases hge : RC.ge ops load q c with ⟨c1, r⟩
  rw [hge] at hg
  cases r with
  | err => exact absurd rfl hg
  | ok o =>
    cases o with
    | some kv =>
      obtain ⟨k, v⟩ := kv
      simp only
      split
      · simp
      · exact prev_ne_err_of_total ops load hl fix c1
    | none =>
      simp only
      have hl' := last_ne_err_of_total ops load hl c1
      rcases hla : RC.last ops load c1 with ⟨c2, r2⟩
      rw [hla] at hl'
      cases r2 with
      | err => exact absurd rfl hl'
      | ok o2 => simp

theorem eq_ne_err_of_total (hl : ∀ off, (load off).isSome) (q : Bytes) (c : RC β) :
    (RC.eq ops load q c).2 ≠ .err := by
  unfold RC.eq
  have hg := ge_ne_err_of_total ops load hl q c
  rcases hge : RC.ge ops load q c with ⟨c1, r⟩
  rw [hge] at hg
  cases r with
  | err => exact absurd rfl hg
  | ok o => simp

/-- A loader that never fails never makes a cursor operation fail. -/
theorem step_ne_err_of_total (hl : ∀ off, (load off).isSome) (fix : Bool) (c : RC β) (op : Op) :
    (RC.step ops load fix c op).2 ≠ .err := by
  cases op with
  | first => exact first_ne_err_of_total ops load hl c
  | last => exact last_ne_err_of_total ops load hl c
  | next => exact next_ne_err_of_total ops load hl fix c
  | prev => exact prev_ne_err_of_total ops load hl fix c
  | ge q => exact ge_ne_err_of_total ops load hl q c
  | le q => exact le_ne_err_of_total ops load hl fix q c
  | eq q => exact eq_ne_err_of_total ops load hl q c
  | reset => simp [RC.step]
  | current => simp [RC.step]

end CursorTotal

/-! ### The cursor under a loader that succeeds more often

`load ≤ load'`: wherever `load` succeeds `load'` returns the same block.  Every result obtained
without error under `load` is obtained identically under `load'`: a result never depends on a
load that failed, so an error can only be caused by a load the operation really attempted. -/

section CursorMono
variable {β : Type} (ops : BlockOps β) (load load' : Nat → Option β)

theorem initialIndex_load_mono (hm : ∀ off b, load off = some b → load' off = some b) (mov : Mov) :
    ∀ (d jump : Nat) (acc : List (Nat × β)) (log : List Nat) x,
      RC.initialIndex ops load mov d jump acc log = some x →
      RC.initialIndex ops load' mov d jump acc log = some x := by
  intro d
  induction d with
  | zero => intro jump acc log x h; simpa [RC.initialIndex] using h
  | succ d ih =>
    intro jump acc log x h
    unfold RC.initialIndex at h ⊢
    cases hj : load jump with
    | none => rw [hj] at h; cases h
    | some c =>
      rw [hj] at h; rw [hm _ _ hj]
      simp only at h ⊢
      cases hr : (ops.apply mov c).snd with
      | none => rw [hr] at h; exact h
      | some e => rw [hr] at h; exact ih _ _ _ _ h

theorem iterLevels_load_mono (hm : ∀ off b, load off = some b → load' off = some b) (mov : Mov) :
    ∀ (inner : List (Nat × β)) (jump : Nat) (log : List Nat) x,
      RC.iterLevels ops load mov jump inner log = some x →
      RC.iterLevels ops load' mov jump inner log = some x := by
  intro inner
  induction inner with
  | nil => intro jump log x h; simpa [RC.iterLevels] using h
  | cons p rest ih =>
    intro jump log x h
    obtain ⟨off, c⟩ := p
    unfold RC.iterLevels at h ⊢
    have hre : ∀ y, (if jump ≠ off then (load jump).map (fun c' => (jump, c', jump :: log))
        else some (off, c, log)) = some y →
        (if jump ≠ off then (load' jump).map (fun c' => (jump, c', jump :: log))
        else some (off, c, log)) = some y := by
      intro y hy
      split at hy
      · rename_i hne
        cases hj : load jump with
        | none => rw [hj] at hy; cases hy
        | some c0 => rw [hj] at hy; rw [if_pos hne, hm _ _ hj]; exact hy
      · rename_i hne
        rw [if_neg hne]; exact hy
    cases hy : (if jump ≠ off then (load jump).map (fun c' => (jump, c', jump :: log))
        else some (off, c, log)) with
    | none => simp only [hy] at h; cases h
    | some y =>
      obtain ⟨off', c', log'⟩ := y
      simp only [hy] at h
      simp only [hre _ hy]
      cases hr : (ops.apply mov c').snd with
      | none => rw [hr] at h; exact h
      | some e =>
        rw [hr] at h
        simp only at h ⊢
        cases hi : RC.iterLevels ops load mov (offOf e) rest log' with
        | none => rw [hi] at h; cases h
        | some z => rw [hi] at h; rw [ih _ _ _ hi]; exact h

theorem recurLevels_load_mono (hm : ∀ off b, load off = some b → load' off = some b) (fix : Bool)
    (mov : Mov) : ∀ (lv : List (Nat × β)) (log : List Nat) x,
      RC.recurLevels ops load fix mov lv log = some x →
      RC.recurLevels ops load' fix mov lv log = some x := by
  intro lv
  induction lv with
  | nil => intro log x h; simpa [RC.recurLevels] using h
  | cons p parents ih =>
    intro log x h
    obtain ⟨off, c⟩ := p
    unfold RC.recurLevels at h ⊢
    simp only at h ⊢
    cases hr : (ops.apply mov c).snd with
    | some e => rw [hr] at h; exact h
    | none =>
      rw [hr] at h
      simp only at h ⊢
      cases hi : RC.recurLevels ops load fix mov parents log with
      | none => rw [hi] at h; cases h
      | some z =>
        rw [hi] at h; rw [ih _ _ hi]
        obtain ⟨parents', r, log'⟩ := z
        cases r with
        | none => exact h
        | some e =>
          simp only at h ⊢
          cases hj : load (offOf e) with
          | none => rw [hj] at h; cases h
          | some nc => rw [hj] at h; rw [hm _ _ hj]; exact h

theorem iterIndex_load_mono (hm : ∀ off b, load off = some b → load' off = some b) (mov : Mov)
    (c : RC β) x (h : RC.iterIndex ops load mov c = some x) :
    RC.iterIndex ops load' mov c = some x := by
  unfold RC.iterIndex at h ⊢
  cases hin : c.inner with
  | some inner =>
    rw [hin] at h
    simp only at h ⊢
    cases hi : RC.iterLevels ops load mov c.base inner c.log with
    | none => rw [hi] at h; cases h
    | some z => rw [hi] at h; rw [iterLevels_load_mono ops load load' hm mov _ _ _ _ hi]; exact h
  | none =>
    rw [hin] at h
    simp only at h ⊢
    cases hi : RC.initialIndex ops load mov (c.levels + 1) c.base [] c.log with
    | none => rw [hi] at h; cases h
    | some z => rw [hi] at h; rw [initialIndex_load_mono ops load load' hm mov _ _ _ _ _ hi]; exact h

theorem recurIndex_load_mono (hm : ∀ off b, load off = some b → load' off = some b) (fix : Bool)
    (mov : Mov) (c : RC β) x (h : RC.recurIndex ops load fix mov c = some x) :
    RC.recurIndex ops load' fix mov c = some x := by
  unfold RC.recurIndex at h ⊢
  have key : ∀ c1 : RC β, (match c1.inner with
      | none => some (c1, (none : Option Entry))
      | some inner =>
        match RC.recurLevels ops load fix mov inner.reverse c1.log with
        | none => none
        | some (rev', r, log) => some ({ c1 with inner := some rev'.reverse, log := log }, r)) = some x →
      (match c1.inner with
      | none => some (c1, (none : Option Entry))
      | some inner =>
        match RC.recurLevels ops load' fix mov inner.reverse c1.log with
        | none => none
        | some (rev', r, log) => some ({ c1 with inner := some rev'.reverse, log := log }, r)) = some x := by
    intro c1 h1
    cases hin : c1.inner with
    | none => rw [hin] at h1; exact h1
    | some inner =>
      rw [hin] at h1
      simp only at h1 ⊢
      cases hi : RC.recurLevels ops load fix mov inner.reverse c1.log with
      | none => rw [hi] at h1; cases h1
      | some z => rw [hi] at h1; rw [recurLevels_load_mono ops load load' hm fix mov _ _ _ hi]; exact h1
  cases hin : c.inner with
  | some inner =>
    rw [hin] at h
    simp only at h ⊢
    exact key c h
  | none =>
    rw [hin] at h
    simp only at h ⊢
    cases hi : RC.initialIndex ops load mov (c.levels + 1) c.base [] c.log with
    | none => rw [hi] at h; cases h
    | some z =>
      rw [hi] at h; rw [initialIndex_load_mono ops load load' hm mov _ _ _ _ _ hi]
      exact key _ h

theorem enter_load_mono (hm : ∀ off b, load off = some b → load' off = some b) (c : RC β) (e : Entry)
    x (h : RC.enter load c e = some x) : RC.enter load' c e = some x := by
  unfold RC.enter at h ⊢
  cases hj : load (offOf e) with
  | none => rw [hj] at h; cases h
  | some b => rw [hj] at h; rw [hm _ _ hj]; exact h

theorem first_load_mono (hm : ∀ off b, load off = some b → load' off = some b) (c : RC β)
    (h : (RC.first ops load c).2 ≠ .err) : RC.first ops load' c = RC.first ops load c := by
  unfold RC.first at h ⊢
  cases hi : RC.iterIndex ops load .first c with
  | none => rw [hi] at h; exact absurd rfl h
  | some x =>
    rw [hi] at h; rw [iterIndex_load_mono ops load load' hm _ _ _ hi]
    obtain ⟨c1, r⟩ := x
    cases r with
    | none => rfl
    | some e =>
      simp only at h ⊢
      cases he : RC.enter load c1 e with
      | none => rw [he] at h; exact absurd rfl h
      | some y => rw [enter_load_mono load load' hm _ _ _ he]

theorem last_load_mono (hm : ∀ off b, load off = some b → load' off = some b) (c : RC β)
    (h : (RC.last ops load c).2 ≠ .err) : RC.last ops load' c = RC.last ops load c := by
  unfold RC.last at h ⊢
  cases hi : RC.iterIndex ops load .last c with
  | none => rw [hi] at h; exact absurd rfl h
  | some x =>
    rw [hi] at h; rw [iterIndex_load_mono ops load load' hm _ _ _ hi]
    obtain ⟨c1, r⟩ := x
    cases r with
    | none => rfl
    | some e =>
      simp only at h ⊢
      cases he : RC.enter load c1 e with
      | none => rw [he] at h; exact absurd rfl h
      | some y => rw [enter_load_mono load load' hm _ _ _ he]

theorem ge_load_mono (hm : ∀ off b, load off = some b → load' off = some b) (q : Bytes) (c : RC β)
    (h : (RC.ge ops load q c).2 ≠ .err) : RC.ge ops load' q c = RC.ge ops load q c := by
  unfold RC.ge at h ⊢
  cases hi : RC.iterIndex ops load (.ge q) c with
  | none => rw [hi] at h; exact absurd rfl h
  | some x =>
    rw [hi] at h; rw [iterIndex_load_mono ops load load' hm _ _ _ hi]
    obtain ⟨c1, r⟩ := x
    cases r with
    | none => rfl
    | some e =>
      simp only at h ⊢
      cases he : RC.enter load c1 e with
      | none => rw [he] at h; exact absurd rfl h
      | some y => rw [enter_load_mono load load' hm _ _ _ he]

theorem next_load_mono (hm : ∀ off b, load off = some b → load' off = some b) (fix : Bool) (c : RC β)
    (h : (RC.next ops load fix c).2 ≠ .err) : RC.next ops load' fix c = RC.next ops load fix c := by
  unfold RC.next at h ⊢
  cases hc : c.cur with
  | none => rw [hc] at h; exact first_load_mono ops load load' hm c h
  | some b =>
    rw [hc] at h
    simp only at h ⊢
    rcases hn : ops.next b with ⟨b', r⟩
    rw [hn] at h
    cases r with
    | some e => rfl
    | none =>
      simp only at h ⊢
      cases hi : RC.recurIndex ops load fix .next (RC.withCur c b') with
      | none => rw [hi] at h; exact absurd rfl h
      | some x =>
        rw [hi] at h; rw [recurIndex_load_mono ops load load' hm _ _ _ _ hi]
        obtain ⟨c1, r⟩ := x
        cases r with
        | none => rfl
        | some e =>
          simp only at h ⊢
          cases he : RC.enter load c1 e with
          | none => rw [he] at h; exact absurd rfl h
          | some y => rw [enter_load_mono load load' hm _ _ _ he]

theorem prev_load_mono (hm : ∀ off b, load off = some b → load' off = some b) (fix : Bool) (c : RC β)
    (h : (RC.prev ops load fix c).2 ≠ .err) : RC.prev ops load' fix c = RC.prev ops load fix c := by
  unfold RC.prev at h ⊢
  cases hc : c.cur with
  | none => rw [hc] at h; exact last_load_mono ops load load' hm c h
  | some b =>
    rw [hc] at h
    simp only at h ⊢
    rcases hn : ops.prev b with ⟨b', r⟩
    rw [hn] at h
    cases r with
    | some e => rfl
    | none =>
      simp only at h ⊢
      cases hi : RC.recurIndex ops load fix .prev (RC.withCur c b') with
      | none => rw [hi] at h; exact absurd rfl h
      | some x =>
        rw [hi] at h; rw [recurIndex_load_mono ops load load' hm _ _ _ _ hi]
        obtain ⟨c1, r⟩ := x
        cases r with
        | none => rfl
        | some e =>
          simp only at h ⊢
          cases he : RC.enter load c1 e with
          | none => rw [he] at h; exact absurd rfl h
          | some y => rw [enter_load_mono load load' hm _ _ _ he]

theorem le_load_mono (hm : ∀ off b, load off = some b → load' off = some b) (fix : Bool) (q : Bytes)
    (c : RC β) (h : (RC.le ops load fix q c).2 ≠ .err) :
    RC.le ops load' fix q c = RC.le ops load fix q c := by
  unfold RC.le at h ⊢
  rcases hge : RC.ge ops load q c with ⟨c1, r⟩
  rw [hge] at h
  cases r with
  | err => exact absurd rfl h
  | ok o =>
    have hge' : RC.ge ops load' q c = (c1, .ok o) := by
      rw [ge_load_mono ops load load' hm q c (by rw [hge]; simp), hge]
    rw [hge']
    cases o with
    | some kv =>
      obtain ⟨k, v⟩ := kv
      simp only at h ⊢
      split
      · rfl
      · rename_i hne
        rw [if_neg hne] at h
        exact prev_load_mono ops load load' hm fix c1 h
    | none =>
      simp only at h ⊢
      rcases hla : RC.last ops load c1 with ⟨c2, r2⟩
      rw [hla] at h
      cases r2 with
      | err => exact absurd rfl h
      | ok o2 => rw [last_load_mono ops load load' hm c1 (by rw [hla]; simp), hla]

theorem eq_load_mono (hm : ∀ off b, load off = some b → load' off = some b) (q : Bytes)
    (c : RC β) (h : (RC.eq ops load q c).2 ≠ .err) :
    RC.eq ops load' q c = RC.eq ops load q c := by
  unfold RC.eq at h ⊢
  rcases hge : RC.ge ops load q c with ⟨c1, r⟩
  rw [hge] at h
  cases r with
  | err => exact absurd rfl h
  | ok o => rw [ge_load_mono ops load load' hm q c (by rw [hge]; simp), hge]

/-- A cursor operation that succeeds under `load` gives the same state and result under any
    loader that succeeds at least where `load` does. -/
theorem step_load_mono (hm : ∀ off b, load off = some b → load' off = some b) (fix : Bool)
    (c : RC β) (op : Op) (h : (RC.step ops load fix c op).2 ≠ .err) :
    RC.step ops load' fix c op = RC.step ops load fix c op := by
  cases op with
  | first => exact first_load_mono ops load load' hm c h
  | last => exact last_load_mono ops load load' hm c h
  | next => exact next_load_mono ops load load' hm fix c h
  | prev => exact prev_load_mono ops load load' hm fix c h
  | ge q => exact ge_load_mono ops load load' hm q c h
  | le q => exact le_load_mono ops load load' hm fix q c h
  | eq q => exact eq_load_mono ops load load' hm q c h
  | reset => rfl
  | current => rfl

end CursorMono

/-! ### The merger: one step, and a merge function that never fails -/

theorem Merger.next_of_pop_none (mf : MergeFn) (m : Merger) (h : heapPop m.heap = none) :
    Merger.next mf m = (m, .ok none) := by
  unfold Merger.next; rw [h]

theorem Merger.next_of_pop_some (mf : MergeFn) (m : Merger) (first : MSrc) (h : List MSrc)
    (hp : heapPop m.heap = some (first, h)) :
    Merger.next mf m =
      match mf first.key (first.val :: (popSame first.key (h.length + 1) h []).1.map MSrc.val) with
      | none =>
        ({ m with heap := (popSame first.key (h.length + 1) h []).2,
                  calls := (first.key, first.val ::
                    (popSame first.key (h.length + 1) h []).1.map MSrc.val) :: m.calls },
         .mergeErr)
      | some merged =>
        ({ heap := (first :: (popSame first.key (h.length + 1) h []).1).foldl advance
                     (popSame first.key (h.length + 1) h []).2,
           calls := (first.key, first.val ::
                    (popSame first.key (h.length + 1) h []).1.map MSrc.val) :: m.calls },
         .ok (some (first.key, merged))) := by
  unfold Merger.next; rw [hp]
  simp only
  rcases popSame first.key (h.length + 1) h [] with ⟨same, h'⟩
  simp only
  cases mf first.key (first.val :: List.map MSrc.val same) <;> rfl

theorem Merger.next_ne_mergeErr (mf : MergeFn) (hmf : ∀ k vs, (mf k vs).isSome) (m : Merger) :
    (Merger.next mf m).2 ≠ .mergeErr := by
  cases hp : heapPop m.heap with
  | none => rw [Merger.next_of_pop_none mf m hp]; simp
  | some x =>
    obtain ⟨first, h⟩ := x
    rw [Merger.next_of_pop_some mf m first h hp]
    have := hmf first.key (first.val :: (popSame first.key (h.length + 1) h []).1.map MSrc.val)
    split
    · rename_i hn; simp [hn] at this
    · simp

theorem Merger.collect_ne_none (mf : MergeFn) (hmf : ∀ k vs, (mf k vs).isSome) :
    ∀ (fuel : Nat) (m : Merger) (acc : List Entry), (Merger.collect mf fuel m acc).1 ≠ none := by
  intro fuel
  induction fuel with
  | zero => intro m acc; simp [Merger.collect]
  | succ fuel ih =>
    intro m acc
    unfold Merger.collect
    have hne := Merger.next_ne_mergeErr mf hmf m
    rcases hn : Merger.next mf m with ⟨m', r⟩
    rw [hn] at hne
    cases r with
    | mergeErr => exact absurd rfl hne
    | ok o =>
      cases o with
      | none => simp
      | some e => exact ih _ _

theorem Merger.run_ne_none (mf : MergeFn) (hmf : ∀ k vs, (mf k vs).isSome)
    (sources : List (List Entry)) : (Merger.run mf sources).1 ≠ none :=
  Merger.collect_ne_none mf hmf _ _ _

/-! ### The sorter: where its error values come from -/

theorem mergeGroups_ne_none (mf : MergeFn) (hmf : ∀ k vs, (mf k vs).isSome) :
    ∀ (l : List Entry) (cur : Option (Bytes × List Bytes)) (out : List Entry)
      (calls : List (Bytes × List Bytes)), Sorter.mergeGroups mf l cur out calls ≠ none := by
  intro l
  induction l with
  | nil =>
    intro cur out calls
    cases cur with
    | none => simp [Sorter.mergeGroups]
    | some p =>
      obtain ⟨k, vs⟩ := p
      have := hmf k vs
      cases hm : mf k vs with
      | none => simp [hm] at this
      | some m => simp [Sorter.mergeGroups, hm]
  | cons e rest ih =>
    intro cur out calls
    obtain ⟨k, v⟩ := e
    cases cur with
    | none => rw [Sorter.mergeGroups]; exact ih _ _ _
    | some p =>
      obtain ⟨ck, vs⟩ := p
      rw [Sorter.mergeGroups]
      split
      · exact ih _ _ _
      · have := hmf ck vs
        cases hm : mf ck vs with
        | none => simp [hm] at this
        | some m => exact ih _ _ _

end Grenad
