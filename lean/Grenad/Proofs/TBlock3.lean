/-
  T-block, part 3a: the scan loops and the offset-table searches.
-/
import Grenad.Proofs.TBlock2

set_option linter.unusedSimpArgs false

namespace Grenad

/-! ### `takeWhile` as a specification of search -/

theorem takeWhile_spec {α : Type} (p : α → Bool) (l : List α) :
    (l.takeWhile p).length ≤ l.length ∧
    (∀ m (_ : m < (l.takeWhile p).length) (h' : m < l.length), p l[m] = true) ∧
    (∀ h : (l.takeWhile p).length < l.length, p l[(l.takeWhile p).length] = false) := by
  induction l with
  | nil => simp
  | cons a l ih =>
    by_cases hp : p a = true
    · simp only [List.takeWhile_cons, hp, if_true, List.length_cons]
      refine ⟨by omega, ?_, ?_⟩
      · intro m hm hm'
        cases m with
        | zero => simpa using hp
        | succ m => simpa using ih.2.1 m (by omega) (by simpa using hm')
      · intro h
        simpa using ih.2.2 (by omega)
    · simp only [List.takeWhile_cons, hp, List.length_cons]
      simp
      simpa using hp

theorem takeWhile_length_eq {α : Type} (p : α → Bool) (l : List α) (t : Nat) (ht : t ≤ l.length)
    (h1 : ∀ m (_ : m < t) (h' : m < l.length), p l[m] = true)
    (h2 : ∀ h : t < l.length, p l[t] = false) : (l.takeWhile p).length = t := by
  obtain ⟨s0, s1, s2⟩ := takeWhile_spec p l
  rcases Nat.lt_trichotomy (l.takeWhile p).length t with h | h | h
  · have a := s2 (by omega)
    have b := h1 _ h (by omega)
    rw [a] at b; cases b
  · exact h
  · have a := s1 t h (by omega)
    have b := h2 (by omega)
    rw [a] at b; cases b

/-! ### Ascending keys -/

theorem asc_get {es : List Entry} (h : StrictAsc es) {i j : Nat} (hij : i < j) (hj : j < es.length) :
    (es[i]'(by omega)).1 < es[j].1 := by
  have := List.pairwise_iff_getElem.mp h i j (by omega) hj hij
  exact this

theorem asc_get_le {es : List Entry} (h : StrictAsc es) {i j : Nat} (hij : i ≤ j) (hj : j < es.length) :
    (es[i]'(by omega)).1 ≤ es[j].1 := by
  rcases Nat.lt_or_ge i j with h' | h'
  · exact Std.le_of_lt (asc_get h h' hj)
  · have : i = j := by omega
    subst this; exact Std.le_refl _

theorem asc_get_ne {es : List Entry} (h : StrictAsc es) {i j : Nat} (hij : i < j) (hj : j < es.length) :
    es[j].1 ≠ (es[i]'(by omega)).1 := by
  intro he
  have := asc_get h hij hj
  rw [he] at this
  exact Std.lt_irrefl this

/-! ### The scan loops -/

section Scan

variable {es : List Entry} {b : Block}

theorem scanLast_spec (hp : b.payload = frames es)
    (hl : ∀ e ∈ es, e.1.length < 2^32 ∧ e.2.length < 2^32) :
    ∀ (fuel s : Nat) (acc : Option Nat), s ≤ es.length → es.length - s < fuel →
      BlockCursor.scanLast b fuel (offAt es s) acc
        = if s < es.length then some (offAt es (es.length - 1)) else acc := by
  intro fuel
  induction fuel with
  | zero => intro s acc _ h; omega
  | succ fuel ih =>
    intro s acc hs hf
    rcases Nat.lt_or_ge s es.length with h | h
    · simp only [BlockCursor.scanLast, entryAt_offAt hp hl h, h, if_true]
      rw [ih (s + 1) _ (by omega) (by omega)]
      by_cases h' : s + 1 < es.length
      · simp [h']
      · have : s = es.length - 1 := by omega
        simp [h', this]
    · have : s = es.length := by omega
      subst this
      simp [BlockCursor.scanLast, entryAt_offAt_end hp]

theorem scanPrev_spec (hp : b.payload = frames es)
    (hl : ∀ e ∈ es, e.1.length < 2^32 ∧ e.2.length < 2^32) (hasc : StrictAsc es)
    {i : Nat} (hi : i < es.length) :
    ∀ (fuel s : Nat) (acc : Option Nat), s ≤ i → i - s < fuel →
      BlockCursor.scanPrev b es[i].1 fuel (offAt es s) acc
        = if s < i then some (offAt es (i - 1)) else acc := by
  intro fuel
  induction fuel with
  | zero => intro s acc _ h; omega
  | succ fuel ih =>
    intro s acc hs hf
    rcases Nat.lt_or_ge s i with h | h
    · have hne : es[i].1 ≠ (es[s]'(by omega)).1 := asc_get_ne hasc h hi
      simp only [BlockCursor.scanPrev, entryAt_offAt hp hl (show s < es.length by omega), hne,
        if_false, h, if_true]
      rw [ih (s + 1) _ (by omega) (by omega)]
      by_cases h' : s + 1 < i
      · simp [h']
      · have : s = i - 1 := by omega
        simp [h', this]
    · have : s = i := by omega
      subst this
      simp [BlockCursor.scanPrev, entryAt_offAt hp hl hi]

theorem scanLe_spec (hp : b.payload = frames es)
    (hl : ∀ e ∈ es, e.1.length < 2^32 ∧ e.2.length < 2^32) (q : Bytes) {ub : Nat}
    (hub : ub ≤ es.length)
    (h1 : ∀ m (_ : m < ub) (h' : m < es.length), es[m].1 ≤ q)
    (h2 : ∀ h : ub < es.length, q < es[ub].1) :
    ∀ (fuel s : Nat) (acc : Option Nat), s ≤ ub → ub - s < fuel →
      BlockCursor.scanLe b q fuel (offAt es s) acc
        = if s < ub then some (offAt es (ub - 1)) else acc := by
  intro fuel
  induction fuel with
  | zero => intro s acc _ h; omega
  | succ fuel ih =>
    intro s acc hs hf
    rcases Nat.lt_or_ge s ub with h | h
    · have hnl : ¬ q < (es[s]'(by omega)).1 := h1 s h (by omega)
      simp only [BlockCursor.scanLe, entryAt_offAt hp hl (show s < es.length by omega), hnl,
        if_false, h, if_true]
      rw [ih (s + 1) _ (by omega) (by omega)]
      by_cases h' : s + 1 < ub
      · simp [h']
      · have : s = ub - 1 := by omega
        simp [h', this]
    · have : s = ub := by omega
      subst this
      rcases Nat.lt_or_ge s es.length with h' | h'
      · simp [BlockCursor.scanLe, entryAt_offAt hp hl h', h2 h']
      · have : s = es.length := by omega
        subst this
        simp [BlockCursor.scanLe, entryAt_offAt_end hp]

end Scan

/-! ### The offset table -/

section Table

variable {iv : Nat} {es : List Entry} {b : Block}

theorem BlockOf.offs_length (hb : BlockOf iv es b) :
    b.offsets.length = (es.length - 1) / iv + 1 := by
  rw [hb.offsets, offsetTable_length]

theorem BlockOf.offs_get? (hb : BlockOf iv es b) {m : Nat} (h : m < b.offsets.length) :
    b.offsets[m]? = some (offAt es (m * iv)) := by
  have h' : m < (es.length - 1) / iv + 1 := by rw [← hb.offs_length]; exact h
  rw [hb.offsets, offsetTable]
  simp [h']

theorem BlockOf.offs_get (hb : BlockOf iv es b) {m : Nat} (h : m < b.offsets.length) :
    b.offsets[m] = offAt es (m * iv) := by
  have := hb.offs_get? h
  rw [List.getElem?_eq_getElem h] at this
  exact Option.some.inj this

theorem BlockOf.offs_idx (hb : BlockOf iv es b) {m : Nat} (h : m < b.offsets.length) :
    m * iv ≤ es.length - 1 := by
  rw [hb.offs_length] at h
  have h1 : m ≤ (es.length - 1) / iv := by omega
  have h2 := Nat.mul_le_mul_right iv h1
  have h3 := Nat.div_mul_le_self (es.length - 1) iv
  omega

theorem BlockOf.offs_pos (hb : BlockOf iv es b) : 0 < b.offsets.length := by
  rw [hb.offs_length]; exact Nat.succ_pos _

theorem BlockOf.offs_head? (hb : BlockOf iv es b) : b.offsets.head? = some 0 := by
  rw [List.head?_eq_getElem?, hb.offs_get? hb.offs_pos]; simp

theorem BlockOf.offs_getLast? (hb : BlockOf iv es b) :
    ∃ s, b.offsets.getLast? = some (offAt es s) ∧ s ≤ es.length - 1 := by
  refine ⟨(b.offsets.length - 1) * iv, ?_, hb.offs_idx (by have := hb.offs_pos; omega)⟩
  rw [List.getLast?_eq_getElem?, hb.offs_get? (by have := hb.offs_pos; omega)]

theorem BlockOf.payload_length (hb : BlockOf iv es b) : b.payload.length = offAt es es.length := by
  rw [hb.payload, offAt_length]

theorem BlockOf.fuel (hb : BlockOf iv es b) : es.length < b.payload.length + 1 := by
  have := le_offAt es (Nat.le_refl es.length)
  rw [hb.payload_length]; omega

end Table

/-! ### Bounds -/

theorem lowerBound_eq {es : List Entry} {q : Bytes} {t : Nat} (ht : t ≤ es.length)
    (h1 : ∀ m (_ : m < t) (h' : m < es.length), es[m].1 < q)
    (h2 : ∀ h : t < es.length, ¬ es[t].1 < q) : Spec.lowerBound es q = t := by
  apply takeWhile_length_eq _ _ _ ht
  · intro m hm hm'; simpa using h1 m hm hm'
  · intro h; simpa using h2 h

theorem upperBound_eq {es : List Entry} {q : Bytes} {t : Nat} (ht : t ≤ es.length)
    (h1 : ∀ m (_ : m < t) (h' : m < es.length), es[m].1 ≤ q)
    (h2 : ∀ h : t < es.length, q < es[t].1) : Spec.upperBound es q = t := by
  apply takeWhile_length_eq _ _ _ ht
  · intro m hm hm'; simpa using h1 m hm hm'
  · intro h; simpa using h2 h

theorem upperBound_spec (es : List Entry) (q : Bytes) :
    Spec.upperBound es q ≤ es.length ∧
    (∀ m (_ : m < Spec.upperBound es q) (h' : m < es.length), es[m].1 ≤ q) ∧
    (∀ h : Spec.upperBound es q < es.length, q < es[Spec.upperBound es q].1) := by
  obtain ⟨s0, s1, s2⟩ := takeWhile_spec (fun e : Entry => decide (e.1 ≤ q)) es
  refine ⟨s0, ?_, ?_⟩
  · intro m hm hm'; simpa using s1 m hm hm'
  · intro h
    have := s2 h
    simp only [decide_eq_false_iff_not, List.not_le] at this
    exact this

end Grenad
