/-
  Proofs about the varint mirror (C14).
-/
import Grenad.Model.Varint

set_option linter.unusedSimpArgs false

namespace Grenad.Varint

theorem ofNat_toNat_lt {n : Nat} (h : n < 256) : (UInt8.ofNat n).toNat = n := by
  simp [UInt8.toNat_ofNat', Nat.mod_eq_of_lt h]

/-- Length of an encoding, as a function of the value. -/
def width (v : Nat) : Nat :=
  if v < 2^7 then 1 else if v < 2^14 then 2 else if v < 2^21 then 3 else if v < 2^28 then 4 else 5

theorem encode32_length (v : Nat) : (encode32 v).length = width v := by
  unfold encode32 width
  repeat' split
  all_goals simp

private abbrev P : UInt8 → Bool := fun b => decide (128 ≤ b.toNat)

private theorem tw_ge {b : UInt8} {l : Bytes} (h : 128 ≤ b.toNat) :
    List.takeWhile P (b :: l) = b :: List.takeWhile P l := by
  simp [List.takeWhile, P, h]

private theorem tw_lt {b : UInt8} {l : Bytes} (h : b.toNat < 128) :
    List.takeWhile P (b :: l) = [] := by
  have : ¬ (128 ≤ b.toNat) := by omega
  simp [List.takeWhile, P, this]

theorem decode_encode (v : Nat) (hv : v < 2^32) (rest : Bytes) :
    decode32 (encode32 v ++ rest) = some (v, (encode32 v).length) := by
  unfold encode32
  split
  · rename_i h
    have h0 : (UInt8.ofNat v).toNat = v := ofNat_toNat_lt (by omega)
    have l0 : (UInt8.ofNat v).toNat < 128 := by omega
    simp only [decode32, lengthPacked, List.cons_append, List.nil_append, List.take_succ_cons, tw_lt l0]
    simp [h0]
    omega
  · split
    · rename_i h1 h2
      have a0 : (UInt8.ofNat (v % 128 + 128)).toNat = v % 128 + 128 := ofNat_toNat_lt (by omega)
      have a1 : (UInt8.ofNat (v / 2^7)).toNat = v / 2^7 := ofNat_toNat_lt (by omega)
      have g0 : 128 ≤ (UInt8.ofNat (v % 128 + 128)).toNat := by omega
      have l1 : (UInt8.ofNat (v / 2^7)).toNat < 128 := by omega
      simp only [decode32, lengthPacked, List.cons_append, List.nil_append, List.take_succ_cons,
        tw_ge g0, tw_lt l1]
      simp [a0, a1]
      omega
    · split
      · rename_i h1 h2 h3
        have a0 : (UInt8.ofNat (v % 128 + 128)).toNat = v % 128 + 128 := ofNat_toNat_lt (by omega)
        have a1 : (UInt8.ofNat (v / 2^7 % 128 + 128)).toNat = v / 2^7 % 128 + 128 := ofNat_toNat_lt (by omega)
        have a2 : (UInt8.ofNat (v / 2^14)).toNat = v / 2^14 := ofNat_toNat_lt (by omega)
        have g0 : 128 ≤ (UInt8.ofNat (v % 128 + 128)).toNat := by omega
        have g1 : 128 ≤ (UInt8.ofNat (v / 2^7 % 128 + 128)).toNat := by omega
        have l2 : (UInt8.ofNat (v / 2^14)).toNat < 128 := by omega
        simp only [decode32, lengthPacked, List.cons_append, List.nil_append, List.take_succ_cons,
          tw_ge g0, tw_ge g1, tw_lt l2]
        simp [a0, a1, a2]
        omega
      · split
        · rename_i h1 h2 h3 h4
          have a0 : (UInt8.ofNat (v % 128 + 128)).toNat = v % 128 + 128 := ofNat_toNat_lt (by omega)
          have a1 : (UInt8.ofNat (v / 2^7 % 128 + 128)).toNat = v / 2^7 % 128 + 128 := ofNat_toNat_lt (by omega)
          have a2 : (UInt8.ofNat (v / 2^14 % 128 + 128)).toNat = v / 2^14 % 128 + 128 := ofNat_toNat_lt (by omega)
          have a3 : (UInt8.ofNat (v / 2^21)).toNat = v / 2^21 := ofNat_toNat_lt (by omega)
          have g0 : 128 ≤ (UInt8.ofNat (v % 128 + 128)).toNat := by omega
          have g1 : 128 ≤ (UInt8.ofNat (v / 2^7 % 128 + 128)).toNat := by omega
          have g2 : 128 ≤ (UInt8.ofNat (v / 2^14 % 128 + 128)).toNat := by omega
          have l3 : (UInt8.ofNat (v / 2^21)).toNat < 128 := by omega
          simp only [decode32, lengthPacked, List.cons_append, List.nil_append, List.take_succ_cons,
            tw_ge g0, tw_ge g1, tw_ge g2, tw_lt l3]
          simp [a0, a1, a2, a3]
          omega
        · rename_i h1 h2 h3 h4
          have a0 : (UInt8.ofNat (v % 128 + 128)).toNat = v % 128 + 128 := ofNat_toNat_lt (by omega)
          have a1 : (UInt8.ofNat (v / 2^7 % 128 + 128)).toNat = v / 2^7 % 128 + 128 := ofNat_toNat_lt (by omega)
          have a2 : (UInt8.ofNat (v / 2^14 % 128 + 128)).toNat = v / 2^14 % 128 + 128 := ofNat_toNat_lt (by omega)
          have a3 : (UInt8.ofNat (v / 2^21 % 128 + 128)).toNat = v / 2^21 % 128 + 128 := ofNat_toNat_lt (by omega)
          have a4 : (UInt8.ofNat (v / 2^28)).toNat = v / 2^28 := ofNat_toNat_lt (by omega)
          have g0 : 128 ≤ (UInt8.ofNat (v % 128 + 128)).toNat := by omega
          have g1 : 128 ≤ (UInt8.ofNat (v / 2^7 % 128 + 128)).toNat := by omega
          have g2 : 128 ≤ (UInt8.ofNat (v / 2^14 % 128 + 128)).toNat := by omega
          have g3 : 128 ≤ (UInt8.ofNat (v / 2^21 % 128 + 128)).toNat := by omega
          have l4 : (UInt8.ofNat (v / 2^28)).toNat < 128 := by omega
          simp only [decode32, lengthPacked, List.cons_append, List.nil_append, List.take_succ_cons,
            tw_ge g0, tw_ge g1, tw_ge g2, tw_ge g3, tw_lt l4]
          simp [a0, a1, a2, a3, a4]
          omega

end Grenad.Varint
