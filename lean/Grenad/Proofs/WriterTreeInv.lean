/-
  T-writer, part 4: the tree invariant `TInv` of the index writers and its preservation by the
  elementary steps (`cutAt`, `dataAt`, `rootAt`).
-/
import Grenad.Proofs.WriterTreeSteps

namespace Grenad

open WT

/-- Invariant of `(idx, out, log)`: `content` is the concatenation, root level first, of the leaf
    content below the pending entries of each index writer; every pending entry points to an
    already emitted well-formed subtree. -/
structure TInv (cd : Codec) (iv n : Nat) (content : List Entry) (s : WSt) : Prop where
  len : s.1.length = n
  lay : Lay cd s.2.2 s.2.1
  logok : ∀ e ∈ s.2.2, ∃ w, BW.Made iv w ∧ e.raw = w.finish ∧ e.items = w.items
  tree : ∃ K : List Kids, K.length = n ∧ content = (K.map flatOf).flatten ∧
    ∀ j w, s.1[j]? = some w → BW.Made iv w ∧ ∃ ks, K[j]? = some ks ∧ w.items = img ks ∧
      ∀ k ∈ ks, Sub (storeOf s.2.2) (lvlOf s.2.2) (n - j - 1) k.1 k.2

theorem WT.u32Max_of_lt {n : Nat} (h : n < 2 ^ 32) : n ≤ u32Max := by
  unfold u32Max; omega

theorem TInv.init (cd : Codec) (iv n : Nat) :
    TInv cd iv n [] (List.replicate n (BW.new iv), [], []) := by
  refine ⟨by simp, Lay.nil, by simp, List.replicate n [], by simp, ?_, ?_⟩
  · symm; rw [List.flatten_eq_nil_iff]; intro l hl; simp at hl; exact hl.2
  · intro j w hj
    simp only at hj
    obtain ⟨hj', hw⟩ := List.getElem?_eq_some_iff.mp hj
    simp at hj' hw
    subst hw
    refine ⟨BW.Made.new, [], ?_, rfl, by simp⟩
    simp [hj']

/-- Facts extracted for a non-empty pending writer. -/
theorem pending_facts {iv n : Nat} {idx : List BW} {log : List Emitted} {K : List Kids}
    (htree : ∀ (j : Nat) (w : BW), idx[j]? = some w → BW.Made iv w ∧ ∃ ks, K[j]? = some ks ∧
        w.items = img ks ∧ ∀ k ∈ ks, Sub (storeOf log) (lvlOf log) (n - j - 1) k.1 k.2)
    {j : Nat} {w : BW} {ks : Kids} {lk : Bytes} (hw : idx[j]? = some w) (hK : K[j]? = some ks)
    (hlk : w.lastKey = some lk) :
    ks ≠ [] ∧ (∀ k ∈ ks, k.2 ≠ []) ∧ lk = lastKey (flatOf ks) ∧ w.items ≠ [] := by
  obtain ⟨rw', ks', hK', hi, hs'⟩ := htree j w hw
  rw [hK] at hK'; cases hK'
  obtain ⟨hne, hlkeq⟩ := rw'.lastKey_some hlk
  have hks : ks ≠ [] := by intro h0; rw [h0] at hi; exact hne hi
  have hfl : ∀ k ∈ ks, k.2 ≠ [] := fun k hk => (hs' k hk).flat_ne_nil
  exact ⟨hks, hfl, by rw [hlkeq, hi, lastKey_img hks hfl], hne⟩

theorem TInv.cut {cd : Codec} {iv n : Nat} {content : List Entry} (hasc : StrictAsc content)
    (hkeys : ∀ e ∈ content, e.1.length < 2 ^ 32)
    {i : Nat} {idx : List BW} {out : Bytes} {log : List Emitted} {cur parent : BW} {lk : Bytes}
    (h : TInv cd iv n content (idx, out, log))
    (hc : idx[i + 1]? = some cur) (hp : idx[i]? = some parent) (hlk : cur.lastKey = some lk) :
    ∃ p', parent.insert lk (be64 out.length) = .ok p' ∧
      TInv cd iv n content (cutAt cd i cur p' (idx, out, log)) := by
  obtain ⟨hlen, hlay, hlog, K, hKl, hcont, htree⟩ := h
  simp only at hlen hlay hlog htree
  obtain ⟨rcur, ks1, hK1, hi1, hs1⟩ := htree _ _ hc
  obtain ⟨rpar, ks0, hK0, hi0, hs0⟩ := htree _ _ hp
  obtain ⟨hks1, hfl1, hlk', hne⟩ := pending_facts htree hc hK1 hlk
  obtain ⟨b, hb, hbk⟩ := exists_mem_lastKey (flatOf_ne_nil hks1 hfl1)
  have hbc : b ∈ content := by rw [hcont]; exact mem_content hK1 hb
  have hklen : lk.length ≤ u32Max := by
    apply u32Max_of_lt; have := hkeys b hbc; rw [hbk, ← hlk'] at this; exact this
  have hord : ∀ plk, parent.lastKey = some plk → plk < lk := by
    intro plk hplk
    obtain ⟨hks0, hfl0, hplk', -⟩ := pending_facts htree hp hK0 hplk
    obtain ⟨a, ha, hak⟩ := exists_mem_lastKey (flatOf_ne_nil hks0 hfl0)
    have := content_order (hcont ▸ hasc) hK0 hK1 (Nat.lt_succ_self i) ha hb
    rw [hplk', ← hak, hlk', ← hbk]; exact this
  obtain ⟨p', hp'⟩ := BW.wt_insert_ok (v := be64 out.length) hklen (by simp [u32Max]) hord
  refine ⟨p', hp', ?_⟩
  obtain ⟨s1, -⟩ := BW.wt_insert_spec hp'
  have hin : i + 1 < n := by
    obtain ⟨h', -⟩ := List.getElem?_eq_some_iff.mp hc; omega
  have hfresh : ∀ e' ∈ log, e'.offset ≠ out.length := by
    intro e' he'; have := hlay.offset_lt e' he'; omega
  obtain ⟨hst, hlv⟩ := storeOf_append_new
    ⟨out.length, idx.length - (i + 1), cur.finish, cur.items⟩ hfresh
  simp only at hst hlv
  have hsubnew : Sub (storeOf (log ++ [⟨out.length, idx.length - (i + 1), cur.finish, cur.items⟩])) (lvlOf (log ++ [⟨out.length, idx.length - (i + 1), cur.finish, cur.items⟩]))
        (n - i - 1) out.length (flatOf ks1) := by
    have : n - i - 1 = (n - (i + 1) - 1) + 1 := by omega
    rw [this]
    apply Sub.node' _ _ ks1 hks1
    · rw [← hi1]; exact hst
    · rw [hlv, hlen]; omega
    · intro k hk; exact (hs1 k hk).mono_append _
  refine ⟨by simp [cutAt, hlen], Lay.snoc _ hlay rfl, ?_,
    (K.set i (ks0 ++ [(out.length, flatOf ks1)])).set (i + 1) [], by simp [hKl], ?_, ?_⟩
  · intro e' he'
    simp only [cutAt, List.mem_append, List.mem_singleton] at he'
    rcases he' with he' | rfl
    · exact hlog e' he'
    · exact ⟨cur, rcur, rfl, rfl⟩
  · rw [flatten_move K i ks0 ks1 _ hK0 hK1]; exact hcont
  · intro j w hj
    simp only [cutAt] at hj ⊢
    by_cases hj1 : j = i + 1
    · subst hj1
      rw [List.getElem?_set_self (by simp; omega)] at hj
      cases hj
      rw [rcur.reset]
      refine ⟨BW.Made.new, [], ?_, rfl, by simp⟩
      rw [List.getElem?_set_self (by simp; omega)]
    · by_cases hj0 : j = i
      · subst hj0
        rw [List.getElem?_set_ne (by omega), List.getElem?_set_self (by omega)] at hj
        cases hj
        refine ⟨BW.Made.insert rpar hp', ks0 ++ [(out.length, flatOf ks1)], ?_, ?_, ?_⟩
        · rw [List.getElem?_set_ne (by omega), List.getElem?_set_self (by omega)]
        · rw [s1, hi0, img_append, img_singleton, hlk']
        · intro k hk
          rcases List.mem_append.mp hk with hk | hk
          · exact (hs0 k hk).mono_append _
          · simp only [List.mem_singleton] at hk; subst hk; exact hsubnew
      · rw [List.getElem?_set_ne (by omega), List.getElem?_set_ne (by omega)] at hj
        obtain ⟨rw', ks, hK', hi', hs'⟩ := htree j w hj
        refine ⟨rw', ks, ?_, hi', fun k hk => (hs' k hk).mono_append _⟩
        rw [List.getElem?_set_ne (by omega), List.getElem?_set_ne (by omega)]; exact hK'

/-- Emission of a data block. -/
theorem TInv.data {cd : Codec} {iv n : Nat} {content : List Entry} {bw : BW}
    (hasc : StrictAsc (content ++ bw.items))
    (hkeys : ∀ e ∈ content ++ bw.items, e.1.length < 2 ^ 32)
    {idx : List BW} {out : Bytes} {log : List Emitted} {parent : BW} {lk : Bytes}
    (h : TInv cd iv n content (idx, out, log)) (rbw : BW.Made iv bw)
    (hp : idx[n - 1]? = some parent) (hlk : bw.lastKey = some lk) :
    ∃ p', parent.insert lk (be64 out.length) = .ok p' ∧
      TInv cd iv n (content ++ bw.items) (dataAt cd (n - 1) bw p' (idx, out, log)) := by
  obtain ⟨hlen, hlay, hlog, K, hKl, hcont, htree⟩ := h
  simp only at hlen hlay hlog htree
  obtain ⟨rpar, ks0, hK0, hi0, hs0⟩ := htree _ _ hp
  obtain ⟨hne, hlkeq⟩ := rbw.lastKey_some hlk
  obtain ⟨b, hb, hbk⟩ := exists_mem_lastKey hne
  have hklen : lk.length ≤ u32Max := by
    apply u32Max_of_lt
    have := hkeys b (List.mem_append_right _ hb); rw [hbk, ← hlkeq] at this; exact this
  have hord : ∀ plk, parent.lastKey = some plk → plk < lk := by
    intro plk hplk
    obtain ⟨hks0, hfl0, hplk', -⟩ := pending_facts htree hp hK0 hplk
    obtain ⟨a, ha, hak⟩ := exists_mem_lastKey (flatOf_ne_nil hks0 hfl0)
    have hac : a ∈ content := by rw [hcont]; exact mem_content hK0 ha
    have := hasc.lt_of_append hac hb
    rw [hplk', ← hak, hlkeq, ← hbk]; exact this
  obtain ⟨p', hp'⟩ := BW.wt_insert_ok (v := be64 out.length) hklen (by simp [u32Max]) hord
  refine ⟨p', hp', ?_⟩
  obtain ⟨s1, -⟩ := BW.wt_insert_spec hp'
  have hn : 0 < n := by
    obtain ⟨h', -⟩ := List.getElem?_eq_some_iff.mp hp; omega
  have hfresh : ∀ e' ∈ log, e'.offset ≠ out.length := by
    intro e' he'; have := hlay.offset_lt e' he'; omega
  obtain ⟨hst, hlv⟩ := storeOf_append_new
    ⟨out.length, 0, bw.finish, bw.items⟩ hfresh
  simp only at hst hlv
  have hsubnew : Sub (storeOf (log ++ [⟨out.length, 0, bw.finish, bw.items⟩])) (lvlOf (log ++ [⟨out.length, 0, bw.finish, bw.items⟩]))
        (n - (n - 1) - 1) out.length bw.items := by
    have : n - (n - 1) - 1 = 0 := by omega
    rw [this]
    exact Sub.leaf _ _ hst hne hlv
  refine ⟨by simp [dataAt, hlen], Lay.snoc _ hlay rfl, ?_,
    K.set (n - 1) (ks0 ++ [(out.length, bw.items)]), by simp [hKl], ?_, ?_⟩
  · intro e' he'
    simp only [dataAt, List.mem_append, List.mem_singleton] at he'
    rcases he' with he' | rfl
    · exact hlog e' he'
    · exact ⟨bw, rbw, rfl, rfl⟩
  · rw [flatten_push K (n - 1) ks0 _ hK0 (by omega), hcont]
  · intro j w hj
    simp only [dataAt] at hj ⊢
    by_cases hj0 : j = n - 1
    · subst hj0
      rw [List.getElem?_set_self (by omega)] at hj
      cases hj
      refine ⟨BW.Made.insert rpar hp', ks0 ++ [(out.length, bw.items)], ?_, ?_, ?_⟩
      · rw [List.getElem?_set_self (by omega)]
      · rw [s1, hi0, img_append, img_singleton, hlkeq]
      · intro k hk
        rcases List.mem_append.mp hk with hk | hk
        · exact (hs0 k hk).mono_append _
        · simp only [List.mem_singleton] at hk; subst hk; exact hsubnew
    · rw [List.getElem?_set_ne (by omega)] at hj
      obtain ⟨rw', ks, hK', hi', hs'⟩ := htree j w hj
      refine ⟨rw', ks, ?_, hi', fun k hk => (hs' k hk).mono_append _⟩
      rw [List.getElem?_set_ne (by omega)]; exact hK'

/-- What holds once the root block has been written. -/
structure TFinal (cd : Codec) (iv n : Nat) (content : List Entry) (s : WSt) (r : Nat) : Prop where
  len : s.1.length = n
  lay : Lay cd s.2.2 s.2.1
  logok : ∀ e ∈ s.2.2, ∃ w, BW.Made iv w ∧ e.raw = w.finish ∧ e.items = w.items
  root : r < s.2.1.length
  tree : (content = [] ∧ storeOf s.2.2 r = some []) ∨
    Sub (storeOf s.2.2) (lvlOf s.2.2) n r content

theorem flatten_only_head (K : List Kids) (ks : Kids) (h0 : K[0]? = some ks)
    (hrest : ∀ j ks', 1 ≤ j → K[j]? = some ks' → ks' = []) :
    (K.map flatOf).flatten = flatOf ks := by
  cases K with
  | nil => simp at h0
  | cons a K =>
    simp at h0; subst h0
    have : (K.map flatOf).flatten = [] := by
      rw [List.flatten_eq_nil_iff]
      intro l hl
      obtain ⟨ks', hks', rfl⟩ := List.mem_map.mp hl
      obtain ⟨j, hj, hjk⟩ := List.getElem_of_mem hks'
      have := hrest (j + 1) ks' (by omega) (by simp [hj, hjk])
      simp [this]
    simp [this]

theorem TInv.root {cd : Codec} {iv n : Nat} {content : List Entry}
    {idx : List BW} {out : Bytes} {log : List Emitted} {cur : BW}
    (h : TInv cd iv n content (idx, out, log))
    (hempty : ∀ j w, 1 ≤ j → idx[j]? = some w → w.items = [])
    (hc : idx[0]? = some cur) :
    TFinal cd iv n content (rootAt cd cur (idx, out, log)) out.length := by
  obtain ⟨hlen, hlay, hlog, K, hKl, hcont, htree⟩ := h
  simp only at hlen hlay hlog htree
  obtain ⟨rcur, ks0, hK0, hi0, hs0⟩ := htree _ _ hc
  have hn : 0 < n := by
    obtain ⟨h', -⟩ := List.getElem?_eq_some_iff.mp hc; omega
  have hcont' : content = flatOf ks0 := by
    rw [hcont]
    apply flatten_only_head K ks0 hK0
    intro j ks' hj hK'
    have hjn : j < idx.length := by
      obtain ⟨h', -⟩ := List.getElem?_eq_some_iff.mp hK'; omega
    obtain ⟨-, ks'', hK'', hi'', -⟩ := htree j idx[j] (by simp [hjn])
    rw [hK'] at hK''; cases hK''
    have := hempty j idx[j] hj (by simp [hjn])
    rw [this] at hi''
    exact img_eq_nil.mp hi''.symm
  have hfresh : ∀ e' ∈ log, e'.offset ≠ out.length := by
    intro e' he'; have := hlay.offset_lt e' he'; omega
  obtain ⟨hst, hlv⟩ := storeOf_append_new
    ⟨out.length, idx.length, cur.finish, cur.items⟩ hfresh
  simp only at hst hlv
  refine ⟨by simp [rootAt, hlen], Lay.snoc _ hlay rfl, ?_, ?_, ?_⟩
  · intro e' he'
    simp only [rootAt, List.mem_append, List.mem_singleton] at he'
    rcases he' with he' | rfl
    · exact hlog e' he'
    · exact ⟨cur, rcur, rfl, rfl⟩
  · simp [rootAt, blockBytes_length]; omega
  · simp only [rootAt]
    by_cases hks : ks0 = []
    · left
      subst hks
      exact ⟨hcont', by rw [hst, hi0]; rfl⟩
    · right
      rw [hcont']
      have : n = (n - 1) + 1 := by omega
      rw [this]
      apply Sub.node' _ _ ks0 hks
      · rw [← hi0]; exact hst
      · rw [hlv, hlen]; omega
      · intro k hk
        have := (hs0 k hk).mono_append
          [⟨out.length, idx.length, cur.finish, cur.items⟩]
        simpa using this

end Grenad
