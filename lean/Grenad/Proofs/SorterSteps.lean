/-
  Grenad.Proofs.SorterSteps — the sorter's operations preserve a content invariant, whatever the
  reason for a spill or a chunk merge.  The spill is parameterised by the key-sorted permutation
  it writes (`insertWith` / `finishWith`; the stable sort gives back `Sorter.insert` / `finish`).
-/
import Grenad.Proofs.SorterContent

namespace Grenad
open Sorter

/-! ### `Entries`: what happens to `items` -/

theorem store_items {e e' : Entries} {k v : Bytes} (h : Entries.store e k v = .ok e') :
    e'.items = e.items ++ [(k, v)] := by
  unfold Entries.store at h
  simp only at h
  split at h; · cases h
  split at h; · cases h
  split at h; · cases h
  cases h; rfl

theorem reallocate_items {e e' : Entries} {ev : List SEvent}
    (h : Entries.reallocate e = .ok (e', ev)) : e'.items = e.items := by
  unfold Entries.reallocate at h
  split at h; · cases h
  split at h; · cases h
  split at h
  · cases h
  · split at h
    · cases h; rfl
    · cases h

theorem insert_items : ∀ (fuel : Nat) (e e' : Entries) (k v : Bytes) (ev : List SEvent),
    Entries.insert e k v fuel = .ok (e', ev) → e'.items = e.items ++ [(k, v)] := by
  intro fuel
  induction fuel with
  | zero => intro e e' k v ev h; simp [Entries.insert] at h
  | succ fuel ih =>
    intro e e' k v ev h
    unfold Entries.insert at h
    split at h; · cases h
    split at h; · cases h
    split at h
    · cases h
    · cases hs : Entries.store e k v with
      | error t => rw [hs] at h; cases h
      | ok e1 =>
        rw [hs] at h
        simp only [Except.map] at h
        cases h
        exact store_items hs
    · split at h
      · cases h
      · rename_i e1 ev1 hr
        split at h
        · cases h
        · rename_i e2 ev2 hi
          cases h
          rw [ih _ _ _ _ _ hi, reallocate_items hr]

/-! ### The sorter with an explicit spill order -/

/-- `Sorter.insert` where each spill writes `srt s`, a key-sorted permutation of the pending
    entries chosen from the whole sorter state (so: any choice at each spill). -/
def insertWith (mf : MergeFn) (srt : Sorter → List Entry) (s : Sorter) (k v : Bytes) :
    Except SErr Sorter :=
  match s.entries.fits k v with
  | .error t => .error (.trap t)
  | .ok fit =>
    let thresholdExceeded := decide (s.entries.bufLen ≥ s.cfg.budget)
    if fit || (!thresholdExceeded && s.cfg.allowRealloc) then
      match s.entries.insert k v 64 with
      | .error t => .error (.trap t)
      | .ok (e, ev) => .ok { s with entries := e, events := s.events ++ ev }
    else
      match writeChunkWith mf s (srt s) with
      | .error e => .error e
      | .ok s =>
        match s.entries.insert k v 64 with
        | .error t => .error (.trap t)
        | .ok (e, ev) =>
          let s := { s with entries := e, events := s.events ++ ev }
          if s.chunks.length ≥ s.cfg.maxNb then mergeChunks mf s else .ok s

def finishChunksWith (mf : MergeFn) (srt : Sorter → List Entry) (s : Sorter) : Except SErr Sorter :=
  match writeChunkWith mf s (srt s) with
  | .error e => .error e
  | .ok s =>
    match s.entries.drop with
    | .error t => .error (.trap t)
    | .ok (e, ev) => .ok { s with entries := e, events := s.events ++ ev }

def finishWith (mf : MergeFn) (srt : Sorter → List Entry) (s : Sorter) :
    Except SErr (List Entry × Sorter) :=
  match finishChunksWith mf srt s with
  | .error e => .error e
  | .ok s =>
    match Merger.run mf s.chunks with
    | (none, _) => .error .merge
    | (some out, m) => .ok (out, { s with calls := s.calls ++ m.calls.reverse })

/-- Insert all of `kvs`, then finish. -/
def runWith (mf : MergeFn) (srt : Sorter → List Entry) : Sorter → List Entry →
    Except SErr (List Entry × Sorter)
  | s, [] => finishWith mf srt s
  | s, (k, v) :: r =>
    match insertWith mf srt s k v with
    | .error e => .error e
    | .ok s' => runWith mf srt s' r

/-- The spill order of the model: the stable sort. -/
def stableSrt : Sorter → List Entry := fun s => sortStable s.entries.items

theorem insertWith_stable (mf : MergeFn) (s : Sorter) (k v : Bytes) :
    insertWith mf stableSrt s k v = Sorter.insert mf s k v := rfl

theorem finishWith_stable (mf : MergeFn) (s : Sorter) :
    finishWith mf stableSrt s = Sorter.finish mf s := rfl

/-- What a spill may write: a key-sorted permutation of the pending entries. -/
def SortOracle (srt : Sorter → List Entry) : Prop :=
  ∀ s, (srt s).Perm s.entries.items ∧ KeySorted (srt s)

theorem stableSrt_oracle : SortOracle stableSrt :=
  fun _ => ⟨sortStable_perm _, sortStable_sorted _⟩

/-! ### Outcomes -/

/-- The call trapped, or returned a value satisfying `Q`; it did not report a merge error. -/
def OkOr {α : Type} (r : Except SErr α) (Q : α → Prop) : Prop :=
  match r with
  | .ok a => Q a
  | .error (.trap _) => True
  | .error .merge => False

theorem OkOr.imp {α : Type} {r : Except SErr α} {Q Q' : α → Prop} (himp : ∀ a, Q a → Q' a)
    (h : OkOr r Q) : OkOr r Q' := by
  cases r with
  | ok a => exact himp a h
  | error e => cases e <;> exact h

theorem writeChunkWith_ok (mf' : Bytes → List Bytes → Bytes) (s : Sorter) {sorted : List Entry}
    (hs : KeySorted sorted) :
    writeChunkWith (tot mf') s sorted =
      .ok { s with chunks := s.chunks ++ [G mf' sorted], entries := s.entries.clear,
                   events := s.events ++ [.create], calls := s.calls ++ Spec.group sorted } := by
  unfold writeChunkWith
  rw [mergeGroups_sorted mf' hs]

theorem mergeChunks_ok (mf' : Bytes → List Bytes → Bytes) (s : Sorter) (hasc : AllAsc s.chunks) :
    ∃ s', mergeChunks (tot mf') s = .ok s' ∧ s'.chunks = [Spec.mergeSpec mf' s.chunks] ∧
      s'.entries = s.entries := by
  unfold mergeChunks
  have h := run_total mf' s.chunks hasc
  cases hrun : Merger.run (tot mf') s.chunks with
  | mk o m =>
    rw [hrun] at h
    simp only at h
    subst h
    exact ⟨_, rfl, rfl, rfl⟩

/-! ### Content invariants -/

/-- A predicate on (chunks, pending entries, inserted so far) that every sorter operation keeps. -/
structure ContentInv (mf' : Bytes → List Bytes → Bytes) (srt : Sorter → List Entry)
    (P : List (List Entry) → List Entry → List Entry → Prop) : Prop where
  asc : ∀ {cs items kvs}, P cs items kvs → AllAsc cs
  push : ∀ {cs items kvs} (e : Entry), P cs items kvs → P cs (items ++ [e]) (kvs ++ [e])
  spill : ∀ (s : Sorter) {kvs}, P s.chunks s.entries.items kvs →
    P (s.chunks ++ [G mf' (srt s)]) [] kvs
  merge : ∀ {cs items kvs}, P cs items kvs → P [Spec.mergeSpec mf' cs] items kvs

variable {mf' : Bytes → List Bytes → Bytes} {srt : Sorter → List Entry}
  {P : List (List Entry) → List Entry → List Entry → Prop}

theorem insertWith_inv (I : ContentInv mf' srt P) (ho : SortOracle srt) (s : Sorter)
    (kvs : List Entry) (k v : Bytes) (hP : P s.chunks s.entries.items kvs) :
    OkOr (insertWith (tot mf') srt s k v)
      (fun s' => P s'.chunks s'.entries.items (kvs ++ [(k, v)])) := by
  unfold insertWith
  split
  · exact trivial
  · rename_i fit _
    simp only
    split
    · split
      · exact trivial
      · rename_i e ev hi
        simp only [OkOr]
        rw [insert_items _ _ _ _ _ _ hi]
        exact I.push _ hP
    · rw [writeChunkWith_ok mf' s (ho s).2]
      simp only
      split
      · exact trivial
      · rename_i e ev hi
        have hitems : e.items = [] ++ [(k, v)] := insert_items _ _ _ _ _ _ hi
        have hP1 := I.push (k, v) (I.spill s hP)
        rw [← hitems] at hP1
        split
        · obtain ⟨s', hs', hc, he⟩ := mergeChunks_ok mf'
            { s with chunks := s.chunks ++ [G mf' (srt s)], entries := e,
                     events := s.events ++ [.create] ++ ev,
                     calls := s.calls ++ Spec.group (srt s) } (I.asc hP1)
          rw [hs']
          simp only [OkOr]
          rw [hc, he]
          exact I.merge hP1
        · exact hP1

theorem finishWith_inv (I : ContentInv mf' srt P) (ho : SortOracle srt) (s : Sorter)
    (kvs : List Entry) (hP : P s.chunks s.entries.items kvs) :
    OkOr (finishWith (tot mf') srt s)
      (fun r => ∃ cs, P cs [] kvs ∧ r.1 = Spec.mergeSpec mf' cs) := by
  unfold finishWith finishChunksWith
  rw [writeChunkWith_ok mf' s (ho s).2]
  simp only
  split
  · rename_i e he
    split at he
    · cases he; exact trivial
    · cases he
  · rename_i s1 hs1
    split at hs1
    · cases hs1
    · rename_i e ev hd
      cases hs1
      simp only
      have hP1 := I.spill s hP
      have h := run_total mf' _ (I.asc hP1)
      cases hrun : Merger.run (tot mf') (s.chunks ++ [G mf' (srt s)]) with
      | mk o m =>
        rw [hrun] at h
        simp only at h
        subst h
        exact ⟨_, hP1, rfl⟩

theorem runWith_inv (I : ContentInv mf' srt P) (ho : SortOracle srt) :
    ∀ (kvs : List Entry) (s : Sorter) (kvs0 : List Entry), P s.chunks s.entries.items kvs0 →
    OkOr (runWith (tot mf') srt s kvs)
      (fun r => ∃ cs, P cs [] (kvs0 ++ kvs) ∧ r.1 = Spec.mergeSpec mf' cs) := by
  intro kvs
  induction kvs with
  | nil =>
    intro s kvs0 hP
    simp only [runWith, List.append_nil]
    exact finishWith_inv I ho s kvs0 hP
  | cons e r ih =>
    intro s kvs0 hP
    obtain ⟨k, v⟩ := e
    simp only [runWith]
    have h := insertWith_inv I ho s kvs0 k v hP
    cases hi : insertWith (tot mf') srt s k v with
    | error err =>
      rw [hi] at h
      cases err with
      | trap t => exact trivial
      | merge => exact h.elim
    | ok s' =>
      rw [hi] at h
      simp only [OkOr] at h
      have := ih s' (kvs0 ++ [(k, v)]) h
      simpa using this

theorem new_state {cfg : SCfg} {s0 : Sorter} (h : Sorter.new cfg = .ok s0) :
    s0.chunks = [] ∧ s0.entries.items = [] := by
  unfold Sorter.new at h
  simp only at h
  split at h
  · cases h
  · rename_i e ev hw
    cases h
    unfold Entries.withCapacity at hw
    split at hw
    · cases hw
    · cases hw; exact ⟨rfl, rfl⟩

/-! ### Instances of the invariant -/

/-- Relations between value lists under which the content is tracked (`=` or `Perm`). -/
structure ValRel (ρ : List Bytes → List Bytes → Prop) : Prop where
  refl : ∀ a, ρ a a
  trans : ∀ {a b c}, ρ a b → ρ b c → ρ a c
  app : ∀ {a a' b b'}, ρ a a' → ρ b b' → ρ (a ++ b) (a' ++ b')

theorem valRel_eq : ValRel (· = ·) :=
  ⟨fun _ => rfl, fun h1 h2 => h1.trans h2, fun h1 h2 => by rw [h1, h2]⟩

theorem valRel_perm : ValRel List.Perm :=
  ⟨fun _ => List.Perm.refl _, fun h1 h2 => h1.trans h2, fun h1 h2 => h1.append h2⟩

/-- Key-wise relation between two entry lists. -/
def KW (ρ : List Bytes → List Bytes → Prop) (l l' : List Entry) : Prop :=
  ∀ k, ρ (valsOf k l) (valsOf k l')

/-- The chunks are the grouped-and-merged images of consecutive parts of what was inserted. -/
def PContent (mf' : Bytes → List Bytes → Bytes) (ρ : List Bytes → List Bytes → Prop)
    (cs : List (List Entry)) (items kvs : List Entry) : Prop :=
  ∃ parts : List (List Entry), cs = parts.map (G mf') ∧ KW ρ (parts.flatten ++ items) kvs

theorem pcontent_inv (mf' : Bytes → List Bytes → Bytes) (law : MergeLaw mf')
    {ρ : List Bytes → List Bytes → Prop} (hρ : ValRel ρ) (srt : Sorter → List Entry)
    (hsrt : ∀ s, KW ρ (srt s) s.entries.items) :
    ContentInv mf' srt (PContent mf' ρ) where
  asc := by
    rintro cs items kvs ⟨parts, rfl, _⟩ c hc
    obtain ⟨S, _, rfl⟩ := List.mem_map.mp hc
    exact G_asc mf' S
  push := by
    rintro cs items kvs e ⟨parts, hcs, hkw⟩
    refine ⟨parts, hcs, fun k => ?_⟩
    rw [← List.append_assoc, valsOf_append k (parts.flatten ++ items) [e], valsOf_append k kvs [e]]
    exact hρ.app (hkw k) (hρ.refl _)
  spill := by
    rintro s kvs ⟨parts, hcs, hkw⟩
    refine ⟨parts ++ [srt s], by rw [hcs]; simp, fun k => ?_⟩
    refine hρ.trans ?_ (hkw k)
    simp only [List.flatten_append, List.flatten_cons, List.flatten_nil, List.append_nil,
      valsOf_append]
    exact hρ.app (hρ.refl _) (hsrt s k)
  merge := by
    rintro cs items kvs ⟨parts, hcs, hkw⟩
    refine ⟨[parts.flatten], ?_, by simpa using hkw⟩
    rw [hcs, mergeSpec_eq_G, G_flatten_law mf' law]
    rfl

/-- Keys only (no law on the merge function). -/
def PKeys (cs : List (List Entry)) (items kvs : List Entry) : Prop :=
  AllAsc cs ∧ ∀ k, (k ∈ cs.flatten.map (·.1) ∨ k ∈ items.map (·.1)) ↔ k ∈ kvs.map (·.1)

theorem pkeys_init : PKeys [] [] [] := by
  constructor
  · intro s hs; cases hs
  · intro k; simp

theorem mergeSpec_keys' (mf' : Bytes → List Bytes → Bytes) (cs : List (List Entry)) (k : Bytes) :
    k ∈ (Spec.mergeSpec mf' cs).map (·.1) ↔ k ∈ cs.flatten.map (·.1) := by
  rw [mergeSpec_eq_G, G_keys]

theorem pkeys_inv (mf' : Bytes → List Bytes → Bytes) (srt : Sorter → List Entry)
    (ho : SortOracle srt) : ContentInv mf' srt PKeys where
  asc := fun h => h.1
  push := by
    rintro cs items kvs e ⟨h1, h2⟩
    refine ⟨h1, fun k => ?_⟩
    simp only [List.map_append, List.mem_append, ← h2 k]
    exact or_assoc.symm
  spill := by
    rintro s kvs ⟨h1, h2⟩
    refine ⟨?_, fun k => ?_⟩
    · intro c hc
      rcases List.mem_append.mp hc with h | h
      · exact h1 c h
      · rw [List.mem_singleton.mp h]; exact G_asc mf' _
    · rw [← h2 k]
      simp only [List.flatten_append, List.flatten_cons, List.flatten_nil, List.append_nil,
        List.map_append, List.mem_append, List.map_nil, List.not_mem_nil, or_false]
      rw [G_keys, ((ho s).1.map (·.1)).mem_iff]
  merge := by
    rintro cs items kvs ⟨h1, h2⟩
    refine ⟨?_, fun k => ?_⟩
    · intro c hc
      rw [List.mem_singleton.mp hc, mergeSpec_eq_G]; exact G_asc mf' _
    · rw [← h2 k]
      simp only [List.flatten_cons, List.flatten_nil, List.append_nil]
      rw [mergeSpec_keys']

end Grenad
