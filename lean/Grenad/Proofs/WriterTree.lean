/-
  T-writer, part 6: the writer invariant `WInv` through `W.insert`, `W.run`, `W.finish`, and the
  resulting description `WriterOut` of the finished file.
-/
import Grenad.Proofs.WriterTreeInv
import Grenad.Proofs.WriterTreeFlat

namespace Grenad

open WT

/-- Both invariants of `(idx, out, log)`. -/
def SInv (cd : Codec) (iv n : Nat) (content : List Entry) (s : WSt) : Prop :=
  TInv cd iv n content s ∧ FInv n content s

theorem TInv.reach {cd : Codec} {iv n : Nat} {content : List Entry} {s : WSt}
    (h : TInv cd iv n content s) {j : Nat} {w : BW} (hw : s.1[j]? = some w) : BW.Made iv w := by
  obtain ⟨K, -, -, htree⟩ := h.tree
  exact (htree j w hw).1

theorem SInv.init (cd : Codec) (iv n : Nat) :
    SInv cd iv n [] (List.replicate n (BW.new iv), [], []) :=
  ⟨TInv.init cd iv n, FInv.init iv n⟩

theorem SInv.cut {cd : Codec} {iv n : Nat} {content : List Entry} (hasc : StrictAsc content)
    (hkeys : ∀ e ∈ content, e.1.length < 2 ^ 32)
    {i : Nat} {idx : List BW} {out : Bytes} {log : List Emitted} {cur parent : BW} {lk : Bytes}
    (h : SInv cd iv n content (idx, out, log))
    (hc : idx[i + 1]? = some cur) (hp : idx[i]? = some parent) (hlk : cur.lastKey = some lk) :
    ∃ p', parent.insert lk (be64 out.length) = .ok p' ∧
      SInv cd iv n content (cutAt cd i cur p' (idx, out, log)) := by
  obtain ⟨p', hp', hT⟩ := h.1.cut hasc hkeys hc hp hlk
  refine ⟨p', hp', hT, ?_⟩
  have rcur : BW.Made iv cur := h.1.reach hc
  exact h.2.cut h.1.len hc hp (rcur.lastKey_some hlk).2 (BW.wt_insert_spec hp').1

theorem SInv.dataStep {cd : Codec} {iv n : Nat} {content : List Entry} {bw : BW}
    (hasc : StrictAsc (content ++ bw.items))
    (hkeys : ∀ e ∈ content ++ bw.items, e.1.length < 2 ^ 32)
    {idx : List BW} {out : Bytes} {log : List Emitted} {parent : BW} {lk : Bytes}
    (h : SInv cd iv n content (idx, out, log)) (rbw : BW.Made iv bw)
    (hp : idx[n - 1]? = some parent) (hlk : bw.lastKey = some lk) :
    ∃ p', parent.insert lk (be64 out.length) = .ok p' ∧
      SInv cd iv n (content ++ bw.items) (dataAt cd (n - 1) bw p' (idx, out, log)) := by
  obtain ⟨p', hp', hT⟩ := h.1.data hasc hkeys rbw hp hlk
  refine ⟨p', hp', hT, ?_⟩
  exact h.2.dataStep h.1.len hp (rbw.lastKey_some hlk).2 (BW.wt_insert_spec hp').1

theorem SInv.cutLevels {cd : Codec} {iv n : Nat} {content : List Entry} (hasc : StrictAsc content)
    (hkeys : ∀ e ∈ content, e.1.length < 2 ^ 32) (bs i : Nat) {s : WSt}
    (h : SInv cd iv n content s) :
    ∃ r, W.cutLevels cd bs i s.1 s.2.1 s.2.2 = .ok r ∧ SInv cd iv n content r :=
  cutLevels_steps cd bs (SInv cd iv n content)
    (fun _ _ _ _ _ _ _ hP hc hp hlk => SInv.cut hasc hkeys hP hc hp hlk) i s.1 s.2.1 s.2.2 h

/-- Everything known about a finished `(idx, out, log)` and root offset. -/
def SFinal (cd : Codec) (iv n : Nat) (content : List Entry) (s : WSt) (r : Nat) : Prop :=
  TFinal cd iv n content s r ∧ FFinal n content s r

theorem SInv.flushLevels {cd : Codec} {iv n : Nat} {content : List Entry}
    (hasc : StrictAsc content) (hkeys : ∀ e ∈ content, e.1.length < 2 ^ 32) {s : WSt} (r0 : Nat)
    (h : SInv cd iv n content s) (hn : 0 < n) :
    ∃ r, W.flushLevels cd n s.1 s.2.1 s.2.2 r0 = .ok r ∧
      SFinal cd iv n content (r.1, r.2.1, r.2.2.1) r.2.2.2 := by
  obtain ⟨m, rfl⟩ : ∃ m, n = m + 1 := ⟨n - 1, by omega⟩
  apply flushLevels_steps cd
    (fun i s => i ≤ m + 1 ∧ SInv cd iv (m + 1) content s ∧
      ∀ j w, i ≤ j → s.1[j]? = some w → w.items = [])
    (SFinal cd iv (m + 1) content)
  · intro i s hP
    have := hP.2.1.1.len
    omega
  · intro i idx out log cur parent lk hP hc hp hlk
    obtain ⟨p', hp', hS⟩ := SInv.cut hasc hkeys hP.2.1 hc hp hlk
    refine ⟨p', hp', by omega, hS, ?_⟩
    intro j w hj hw
    simp only [cutAt] at hw
    have hin : i + 1 < idx.length := by
      obtain ⟨h', -⟩ := List.getElem?_eq_some_iff.mp hc; omega
    by_cases hj1 : j = i + 1
    · subst hj1
      rw [List.getElem?_set_self (by simp; omega)] at hw
      cases hw; rfl
    · rw [List.getElem?_set_ne (by omega), List.getElem?_set_ne (by omega)] at hw
      exact hP.2.2 j w (by omega) hw
  · intro i idx out log cur hP hc hlk
    refine ⟨by omega, hP.2.1, ?_⟩
    intro j w hj hw
    by_cases hj1 : j = i + 1
    · subst hj1
      rw [hc] at hw; cases hw
      exact (hP.2.1.1.reach hc).lastKey_none hlk
    · exact hP.2.2 j w (by omega) hw
  · intro idx out log cur hP hc
    exact ⟨hP.2.1.1.root hP.2.2 hc, hP.2.1.2.root hP.2.1.1.len hP.2.2 hc⟩
  · refine ⟨by omega, h, ?_⟩
    intro j w hj hw
    obtain ⟨h', -⟩ := List.getElem?_eq_some_iff.mp hw
    have := h.1.len
    simp only at h'
    omega

/-! ### The writer -/

structure WInv (cd : Codec) (cfg : WCfg) (pre : List Entry) (w : W) : Prop where
  cfg_eq : w.cfg = cfg
  count : w.count = pre.length
  bw : BW.Made cfg.interval w.bw
  inv : ∃ content, pre = content ++ w.bw.items ∧
    SInv cd cfg.interval (cfg.levels + 1) content (w.idx, w.out, w.log)

theorem WInv.new (cd : Codec) (cfg : WCfg) : WInv cd cfg [] (W.new cfg) :=
  ⟨rfl, rfl, BW.Made.new, [], rfl, SInv.init cd cfg.interval (cfg.levels + 1)⟩

theorem StrictAsc.prefix {a b : List Entry} (h : StrictAsc (a ++ b)) : StrictAsc a := by
  unfold StrictAsc at *
  rw [List.pairwise_append] at h; exact h.1

theorem WInv.insert {cd : Codec} {cfg : WCfg} {pre : List Entry} {w : W} {k v : Bytes}
    (h : WInv cd cfg pre w) (hasc : StrictAsc (pre ++ [(k, v)]))
    (hkeys : ∀ e ∈ pre ++ [(k, v)], e.1.length < 2 ^ 32) (hv : v.length < 2 ^ 32) :
    ∃ w', W.insert cd w k v = .ok w' ∧ WInv cd cfg (pre ++ [(k, v)]) w' := by
  obtain ⟨hcfg, hcount, rbw, content, hpre, hS⟩ := h
  have hlen : w.idx.length = cfg.levels + 1 := hS.1.len
  have hord : ∀ lk, w.bw.lastKey = some lk → lk < k := by
    intro lk hlk
    obtain ⟨hne, hlkeq⟩ := rbw.lastKey_some hlk
    obtain ⟨a, ha, hak⟩ := exists_mem_lastKey hne
    have hap : a ∈ pre := by rw [hpre]; exact List.mem_append_right _ ha
    have := hasc.lt_of_append hap (List.mem_singleton.mpr rfl)
    rw [hlkeq, ← hak]; exact this
  obtain ⟨bw', hbw'⟩ := BW.wt_insert_ok (u32Max_of_lt (hkeys (k, v) (by simp))) (u32Max_of_lt hv) hord
  obtain ⟨s1, s2, -⟩ := BW.wt_insert_spec hbw'
  have rbw' : BW.Made cfg.interval bw' := BW.Made.insert rbw hbw'
  have hpre' : pre ++ [(k, v)] = content ++ bw'.items := by rw [s1, hpre, List.append_assoc]
  -- the state in which nothing is flushed
  have hkeep : WInv cd cfg (pre ++ [(k, v)]) { w with bw := bw', count := w.count + 1 } :=
    ⟨hcfg, by simp [hcount], rbw', content, hpre', hS⟩
  unfold W.insert
  rw [hbw']
  simp only
  split
  · rw [s2]
    simp only [hlen]
    split
    · rename_i lastIdx hli
      obtain ⟨p', hp', hS'⟩ := SInv.dataStep (hpre' ▸ hasc) (hpre' ▸ hkeys) hS rbw' hli s2
      rw [hp']
      simp only
      rw [← hpre'] at hS'
      obtain ⟨r, hr, hSr⟩ := SInv.cutLevels hasc hkeys w.cfg.clamped (cfg.levels + 1 - 1) hS'
      simp only [dataAt] at hr
      rw [hr]
      simp only
      refine ⟨_, rfl, hcfg, by simp [hcount], ?_, pre ++ [(k, v)], ?_, hSr⟩
      · simp only; rw [rbw'.reset]; exact BW.Made.new
      · simp only; rw [rbw'.reset]; simp [BW.new]
    · exact ⟨_, rfl, hkeep⟩
  · exact ⟨_, rfl, hkeep⟩

theorem WInv.go {cd : Codec} {cfg : WCfg} (rest : List Entry) :
    ∀ {pre : List Entry} {w : W}, WInv cd cfg pre w → StrictAsc (pre ++ rest) →
    (∀ e ∈ pre ++ rest, e.1.length < 2 ^ 32 ∧ e.2.length < 2 ^ 32) →
    ∃ w', W.run.go cd w rest = .ok w' ∧ WInv cd cfg (pre ++ rest) w' := by
  induction rest with
  | nil => intro pre w h _ _; exact ⟨w, rfl, by simpa using h⟩
  | cons e rest ih =>
    intro pre w h hasc hlen
    obtain ⟨k, v⟩ := e
    have e1 : pre ++ (k, v) :: rest = (pre ++ [(k, v)]) ++ rest := by simp
    rw [e1] at hasc hlen ⊢
    obtain ⟨w', hw', hI⟩ := h.insert hasc.prefix
      (fun e he => (hlen e (List.mem_append_left _ he)).1) (hlen (k, v) (by simp)).2
    obtain ⟨w'', hw'', hI'⟩ := ih hI hasc hlen
    refine ⟨w'', ?_, hI'⟩
    unfold W.run.go
    rw [hw']
    exact hw''

/-- Everything known about the output of a successful run. -/
def WriterOut (cd : Codec) (cfg : WCfg) (es : List Entry) (file : Bytes) (log : List Emitted) :
    Prop :=
  ∃ (idx : List BW) (out : Bytes) (root : Nat),
    file = out ++ Meta.encode ⟨2, root, cd.id, es.length, cfg.levels⟩ ∧
    SFinal cd cfg.interval (cfg.levels + 1) es (idx, out, log) root

theorem WriterOut.of_final {cd : Codec} {cfg : WCfg} {es : List Entry} {idx : List BW}
    {out : Bytes} {log : List Emitted} {root cnt : Nat} (hlv : cfg.levels ≤ 255)
    (hcnt : cnt = es.length)
    (hF : SFinal cd cfg.interval (cfg.levels + 1) es (idx, out, log) root) :
    WriterOut cd cfg es
      (out ++ Meta.encode ⟨2, root, cd.id, cnt, (idx.length - 1) % 256⟩) log := by
  refine ⟨idx, out, root, ?_, hF⟩
  have : idx.length = cfg.levels + 1 := hF.1.len
  rw [this, hcnt]
  congr 3
  simp; omega

theorem WInv.finish {cd : Codec} {cfg : WCfg} {es : List Entry} {w : W}
    (h : WInv cd cfg es w) (hasc : StrictAsc es) (hkeys : ∀ e ∈ es, e.1.length < 2 ^ 32)
    (hlv : cfg.levels ≤ 255) :
    ∃ file log, W.finish cd w = .ok (file, log) ∧ WriterOut cd cfg es file log := by
  obtain ⟨hcfg, hcount, rbw, content, hpre, hS⟩ := h
  have hlen : w.idx.length = cfg.levels + 1 := hS.1.len
  unfold W.finish
  simp only
  cases hlk : w.bw.lastKey with
  | none =>
    have : w.bw.items = [] := rbw.lastKey_none hlk
    rw [this, List.append_nil] at hpre
    subst hpre
    obtain ⟨⟨idx2, out2, log2, root⟩, hr2, hF⟩ :=
      SInv.flushLevels hasc hkeys w.out.length hS (Nat.succ_pos _)
    simp only at hr2 hF
    simp only [hlen]
    rw [hr2]
    exact ⟨_, _, rfl, WriterOut.of_final hlv hcount hF⟩
  | some lk =>
    simp only [hlen]
    have hli : w.idx[cfg.levels + 1 - 1]? = some w.idx[cfg.levels + 1 - 1] := by
      simp [hlen]
    rw [hli]
    simp only
    obtain ⟨p', hp', hS'⟩ := SInv.dataStep (hpre ▸ hasc) (hpre ▸ hkeys) hS rbw hli hlk
    rw [hp']
    simp only
    rw [← hpre] at hS'
    obtain ⟨⟨idx2, out2, log2, root⟩, hr2, hF⟩ :=
      SInv.flushLevels hasc hkeys (w.out ++ W.blockBytes cd w.bw.finish).length hS' (Nat.succ_pos _)
    simp only [dataAt] at hr2 hF
    simp only [List.length_set, hlen]
    rw [hr2]
    exact ⟨_, _, rfl, WriterOut.of_final hlv hcount hF⟩

theorem W.run_ok {cd : Codec} {cfg : WCfg} {es : List Entry} (hasc : StrictAsc es)
    (hlen : ∀ e ∈ es, e.1.length < 2 ^ 32 ∧ e.2.length < 2 ^ 32) (hlv : cfg.levels ≤ 255) :
    ∃ file log, W.run cd cfg es = .ok (file, log) ∧ WriterOut cd cfg es file log := by
  obtain ⟨w, hw, hI⟩ := WInv.go (cd := cd) (cfg := cfg) es (WInv.new cd cfg)
    (by simpa using hasc) (by simpa using hlen)
  simp only [List.nil_append] at hI
  obtain ⟨file, log, hf, hO⟩ := hI.finish hasc (fun e he => (hlen e he).1) hlv
  refine ⟨file, log, ?_, hO⟩
  unfold W.run
  rw [hw]
  exact hf

/-! ### The T-writer theorems -/

/-- Hypotheses on the input shared by the theorems below. -/
structure WriterHyps (cd : Codec) (cfg : WCfg) (es : List Entry) : Prop where
  levels : cfg.levels ≤ 255
  lawful : cd.Lawful
  asc : StrictAsc es
  lens : ∀ e ∈ es, e.1.length < 2 ^ 32 ∧ e.2.length < 2 ^ 32

/-- No trap on sorted input. -/
theorem T_writer_ok {cd : Codec} {cfg : WCfg} {es : List Entry} (H : WriterHyps cd cfg es) :
    ∃ file log, W.run cd cfg es = .ok (file, log) := by
  obtain ⟨file, log, h, -⟩ := W.run_ok (cd := cd) H.asc H.lens H.levels
  exact ⟨file, log, h⟩

theorem W.run_out {cd : Codec} {cfg : WCfg} {es : List Entry} (H : WriterHyps cd cfg es)
    {file : Bytes} {log : List Emitted} (hrun : W.run cd cfg es = .ok (file, log)) :
    WriterOut cd cfg es file log := by
  obtain ⟨file', log', h, hO⟩ := W.run_ok (cd := cd) H.asc H.lens H.levels
  rw [hrun] at h
  cases h
  exact hO

/-- The emitted log is a well-formed index tree over the inserted entries, and the trailer
    parses to the expected metadata. -/
theorem T_writer_tree {cd : Codec} {cfg : WCfg} {es : List Entry} (H : WriterHyps cd cfg es)
    {file : Bytes} {log : List Emitted} (hrun : W.run cd cfg es = .ok (file, log))
    (hfile : file.length < 2 ^ 64) (hcount : es.length < 2 ^ 64) (hid : cd.id ≤ 5) :
    ∃ root, FileOK (storeOf log) root cfg.levels es ∧
      Meta.parse file = .ok { version := 2, root := root, codec := cd.id, count := es.length,
                              levels := cfg.levels } := by
  obtain ⟨idx, out, root, hf, hF, hFF⟩ := W.run_out H hrun
  have hol : out.length ≤ file.length := by rw [hf]; simp
  refine ⟨root, ⟨H.asc, ?_, ?_⟩, ?_⟩
  · rcases hF.tree with h | h
    · exact Or.inl h
    · exact Or.inr ⟨lvlOf log, h⟩
  · intro off es' hs
    obtain ⟨e, he, rfl, rfl⟩ := storeOf_some hs
    obtain ⟨w, rw', -, hi⟩ := hF.logok e he
    refine ⟨hi ▸ rw'.strictAsc, ?_⟩
    have := hF.lay.offset_lt e he
    simp only at this
    omega
  · rw [hf]
    apply WT.meta_parse_encode_v2 _ _ rfl _ hid hcount H.levels
    have := hF.root
    simp only at this ⊢
    omega

/-- Every emitted block can be read back from the file at its recorded offset; the offsets are
    strictly increasing and are the prefix sums of the framed block sizes; every block is the
    `BW.finish` image of a reachable block writer holding the recorded items. -/
theorem T_writer_bytes {cd : Codec} {cfg : WCfg} {es : List Entry} (H : WriterHyps cd cfg es)
    {file : Bytes} {log : List Emitted} (hrun : W.run cd cfg es = .ok (file, log))
    (hfile : file.length < 2 ^ 64) :
    (∀ e ∈ log, loadBlock cd file e.offset = Block.parse e.raw) ∧
    log.Pairwise (fun a b => a.offset < b.offset) ∧
    (∀ l1 e l2, log = l1 ++ e :: l2 →
      e.offset = (l1.flatMap (fun e => W.blockBytes cd e.raw)).length) ∧
    (∀ e ∈ log, ∃ w, BW.Made cfg.interval w ∧ e.raw = w.finish ∧ e.items = w.items) ∧
    (∃ root, file = log.flatMap (fun e => W.blockBytes cd e.raw) ++
      Meta.encode ⟨2, root, cd.id, es.length, cfg.levels⟩) := by
  obtain ⟨idx, out, root, hf, hF, hFF⟩ := W.run_out H hrun
  refine ⟨?_, hF.lay.pairwise, hF.lay.prefix_sum, hF.logok, root, ?_⟩
  · rw [hf] at hfile ⊢
    exact hF.lay.loadBlock H.lawful _ hfile
  · rw [hf, ← hF.lay.out_eq]

end Grenad
