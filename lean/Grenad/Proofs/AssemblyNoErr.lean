/-
  Grenad.Proofs.AssemblyNoErr — the abstract reader cursor never reports an error over a
  well-formed file, from any reachable state (whatever the logical position, `lost` included).

  `TCursor.Inv` (cache soundness) does not say that the blocks held in a `lost` state are blocks of
  the tree, so it cannot exclude that a relative move from such a state asks the store for an
  offset it does not have.  The invariant `Good` below does: every index block held at a level
  only contains pointers to subtrees of the depth below it, and the data block held (if any) only
  contains entries of the file.  It is established by `RC.new`/`reset`, kept by every operation,
  and under it no load can fail.
-/
import Grenad.Proofs.TCursor7

namespace Grenad.Assembly

open Grenad Grenad.TCursor

/-! ### `LC` facts -/

theorem current_mem {c : LC} {e : Entry} (h : LC.current c = some e) : e ∈ c.es := by
  unfold LC.current at h
  cases hp : c.pos with
  | none => simp [hp] at h
  | some i => rw [hp] at h; exact List.mem_of_getElem? h

theorem apply_snd (mov : Mov) (c : LC) :
    (LC.ops.apply mov c).2 = none ∨ (LC.ops.apply mov c).2 = LC.current (LC.ops.apply mov c).1 := by
  cases mov <;> simp only [BlockOps.apply, LC.ops]
  · exact Or.inr rfl
  · unfold LC.last; split
    · exact Or.inl rfl
    · exact Or.inr rfl
  · unfold LC.next; split
    · exact Or.inr rfl
    · split
      · exact Or.inr rfl
      · exact Or.inl rfl
  · unfold LC.prev; split
    · unfold LC.last; split
      · exact Or.inl rfl
      · exact Or.inr rfl
    · split
      · exact Or.inl rfl
      · exact Or.inr rfl
  · exact Or.inr rfl

theorem apply_mem (mov : Mov) (c : LC) {e : Entry} (h : (LC.ops.apply mov c).2 = some e) :
    e ∈ c.es := by
  rcases apply_snd mov c with h1 | h1
  · rw [h1] at h; cases h
  · rw [h1] at h
    have := current_mem h
    rwa [apply_es] at this

/-! ### Pointers, good blocks, good level lists -/

section
variable (es : List Entry) (s : Store) (lvl : Nat → Nat)

/-- `off` is the root of a depth-`k` subtree whose content is part of `es`. -/
def Pt (k off : Nat) : Prop := ∃ fl, Sub s lvl k off fl ∧ ∀ e ∈ fl, e ∈ es

/-- Every entry of the (index) block points to a depth-`k` subtree. -/
def GoodB (k : Nat) (blk : List Entry) : Prop := ∀ e ∈ blk, Pt es s lvl k (offOf e)

/-- Root-first list of levels: the block held at a level points to subtrees whose depth is the
    number of levels below it. -/
def GoodT : List (Nat × LC) → Prop
  | [] => True
  | (_, c) :: rest => GoodB es s lvl rest.length c.es ∧ GoodT rest

/-- Bottom-first list of levels; `k` is the depth the head points to. -/
def GoodR : Nat → List (Nat × LC) → Prop
  | _, [] => True
  | k, (_, c) :: ps => GoodB es s lvl k c.es ∧ GoodR (k + 1) ps

end

section
variable {es : List Entry} {s : Store} {lvl : Nat → Nat}

theorem GoodR_append {k : Nat} {a b : List (Nat × LC)} :
    GoodR es s lvl k (a ++ b) ↔ GoodR es s lvl k a ∧ GoodR es s lvl (k + a.length) b := by
  induction a generalizing k with
  | nil => simp [GoodR]
  | cons x a ih =>
    obtain ⟨o, c⟩ := x
    simp only [List.cons_append, GoodR, ih, List.length_cons, and_assoc]
    rw [show k + 1 + a.length = k + (a.length + 1) by omega]

theorem GoodT_iff (l : List (Nat × LC)) : GoodT es s lvl l ↔ GoodR es s lvl 0 l.reverse := by
  induction l with
  | nil => simp [GoodT, GoodR]
  | cons x l ih =>
    obtain ⟨o, c⟩ := x
    simp only [GoodT, List.reverse_cons, GoodR_append, GoodR, ih, List.length_reverse,
      Nat.zero_add, and_true]
    exact And.comm

theorem GoodR_head_last {l : List (Nat × LC)} (h : GoodT es s lvl l) {o : Nat} {b : LC}
    (hl : l.getLast? = some (o, b)) : GoodB es s lvl 0 b.es := by
  rw [GoodT_iff] at h
  rw [List.getLast?_eq_head?_reverse] at hl
  cases hr : l.reverse with
  | nil => rw [hr] at hl; cases hl
  | cons x ps =>
    rw [hr] at hl h
    simp only [List.head?_cons, Option.some.injEq] at hl
    subst hl
    exact h.1

/-- The standing assumptions: a labelled tree over `es`, offsets below `2^64`. -/
structure Env (es : List Entry) (s : Store) (lvl : Nat → Nat) (root levels : Nat) : Prop where
  sub : Sub s lvl (levels + 1) root es
  lt : ∀ off blk, s off = some blk → off < 2 ^ 64

theorem Env.root_pt {root levels : Nat} (E : Env es s lvl root levels) :
    Pt es s lvl (levels + 1) root := ⟨es, E.sub, fun _ h => h⟩

theorem Pt.load_idx (hlt : ∀ off blk, s off = some blk → off < 2 ^ 64) {k off : Nat}
    (h : Pt es s lvl (k + 1) off) : ∃ blk, s off = some blk ∧ GoodB es s lvl k blk := by
  obtain ⟨fl, hsub, hfl⟩ := h
  obtain ⟨kids, -, hblk, hkids, rfl⟩ := Sub.inv_node hsub
  refine ⟨idx kids, hblk, ?_⟩
  intro e he
  simp only [List.mem_map] at he
  obtain ⟨kid, hk, rfl⟩ := he
  have hsk := hkids kid hk
  obtain ⟨b, hb⟩ := Sub.stored hsk
  rw [offOf_mk _ (hlt _ _ hb)]
  exact ⟨kid.2, hsk, fun e he => hfl e (List.mem_flatMap.2 ⟨kid, hk, he⟩)⟩

theorem Pt.load_leaf {off : Nat} (h : Pt es s lvl 0 off) :
    ∃ fl, s off = some fl ∧ ∀ e ∈ fl, e ∈ es := by
  obtain ⟨fl, hsub, hfl⟩ := h
  exact ⟨fl, Sub.inv_leaf hsub, hfl⟩

/-! ### The index walks never fail -/

theorem initialIndex_ok (hlt : ∀ off blk, s off = some blk → off < 2 ^ 64) (mov : Mov) :
    ∀ (d jump : Nat) (acc : List (Nat × LC)) (log : List Nat),
      Pt es s lvl d jump → GoodR es s lvl d acc →
      ∃ r log', RC.initialIndex LC.ops s.load mov d jump acc log = some (r, log') ∧
        ∀ l, r = some l → l.length = acc.length + d ∧ GoodT es s lvl l := by
  intro d
  induction d with
  | zero =>
    intro jump acc log _ hacc
    refine ⟨some acc.reverse, log, rfl, ?_⟩
    intro l hl
    cases hl
    exact ⟨by simp, by rw [GoodT_iff, List.reverse_reverse]; exact hacc⟩
  | succ d ih =>
    intro jump acc log hp hacc
    obtain ⟨blk, hb, hg⟩ := hp.load_idx hlt
    rw [RC.initialIndex]
    simp only [load_eq hb]
    have hes := apply_es mov (LC.ofList blk)
    have hmem := fun e => apply_mem mov (LC.ofList blk) (e := e)
    rcases ha : LC.ops.apply mov (LC.ofList blk) with ⟨c', r⟩
    rw [ha] at hes hmem
    simp only at hes hmem
    cases r with
    | none => exact ⟨none, _, rfl, by intro l hl; cases hl⟩
    | some e =>
      simp only
      have he : Pt es s lvl d (offOf e) := hg e (hmem e rfl)
      obtain ⟨r, log', h1, h2⟩ := ih (offOf e) ((offOf e, c') :: acc) (jump :: log) he
        ⟨by rw [hes]; exact hg, hacc⟩
      refine ⟨r, log', h1, ?_⟩
      intro l hl
      obtain ⟨g1, g2⟩ := h2 l hl
      exact ⟨by simp at g1; omega, g2⟩

theorem iterLevels_ok (hlt : ∀ off blk, s off = some blk → off < 2 ^ 64) (mov : Mov) :
    ∀ (inner : List (Nat × LC)) (jump : Nat) (log : List Nat),
      Pt es s lvl inner.length jump → GoodT es s lvl inner →
      ∃ inner' done log', RC.iterLevels LC.ops s.load mov jump inner log = some (inner', done, log') ∧
        inner'.length = inner.length ∧ GoodT es s lvl inner' := by
  intro inner
  induction inner with
  | nil =>
    intro jump log _ _
    exact ⟨[], true, log, rfl, rfl, trivial⟩
  | cons x rest ih =>
    obtain ⟨o, c⟩ := x
    intro jump log hp hg
    obtain ⟨hgc, hgrest⟩ := hg
    simp only [List.length_cons] at hp
    -- the cursor used at this level
    have hre : ∃ o2 c2 log2, GoodB es s lvl rest.length c2.es ∧
        (if jump ≠ o then (s.load jump).map (fun c' => (jump, c', jump :: log)) else some (o, c, log))
          = some (o2, c2, log2) := by
      by_cases hj : jump = o
      · exact ⟨o, c, log, hgc, by simp [hj]⟩
      · obtain ⟨blk, hb, hgb⟩ := hp.load_idx hlt
        exact ⟨jump, LC.ofList blk, jump :: log, hgb, by simp [hj, load_eq hb]⟩
    obtain ⟨o2, c2, log2, hg2, hre⟩ := hre
    rw [RC.iterLevels]
    simp only [hre]
    have hes := apply_es mov c2
    have hmem := fun e => apply_mem mov c2 (e := e)
    rcases ha : LC.ops.apply mov c2 with ⟨c', r⟩
    rw [ha] at hes hmem
    simp only at hes hmem
    cases r with
    | none =>
      exact ⟨(o2, c') :: rest, false, log2, rfl, rfl, by rw [GoodT, hes]; exact ⟨hg2, hgrest⟩⟩
    | some e =>
      simp only
      obtain ⟨rest', done, log', h1, h2, h3⟩ := ih (offOf e) log2 (hg2 e (hmem e rfl)) hgrest
      rw [h1]
      exact ⟨(o2, c') :: rest', done, log', rfl, by simp [h2],
        by rw [GoodT, hes, h2]; exact ⟨hg2, h3⟩⟩

theorem recurLevels_ok (hlt : ∀ off blk, s off = some blk → off < 2 ^ 64) (mov : Mov) :
    ∀ (l : List (Nat × LC)) (k : Nat) (log : List Nat), GoodR es s lvl k l →
      ∃ l' r log', RC.recurLevels LC.ops s.load true mov l log = some (l', r, log') ∧
        l'.length = l.length ∧ GoodR es s lvl k l' ∧ ∀ e, r = some e → Pt es s lvl k (offOf e) := by
  intro l
  induction l with
  | nil =>
    intro k log _
    exact ⟨[], none, log, rfl, rfl, trivial, by intro e he; cases he⟩
  | cons x parents ih =>
    obtain ⟨o, c⟩ := x
    intro k log hg
    obtain ⟨hgc, hgp⟩ := hg
    rw [RC.recurLevels]
    have hes := apply_es mov c
    rcases ha : LC.ops.apply mov c with ⟨c', r⟩
    rw [ha] at hes
    simp only at hes
    cases r with
    | some e0 =>
      refine ⟨(o, c') :: parents, LC.ops.current c', log, rfl, rfl,
        ⟨by rw [hes]; exact hgc, hgp⟩, ?_⟩
      intro e he
      have := current_mem (c := c') he
      rw [hes] at this
      exact hgc e this
    | none =>
      simp only
      obtain ⟨p', re, log', h1, h2, h3, h4⟩ := ih (k + 1) log hgp
      rw [h1]
      cases re with
      | none =>
        exact ⟨(o, c') :: p', none, log', rfl, by simp [h2], ⟨by rw [hes]; exact hgc, h3⟩,
          by intro e he; cases he⟩
      | some e =>
        simp only
        obtain ⟨blk, hb, hgb⟩ := (h4 e rfl).load_idx hlt
        simp only [load_eq hb]
        have hes2 := apply_es mov (LC.ofList blk)
        have hmem2 := fun e => apply_mem mov (LC.ofList blk) (e := e)
        rcases ha2 : LC.ops.apply mov (LC.ofList blk) with ⟨nc', r'⟩
        rw [ha2] at hes2 hmem2
        simp only at hes2 hmem2
        refine ⟨(offOf e, nc') :: p', r', offOf e :: log', by simp, by simp [h2],
          ⟨by rw [hes2]; exact hgb, h3⟩, ?_⟩
        intro e' he'
        exact hgb e' (hmem2 e' he')

/-! ### The state invariant -/

/-- Every held index block points to subtrees of the right depth; the held data block (if any)
    contains entries of the file only. -/
structure Good (es : List Entry) (s : Store) (lvl : Nat → Nat) (root levels : Nat) (c : RC LC) :
    Prop where
  hbase : c.base = root
  hlevels : c.levels = levels
  inner : ∀ l, c.inner = some l → l.length = levels + 1 ∧ GoodT es s lvl l
  cur : ∀ b, c.cur = some b → ∀ e ∈ b.es, e ∈ es

variable {root levels : Nat}

theorem Good.fresh {c : RC LC} (hb : c.base = root) (hl : c.levels = levels)
    (hin : c.inner = none) (hcur : c.cur = none) : Good es s lvl root levels c :=
  ⟨hb, hl, (by intro l h; rw [hin] at h; cases h), (by intro b h; rw [hcur] at h; cases h)⟩

theorem Good.withCur {c : RC LC} (h : Good es s lvl root levels c) {b : LC}
    (hb : ∀ e ∈ b.es, e ∈ es) : Good es s lvl root levels (RC.withCur c b) :=
  ⟨h.hbase, h.hlevels, h.inner, by
    intro b' hb'
    simp only [RC.withCur, Option.some.injEq] at hb'
    subst hb'; exact hb⟩

/-- Result of an index move: it succeeded, the state stays good (data cursor untouched), and the
    entry returned points to a data block of the tree. -/
def IdxOK (es : List Entry) (s : Store) (lvl : Nat → Nat) (root levels : Nat) (c : RC LC)
    (x : Option (RC LC × Option Entry)) : Prop :=
  ∃ c' r, x = some (c', r) ∧ Good es s lvl root levels c' ∧ c'.cur = c.cur ∧
    ∀ e, r = some e → Pt es s lvl 0 (offOf e)

theorem last_current_pt {l : List (Nat × LC)} (h : GoodT es s lvl l) {o : Nat} {b : LC}
    (hl : l.getLast? = some (o, b)) {e : Entry} (he : LC.ops.current b = some e) :
    Pt es s lvl 0 (offOf e) :=
  GoodR_head_last h hl e (current_mem he)

theorem iterIndex_ok (E : Env es s lvl root levels) (mov : Mov) {c : RC LC}
    (hc : Good es s lvl root levels c) :
    IdxOK es s lvl root levels c (RC.iterIndex LC.ops s.load mov c) := by
  obtain ⟨base, lv, inner0, cur0, log0⟩ := c
  obtain ⟨hb, hl, hi, hcu⟩ := hc
  simp only at hb hl hi hcu
  subst hb hl
  unfold RC.iterIndex
  cases inner0 with
  | some inner =>
    obtain ⟨hlen, hg⟩ := hi inner rfl
    obtain ⟨inner', done, log', h1, h2, h3⟩ :=
      iterLevels_ok E.lt mov inner base log0 (by rw [hlen]; exact E.root_pt) hg
    simp only [h1]
    have hgood : Good es s lvl base lv
        ({ base := base, levels := lv, inner := some inner', cur := cur0, log := log' } : RC LC) :=
      ⟨rfl, rfl, (by
        intro l hl
        simp only [Option.some.injEq] at hl
        subst hl; exact ⟨by rw [h2, hlen], h3⟩), hcu⟩
    cases done with
    | true =>
      refine ⟨_, _, rfl, hgood, rfl, ?_⟩
      intro e he
      cases hl : inner'.getLast? with
      | none => rw [hl] at he; cases he
      | some x =>
        obtain ⟨o, b⟩ := x
        rw [hl] at he
        exact last_current_pt h3 hl he
    | false =>
      refine ⟨_, _, rfl, hgood, rfl, ?_⟩
      intro e he; cases he
  | none =>
    obtain ⟨r, log', h1, h2⟩ :=
      initialIndex_ok E.lt mov (lv + 1) base [] log0 E.root_pt trivial
    simp only [h1]
    refine ⟨_, _, rfl, ⟨rfl, rfl, ?_, hcu⟩, rfl, ?_⟩
    · intro l hl
      simp only at hl
      obtain ⟨g1, g2⟩ := h2 l hl
      exact ⟨by simpa using g1, g2⟩
    · intro e he
      cases r with
      | none => cases he
      | some l =>
        simp only at he
        cases hl : l.getLast? with
        | none => rw [hl] at he; cases he
        | some x =>
          obtain ⟨o, b⟩ := x
          rw [hl] at he
          exact last_current_pt (h2 l rfl).2 hl he

theorem recurIndex_ok (E : Env es s lvl root levels) (mov : Mov) {c : RC LC}
    (hc : Good es s lvl root levels c) :
    IdxOK es s lvl root levels c (RC.recurIndex LC.ops s.load true mov c) := by
  obtain ⟨base, lv, inner0, cur0, log0⟩ := c
  have hb : base = root := hc.hbase
  have hl : lv = levels := hc.hlevels
  subst hb hl
  -- second phase, from a list of levels
  have phase2 : ∀ (inner : List (Nat × LC)) (lg : List Nat), inner.length = lv + 1 →
      GoodT es s lvl inner →
      ∃ l' r log', RC.recurLevels LC.ops s.load true mov inner.reverse lg = some (l', r, log') ∧
        Good es s lvl base lv
          ({ base := base, levels := lv, inner := some l'.reverse, cur := cur0, log := log' } : RC LC) ∧
        ∀ e, r = some e → Pt es s lvl 0 (offOf e) := by
    intro inner lg hlen hg
    obtain ⟨l', r, log', g1, g2, g3, g4⟩ :=
      recurLevels_ok E.lt mov inner.reverse 0 lg ((GoodT_iff inner).1 hg)
    refine ⟨l', r, log', g1, ⟨rfl, rfl, ?_, hc.cur⟩, g4⟩
    intro l hl
    simp only [Option.some.injEq] at hl
    subst hl
    exact ⟨by simp [g2, hlen], by rw [GoodT_iff, List.reverse_reverse]; exact g3⟩
  cases inner0 with
  | some inner =>
    obtain ⟨hlen, hg⟩ := hc.inner inner rfl
    obtain ⟨l', r, log', g1, g2, g3⟩ := phase2 inner log0 hlen hg
    refine ⟨_, r, ?_, g2, rfl, g3⟩
    simp only [RC.recurIndex, g1]
  | none =>
    obtain ⟨r0, log1, h1, h2⟩ :=
      initialIndex_ok E.lt mov (lv + 1) base [] log0 E.root_pt trivial
    cases r0 with
    | none =>
      refine ⟨({ base := base, levels := lv, inner := none, cur := cur0, log := log1 } : RC LC),
        none, ?_, ⟨rfl, rfl, (by intro l hl; cases hl), hc.cur⟩, rfl, by intro e he; cases he⟩
      simp only [RC.recurIndex, h1]
    | some inner =>
      obtain ⟨hlen, hg⟩ := h2 inner rfl
      obtain ⟨l', r, log', g1, g2, g3⟩ := phase2 inner log1 (by simpa using hlen) hg
      refine ⟨_, r, ?_, g2, rfl, g3⟩
      simp only [RC.recurIndex, h1, g1]

theorem enter_ok {c : RC LC} (hc : Good es s lvl root levels c) {e : Entry}
    (he : Pt es s lvl 0 (offOf e)) :
    ∃ c' b, RC.enter s.load c e = some (c', b) ∧ Good es s lvl root levels c' ∧
      ∀ x ∈ b.es, x ∈ es := by
  obtain ⟨fl, hfl, hsub⟩ := he.load_leaf
  refine ⟨{ c with log := offOf e :: c.log }, LC.ofList fl, ?_,
    ⟨hc.hbase, hc.hlevels, hc.inner, hc.cur⟩, hsub⟩
  unfold RC.enter
  simp only [load_eq hfl]

/-! ### Public operations -/

/-- Outcome of a public operation: no error, good state. -/
abbrev StepOK (es : List Entry) (s : Store) (lvl : Nat → Nat) (root levels : Nat)
    (x : RC LC × Res) : Prop :=
  x.2 ≠ .err ∧ Good es s lvl root levels x.1

theorem mem_of_apply {mov : Mov} {b : LC} (hb : ∀ x ∈ b.es, x ∈ es) :
    ∀ x ∈ (LC.ops.apply mov b).1.es, x ∈ es := by
  rw [apply_es]; exact hb

theorem Good.dropCur {c : RC LC} (h : Good es s lvl root levels c) :
    Good es s lvl root levels { c with cur := none } :=
  ⟨h.hbase, h.hlevels, h.inner, by intro b hb; cases hb⟩

theorem first_ok (E : Env es s lvl root levels) {c : RC LC} (hc : Good es s lvl root levels c) :
    StepOK es s lvl root levels (c.first LC.ops s.load) := by
  obtain ⟨c', r, h1, h2, h3, h4⟩ := iterIndex_ok E .first hc
  cases r with
  | none =>
    simp only [RC.first, h1]
    exact ⟨by simp, h2.dropCur⟩
  | some e =>
    obtain ⟨c'', b, g1, g2, g3⟩ := enter_ok h2 (h4 e rfl)
    simp only [RC.first, h1, g1]
    exact ⟨by simp, g2.withCur (mem_of_apply (mov := .first) g3)⟩

theorem last_ok (E : Env es s lvl root levels) {c : RC LC} (hc : Good es s lvl root levels c) :
    StepOK es s lvl root levels (c.last LC.ops s.load) := by
  obtain ⟨c', r, h1, h2, h3, h4⟩ := iterIndex_ok E .last hc
  cases r with
  | none =>
    simp only [RC.last, h1]
    exact ⟨by simp, h2.dropCur⟩
  | some e =>
    obtain ⟨c'', b, g1, g2, g3⟩ := enter_ok h2 (h4 e rfl)
    simp only [RC.last, h1, g1]
    exact ⟨by simp, g2.withCur (mem_of_apply (mov := .last) g3)⟩

theorem ge_ok (E : Env es s lvl root levels) {c : RC LC} (hc : Good es s lvl root levels c)
    (q : Bytes) : StepOK es s lvl root levels (c.ge LC.ops s.load q) := by
  obtain ⟨c', r, h1, h2, h3, h4⟩ := iterIndex_ok E (.ge q) hc
  cases r with
  | none =>
    simp only [RC.ge, h1]
    exact ⟨by simp, h2⟩
  | some e =>
    obtain ⟨c'', b, g1, g2, g3⟩ := enter_ok h2 (h4 e rfl)
    simp only [RC.ge, h1, g1]
    exact ⟨by simp, g2.withCur (mem_of_apply (mov := .ge q) g3)⟩

theorem next_ok (E : Env es s lvl root levels) {c : RC LC} (hc : Good es s lvl root levels c) :
    StepOK es s lvl root levels (c.next LC.ops s.load true) := by
  cases hcur : c.cur with
  | none =>
    have : c.next LC.ops s.load true = c.first LC.ops s.load := by
      unfold RC.next; simp only [hcur]
    rw [this]; exact first_ok E hc
  | some b =>
    have hes := mem_of_apply (mov := .next) (hc.cur b hcur)
    rcases ha : LC.ops.next b with ⟨b', r⟩
    have ha' : LC.ops.apply .next b = (b', r) := ha
    rw [ha'] at hes
    simp only at hes
    have hg : Good es s lvl root levels (RC.withCur c b') := hc.withCur hes
    cases r with
    | some e =>
      simp only [RC.next, hcur, ha]
      exact ⟨by simp, hg⟩
    | none =>
      obtain ⟨c', r', h1, h2, h3, h4⟩ := recurIndex_ok E .next hg
      cases r' with
      | none =>
        simp only [RC.next, hcur, ha, h1]
        exact ⟨by simp, h2⟩
      | some e =>
        obtain ⟨c'', nb, g1, g2, g3⟩ := enter_ok h2 (h4 e rfl)
        simp only [RC.next, hcur, ha, h1, g1]
        exact ⟨by simp, g2.withCur (mem_of_apply (mov := .first) g3)⟩

theorem prev_ok (E : Env es s lvl root levels) {c : RC LC} (hc : Good es s lvl root levels c) :
    StepOK es s lvl root levels (c.prev LC.ops s.load true) := by
  cases hcur : c.cur with
  | none =>
    have : c.prev LC.ops s.load true = c.last LC.ops s.load := by
      unfold RC.prev; simp only [hcur]
    rw [this]; exact last_ok E hc
  | some b =>
    have hes := mem_of_apply (mov := .prev) (hc.cur b hcur)
    rcases ha : LC.ops.prev b with ⟨b', r⟩
    have ha' : LC.ops.apply .prev b = (b', r) := ha
    rw [ha'] at hes
    simp only at hes
    have hg : Good es s lvl root levels (RC.withCur c b') := hc.withCur hes
    cases r with
    | some e =>
      simp only [RC.prev, hcur, ha]
      exact ⟨by simp, hg⟩
    | none =>
      obtain ⟨c', r', h1, h2, h3, h4⟩ := recurIndex_ok E .prev hg
      cases r' with
      | none =>
        simp only [RC.prev, hcur, ha, h1]
        exact ⟨by simp, h2⟩
      | some e =>
        obtain ⟨c'', nb, g1, g2, g3⟩ := enter_ok h2 (h4 e rfl)
        simp only [RC.prev, hcur, ha, h1, g1]
        exact ⟨by simp, g2.withCur (mem_of_apply (mov := .last) g3)⟩

theorem le_ok (E : Env es s lvl root levels) {c : RC LC} (hc : Good es s lvl root levels c)
    (q : Bytes) : StepOK es s lvl root levels (c.le LC.ops s.load true q) := by
  obtain ⟨h1, h2⟩ := ge_ok E hc q
  unfold RC.le
  rcases hg : c.ge LC.ops s.load q with ⟨c1, r⟩
  rw [hg] at h1 h2
  simp only at h1 h2
  cases r with
  | err => exact absurd rfl h1
  | ok r =>
    cases r with
    | some kv =>
      obtain ⟨k, v⟩ := kv
      simp only
      by_cases hk : k = q
      · simp only [hk, if_true]; exact ⟨by simp, h2⟩
      · simp only [hk, if_false]; exact prev_ok E h2
    | none =>
      simp only
      obtain ⟨l1, l2⟩ := last_ok E h2
      rcases hl : c1.last LC.ops s.load with ⟨c2, r2⟩
      rw [hl] at l1 l2
      simp only at l1 l2
      cases r2 with
      | err => exact absurd rfl l1
      | ok r => exact ⟨by simp, l2⟩

theorem eq_ok (E : Env es s lvl root levels) {c : RC LC} (hc : Good es s lvl root levels c)
    (q : Bytes) : StepOK es s lvl root levels (c.eq LC.ops s.load q) := by
  obtain ⟨h1, h2⟩ := ge_ok E hc q
  unfold RC.eq
  rcases hg : c.ge LC.ops s.load q with ⟨c1, r⟩
  rw [hg] at h1 h2
  simp only at h1 h2
  cases r with
  | err => exact absurd rfl h1
  | ok r => exact ⟨by simp, h2⟩

/-- **No error, non-empty file**: every operation from a good state succeeds and leaves a good
    state. -/
theorem step_ok (E : Env es s lvl root levels) {c : RC LC} (hc : Good es s lvl root levels c)
    (op : Op) : StepOK es s lvl root levels (RC.stepA s true c op) := by
  cases op with
  | first => exact first_ok E hc
  | last => exact last_ok E hc
  | next => exact next_ok E hc
  | prev => exact prev_ok E hc
  | ge q => exact ge_ok E hc q
  | le q => exact le_ok E hc q
  | eq q => exact eq_ok E hc q
  | reset =>
    exact ⟨by simp [RC.stepA, RC.step], Good.fresh hc.hbase hc.hlevels rfl rfl⟩
  | current => exact ⟨by simp [RC.stepA, RC.step], hc⟩

/-- In a good state `current()` returns nothing or an entry of the file. -/
theorem Good.current_mem {c : RC LC} (hc : Good es s lvl root levels c) {e : Entry}
    (h : c.current LC.ops = some e) : e ∈ es := by
  unfold RC.current at h
  cases hcur : c.cur with
  | none => rw [hcur] at h; cases h
  | some b =>
    rw [hcur] at h
    exact hc.cur b hcur e (Assembly.current_mem h)

end

/-! ### Both kinds of file -/

section
variable {s : Store} {root levels : Nat} {es : List Entry}

/-- The no-error invariant of a cursor state over a well-formed file: the file is empty and
    nothing is held, or the state is `Good` for some labelling of the tree. -/
def NE (s : Store) (root levels : Nat) (es : List Entry) (c : RC LC) : Prop :=
  (es = [] ∧ s root = some [] ∧ c.base = root ∧ c.levels = levels ∧ c.inner = none ∧ c.cur = none) ∨
  (∃ lvl, Sub s lvl (levels + 1) root es ∧ Good es s lvl root levels c)

theorem NE_c0 (h : FileOK s root levels es) : NE s root levels es (c0 root levels) := by
  rcases h.tree with ⟨he, hs⟩ | ⟨lvl, hsub⟩
  · exact Or.inl ⟨he, hs, rfl, rfl, rfl, rfl⟩
  · exact Or.inr ⟨lvl, hsub, Good.fresh rfl rfl rfl rfl⟩

/-- **No error.** Over a well-formed file every operation from a state satisfying `NE` succeeds
    and leaves a state satisfying `NE`. -/
theorem NE_step (h : FileOK s root levels es) {c : RC LC} (hc : NE s root levels es c) (op : Op) :
    (RC.stepA s true c op).2 ≠ .err ∧ NE s root levels es (RC.stepA s true c op).1 := by
  rcases hc with ⟨he, hs, hb, hl, hin, hcur⟩ | ⟨lvl, hsub, hg⟩
  · have hnext : RC.next LC.ops s.load true c = RC.first LC.ops s.load c := by
      unfold RC.next; simp only [hcur]
    have hprev : RC.prev LC.ops s.load true c = RC.last LC.ops s.load c := by
      unfold RC.prev; simp only [hcur]
    cases op with
    | first =>
      simp only [RC.stepA, RC.step, first_empty hs hb hin]
      exact ⟨by simp, Or.inl ⟨he, hs, hb, hl, rfl, rfl⟩⟩
    | last =>
      simp only [RC.stepA, RC.step, last_empty hs hb hin]
      exact ⟨by simp, Or.inl ⟨he, hs, hb, hl, rfl, rfl⟩⟩
    | next =>
      simp only [RC.stepA, RC.step, hnext, first_empty hs hb hin]
      exact ⟨by simp, Or.inl ⟨he, hs, hb, hl, rfl, rfl⟩⟩
    | prev =>
      simp only [RC.stepA, RC.step, hprev, last_empty hs hb hin]
      exact ⟨by simp, Or.inl ⟨he, hs, hb, hl, rfl, rfl⟩⟩
    | ge q =>
      simp only [RC.stepA, RC.step, ge_empty hs hb hin]
      exact ⟨by simp, Or.inl ⟨he, hs, hb, hl, rfl, hcur⟩⟩
    | eq q =>
      simp only [RC.stepA, RC.step, RC.eq, ge_empty hs hb hin]
      exact ⟨by simp, Or.inl ⟨he, hs, hb, hl, rfl, hcur⟩⟩
    | le q =>
      simp only [RC.stepA, RC.step, RC.le, ge_empty hs hb hin]
      rw [last_empty hs (c := { c with inner := none, log := root :: c.log }) hb rfl]
      exact ⟨by simp, Or.inl ⟨he, hs, hb, hl, rfl, rfl⟩⟩
    | reset =>
      exact ⟨by simp [RC.stepA, RC.step], Or.inl ⟨he, hs, hb, hl, rfl, rfl⟩⟩
    | current =>
      exact ⟨by simp [RC.stepA, RC.step], Or.inl ⟨he, hs, hb, hl, hin, hcur⟩⟩
  · have E : Env es s lvl root levels := ⟨hsub, fun off blk hb => (h.blocks off blk hb).2⟩
    obtain ⟨h1, h2⟩ := step_ok E hg op
    exact ⟨h1, Or.inr ⟨lvl, hsub, h2⟩⟩

/-- Under `NE`, `current()` returns nothing or an entry of the file. -/
theorem NE.current_mem {c : RC LC} (hc : NE s root levels es c) {e : Entry}
    (h : c.current LC.ops = some e) : e ∈ es := by
  rcases hc with ⟨-, -, -, -, -, hcur⟩ | ⟨lvl, -, hg⟩
  · unfold RC.current at h; rw [hcur] at h; cases h
  · exact hg.current_mem h

end

end Grenad.Assembly
