/-
  T-block, part 2: the footer parse inverts `BW.finish`; `entryAt` on a written payload.
-/
import Grenad.Proofs.TBlock1

set_option linter.unusedSimpArgs false

namespace Grenad

/-! ### Fixed-width integers -/

theorem leN_length (n v : Nat) : (leN n v).length = n := by
  induction n generalizing v with
  | zero => rfl
  | succ n ih => simp [leN, ih]

theorem leVal_leN (n v : Nat) : leVal (leN n v) = v % 256 ^ n := by
  induction n generalizing v with
  | zero => simp [leN, leVal, Nat.mod_one]
  | succ n ih =>
    have h : ((v % 256).toUInt8).toNat = v % 256 := by
      show (UInt8.ofNat (v % 256)).toNat = v % 256
      exact Varint.ofNat_toNat_lt (Nat.mod_lt _ (by decide))
    simp only [leN, leVal, ih, h]
    rw [Nat.pow_succ, Nat.mul_comm (256 ^ n) 256, Nat.mod_mul]

theorem beN_length (n v : Nat) : (beN n v).length = n := by simp [beN, leN_length]

theorem beVal_beN (n v : Nat) : beVal (beN n v) = v % 256 ^ n := by
  simp [beVal, beN, leVal_leN]

private theorem be32_length (v : Nat) : (be32 v).length = 4 := beN_length 4 v
private theorem be64_length (v : Nat) : (be64 v).length = 8 := beN_length 8 v

theorem beVal_be32 {v : Nat} (h : v < 2^32) : beVal (be32 v) = v := by
  rw [be32, beVal_beN]; exact Nat.mod_eq_of_lt (by simpa using h)

theorem beVal_be64 {v : Nat} (h : v < 2^64) : beVal (be64 v) = v := by
  rw [be64, beVal_beN]; exact Nat.mod_eq_of_lt (by simpa using h)

private theorem flatMap_be64_length (l : List Nat) : (l.flatMap be64).length = l.length * 8 := by
  induction l with
  | nil => rfl
  | cons x l ih => simp [List.flatMap_cons, be64_length, ih]; omega

theorem be64s_flatMap (l : List Nat) (h : ∀ x ∈ l, x < 2^64) :
    Block.be64s l.length (l.flatMap be64) = l := by
  induction l with
  | nil => rfl
  | cons x l ih =>
    have hx : (be64 x).length = 8 := be64_length x
    simp only [List.flatMap_cons, List.length_cons, Block.be64s]
    rw [List.take_left' hx, List.drop_left' hx, beVal_be64 (h x (by simp)),
      ih (fun y hy => h y (by simp [hy]))]

/-! ### Parse inverts finish -/

theorem parse_finish (w : BW) (h1 : w.offsets.length < 2^32) (h2 : ∀ x ∈ w.offsets, x < 2^64) :
    Block.parse w.finish = some { payload := w.buffer, offsets := w.offsets } := by
  have hlen : w.finish.length = w.buffer.length + w.offsets.length * 8 + 4 := by
    simp only [BW.finish, List.length_append, flatMap_be64_length, be32_length]
  have hdrop : w.finish.drop (w.finish.length - 4) = be32 w.offsets.length := by
    have : w.finish.length - 4 = (w.buffer ++ w.offsets.flatMap be64).length := by
      simp only [hlen, List.length_append, flatMap_be64_length]; omega
    rw [this, BW.finish, List.drop_left]
  unfold Block.parse
  simp only [hdrop, beVal_be32 h1]
  have hn1 : ¬ w.finish.length < 4 := by omega
  have hn2 : ¬ w.finish.length < 4 + w.offsets.length * 8 := by omega
  have hp : w.finish.length - 4 - w.offsets.length * 8 = w.buffer.length := by omega
  simp only [hn1, hn2, if_false, hp]
  have e1 : w.finish.take w.buffer.length = w.buffer := by
    simp [BW.finish, List.append_assoc]
  have e2 : (w.finish.drop w.buffer.length).take (w.offsets.length * 8) = w.offsets.flatMap be64 := by
    rw [BW.finish, List.append_assoc, List.drop_left, ← flatMap_be64_length, List.take_left]
  rw [e1, e2, be64s_flatMap _ h2]

/-! ### Blocks holding a given entry list -/

/-- `b` is the block with entries `es` and an offset table with interval `iv`, as produced by
    the block writer (`blockOf_built`). -/
structure BlockOf (iv : Nat) (es : List Entry) (b : Block) : Prop where
  iv_pos : 1 ≤ iv
  asc : StrictAsc es
  lens : ∀ e ∈ es, e.1.length < 2^32 ∧ e.2.length < 2^32
  payload : b.payload = frames es
  offsets : b.offsets = offsetTable iv es

theorem offAt_le (es : List Entry) (i : Nat) : offAt es i ≤ (frames es).length := by
  rcases Nat.le_total i es.length with h | h
  · have := offAt_mono_le es h (Nat.le_refl _)
    rw [offAt_length] at this; omega
  · rw [offAt_of_ge es h]; exact Nat.le_refl _

theorem offsetTable_length (iv : Nat) (es : List Entry) :
    (offsetTable iv es).length = (es.length - 1) / iv + 1 := by
  simp [offsetTable]

theorem offsetTable_length_le (iv : Nat) (es : List Entry) :
    2 * (offsetTable iv es).length ≤ (frames es).length + 2 := by
  rw [offsetTable_length]
  have := Nat.div_le_self (es.length - 1) iv
  have := length_le_frames es
  omega

theorem mem_offsetTable_le {iv : Nat} {es : List Entry} {x : Nat} (h : x ∈ offsetTable iv es) :
    x ≤ (frames es).length := by
  simp only [offsetTable, List.mem_map] at h
  obtain ⟨j, _, rfl⟩ := h
  exact offAt_le es _

/-- **T-block, parse side (footer).**  Assumption: the payload is shorter than `2^32` bytes
    (this bounds both the offsets, `< 2^64`, and their number, `< 2^32`). -/
theorem parse_built {iv : Nat} (hiv : 1 ≤ iv) {es : List Entry} {w : BW} (h : BW.Built iv es w)
    (hlen : w.buffer.length < 2^32) :
    ∃ b, Block.parse w.finish = some b ∧ b.payload = w.buffer ∧ b.offsets = w.offsets ∧
      BlockOf iv es b := by
  have hi := h.inv hiv
  have hbuf := hi.buffer
  have hoff := hi.offsets_eq hiv
  refine ⟨{ payload := w.buffer, offsets := w.offsets }, ?_, rfl, rfl, ?_⟩
  · apply parse_finish
    · have := offsetTable_length_le iv es
      rw [hoff]; rw [hbuf] at hlen; omega
    · intro x hx
      rw [hoff] at hx
      have := mem_offsetTable_le hx
      rw [hbuf] at hlen; omega
  · exact ⟨hiv, hi.asc, hi.lens, hbuf, hoff⟩

/-! ### `entryAt` on a written payload -/

theorem entryAt_offAt {es : List Entry} {b : Block} (hp : b.payload = frames es)
    (hl : ∀ e ∈ es, e.1.length < 2^32 ∧ e.2.length < 2^32) {i : Nat} (hi : i < es.length) :
    b.entryAt (offAt es i) = some (es[i].1, es[i].2, offAt es (i + 1)) := by
  have hb : b = { payload := frames (es.take i) ++ BW.frame es[i].1 es[i].2 ++ frames (es.drop (i + 1)),
                  offsets := b.offsets } := by
    rw [← frames_split es hi, ← hp]
  have hle := hl es[i] (List.getElem_mem hi)
  rw [hb, offAt_succ es hi, offAt_eq_length]
  exact entryAt_frame _ _ _ _ _ hle.1 hle.2

theorem entryAt_of_ge {b : Block} {o : Nat} (h : b.payload.length ≤ o) : b.entryAt o = none := by
  unfold Block.entryAt
  simp [h]

theorem entryAt_offAt_end {es : List Entry} {b : Block} (hp : b.payload = frames es) :
    b.entryAt (offAt es es.length) = none := by
  apply entryAt_of_ge
  rw [hp, offAt_length]; exact Nat.le_refl _

/-- `entryAt` at the offset of entry `i ≤ es.length`, in one statement. -/
theorem entryAt_offAt' {es : List Entry} {b : Block} (hp : b.payload = frames es)
    (hl : ∀ e ∈ es, e.1.length < 2^32 ∧ e.2.length < 2^32) {i : Nat} (hi : i ≤ es.length) :
    b.entryAt (offAt es i) = es[i]?.map (fun e => (e.1, e.2, offAt es (i + 1))) := by
  rcases Nat.lt_or_ge i es.length with h | h
  · rw [entryAt_offAt hp hl h]; simp [h]
  · have : i = es.length := by omega
    subst this
    rw [entryAt_offAt_end hp]; simp

end Grenad
