/-
  Grenad.Proofs.Assembly — composition of T-block, T-writer, T-cursor and the simulation lifting
  into statements about the byte-level reader `RC.step byteOps (loadCursor cd file) true` over a
  file produced by the writer.

  Layout
  * `ByteSim s load Rb`: a byte-level loader whose blocks, at the offsets of an abstract store `s`,
    are `Rb`-related to the abstract blocks, and `Rb` is a simulation of `LC.ops` by `byteOps`.
    At offsets the store does not know the byte loader may return anything (garbage parses);
    `ByteSim.step` shows this never matters, because the abstract cursor never reports an error
    (`NE_step`, AssemblyNoErr.lean) and an operation that does not fail is stable under
    extensions of the loader (`step_load_mono`, IOProofs.lean).
  * `RS`: the relation between byte-level reader states and specification positions; `RS_sim` is
    the hypothesis `IterP.Sim` of the iterator theorems, `RS_lostCurrent` their side condition.
  * `scan`: repeated `next` / `prev`; `scan_next`, `scan_prev` over any simulating cursor.
  * `Setting`: the writer's hypotheses; `Setting.byteSim`, `Setting.fileOK`.
-/
import Grenad.Proofs.AssemblySim
import Grenad.Proofs.AssemblyNoErr
import Grenad.Proofs.TBlock
import Grenad.Proofs.WriterTreeDecodeTB
import Grenad.Proofs.IOProofs
import Grenad.Proofs.IterMain

namespace Grenad.Assembly

open Grenad Grenad.TCursor Grenad.IterP

/-! ### Byte-level loader against an abstract store -/

/-- The byte-level loader agrees (up to `Rb`) with the abstract store wherever the latter has a
    block, and `byteOps` simulates `LC.ops` on `Rb`-related cursors. -/
structure ByteSim (s : Store) (load : Nat → Option BlockCursor) (Rb : BlockCursor → LC → Prop) :
    Prop where
  ops : OpsSim byteOps LC.ops Rb
  load : ∀ off x, s off = some x → ∃ b, load off = some b ∧ Rb b (LC.ofList x)

/-- The loader restricted to the offsets of the store. -/
def restrict (s : Store) (load : Nat → Option BlockCursor) : Nat → Option BlockCursor :=
  fun off => if (s off).isSome then load off else none

section
variable {s : Store} {load : Nat → Option BlockCursor} {Rb : BlockCursor → LC → Prop}

theorem ByteSim.loadSim (B : ByteSim s load Rb) : LoadSim (restrict s load) s.load Rb := by
  intro off
  cases hs : s off with
  | none => simp [restrict, hs, Store.load]
  | some x =>
    obtain ⟨b, hb, hr⟩ := B.load off x hs
    simp only [restrict, hs, Store.load, Option.isSome_some, if_true, hb, Option.map_some]
    exact hr

theorem restrict_le (s : Store) (load : Nat → Option BlockCursor) :
    ∀ off b, restrict s load off = some b → load off = some b := by
  intro off b hb
  unfold restrict at hb
  split at hb
  · exact hb
  · cases hb

/-- One operation of the byte-level reader (unrestricted loader) against one operation of the
    abstract reader that does not fail: related states, equal results. -/
theorem ByteSim.step (B : ByteSim s load Rb) {c : RC BlockCursor} {a : RC LC}
    (h : RCRel Rb c a) (op : Op) (hne : (RC.stepA s true a op).2 ≠ .err) :
    RCRel Rb (RC.step byteOps load true c op).1 (RC.stepA s true a op).1 ∧
      (RC.step byteOps load true c op).2 = (RC.stepA s true a op).2 := by
  have h1 := RC_step_sim B.ops B.loadSim true c a h op
  have hne' : (RC.step byteOps (restrict s load) true c op).2 ≠ .err := by
    rw [h1.2]; exact hne
  have h2 := step_load_mono byteOps (restrict s load) load (restrict_le s load) true c op hne'
  rw [h2]; exact h1

/-- Byte-level reader state `c` is at specification position `p`: it is related to an abstract
    reader state that satisfies the T-cursor invariant and the no-error invariant. -/
def RS (s : Store) (root levels : Nat) (es : List Entry) (Rb : BlockCursor → LC → Prop)
    (c : RC BlockCursor) (p : Spec.Pos) : Prop :=
  ∃ a, RCRel Rb c a ∧ Inv s root levels es a p ∧ NE s root levels es a

variable {root levels : Nat} {es : List Entry}

/-- The byte-level reader simulates the specification cursor. -/
theorem RS_sim (h : FileOK s root levels es) (B : ByteSim s load Rb) :
    Sim es (RC.step byteOps load true) (RS s root levels es Rb) := by
  intro c p op hR
  obtain ⟨a, hrel, hinv, hne⟩ := hR
  obtain ⟨n1, n2⟩ := NE_step h hne op
  obtain ⟨i1, i2⟩ := step_inv h hinv op
  obtain ⟨b1, b2⟩ := B.step hrel op n1
  exact ⟨⟨_, b1, i2, n2⟩, by rw [b2]; exact i1⟩

theorem RS_new (h : FileOK s root levels es) (Rb : BlockCursor → LC → Prop) (m : Meta.Meta)
    (hr : m.root = root) (hl : m.levels = levels) :
    RS s root levels es Rb (RC.new m) .fresh := by
  subst hr hl
  exact ⟨RC.new m, RCRel_new Rb m, Inv_c0 h, NE_c0 h⟩

/-- After any operation, `current()` on the byte-level reader returns nothing or an entry of the
    file (in particular in position `lost`, where the specification leaves it open). -/
theorem RS_current_mem (B : ByteSim s load Rb) {c : RC BlockCursor} {p : Spec.Pos}
    (hR : RS s root levels es Rb c p) {e : Entry} (he : c.current byteOps = some e) : e ∈ es := by
  obtain ⟨a, hrel, -, hne⟩ := hR
  apply hne.current_mem (e := e)
  unfold RC.current at he ⊢
  rcases hrel.cur.cases with ⟨g1, g2⟩ | ⟨b, b', g1, g2, hb⟩
  · rw [g1] at he; cases he
  · rw [g1] at he; rw [g2]
    simp only at he ⊢
    rw [← B.ops.current b b' hb]; exact he

/-- The side condition of the backward prefix iterator. -/
theorem RS_lostCurrent (h : FileOK s root levels es) (B : ByteSim s load Rb)
    {c0 : RC BlockCursor} {p0 : Spec.Pos} (hR : RS s root levels es Rb c0 p0) :
    ∀ q c1, RC.step byteOps load true c0 (.le q) = (c1, .ok none) →
      ∃ c2 r, RC.step byteOps load true c1 .current = (c2, .ok r) ∧ ∀ e, r = some e → e ∈ es := by
  intro q c1 hle
  have h1 := (RS_sim h B c0 p0 (.le q) hR).1
  rw [hle] at h1
  exact ⟨c1, c1.current byteOps, rfl, fun e he => RS_current_mem B h1 he⟩

end

/-! ### Histories and scans over any cursor simulating the specification cursor -/

section
variable {γ : Type}

/-- Run a history on a cursor and on the specification cursor; collect the result pairs. -/
def runBothG (step' : γ → Op → γ × Res) (es : List Entry) : γ → Spec.Pos → List Op → List (Res × Spec.SRes)
  | _, _, [] => []
  | c, p, op :: ops =>
    ((step' c op).2, (Spec.step es p op).2) ::
      runBothG step' es (step' c op).1 (Spec.step es p op).1 ops

/-- The same operation `n` times; the results in order. -/
def scan (step' : γ → Op → γ × Res) (op : Op) : Nat → γ → List Res
  | 0, _ => []
  | n + 1, c => (step' c op).2 :: scan step' op n (step' c op).1

variable {step' : γ → Op → γ × Res} {R : γ → Spec.Pos → Prop} {es : List Entry}

theorem runBothG_agree (hsim : Sim es step' R) {c : γ} {p : Spec.Pos} (hR : R c p)
    (ops : List Op) : ∀ x ∈ runBothG step' es c p ops, Spec.Agree x.1 x.2 := by
  induction ops generalizing c p with
  | nil => intro x hx; cases hx
  | cons op ops ih =>
    intro x hx
    obtain ⟨h1, h2⟩ := hsim c p op hR
    rcases List.mem_cons.1 hx with rfl | hx
    · exact h2
    · exact ih h1 x hx

/-- The cursor state after a history. -/
def stateAfter (step' : γ → Op → γ × Res) (c : γ) (ops : List Op) : γ :=
  ops.foldl (fun c op => (step' c op).1) c

/-- The specification position after a history. -/
def posAfter (es : List Entry) (p : Spec.Pos) (ops : List Op) : Spec.Pos :=
  ops.foldl (fun p op => (Spec.step es p op).1) p

theorem stateAfter_R (hsim : Sim es step' R) {c : γ} {p : Spec.Pos} (hR : R c p)
    (ops : List Op) : R (stateAfter step' c ops) (posAfter es p ops) := by
  induction ops generalizing c p with
  | nil => exact hR
  | cons op ops ih => exact ih (hsim c p op hR).1

/-- Key searches over any simulating cursor, from any related state. -/
theorem sim_ge (hsim : Sim es step' R) {c : γ} {p : Spec.Pos} (hR : R c p) (q : Bytes) :
    (step' c (.ge q)).2 = .ok (Spec.ceiling es q) := by
  have := (hsim c p (.ge q) hR).2
  rwa [step_ge_res] at this

theorem sim_le (hsim : Sim es step' R) (hasc : StrictAsc es) {c : γ} {p : Spec.Pos} (hR : R c p)
    (q : Bytes) : (step' c (.le q)).2 = .ok (Spec.floor es q) := by
  have := (hsim c p (.le q) hR).2
  rwa [step_le_res hasc] at this

theorem sim_eq (hsim : Sim es step' R) (hasc : StrictAsc es) {c : γ} {p : Spec.Pos} (hR : R c p)
    (q : Bytes) : (step' c (.eq q)).2 = .ok (Spec.lookup es q) := by
  have := (hsim c p (.eq q) hR).2
  rwa [step_eq_res hasc] at this

/-- Position before the forward scan emits entry `j`. -/
def posF : Nat → Spec.Pos
  | 0 => .fresh
  | j + 1 => .at j

theorem step_next_posF (es : List Entry) (j : Nat) :
    Spec.step es (posF j) .next = Spec.land es j := by
  cases j <;> rfl

theorem scan_next_aux (hsim : Sim es step' R) :
    ∀ (k j : Nat) (c : γ), j + k = es.length → R c (posF j) →
      scan step' .next (k + 1) c = (es.drop j).map (fun e => Res.ok (some e)) ++ [Res.ok none] := by
  intro k
  induction k with
  | zero =>
    intro j c hj hR
    obtain ⟨-, h2⟩ := hsim c _ .next hR
    rw [step_next_posF, land_of_length_le (by omega)] at h2
    simp only [Spec.Agree] at h2
    have : es.drop j = [] := List.drop_eq_nil_of_le (by omega)
    simp only [scan, h2, this, List.map_nil, List.nil_append]
  | succ k ih =>
    intro j c hj hR
    have hlt : j < es.length := by omega
    obtain ⟨h1, h2⟩ := hsim c _ .next hR
    rw [step_next_posF, land_of_lt hlt] at h1 h2
    simp only [Spec.Agree] at h2
    have := ih (j + 1) (step' c .next).1 (by omega) h1
    rw [scan, h2, this, List.drop_eq_getElem_cons hlt]
    rfl

/-- Forward scan: `next` × `(n + 1)` from a fresh cursor returns the entries in order, then
    `None`. -/
theorem scan_next (hsim : Sim es step' R) {c : γ} (hR : R c .fresh) :
    scan step' .next (es.length + 1) c = es.map (fun e => Res.ok (some e)) ++ [Res.ok none] := by
  have := scan_next_aux hsim es.length 0 c (by omega) hR
  simpa using this

/-- Position before the backward scan emits entry `j - 1` (with `j` entries left). -/
def posB (es : List Entry) (j : Nat) : Spec.Pos := if j = es.length then .fresh else .at j

theorem step_prev_posB (es : List Entry) {j : Nat} (hj : j ≤ es.length) :
    Spec.step es (posB es j) .prev =
      if j = 0 then (.lost, some none) else Spec.land es (j - 1) := by
  unfold posB
  by_cases h : j = es.length
  · subst h
    simp only [if_true]
    show (if es.isEmpty then _ else _) = _
    cases es with
    | nil => rfl
    | cons x xs => simp
  · simp only [h, if_false]
    rfl

theorem scan_prev_aux (hsim : Sim es step' R) :
    ∀ (j : Nat) (c : γ), j ≤ es.length → R c (posB es j) →
      scan step' .prev (j + 1) c =
        (es.take j).reverse.map (fun e => Res.ok (some e)) ++ [Res.ok none] := by
  intro j
  induction j with
  | zero =>
    intro c hj hR
    obtain ⟨-, h2⟩ := hsim c _ .prev hR
    rw [step_prev_posB es hj] at h2
    simp only [if_true, Spec.Agree] at h2
    simp only [scan, h2, List.take_zero, List.reverse_nil, List.map_nil, List.nil_append]
  | succ j ih =>
    intro c hj hR
    have hlt : j < es.length := by omega
    obtain ⟨h1, h2⟩ := hsim c _ .prev hR
    rw [step_prev_posB es hj] at h1 h2
    simp only [Nat.add_one_ne_zero, if_false, Nat.add_sub_cancel, land_of_lt hlt] at h1 h2
    simp only [Spec.Agree] at h2
    have hpos : posB es j = .at j := by unfold posB; simp; omega
    have := ih (step' c .prev).1 (by omega) (hpos ▸ h1)
    rw [scan, h2, this, List.take_succ_eq_append_getElem hlt]
    simp only [List.reverse_append, List.reverse_cons, List.reverse_nil, List.nil_append,
      List.map_cons, List.cons_append]

/-- Backward scan: `prev` × `(n + 1)` from a fresh cursor returns the entries in reverse order,
    then `None`. -/
theorem scan_prev (hsim : Sim es step' R) {c : γ} (hR : R c .fresh) :
    scan step' .prev (es.length + 1) c =
      es.reverse.map (fun e => Res.ok (some e)) ++ [Res.ok none] := by
  have := scan_prev_aux hsim es.length c (Nat.le_refl _) (by unfold posB; simpa using hR)
  simpa using this

end

/-! ### The writer's output -/

/-- The block relation: the byte-level cursor is over the parse of one of the emitted blocks and
    represents the list cursor over that block's entries. -/
def Rb (iv : Nat) (log : List Emitted) (c : BlockCursor) (l : LC) : Prop :=
  ∃ e ∈ log, ∃ b, BlockOf iv e.items b ∧ BRepr e.items b c l

theorem Rb_ops (iv : Nat) (log : List Emitted) : OpsSim byteOps LC.ops (Rb iv log) where
  current := by
    rintro c l ⟨e, he, b, hb, hr⟩
    exact byteOps_current hb hr
  first := by
    rintro c l ⟨e, he, b, hb, hr⟩
    obtain ⟨h1, h2⟩ := byteOps_sim hb hr .first
    exact ⟨⟨e, he, b, hb, h1⟩, h2⟩
  last := by
    rintro c l ⟨e, he, b, hb, hr⟩
    obtain ⟨h1, h2⟩ := byteOps_sim hb hr .last
    exact ⟨⟨e, he, b, hb, h1⟩, h2⟩
  next := by
    rintro c l ⟨e, he, b, hb, hr⟩
    obtain ⟨h1, h2⟩ := byteOps_sim hb hr .next
    exact ⟨⟨e, he, b, hb, h1⟩, h2⟩
  prev := by
    rintro c l ⟨e, he, b, hb, hr⟩
    obtain ⟨h1, h2⟩ := byteOps_sim hb hr .prev
    exact ⟨⟨e, he, b, hb, h1⟩, h2⟩
  ge := by
    rintro c l q ⟨e, he, b, hb, hr⟩
    obtain ⟨h1, h2⟩ := byteOps_sim hb hr (.ge q)
    exact ⟨⟨e, he, b, hb, h1⟩, h2⟩

/-- The hypotheses of the round trip: lawful codec, `index_levels ≤ 255`, strictly ascending
    input with key/value lengths below `2^32`, `index_key_interval ≥ 1`, a successful run, and the
    size side conditions (file and entry count below `2^64`, codec id valid, every emitted block
    shorter than `2^32` bytes — T-block's footer assumption). -/
structure Setting (cd : Codec) (cfg : WCfg) (es : List Entry) (file : Bytes) (log : List Emitted) :
    Prop where
  H : WriterHyps cd cfg es
  hiv : 1 ≤ cfg.interval
  hrun : W.run cd cfg es = .ok (file, log)
  hfile : file.length < 2 ^ 64
  hcount : es.length < 2 ^ 64
  hid : cd.id ≤ 5
  hsmall : ∀ e ∈ log, e.raw.length < 2 ^ 32

section
variable {cd : Codec} {cfg : WCfg} {es : List Entry} {file : Bytes} {log : List Emitted}

/-- The byte loader on the written file against the abstract store of the log. -/
theorem Setting.byteSim (S : Setting cd cfg es file log) :
    ByteSim (storeOf log) (loadCursor cd file) (Rb cfg.interval log) where
  ops := Rb_ops _ _
  load := by
    intro off x hs
    obtain ⟨e, he, rfl, rfl⟩ := storeOf_some hs
    obtain ⟨hload, -, -, hmade, -⟩ := T_writer_bytes S.H S.hrun S.hfile
    obtain ⟨w, hw, hraw, hitems⟩ := hmade e he
    have hbl : w.buffer.length < 2 ^ 32 := by
      have h1 : w.buffer.length ≤ w.finish.length := by simp [BW.finish]
      have h2 := S.hsmall e he
      rw [hraw] at h2
      omega
    obtain ⟨b, hp, -, -, hb⟩ := parse_built S.hiv hw.built hbl
    refine ⟨BlockCursor.ofBlock b, ?_, e, he, b, hitems ▸ hb, byteOps_init _ _⟩
    unfold loadCursor
    rw [hload e he, hraw, hp]
    rfl

/-- The abstract store of the log is a well-formed file and the trailer parses. -/
theorem Setting.fileOK (S : Setting cd cfg es file log) :
    ∃ root, FileOK (storeOf log) root cfg.levels es ∧
      Meta.parse file = .ok { version := 2, root := root, codec := cd.id, count := es.length,
                              levels := cfg.levels } :=
  T_writer_tree S.H S.hrun S.hfile S.hcount S.hid

/-- Everything the property theorems need, in one statement: the parsed metadata, and the
    simulation of the specification cursor by the byte-level reader from the freshly opened
    cursor. -/
theorem Setting.main (S : Setting cd cfg es file log) {m : Meta.Meta}
    (hm : Meta.parse file = .ok m) :
    (m.version = 2 ∧ m.codec = cd.id ∧ m.count = es.length ∧ m.levels = cfg.levels) ∧
    ∃ (R : RC BlockCursor → Spec.Pos → Prop),
      Sim es (RC.step byteOps (loadCursor cd file) true) R ∧ R (RC.new m) .fresh ∧
      (∀ c p, R c p → ∀ q c1, RC.step byteOps (loadCursor cd file) true c (.le q) = (c1, .ok none) →
        ∃ c2 r, RC.step byteOps (loadCursor cd file) true c1 .current = (c2, .ok r) ∧
          ∀ e, r = some e → e ∈ es) := by
  obtain ⟨root, hok, hparse⟩ := S.fileOK
  rw [hm] at hparse
  cases hparse
  refine ⟨⟨rfl, rfl, rfl, rfl⟩, RS (storeOf log) root cfg.levels es (Rb cfg.interval log),
    RS_sim hok S.byteSim, RS_new hok _ _ rfl rfl, ?_⟩
  intro c p hR
  exact RS_lostCurrent hok S.byteSim hR

end

end Grenad.Assembly
