/-
  T-cursor, part 6: the public relative moves `next` / `prev`: from a positioned state they move
  to the tree successor / predecessor; from any cache-sound state they stay cache-sound.
-/
import Grenad.Proofs.TCursor5

namespace Grenad.TCursor

open Grenad Spec

section
variable {s : Store} {lvl : Nat → Nat} {root levels : Nat} {es : List Entry}

theorem CScore.set {c : RC LC} (hc : CScore s lvl root levels c) {l : List (Nat × LC)}
    (hlen : l.length = levels + 1) (hcs : CSr s lvl 1 l.reverse) (cur : Option LC) (log : List Nat) :
    CScore s lvl root levels { c with inner := some l, cur := cur, log := log } :=
  ⟨hc.hbase, hc.hlevels, (by intro h; cases h), (by
    intro l' hl'; simp only [Option.some.injEq] at hl'; subst hl'; exact ⟨hlen, hcs⟩)⟩

theorem CScore.withCur {c : RC LC} (hc : CScore s lvl root levels c) {l : List (Nat × LC)}
    (hin : c.inner = some l) (b : LC) : CScore s lvl root levels (RC.withCur c b) :=
  ⟨hc.hbase, hc.hlevels, (by intro h; simp [RC.withCur, hin] at h), hc.inner⟩

theorem CScore.inner_some {c : RC LC} (hc : CScore s lvl root levels c) {b : LC}
    (hcur : c.cur = some b) : ∃ l, c.inner = some l := by
  cases h : c.inner with
  | none => have := hc.cur_none h; rw [hcur] at this; cases this
  | some l => exact ⟨l, rfl⟩

theorem recurIndex_inner {c : RC LC} {l : List (Nat × LC)} (hin : c.inner = some l) (mov : Mov) :
    RC.recurIndex LC.ops s.load true mov c =
      match RC.recurLevels LC.ops s.load true mov l.reverse c.log with
      | none => none
      | some (rev', r, log) => some ({ c with inner := some rev'.reverse, log := log }, r) := by
  unfold RC.recurIndex
  simp only [hin]
  cases RC.recurLevels LC.ops s.load true mov l.reverse c.log with
  | none => rfl
  | some res => rfl

/-- Cache soundness after `recurLevels`. -/
theorem CScore.recur {c : RC LC} (hc : CScore s lvl root levels c) {l : List (Nat × LC)}
    (hin : c.inner = some l) {mov : Mov} {log log' : List Nat} {rev' : List (Nat × LC)}
    {r : Option Entry}
    (hr : RC.recurLevels LC.ops s.load true mov l.reverse log = some (rev', r, log'))
    (cur : Option LC) (log'' : List Nat) :
    CScore s lvl root levels { c with inner := some rev'.reverse, cur := cur, log := log'' } := by
  obtain ⟨hlen, hcs⟩ := hc.inner l hin
  obtain ⟨h1, h2⟩ := recurLevels_pres (lvl := lvl) mov l.reverse 1 log rev' r log' hr
  exact hc.set (by simp [h1, hlen]) (by simpa using h2 hcs) cur log''

-- Shared script: after the in-block move failed, whatever `recurIndex` / `enter` do, the state
-- stays cache-sound.
set_option hygiene false in
local macro "climb_pres_tac" hc:ident hin:ident b':ident : tactic => `(tactic| (
  have hin1 : (RC.withCur c $b').inner = some l := $hin
  have hc1 := CScore.withCur $hc $hin $b'
  simp only []
  rw [recurIndex_inner hin1]
  cases hr : RC.recurLevels LC.ops s.load true _ l.reverse (RC.withCur c $b').log with
  | none => exact hc1
  | some res =>
    obtain ⟨rev', r, log'⟩ := res
    cases r with
    | none => exact hc1.recur hin1 hr _ log'
    | some e =>
      simp only []
      unfold RC.enter
      cases hl : s.load (offOf e) with
      | none => exact hc1.recur hin1 hr _ log'
      | some nb => exact hc1.recur hin1 hr (some _) (offOf e :: log')))

theorem next_pres (cx : Ctx s lvl (levels + 1) root es) {c : RC LC}
    (hc : CScore s lvl root levels c) :
    CScore s lvl root levels (RC.next LC.ops s.load true c).1 := by
  cases hcur : c.cur with
  | none =>
    obtain ⟨c', h1, h2, _⟩ := first_spec cx hc
    unfold RC.next; simp only [hcur]; rw [h1]; exact h2
  | some b =>
    obtain ⟨l, hin⟩ := hc.inner_some hcur
    unfold RC.next; simp only [hcur]
    cases hnx : LC.ops.next b with
    | mk b' r =>
      cases r with
      | some e => exact hc.withCur hin b'
      | none =>
        climb_pres_tac hc hin b'

theorem prev_pres (cx : Ctx s lvl (levels + 1) root es) {c : RC LC}
    (hc : CScore s lvl root levels c) :
    CScore s lvl root levels (RC.prev LC.ops s.load true c).1 := by
  cases hcur : c.cur with
  | none =>
    obtain ⟨c', h1, h2, _⟩ := last_spec cx hc
    unfold RC.prev; simp only [hcur]; rw [h1]; exact h2
  | some b =>
    obtain ⟨l, hin⟩ := hc.inner_some hcur
    unfold RC.prev; simp only [hcur]
    cases hnx : LC.ops.prev b with
    | mk b' r =>
      cases r with
      | some e => exact hc.withCur hin b'
      | none =>
        climb_pres_tac hc hin b'

/-! ### From a positioned state -/

theorem getElem?_mid (pre fl post : List Entry) (j : Nat) (hj : j < fl.length) :
    (pre ++ fl ++ post)[pre.length + j]? = fl[j]? := by
  rw [List.append_assoc, List.getElem?_append_right (by omega)]
  simp only [Nat.add_sub_cancel_left]
  rw [List.getElem?_append_left hj]

theorem next_at (cx : Ctx s lvl (levels + 1) root es) {c : RC LC}
    (hc : CScore s lvl root levels c) {i : Nat} (hp : PosInv s lvl root levels es c i) :
    ∃ c', RC.next LC.ops s.load true c = (c', .ok es[i + 1]?) ∧ CScore s lvl root levels c' ∧
      (i + 1 < es.length → PosInv s lvl root levels es c' (i + 1)) := by
  obtain ⟨l, b, off, fl, pre, post, i0, hin, hcur, hup, hbe, hbp, hi0, hi⟩ := hp
  have hsplit := hup.split
  have hnx : LC.ops.next b = (⟨b.es, some (i0 + 1)⟩, b.es[i0 + 1]?) :=
    LC_next_some hbp (hbe ▸ hi0)
  by_cases hlt : i0 + 1 < fl.length
  · -- stay in the block
    have hget : b.es[i0 + 1]? = some fl[i0 + 1] := by
      rw [hbe]; exact List.getElem?_eq_getElem hlt
    have hes : es[i + 1]? = some fl[i0 + 1] := by
      rw [hsplit, hi, Nat.add_assoc, getElem?_mid pre fl post (i0 + 1) hlt]
      exact List.getElem?_eq_getElem hlt
    refine ⟨RC.withCur c ⟨b.es, some (i0 + 1)⟩, ?_, hc.withCur hin _, fun _ => ?_⟩
    · unfold RC.next; simp only [hcur, hnx, hget, hes]
    · exact ⟨l, _, off, fl, pre, post, i0 + 1, hin, rfl, hup, hbe, rfl, hlt, by omega⟩
  · -- leave the block
    have hget : b.es[i0 + 1]? = none := by
      rw [hbe]; exact List.getElem?_eq_none (by omega)
    have hin1 : (RC.withCur c ⟨b.es, some (i0 + 1)⟩).inner = some l := hin
    have hc1 := hc.withCur hin (⟨b.es, some (i0 + 1)⟩ : LC)
    obtain ⟨hr1, hr2⟩ := recur_next cx l.reverse 0 off fl pre post c.log hup
    by_cases hpost : post = []
    · obtain ⟨rev', log', hr⟩ := hr2 hpost
      have hes : es[i + 1]? = none := by
        rw [hsplit, hpost]; apply List.getElem?_eq_none; simp; omega
      refine ⟨_, ?_, hc1.recur hin1 hr (some ⟨b.es, some (i0 + 1)⟩) log', fun h => ?_⟩
      · unfold RC.next; simp only [hcur, hnx, hget]
        rw [recurIndex_inner hin1]
        simp only [RC.withCur, hr, hes]
      · have := congrArg List.length hsplit
        simp [hpost] at this; omega
    · obtain ⟨rev', e, log', off', fl', post', hr, hp, hupn, hsubn, hoffn⟩ := hr1 hpost
      have hfl' : fl' ≠ [] := Sub.flat_ne hsubn
      have hes : es[i + 1]? = fl'[0]? := by
        rw [hsplit, hp, hi]
        have : pre.length + i0 + 1 = (pre ++ fl).length + 0 := by simp; omega
        rw [this, ← List.append_assoc, getElem?_mid (pre ++ fl) fl' post' 0 (List.length_pos_iff.2 hfl')]
      have hl : s.load (offOf e) = some (LC.ofList fl') := by
        rw [hoffn]; exact load_eq (Sub.inv_leaf hsubn)
      refine ⟨_, ?_, hc1.recur hin1 hr (some ⟨fl', some 0⟩) (offOf e :: log'), fun _ => ?_⟩
      · unfold RC.next; simp only [hcur, hnx, hget]
        rw [recurIndex_inner hin1]
        simp only [RC.withCur, hr, RC.enter, hl, hes]
        rfl
      · refine ⟨rev'.reverse, ⟨fl', some 0⟩, off', fl', pre ++ fl, post', 0, rfl, rfl, ?_, rfl, rfl,
          List.length_pos_iff.2 hfl', ?_⟩
        · rw [List.reverse_reverse]; exact hupn
        · simp; omega

theorem prev_at (cx : Ctx s lvl (levels + 1) root es) {c : RC LC}
    (hc : CScore s lvl root levels c) {i : Nat} (hp : PosInv s lvl root levels es c i) :
    ∃ c', RC.prev LC.ops s.load true c = (c', .ok (if i = 0 then none else es[i - 1]?)) ∧
      CScore s lvl root levels c' ∧ (0 < i → PosInv s lvl root levels es c' (i - 1)) := by
  obtain ⟨l, b, off, fl, pre, post, i0, hin, hcur, hup, hbe, hbp, hi0, hi⟩ := hp
  have hsplit := hup.split
  by_cases hpos : 0 < i0
  · -- stay in the block
    have hnx : LC.ops.prev b = (⟨b.es, some (i0 - 1)⟩, b.es[i0 - 1]?) :=
      LC_prev_some hbp hpos (hbe ▸ hi0)
    have hlt : i0 - 1 < fl.length := by omega
    have hget : b.es[i0 - 1]? = some fl[i0 - 1] := by
      rw [hbe]; exact List.getElem?_eq_getElem hlt
    have hes : es[i - 1]? = some fl[i0 - 1] := by
      have : i - 1 = pre.length + (i0 - 1) := by omega
      rw [hsplit, this, getElem?_mid pre fl post (i0 - 1) hlt]
      exact List.getElem?_eq_getElem hlt
    have hi' : ¬ i = 0 := by omega
    refine ⟨RC.withCur c ⟨b.es, some (i0 - 1)⟩, ?_, hc.withCur hin _, fun _ => ?_⟩
    · unfold RC.prev; simp only [hcur, hnx, hget, hes, hi', if_false]
    · exact ⟨l, _, off, fl, pre, post, i0 - 1, hin, rfl, hup, hbe, rfl, hlt, by omega⟩
  · -- leave the block
    have h0 : i0 = 0 := by omega
    subst h0
    have hnx : LC.ops.prev b = (b, none) := LC_prev_zero hbp
    have hin1 : (RC.withCur c b).inner = some l := hin
    have hc1 := hc.withCur hin b
    obtain ⟨hr1, hr2⟩ := recur_prev cx l.reverse 0 off fl pre post c.log hup
    by_cases hpre : pre = []
    · obtain ⟨rev', log', hr⟩ := hr2 hpre
      have hi' : i = 0 := by simp [hi, hpre]
      refine ⟨_, ?_, hc1.recur hin1 hr (some b) log', fun h => ?_⟩
      · unfold RC.prev; simp only [hcur, hnx]
        rw [recurIndex_inner hin1]
        simp only [RC.withCur, hr, hi', if_true]
      · omega
    · obtain ⟨rev', e, log', off', fl', pre', hr, hp, hupn, hsubn, hoffn⟩ := hr1 hpre
      have hfl' : fl' ≠ [] := Sub.flat_ne hsubn
      have hfl'pos : 0 < fl'.length := List.length_pos_iff.2 hfl'
      have hi' : ¬ i = 0 := by
        have := congrArg List.length hp; simp at this; omega
      have hes : es[i - 1]? = fl'[fl'.length - 1]? := by
        have : i - 1 = pre'.length + (fl'.length - 1) := by
          have := congrArg List.length hp; simp at this; omega
        rw [hsplit, hp, this, List.append_assoc (pre' ++ fl'), getElem?_mid pre' fl' (fl ++ post) _ (by omega)]
      have hl : s.load (offOf e) = some (LC.ofList fl') := by
        rw [hoffn]; exact load_eq (Sub.inv_leaf hsubn)
      have hlast : LC.ops.last (LC.ofList fl') = (⟨fl', some (fl'.length - 1)⟩, fl'[fl'.length - 1]?) :=
        apply_abs (mov := .last) trivial (LC.ofList fl') hfl'
      refine ⟨_, ?_, hc1.recur hin1 hr (some ⟨fl', some (fl'.length - 1)⟩) (offOf e :: log'),
        fun _ => ?_⟩
      · unfold RC.prev; simp only [hcur, hnx]
        rw [recurIndex_inner hin1]
        simp only [RC.withCur, hr, RC.enter, hl, hes, hlast, hi', if_false]
      · refine ⟨rev'.reverse, ⟨fl', some (fl'.length - 1)⟩, off', fl', pre', fl ++ post,
          fl'.length - 1, rfl, rfl, ?_, rfl, rfl, by omega, ?_⟩
        · rw [List.reverse_reverse]; exact hupn
        · have := congrArg List.length hp; simp at this; omega

end

end Grenad.TCursor
