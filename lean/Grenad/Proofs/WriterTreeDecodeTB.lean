/-
  T-writer, part 8: the per-block hypothesis `BlocksDecode` of the specification decoder,
  discharged from T-block (`parse_built`, `BlockOf.entryAt_lt`, `BlockOf.entryAt_end`) for logs
  whose blocks are shorter than `2^32` bytes, and the resulting unconditional statement.
-/
import Grenad.Proofs.WriterTreeDecode
import Grenad.Proofs.TBlock

namespace Grenad

open WT

theorem BW.Made.built {iv : Nat} {w : BW} (h : BW.Made iv w) : BW.Built iv w.items w := by
  induction h with
  | new => exact BW.Built.nil
  | insert _ hi ih =>
    have := BW.Built.snoc ih hi
    rw [← (BW.wt_insert_spec hi).1] at this
    exact this

theorem SpecDecode.walk_blockOf {iv : Nat} {es : List Entry} {b : Block} (hb : BlockOf iv es b) :
    ∀ fuel i, i ≤ es.length → es.length - i < fuel →
      SpecDecode.walk b fuel (offAt es i) = es.drop i := by
  intro fuel
  induction fuel with
  | zero => intro i _ h; omega
  | succ fuel ih =>
    intro i hi hf
    unfold SpecDecode.walk
    rcases Nat.lt_or_ge i es.length with h | h
    · rw [hb.entryAt_lt h]
      simp only
      rw [ih (i + 1) (by omega) (by omega)]
      exact (List.drop_eq_getElem_cons h).symm
    · have : i = es.length := by omega
      subst this
      rw [hb.entryAt_end]
      simp

theorem SpecDecode.walk_made {iv : Nat} (hiv : 1 ≤ iv) {w : BW} (h : BW.Made iv w)
    (hlen : w.finish.length < 2 ^ 32) :
    ∃ b, Block.parse w.finish = some b ∧
      SpecDecode.walk b (b.payload.length + 1) 0 = w.items := by
  have hbl : w.buffer.length < 2 ^ 32 := by
    have : w.buffer.length ≤ w.finish.length := by simp [BW.finish]
    omega
  obtain ⟨b, hp, -, -, hb⟩ := parse_built hiv h.built hbl
  refine ⟨b, hp, ?_⟩
  have h0 : offAt w.items 0 = 0 := by simp [offAt]
  have := SpecDecode.walk_blockOf hb (b.payload.length + 1) 0 (Nat.zero_le _)
    (by rw [hb.payload]; have := length_le_frames w.items; omega)
  rw [h0] at this
  simpa using this

/-- Blocks shorter than 4 GiB decode. -/
theorem BlocksDecode.of_small {iv : Nat} (hiv : 1 ≤ iv) {log : List Emitted}
    (hmade : ∀ e ∈ log, ∃ w, BW.Made iv w ∧ e.raw = w.finish ∧ e.items = w.items)
    (hsmall : ∀ e ∈ log, e.raw.length < 2 ^ 32) : BlocksDecode log := by
  intro e he
  obtain ⟨w, hw, hr, hi⟩ := hmade e he
  rw [hr, hi]
  exact SpecDecode.walk_made hiv hw (hr ▸ hsmall e he)

/-- The specification decoder returns the inserted entries on the writer's output
    (all emitted blocks shorter than `2^32` bytes, `index_key_interval ≥ 1`). -/
theorem SpecDecode.entries_run_small {cd : Codec} {cfg : WCfg} {es : List Entry}
    (H : WriterHyps cd cfg es) (hiv : 1 ≤ cfg.interval) {file : Bytes} {log : List Emitted}
    (hrun : W.run cd cfg es = .ok (file, log))
    (hfile : file.length < 2 ^ 64) (hcount : es.length < 2 ^ 64) (hid : cd.id ≤ 5)
    (hsmall : ∀ e ∈ log, e.raw.length < 2 ^ 32) :
    SpecDecode.entries cd file = some es := by
  obtain ⟨-, -, -, hmade, -⟩ := T_writer_bytes H hrun hfile
  exact SpecDecode.entries_run H hrun hfile hcount hid (BlocksDecode.of_small hiv hmade hsmall)

end Grenad
