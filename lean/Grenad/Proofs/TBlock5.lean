/-
  T-block, part 3c: `le` / `ge`, and the packaged simulation theorem.
-/
import Grenad.Proofs.TBlock4
import Grenad.Model.Reader

set_option linter.unusedSimpArgs false

namespace Grenad

/-- The comparison `entry_at(off).key < Some(key)` used by the binary search of `searchKey`. -/
def keyLt (b : Block) (q : Bytes) (off : Nat) : Bool :=
  match (b.entryAt off).map (fun (k, _, _) => k) with
  | none => true
  | some k => decide (k < q)

theorem searchKey_eq (b : Block) (q : Bytes) :
    BlockCursor.searchKey b q =
      match b.offsets[(b.offsets.takeWhile (keyLt b q)).length]? with
      | some off => (decide ((b.entryAt off).map (fun (k, _, _) => k) = some q),
                      (b.offsets.takeWhile (keyLt b q)).length)
      | none => (false, (b.offsets.takeWhile (keyLt b q)).length) := rfl

section Le

variable {iv : Nat} {es : List Entry} {b : Block}

theorem keyLt_offAt (hb : BlockOf iv es b) (q : Bytes) {m : Nat} (hm : m < es.length) :
    keyLt b q (offAt es m) = decide (es[m].1 < q) := by
  simp [keyLt, entryAt_offAt hb.payload hb.lens hm]

theorem keyLt_end (hb : BlockOf iv es b) (q : Bytes) : keyLt b q (offAt es es.length) = true := by
  simp [keyLt, entryAt_offAt_end hb.payload]

/-- Target offset of `le`: the last entry with key `≤ q`, if any. -/
def leOff (es : List Entry) (q : Bytes) : Option Nat :=
  if Spec.upperBound es q = 0 then none else some (offAt es (Spec.upperBound es q - 1))

theorem scanLe_branch (hb : BlockOf iv es b) (q : Bytes) {s : Nat} (hs : s ≤ es.length - 1)
    (hlt : keyLt b q (offAt es s) = true) :
    BlockCursor.scanLe b q (b.payload.length + 1) (offAt es s) none = leOff es q := by
  obtain ⟨u0, u1, u2⟩ := upperBound_spec es q
  have hfuel := hb.fuel
  unfold leOff
  rcases Nat.eq_zero_or_pos es.length with h0 | h0
  · have hs0 : s = 0 := by omega
    have hu : Spec.upperBound es q = 0 := by omega
    rw [scanLe_spec hb.payload hb.lens q u0 u1 u2 _ s none (by omega) (by omega)]
    simp [hu, hs0]
  · have hsn : s < es.length := by omega
    rw [keyLt_offAt hb q hsn] at hlt
    have hlt' : es[s].1 < q := by simpa using hlt
    have hsu : s < Spec.upperBound es q := by
      rcases Nat.lt_or_ge s (Spec.upperBound es q) with h | h
      · exact h
      · have h1 : Spec.upperBound es q < es.length := by omega
        have h2 := u2 h1
        have h3 := asc_get_le hb.asc h hsn
        exact absurd (Std.lt_of_lt_of_le h2 (Std.le_trans h3 (Std.le_of_lt hlt'))) (Std.lt_irrefl)
    rw [scanLe_spec hb.payload hb.lens q u0 u1 u2 _ s none (by omega) (by omega)]
    have : ¬ Spec.upperBound es q = 0 := by omega
    simp [hsu, this]

theorem searchKey_cases (hb : BlockOf iv es b) (q : Bytes) :
    ∃ (found : Bool) (i : Nat), BlockCursor.searchKey b q = (found, i) ∧ i ≤ b.offsets.length ∧
      (0 < i → keyLt b q (offAt es ((i - 1) * iv)) = true) ∧
      (found = true → i < b.offsets.length ∧ ∃ h : i * iv < es.length, es[i * iv].1 = q) ∧
      (found = false → i < b.offsets.length → ∃ h : i * iv < es.length, q < es[i * iv].1) := by
  obtain ⟨s0, s1, s2⟩ := takeWhile_spec (keyLt b q) b.offsets
  rw [searchKey_eq]
  generalize (List.takeWhile (keyLt b q) b.offsets).length = i at s0 s1 s2
  have hprev : 0 < i → keyLt b q (offAt es ((i - 1) * iv)) = true := by
    intro hi
    have hlt1 : i - 1 < b.offsets.length := by omega
    have hk := s1 (i - 1) (by omega) hlt1
    rw [hb.offs_get hlt1] at hk
    exact hk
  rcases Nat.lt_or_ge i b.offsets.length with hik | hik
  · have hidx := hb.offs_idx hik
    have hnl := s2 hik
    rw [hb.offs_get hik] at hnl
    have hn : i * iv < es.length := by
      rcases Nat.lt_or_ge (i * iv) es.length with h | h
      · exact h
      · have : i * iv = es.length := by omega
        rw [this, keyLt_end hb] at hnl; cases hnl
    rw [keyLt_offAt hb q hn] at hnl
    have hnl' : ¬ es[i * iv].1 < q := by simpa using hnl
    simp only [hb.offs_get? hik, entryAt_offAt hb.payload hb.lens hn, Option.map_some]
    refine ⟨_, _, rfl, s0, hprev, ?_, ?_⟩
    · intro hf
      exact ⟨hik, hn, by simpa using hf⟩
    · intro hf _
      have hne : ¬ es[i * iv].1 = q := by simpa using hf
      exact ⟨hn, Std.lt_of_le_of_ne (List.not_lt.mp hnl') (fun h => hne h.symm)⟩
  · have hnone : b.offsets[i]? = none := by simp [hik]
    simp only [hnone]
    refine ⟨_, _, rfl, s0, hprev, ?_, ?_⟩
    · intro hf; cases hf
    · intro _ h; omega

theorem le_off (hb : BlockOf iv es b) (o : Option Nat) (q : Bytes) :
    ((BlockCursor.mk b o).le q).1 = ⟨b, leOff es q⟩ := by
  obtain ⟨found, i, hsk, hik, hprev, hT, hF⟩ := searchKey_cases hb q
  simp only [BlockCursor.le, hsk]
  cases found with
  | true =>
    obtain ⟨hlt, hn, hfound⟩ := hT rfl
    have hub : Spec.upperBound es q = i * iv + 1 := by
      apply upperBound_eq (by omega)
      · intro m hm hm'
        rw [← hfound]; exact asc_get_le hb.asc (by omega) hn
      · intro h
        rw [← hfound]; exact asc_get hb.asc (by omega) h
    simp [leOff, hub, List.getD_eq_getElem?_getD, hb.offs_get? hlt]
  | false =>
    simp only [Bool.false_eq_true, if_false]
    by_cases hi0 : i = 0
    · subst hi0
      obtain ⟨hn, hgt⟩ := hF rfl hb.offs_pos
      have hub : Spec.upperBound es q = 0 := by
        apply upperBound_eq (by omega)
        · intro m hm; omega
        · intro h; simpa using hgt
      simp [leOff, hub]
    · have hlt1 : i - 1 < b.offsets.length := by omega
      simp only [hi0, if_false, hb.offs_get? hlt1]
      rw [scanLe_branch hb q (hb.offs_idx hlt1) (hprev (by omega))]

theorem le_eq (hb : BlockOf iv es b) (o : Option Nat) (q : Bytes) :
    (BlockCursor.mk b o).le q = (⟨b, leOff es q⟩, (BlockCursor.mk b (leOff es q)).current) := by
  have h1 := le_off hb o q
  have h2 : ((BlockCursor.mk b o).le q).2 = ((BlockCursor.mk b o).le q).1.current := rfl
  rw [h1] at h2
  exact Prod.ext h1 h2

/-- `le` lands on the last entry with key `≤ q` (bonus: `LC` has no `le`). -/
theorem le_spec (hb : BlockOf iv es b) (o : Option Nat) (q : Bytes) :
    BRepr es b ((BlockCursor.mk b o).le q).1
      ⟨es, if Spec.upperBound es q = 0 then none else some (Spec.upperBound es q - 1)⟩ ∧
    ((BlockCursor.mk b o).le q).2 =
      (if Spec.upperBound es q = 0 then none else es[Spec.upperBound es q - 1]?) := by
  obtain ⟨u0, _, _⟩ := upperBound_spec es q
  rw [le_eq hb o q]
  by_cases hu : Spec.upperBound es q = 0
  · simp only [leOff, hu, if_true]
    exact ⟨BRepr.mk' none (by simp), rfl⟩
  · simp only [leOff, hu, if_false]
    have h2 : BRepr es b ⟨b, some (offAt es (Spec.upperBound es q - 1))⟩
        ⟨es, some (Spec.upperBound es q - 1)⟩ := BRepr.mk' (some _) (by simp; omega)
    exact ⟨h2, current_sim hb h2⟩

theorem ge_sim (hb : BlockOf iv es b) {c : BlockCursor} {l : LC} (h : BRepr es b c l) (q : Bytes) :
    BRepr es b (c.ge q).1 (l.ge q).1 ∧ (c.ge q).2 = (l.ge q).2 := by
  obtain ⟨pos, rfl, rfl, hpos⟩ := h.cases
  obtain ⟨u0, u1, u2⟩ := upperBound_spec es q
  simp only [BlockCursor.ge, le_eq hb, LC.ge]
  by_cases hu : Spec.upperBound es q = 0
  · have hlb : Spec.lowerBound es q = 0 := by
      apply lowerBound_eq (by omega)
      · intro m hm; omega
      · intro h
        have := u2 (by omega)
        simp only [hu] at this
        exact fun h' => Std.lt_irrefl (Std.lt_trans this h')
    have hcur : (BlockCursor.mk b none).current = none := rfl
    simp only [leOff, hu, if_true, hcur, hlb]
    exact first_sim hb (BRepr.mk' (b := b) (es := es) none (by simp))
  · have hlt : Spec.upperBound es q - 1 < es.length := by omega
    have h2 : BRepr es b ⟨b, some (offAt es (Spec.upperBound es q - 1))⟩
        ⟨es, some (Spec.upperBound es q - 1)⟩ := BRepr.mk' (some _) (by simp; omega)
    have hcur := current_sim hb h2
    have hcur' : (LC.mk es (some (Spec.upperBound es q - 1))).current
        = some (es[Spec.upperBound es q - 1].1, es[Spec.upperBound es q - 1].2) := by
      simp [LC.current, hlt]
    rw [hcur'] at hcur
    have hle : es[Spec.upperBound es q - 1].1 ≤ q := u1 _ (by omega) hlt
    simp only [leOff, hu, if_false, hcur]
    by_cases hk : es[Spec.upperBound es q - 1].1 = q
    · have hlb : Spec.lowerBound es q = Spec.upperBound es q - 1 := by
        apply lowerBound_eq (by omega)
        · intro m hm hm'
          rw [← hk]; exact asc_get hb.asc hm hlt
        · intro _
          rw [hk]; exact Std.lt_irrefl
      simp only [hk, if_true, hlb]
      refine ⟨h2, ?_⟩
      rw [hcur']; simp [hk]
    · have hlb : Spec.lowerBound es q = Spec.upperBound es q := by
        apply lowerBound_eq u0
        · intro m hm hm'
          have h3 : es[m].1 ≤ es[Spec.upperBound es q - 1].1 := asc_get_le hb.asc (by omega) hlt
          exact Std.lt_of_le_of_lt h3 (Std.lt_of_le_of_ne hle hk)
        · intro h
          exact fun h' => Std.lt_irrefl (Std.lt_trans (u2 h) h')
      have hn := next_sim hb h2
      have hln : (LC.mk es (some (Spec.upperBound es q - 1))).next
          = (⟨es, some (Spec.upperBound es q)⟩, (LC.mk es (some (Spec.upperBound es q))).current) := by
        have : Spec.upperBound es q - 1 + 1 = Spec.upperBound es q := by omega
        simp [LC.next, hlt, this]
      rw [hln] at hn
      simp only [hk, if_false, hlb]
      exact hn

end Le

/-! ### The packaged result -/

/-- **T-block.**  The byte-level block cursor simulates the list cursor, move by move. -/
theorem byteOps_sim {iv : Nat} {es : List Entry} {b : Block} (hb : BlockOf iv es b)
    {c : BlockCursor} {l : LC} (h : BRepr es b c l) (m : Mov) :
    let r := byteOps.apply m c
    let r' := LC.ops.apply m l
    BRepr es b r.1 r'.1 ∧ r.2 = r'.2 := by
  cases m with
  | first => exact first_sim hb h
  | last => exact last_sim hb h
  | next => exact next_sim hb h
  | prev => exact prev_sim hb h
  | ge q => exact ge_sim hb h q

theorem byteOps_current {iv : Nat} {es : List Entry} {b : Block} (hb : BlockOf iv es b)
    {c : BlockCursor} {l : LC} (h : BRepr es b c l) :
    byteOps.current c = LC.ops.current l :=
  current_sim hb h

theorem byteOps_init (es : List Entry) (b : Block) :
    BRepr es b (BlockCursor.ofBlock b) (LC.ofList es) := BRepr.ofBlock es b

end Grenad
