/-
  T-cursor, part 5: `recurLevels` — the tree successor / predecessor across block boundaries,
  and preservation of cache soundness by `recurLevels` in any state.
-/
import Grenad.Proofs.TCursor4

namespace Grenad.TCursor

open Grenad Spec

/-! ### In-block relative moves -/

theorem LC_next_some {c : LC} {i : Nat} (h : c.pos = some i) (hi : i < c.es.length) :
    LC.ops.apply .next c = (⟨c.es, some (i + 1)⟩, c.es[i + 1]?) := by
  simp [BlockOps.apply, LC.ops, LC.next, h, hi, LC.current]

theorem LC_next_fresh {c : LC} (h : c.pos = none) :
    LC.ops.apply .next c = (⟨c.es, some 0⟩, c.es[0]?) := by
  simp [BlockOps.apply, LC.ops, LC.next, h, LC.first, LC.current]

theorem LC_prev_zero {c : LC} (h : c.pos = some 0) : LC.ops.apply .prev c = (c, none) := by
  simp [BlockOps.apply, LC.ops, LC.prev, h]

theorem LC_prev_some {c : LC} {i : Nat} (h : c.pos = some i) (h0 : 0 < i) (hi : i < c.es.length) :
    LC.ops.apply .prev c = (⟨c.es, some (i - 1)⟩, c.es[i - 1]?) := by
  have : ¬ (i = 0 ∨ c.es.length ≤ i) := by omega
  simp [BlockOps.apply, LC.ops, LC.prev, h, this, LC.current]

theorem LC_prev_fresh {c : LC} (h : c.pos = none) (hne : c.es ≠ []) :
    LC.ops.apply .prev c = (⟨c.es, some (c.es.length - 1)⟩, c.es[c.es.length - 1]?) := by
  have : c.es.isEmpty = false := by simpa using hne
  simp [BlockOps.apply, LC.ops, LC.prev, h, LC.last, this, LC.current]

/-! ### Unfolding `recurLevels` -/

section
variable {s : Store} {lvl : Nat → Nat}

theorem recurLevels_nil (mov : Mov) (log : List Nat) :
    RC.recurLevels LC.ops s.load true mov [] log = some ([], none, log) := by
  rw [RC.recurLevels]

theorem recurLevels_stay {mov : Mov} {o : Nat} {c c' : LC} {e0 : Entry} (ps : List (Nat × LC))
    (log : List Nat) (h : LC.ops.apply mov c = (c', some e0)) :
    RC.recurLevels LC.ops s.load true mov ((o, c) :: ps) log
      = some ((o, c') :: ps, LC.current c', log) := by
  rw [RC.recurLevels]; simp only [h]; rfl

theorem recurLevels_climb {mov : Mov} {o : Nat} {c c' nc : LC} {e : Entry}
    {ps ps' : List (Nat × LC)} {log log' : List Nat}
    (h : LC.ops.apply mov c = (c', none))
    (hr : RC.recurLevels LC.ops s.load true mov ps log = some (ps', some e, log'))
    (hl : s.load (offOf e) = some nc) :
    RC.recurLevels LC.ops s.load true mov ((o, c) :: ps) log
      = some ((offOf e, (LC.ops.apply mov nc).1) :: ps', (LC.ops.apply mov nc).2, offOf e :: log') := by
  rw [RC.recurLevels]; simp only [h, hr, hl]; rfl

theorem recurLevels_out {mov : Mov} {o : Nat} {c c' : LC}
    {ps ps' : List (Nat × LC)} {log log' : List Nat}
    (h : LC.ops.apply mov c = (c', none))
    (hr : RC.recurLevels LC.ops s.load true mov ps log = some (ps', none, log')) :
    RC.recurLevels LC.ops s.load true mov ((o, c) :: ps) log
      = some ((o, c') :: ps', none, log') := by
  rw [RC.recurLevels]; simp only [h, hr]

/-- `recurLevels` keeps the number of levels and cache soundness, in any state. -/
theorem recurLevels_pres (mov : Mov) :
    ∀ (rev : List (Nat × LC)) (k : Nat) (log : List Nat) (rev' : List (Nat × LC))
      (r : Option Entry) (log' : List Nat),
      RC.recurLevels LC.ops s.load true mov rev log = some (rev', r, log') →
      rev'.length = rev.length ∧ (CSr s lvl k rev → CSr s lvl k rev') := by
  intro rev
  induction rev with
  | nil =>
    intro k log rev' r log' h
    rw [recurLevels_nil] at h
    simp only [Option.some.injEq, Prod.mk.injEq] at h
    obtain ⟨rfl, _, _⟩ := h
    exact ⟨rfl, id⟩
  | cons x ps ih =>
    obtain ⟨o, c⟩ := x
    intro k log rev' r log' h
    have hes := apply_es mov c
    cases ha : LC.ops.apply mov c with
    | mk c' r0 =>
      rw [ha] at hes; simp only at hes
      cases r0 with
      | some e0 =>
        rw [recurLevels_stay ps log ha] at h
        simp only [Option.some.injEq, Prod.mk.injEq] at h
        obtain ⟨rfl, _, _⟩ := h
        refine ⟨rfl, ?_⟩
        intro hcs; exact ⟨fun hl => hes ▸ hcs.1 hl, hcs.2⟩
      | none =>
        cases hr : RC.recurLevels LC.ops s.load true mov ps log with
        | none => rw [RC.recurLevels] at h; simp [ha, hr] at h
        | some res =>
          obtain ⟨ps', r1, log1⟩ := res
          obtain ⟨hlen, hcs'⟩ := ih (k + 1) log ps' r1 log1 hr
          cases r1 with
          | none =>
            rw [recurLevels_out ha hr] at h
            simp only [Option.some.injEq, Prod.mk.injEq] at h
            obtain ⟨rfl, _, _⟩ := h
            refine ⟨by simp [hlen], ?_⟩
            intro hcs; exact ⟨fun hl => hes ▸ hcs.1 hl, hcs' hcs.2⟩
          | some e =>
            cases hl : s.load (offOf e) with
            | none => rw [RC.recurLevels] at h; simp [ha, hr, hl] at h
            | some nc =>
              rw [recurLevels_climb ha hr hl] at h
              simp only [Option.some.injEq, Prod.mk.injEq] at h
              obtain ⟨rfl, _, _⟩ := h
              refine ⟨by simp [hlen], ?_⟩
              intro hcs
              refine ⟨fun _ => ?_, hcs' hcs.2⟩
              rw [apply_es]; exact (load_some hl).1

end

/-! ### Successor -/

section
variable {s : Store} {lvl : Nat → Nat} {D root : Nat} {es : List Entry}

theorem zip_assoc {α} (a : List α) (x y : α) (b : List α) :
    (a ++ [x]) ++ y :: b = a ++ x :: y :: b := by simp

/-- Moving the index levels to the next block of depth `k` in tree order. -/
theorem recur_next (cx : Ctx s lvl D root es) :
    ∀ (parents : List (Nat × LC)) (k off : Nat) (fl pre post : List Entry) (log : List Nat),
      UpPath s lvl D root es k off fl parents pre post →
      (post ≠ [] → ∃ parents' e log' off' fl' post',
          RC.recurLevels LC.ops s.load true .next parents log = some (parents', some e, log') ∧
          post = fl' ++ post' ∧ UpPath s lvl D root es k off' fl' parents' (pre ++ fl) post' ∧
          Sub s lvl k off' fl' ∧ offOf e = off') ∧
      (post = [] → ∃ parents' log',
          RC.recurLevels LC.ops s.load true .next parents log = some (parents', none, log')) := by
  intro parents
  induction parents with
  | nil =>
    intro k off fl pre post log hup
    obtain ⟨_, _, _, _, hpost⟩ := hup
    exact ⟨fun h => absurd hpost h, fun _ => ⟨[], log, recurLevels_nil _ _⟩⟩
  | cons x ps ih =>
    obtain ⟨o, c⟩ := x
    intro k off fl pre post log hup
    obtain ⟨poff, kpre, kpost, pre', post', hpre, hpost, hkids, hce, hpos, hup'⟩ := hup
    have hlt : kpre.length < c.es.length := by rw [hce]; simp
    cases kpost with
    | cons kid2 kpost2 =>
      obtain ⟨off2, fl2⟩ := kid2
      have hk2 : Sub s lvl k off2 fl2 := hkids (off2, fl2) (by simp)
      have hget : c.es[kpre.length + 1]? = some (lastKey fl2, be64 off2) := by
        rw [hce, ← zip_assoc]
        have := idx_zip_get (kpre ++ [(off, fl)]) (off2, fl2) kpost2
        simp
      have hnext := LC_next_some hpos hlt
      rw [hget] at hnext
      constructor
      · intro _
        refine ⟨(o, ⟨c.es, some (kpre.length + 1)⟩) :: ps, (lastKey fl2, be64 off2), log, off2, fl2,
          flat kpost2 ++ post', ?_, ?_, ?_, hk2, offOf_mk _ (cx.off_lt hk2)⟩
        · rw [recurLevels_stay ps log hnext]
          simp only [LC.current, hget]
        · rw [hpost, flat_cons]; simp
        · refine ⟨poff, kpre ++ [(off, fl)], kpost2, pre', post', ?_, rfl, ?_, ?_, by simp, ?_⟩
          · rw [hpre, flat_append]; simp [flat]
          · rw [zip_assoc]; exact hkids
          · rw [zip_assoc]; exact hce
          · rw [zip_assoc]; exact hup'
      · intro h
        rw [hpost, flat_cons] at h
        exact absurd (List.append_eq_nil_iff.1 (List.append_eq_nil_iff.1 h).1).1 (Sub.flat_ne hk2)
    | nil =>
      have hget : c.es[kpre.length + 1]? = none := by
        rw [List.getElem?_eq_none]; rw [hce]; simp
      have hnext := LC_next_some hpos hlt
      rw [hget] at hnext
      simp only [flat, List.flatMap_nil, List.nil_append] at hpost
      subst hpost
      obtain ⟨ih1, ih2⟩ := ih (k + 1) poff _ pre' post log hup'
      constructor
      · intro hne
        obtain ⟨ps', e, log', poff', pfl', post'', hr, hp, hupn, hsubn, hoffn⟩ := ih1 hne
        obtain ⟨kids', hkne', hblk', hkids', rfl⟩ := Sub.inv_node hsubn
        cases kids' with
        | nil => exact absurd rfl hkne'
        | cons kid0 rest =>
          obtain ⟨off0, fl0⟩ := kid0
          have hk0 : Sub s lvl k off0 fl0 := hkids' (off0, fl0) (by simp)
          have hl : s.load (offOf e) = some (LC.ofList (idx ((off0, fl0) :: rest))) := by
            rw [hoffn]; exact load_eq hblk'
          have hfresh := LC_next_fresh (c := LC.ofList (idx ((off0, fl0) :: rest))) rfl
          have hclimb := recurLevels_climb (o := o) hnext hr hl
          rw [hfresh] at hclimb
          refine ⟨_, _, _, off0, fl0, flat rest ++ post'', hclimb, ?_, ?_, hk0, ?_⟩
          · rw [hp, flat_cons]; simp
          · refine ⟨poff', [], rest, pre' ++ flat (kpre ++ [(off, fl)]), post'', ?_, rfl, hkids', rfl,
              rfl, hupn⟩
            rw [hpre, flat_append]; simp [flat]
          · show offOf (lastKey fl0, be64 off0) = off0
            exact offOf_mk _ (cx.off_lt hk0)
      · intro hp
        obtain ⟨ps', log', hr⟩ := ih2 hp
        exact ⟨_, _, recurLevels_out hnext hr⟩

/-- Moving the index levels to the previous block of depth `k` in tree order. -/
theorem recur_prev (cx : Ctx s lvl D root es) :
    ∀ (parents : List (Nat × LC)) (k off : Nat) (fl pre post : List Entry) (log : List Nat),
      UpPath s lvl D root es k off fl parents pre post →
      (pre ≠ [] → ∃ parents' e log' off' fl' pre',
          RC.recurLevels LC.ops s.load true .prev parents log = some (parents', some e, log') ∧
          pre = pre' ++ fl' ∧ UpPath s lvl D root es k off' fl' parents' pre' (fl ++ post) ∧
          Sub s lvl k off' fl' ∧ offOf e = off') ∧
      (pre = [] → ∃ parents' log',
          RC.recurLevels LC.ops s.load true .prev parents log = some (parents', none, log')) := by
  intro parents
  induction parents with
  | nil =>
    intro k off fl pre post log hup
    obtain ⟨_, _, _, hpre, _⟩ := hup
    exact ⟨fun h => absurd hpre h, fun _ => ⟨[], log, recurLevels_nil _ _⟩⟩
  | cons x ps ih =>
    obtain ⟨o, c⟩ := x
    intro k off fl pre post log hup
    obtain ⟨poff, kpre, kpost, pre', post', hpre, hpost, hkids, hce, hpos, hup'⟩ := hup
    have hlt : kpre.length < c.es.length := by rw [hce]; simp
    rcases List.eq_nil_or_concat kpre with hk | ⟨kpre2, kid2, hk⟩
    · -- first child: climb
      subst hk
      have hprev := LC_prev_zero (c := c) hpos
      simp only [flat, List.flatMap_nil, List.append_nil] at hpre
      subst hpre
      obtain ⟨ih1, ih2⟩ := ih (k + 1) poff _ pre post' log hup'
      constructor
      · intro hne
        obtain ⟨ps', e, log', poff', pfl', pre'', hr, hp, hupn, hsubn, hoffn⟩ := ih1 hne
        obtain ⟨kids', hkne', hblk', hkids', rfl⟩ := Sub.inv_node hsubn
        obtain ⟨kinit, kid0, rfl⟩ := exists_snoc hkne'
        obtain ⟨off0, fl0⟩ := kid0
        have hk0 : Sub s lvl k off0 fl0 := hkids' (off0, fl0) (by simp)
        have hl : s.load (offOf e) = some (LC.ofList (idx (kinit ++ [(off0, fl0)]))) := by
          rw [hoffn]; exact load_eq hblk'
        have hfresh := LC_prev_fresh (c := LC.ofList (idx (kinit ++ [(off0, fl0)]))) rfl
          (by simp [LC.ofList])
        have hclimb := recurLevels_climb (o := o) hprev hr hl
        rw [hfresh] at hclimb
        have hlen : (LC.ofList (idx (kinit ++ [(off0, fl0)]))).es.length - 1 = kinit.length := by
          simp [LC.ofList]
        rw [hlen] at hclimb
        have hget : (LC.ofList (idx (kinit ++ [(off0, fl0)]))).es[kinit.length]?
            = some (lastKey fl0, be64 off0) := idx_zip_get kinit (off0, fl0) []
        rw [hget] at hclimb
        refine ⟨_, _, _, off0, fl0, pre'' ++ flat kinit, hclimb, ?_, ?_, hk0,
          offOf_mk _ (cx.off_lt hk0)⟩
        · rw [hp, flat_append]; simp [flat]
        · refine ⟨poff', kinit, [], pre'', flat ([] ++ (off, fl) :: kpost) ++ post', rfl, ?_, hkids',
            rfl, rfl, hupn⟩
          rw [hpost]; simp [flat]
      · intro hp
        obtain ⟨ps', log', hr⟩ := ih2 hp
        exact ⟨_, _, recurLevels_out hprev hr⟩
    · -- an earlier sibling exists
      subst hk
      obtain ⟨off2, fl2⟩ := kid2
      have hk2 : Sub s lvl k off2 fl2 := hkids (off2, fl2) (by simp)
      have hl2 : (kpre2.concat (off2, fl2)).length - 1 = kpre2.length := by simp
      have hget : c.es[(kpre2.concat (off2, fl2)).length - 1]? = some (lastKey fl2, be64 off2) := by
        rw [hl2, hce, List.concat_eq_append, zip_assoc]
        exact idx_zip_get kpre2 (off2, fl2) ((off, fl) :: kpost)
      have hprev := LC_prev_some hpos (by simp) hlt
      rw [hget, hl2] at hprev
      rw [List.concat_eq_append] at hpre hkids hce hup'
      constructor
      · intro _
        refine ⟨(o, ⟨c.es, some kpre2.length⟩) :: ps, (lastKey fl2, be64 off2), log, off2, fl2,
          pre' ++ flat kpre2, ?_, ?_, ?_, hk2, offOf_mk _ (cx.off_lt hk2)⟩
        · rw [recurLevels_stay ps log hprev]
          simp only [LC.current]
          rw [hl2] at hget; rw [hget]
        · rw [hpre, flat_append]; simp [flat]
        · refine ⟨poff, kpre2, (off, fl) :: kpost, pre', post', rfl, ?_, ?_, ?_, rfl, ?_⟩
          · rw [hpost, flat_cons]; simp
          · rw [← zip_assoc]; exact hkids
          · rw [← zip_assoc]; exact hce
          · rw [← zip_assoc]; exact hup'
      · intro h
        rw [hpre, flat_append] at h
        have := (List.append_eq_nil_iff.1 (List.append_eq_nil_iff.1 h).2).2
        simp [flat] at this
        exact absurd this (Sub.flat_ne hk2)

end

end Grenad.TCursor
