/-
  WriterInv — invariants of the SSTable writer over its ghost log of emitted blocks
  (support for properties C18 and C15).

  * `WriterInvBW`     : `BW.insert` / `BW.Reach`
  * `WriterInvCut`    : `Pend`, `GoodPred`, `EmOK`, `allKeys`, `W.cutLevels_spec`
  * `WriterInvRun`    : `W.Inv`, `W.insert_spec`, `W.go_spec`
  * `WriterInvFinish` : `W.flushLevels_spec`, `W.finish_spec`, `W.run_spec`
-/
import Grenad.Proofs.WriterInvFinish

namespace Grenad

open BW

theorem BW.Reach.eq_new_of_items_nil {iv : Nat} {w : BW} (h : Reach iv w) (he : w.items = []) :
    w = BW.new iv := by
  rcases h.cases_items with h | ⟨p, k, v, _, hi⟩
  · exact h
  · rw [(insert_ok hi).2.2.2.2.2.1] at he
    simp at he

theorem BW.Reach.sizeEstimate_eq {iv : Nat} {w : BW} (h : Reach iv w) :
    w.sizeEstimate = (w.items.map frameOf).flatten.length + w.offsets.length * 8 + 4 := by
  rw [sizeEstimate, h.buffer_eq]

namespace W

theorem go_append (cd : Codec) : ∀ (a b : List Entry) (w : W),
    W.run.go cd w (a ++ b) = match W.run.go cd w a with
      | .error t => .error t
      | .ok w' => W.run.go cd w' b := by
  intro a
  induction a with
  | nil => intro b w; rfl
  | cons kv rest ih =>
    intro b w
    obtain ⟨k, v⟩ := kv
    simp only [List.cons_append, W.run.go]
    cases W.insert cd w k v with
    | error t => rfl
    | ok w' => exact ih b w'

/-- A trap of the insert loop is the trap of one `insert`, all earlier ones having succeeded. -/
theorem go_error_split (cd : Codec) : ∀ (kvs : List Entry) (w : W) (t : Trap),
    W.run.go cd w kvs = .error t →
    ∃ pre k v post w', kvs = pre ++ (k, v) :: post ∧ W.run.go cd w pre = .ok w' ∧
      W.insert cd w' k v = .error t := by
  intro kvs
  induction kvs with
  | nil => intro w t h; cases h
  | cons kv rest ih =>
    intro w t h
    obtain ⟨k, v⟩ := kv
    simp only [W.run.go] at h
    cases hin : W.insert cd w k v with
    | error t' =>
      rw [hin] at h
      injection h with h
      subst h
      exact ⟨[], k, v, rest, w, rfl, rfl, hin⟩
    | ok w1 =>
      rw [hin] at h
      obtain ⟨pre, k', v', post, w', hsplit, hgo, hins⟩ := ih w1 t h
      refine ⟨(k, v) :: pre, k', v', post, w', by rw [hsplit]; rfl, ?_, hins⟩
      simp only [W.run.go, hin]
      exact hgo

/-! ### The run depends on the configuration only through `clamped`, `interval`, `levels` -/

theorem insert_cfg_eq (cd : Codec) (w w' : W) (k v : Bytes) (h : W.insert cd w k v = .ok w') :
    w'.cfg = w.cfg := by
  unfold W.insert at h
  cases hb : w.bw.insert k v with
  | error t => rw [hb] at h; cases h
  | ok bw =>
    rw [hb] at h
    simp only at h
    split at h
    · cases hl : bw.lastKey with
      | none => rw [hl] at h; injection h with h; subst h; rfl
      | some lk =>
        rw [hl] at h
        simp only at h
        cases hi : w.idx[w.idx.length - 1]? with
        | none => rw [hi] at h; injection h with h; subst h; rfl
        | some li =>
          rw [hi] at h
          simp only at h
          cases hins : li.insert lk (be64 w.out.length) with
          | error t => rw [hins] at h; cases h
          | ok li' =>
            rw [hins] at h
            simp only at h
            split at h
            · cases h
            · injection h with h; subst h; rfl
    · injection h with h; subst h; rfl

theorem insert_cfg (cd : Codec) (w : W) (c' : WCfg) (k v : Bytes) (h : c'.clamped = w.cfg.clamped) :
    W.insert cd { w with cfg := c' } k v
      = (W.insert cd w k v).map (fun w' => { w' with cfg := c' }) := by
  unfold W.insert
  simp only [h]
  cases w.bw.insert k v with
  | error t => rfl
  | ok bw =>
    simp only
    split
    · cases bw.lastKey with
      | none => rfl
      | some lk =>
        simp only
        cases w.idx[w.idx.length - 1]? with
        | none => rfl
        | some li =>
          simp only
          cases li.insert lk (be64 w.out.length) with
          | error t => rfl
          | ok li' =>
            simp only
            cases cutLevels cd w.cfg.clamped (w.idx.length - 1) (w.idx.set (w.idx.length - 1) li')
              (w.out ++ blockBytes cd bw.finish)
              (w.log ++ [{ offset := w.out.length, level := 0, raw := bw.finish, items := bw.items }]) with
            | error t => rfl
            | ok r => rfl
    · rfl

theorem go_cfg (cd : Codec) (c' : WCfg) : ∀ (kvs : List Entry) (w : W), c'.clamped = w.cfg.clamped →
    W.run.go cd { w with cfg := c' } kvs = (W.run.go cd w kvs).map (fun w' => { w' with cfg := c' }) := by
  intro kvs
  induction kvs with
  | nil => intro w _; rfl
  | cons kv rest ih =>
    intro w h
    obtain ⟨k, v⟩ := kv
    simp only [W.run.go, insert_cfg cd w c' k v h]
    cases hin : W.insert cd w k v with
    | error t => rfl
    | ok w1 =>
      simp only [Except.map]
      exact ih w1 (by rw [insert_cfg_eq cd w w1 k v hin]; exact h)

theorem finish_cfg (cd : Codec) (w : W) (c' : WCfg) :
    W.finish cd { w with cfg := c' } = W.finish cd w := rfl

/-- Two configurations with the same clamped block size, key interval and level count produce the
    same file and the same log. -/
theorem run_cfg_indep (cd : Codec) (c1 c2 : WCfg) (kvs : List Entry)
    (hB : c1.clamped = c2.clamped) (hi : c1.interval = c2.interval) (hl : c1.levels = c2.levels) :
    W.run cd c1 kvs = W.run cd c2 kvs := by
  have hnew : W.new c1 = { W.new c2 with cfg := c1 } := by simp [W.new, hi, hl]
  unfold W.run
  rw [hnew, go_cfg cd c1 kvs (W.new c2) hB]
  cases W.run.go cd (W.new c2) kvs with
  | error t => rfl
  | ok w => exact finish_cfg cd w c1

end W
end Grenad
