/-
  Trailer encode/parse round trips (used by C10, C09/T-writer).
-/
import Grenad.Model.Meta
import Grenad.Model.Reader

namespace Grenad.MetaP

open Grenad

theorem leN_length (n v : Nat) : (leN n v).length = n := by
  induction n generalizing v with
  | zero => rfl
  | succ n ih => simp [leN, ih]

theorem leVal_leN (n v : Nat) (h : v < 256 ^ n) : leVal (leN n v) = v := by
  induction n generalizing v with
  | zero => simp [leN, leVal]; omega
  | succ n ih =>
    have hd : v / 256 < 256 ^ n := by
      rw [Nat.div_lt_iff_lt_mul (by decide)]; rw [Nat.pow_succ] at h; omega
    have hb : (UInt8.toNat (v % 256).toUInt8) = v % 256 := by
      simp [Nat.toUInt8, UInt8.toNat_ofNat']
    simp only [leN, leVal, ih _ hd, hb]
    omega

theorem leVal_le64 (v : Nat) (h : v < 2^64) : leVal (le64 v) = v :=
  leVal_leN 8 v (by simpa using h)

theorem leVal_le32 (v : Nat) (h : v < 2^32) : leVal (le32 v) = v :=
  leVal_leN 4 v (by simpa using h)

theorem le64_length (v : Nat) : (le64 v).length = 8 := leN_length 8 v
theorem le32_length (v : Nat) : (le32 v).length = 4 := leN_length 4 v

private theorem drop_len_sub {α} (a b : List α) (n : Nat) (h : b.length = n) :
    (a ++ b).drop ((a ++ b).length - n) = b := by
  have : (a ++ b).length - n = a.length := by simp; omega
  rw [this, List.drop_left]

/-- Opening a file that ends with the 21-byte version-1 trailer returns exactly its fields. -/
theorem parse_encode_v1 (body : Bytes) (root codec count : Nat)
    (hr : root < 2^64) (hc : codec ≤ 5) (hn : count < 2^64) :
    Meta.parse (body ++ Meta.encode { version := 1, root := root, codec := codec, count := count, levels := 0 })
      = .ok { version := 1, root := root, codec := codec, count := count, levels := 0 } := by
  have hcodec : (UInt8.ofNat codec).toNat = codec := by
    simp [UInt8.toNat_ofNat']; omega
  have hlen : (Meta.encode { version := 1, root := root, codec := codec, count := count, levels := 0 }).length = 21 := by
    simp [Meta.encode, le64_length, le32_length]
  have e : Meta.encode { version := 1, root := root, codec := codec, count := count, levels := 0 }
      = le64 root ++ ([UInt8.ofNat codec] ++ (le64 count ++ le32 Meta.magicV1)) := by
    simp [Meta.encode, List.append_assoc]
  unfold Meta.parse
  have h4 : ¬ ((body ++ Meta.encode { version := 1, root := root, codec := codec, count := count, levels := 0 }).length < 4) := by
    simp [hlen]
  have h21 : ¬ ((body ++ Meta.encode { version := 1, root := root, codec := codec, count := count, levels := 0 }).length < 21) := by
    simp [hlen]
  have dm : (body ++ Meta.encode { version := 1, root := root, codec := codec, count := count, levels := 0 }).drop
      ((body ++ Meta.encode { version := 1, root := root, codec := codec, count := count, levels := 0 }).length - 4)
      = le32 Meta.magicV1 := by
    rw [e]
    have : body ++ (le64 root ++ ([UInt8.ofNat codec] ++ (le64 count ++ le32 Meta.magicV1)))
        = (body ++ le64 root ++ [UInt8.ofNat codec] ++ le64 count) ++ le32 Meta.magicV1 := by
      simp [List.append_assoc]
    rw [this]; exact drop_len_sub _ _ 4 (le32_length _)
  have dt : (body ++ Meta.encode { version := 1, root := root, codec := codec, count := count, levels := 0 }).drop
      ((body ++ Meta.encode { version := 1, root := root, codec := codec, count := count, levels := 0 }).length - 21)
      = Meta.encode { version := 1, root := root, codec := codec, count := count, levels := 0 } :=
    drop_len_sub _ _ 21 hlen
  simp only [h4, h21, if_false, dm, dt]
  have hm : leVal (le32 Meta.magicV1) = Meta.magicV1 := leVal_le32 _ (by decide)
  simp only [hm, if_true]
  rw [e]
  have g8 : (le64 root ++ ([UInt8.ofNat codec] ++ (le64 count ++ le32 Meta.magicV1))).getD 8 0 = UInt8.ofNat codec := by
    rw [List.getD_eq_getElem?_getD, List.getElem?_append_right (by simp [le64_length])]
    simp [le64_length]
  have t8 : (le64 root ++ ([UInt8.ofNat codec] ++ (le64 count ++ le32 Meta.magicV1))).take 8 = le64 root := by
    rw [List.take_append_of_le_length (by simp [le64_length])]
    exact List.take_of_length_le (by simp [le64_length])
  have d9 : ((le64 root ++ ([UInt8.ofNat codec] ++ (le64 count ++ le32 Meta.magicV1))).drop 9).take 8 = le64 count := by
    have : le64 root ++ ([UInt8.ofNat codec] ++ (le64 count ++ le32 Meta.magicV1))
        = (le64 root ++ [UInt8.ofNat codec]) ++ (le64 count ++ le32 Meta.magicV1) := by simp [List.append_assoc]
    rw [this, List.drop_left' (by simp [le64_length])]
    rw [List.take_append_of_le_length (by simp [le64_length])]
    exact List.take_of_length_le (by simp [le64_length])
  simp only [g8, t8, d9, hcodec]
  have : ¬ (codec > 5) := by omega
  simp [this, leVal_le64 _ hr, leVal_le64 _ hn]

/-- Opening a file that ends with the 22-byte version-2 trailer returns exactly its fields. -/
theorem parse_encode_v2 (body : Bytes) (root codec count levels : Nat)
    (hr : root < 2^64) (hc : codec ≤ 5) (hn : count < 2^64) (hl : levels < 256) :
    Meta.parse (body ++ Meta.encode { version := 2, root := root, codec := codec, count := count, levels := levels })
      = .ok { version := 2, root := root, codec := codec, count := count, levels := levels } := by
  have hcodec : (UInt8.ofNat codec).toNat = codec := by
    simp [UInt8.toNat_ofNat']; omega
  have hlevels : (UInt8.ofNat levels).toNat = levels := by
    simp [UInt8.toNat_ofNat']; omega
  have hlen : (Meta.encode { version := 2, root := root, codec := codec, count := count, levels := levels }).length = 22 := by
    simp [Meta.encode, le64_length, le32_length]
  have e : Meta.encode { version := 2, root := root, codec := codec, count := count, levels := levels }
      = le64 root ++ ([UInt8.ofNat codec] ++ (le64 count ++ ([UInt8.ofNat levels] ++ le32 Meta.magicV2))) := by
    simp [Meta.encode, List.append_assoc]
  unfold Meta.parse
  have h4 : ¬ ((body ++ Meta.encode { version := 2, root := root, codec := codec, count := count, levels := levels }).length < 4) := by
    simp [hlen]
  have h22 : ¬ ((body ++ Meta.encode { version := 2, root := root, codec := codec, count := count, levels := levels }).length < 22) := by
    simp [hlen]
  have dm : (body ++ Meta.encode { version := 2, root := root, codec := codec, count := count, levels := levels }).drop
      ((body ++ Meta.encode { version := 2, root := root, codec := codec, count := count, levels := levels }).length - 4)
      = le32 Meta.magicV2 := by
    rw [e]
    have : body ++ (le64 root ++ ([UInt8.ofNat codec] ++ (le64 count ++ ([UInt8.ofNat levels] ++ le32 Meta.magicV2))))
        = (body ++ le64 root ++ [UInt8.ofNat codec] ++ le64 count ++ [UInt8.ofNat levels]) ++ le32 Meta.magicV2 := by
      simp [List.append_assoc]
    rw [this]; exact drop_len_sub _ _ 4 (le32_length _)
  have dt : (body ++ Meta.encode { version := 2, root := root, codec := codec, count := count, levels := levels }).drop
      ((body ++ Meta.encode { version := 2, root := root, codec := codec, count := count, levels := levels }).length - 22)
      = Meta.encode { version := 2, root := root, codec := codec, count := count, levels := levels } :=
    drop_len_sub _ _ 22 hlen
  simp only [h4, h22, if_false, dm, dt]
  have hm : leVal (le32 Meta.magicV2) = Meta.magicV2 := leVal_le32 _ (by decide)
  have hne : Meta.magicV2 ≠ Meta.magicV1 := by decide
  simp only [hm, hne, if_false, if_true]
  rw [e]
  have g8 : (le64 root ++ ([UInt8.ofNat codec] ++ (le64 count ++ ([UInt8.ofNat levels] ++ le32 Meta.magicV2)))).getD 8 0 = UInt8.ofNat codec := by
    rw [List.getD_eq_getElem?_getD, List.getElem?_append_right (by simp [le64_length])]
    simp [le64_length]
  have g17 : (le64 root ++ ([UInt8.ofNat codec] ++ (le64 count ++ ([UInt8.ofNat levels] ++ le32 Meta.magicV2)))).getD 17 0 = UInt8.ofNat levels := by
    have : le64 root ++ ([UInt8.ofNat codec] ++ (le64 count ++ ([UInt8.ofNat levels] ++ le32 Meta.magicV2)))
        = (le64 root ++ [UInt8.ofNat codec] ++ le64 count) ++ ([UInt8.ofNat levels] ++ le32 Meta.magicV2) := by
      simp [List.append_assoc]
    rw [this, List.getD_eq_getElem?_getD, List.getElem?_append_right (by simp [le64_length])]
    simp [le64_length]
  have t8 : (le64 root ++ ([UInt8.ofNat codec] ++ (le64 count ++ ([UInt8.ofNat levels] ++ le32 Meta.magicV2)))).take 8 = le64 root := by
    rw [List.take_append_of_le_length (by simp [le64_length])]
    exact List.take_of_length_le (by simp [le64_length])
  have d9 : ((le64 root ++ ([UInt8.ofNat codec] ++ (le64 count ++ ([UInt8.ofNat levels] ++ le32 Meta.magicV2)))).drop 9).take 8 = le64 count := by
    have : le64 root ++ ([UInt8.ofNat codec] ++ (le64 count ++ ([UInt8.ofNat levels] ++ le32 Meta.magicV2)))
        = (le64 root ++ [UInt8.ofNat codec]) ++ (le64 count ++ ([UInt8.ofNat levels] ++ le32 Meta.magicV2)) := by simp [List.append_assoc]
    rw [this, List.drop_left' (by simp [le64_length])]
    rw [List.take_append_of_le_length (by simp [le64_length])]
    exact List.take_of_length_le (by simp [le64_length])
  simp only [g8, g17, t8, d9, hcodec, hlevels]
  have : ¬ (codec > 5) := by omega
  simp [this, leVal_le64 _ hr, leVal_le64 _ hn]

/-- A block that lies inside `body` is loaded identically whatever follows `body`. -/
theorem loadBlockLen_body_indep (cd : Codec) (body t1 t2 : Bytes) (off : Nat)
    (hdr : Bytes) (h8 : slice? body off 8 = some hdr) (hin : off + 8 + beVal hdr ≤ body.length) :
    loadBlockLen cd (body ++ t1) off = loadBlockLen cd (body ++ t2) off := by
  have hle : off + 8 ≤ body.length := by
    unfold slice? at h8; split at h8 <;> simp_all
  have hs : ∀ t, slice? (body ++ t) off 8 = some hdr := by
    intro t
    unfold slice? at h8 ⊢
    have : off + 8 ≤ (body ++ t).length := by simp; omega
    simp only [this, if_true]
    simp only [hle, if_true] at h8
    rw [List.drop_append_of_le_length (by omega), List.take_append_of_le_length (by simp; omega)]
    exact h8
  have hb : ∀ t, ((body ++ t).drop (off + 8)).take (beVal hdr) = (body.drop (off + 8)).take (beVal hdr) := by
    intro t
    rw [List.drop_append_of_le_length (by omega), List.take_append_of_le_length (by simp; omega)]
  unfold loadBlockLen
  simp only [hs, hb]

end Grenad.MetaP
