/-
  T-writer, part 1: byte-level facts.
  * `leVal (leN k v) = v % 256^k`, `beVal (be64 v) = v`.
  * `Meta.parse (out ++ Meta.encode m) = .ok m` for version-2 trailers.
  * block writers: `BW.Made` (writers obtained from `BW.new` by successful inserts) and what
    holds of them; `BW.insert` succeeds when the key is larger than the last key.
  * `Lay cd log out`: the log offsets are the prefix sums of the block sizes and `out` is the
    concatenation of the blocks; reading a block back with `loadBlock`.
-/
import Grenad.Model.Abstract

namespace Grenad

/-! ### Fixed-width integers -/

namespace WT

theorem leN_length (k v : Nat) : (leN k v).length = k := by
  induction k generalizing v with
  | zero => simp [leN]
  | succ k ih => simp [leN, ih]

theorem toUInt8_toNat_mod (v : Nat) : (v % 256).toUInt8.toNat = v % 256 := by
  simp [Nat.toUInt8, UInt8.toNat_ofNat']

theorem leVal_leN (k v : Nat) : leVal (leN k v) = v % 256 ^ k := by
  induction k generalizing v with
  | zero => simp [leN, leVal, Nat.mod_one]
  | succ k ih =>
    simp only [leN, leVal, ih, toUInt8_toNat_mod]
    rw [Nat.pow_succ, Nat.mul_comm (256 ^ k) 256, Nat.mod_mul]

theorem leVal_le64 {v : Nat} (h : v < 2 ^ 64) : leVal (le64 v) = v := by
  rw [le64, leVal_leN]; exact Nat.mod_eq_of_lt (by simpa using h)

theorem leVal_le32 {v : Nat} (h : v < 2 ^ 32) : leVal (le32 v) = v := by
  rw [le32, leVal_leN]; exact Nat.mod_eq_of_lt (by simpa using h)

theorem beVal_be64 {v : Nat} (h : v < 2 ^ 64) : beVal (be64 v) = v := by
  simp only [beVal, be64, beN, List.reverse_reverse]
  rw [leVal_leN]; exact Nat.mod_eq_of_lt (by simpa using h)

@[simp] theorem be64_length (v : Nat) : (be64 v).length = 8 := by
  simp [be64, beN, leN_length]

@[simp] theorem be32_length (v : Nat) : (be32 v).length = 4 := by
  simp [be32, beN, leN_length]

@[simp] theorem le64_length (v : Nat) : (le64 v).length = 8 := by
  simp [le64, leN_length]

@[simp] theorem le32_length (v : Nat) : (le32 v).length = 4 := by
  simp [le32, leN_length]

/-! ### Trailer -/

theorem meta_encode_v2_length (m : Meta.Meta) (h : m.version = 2) : (Meta.encode m).length = 22 := by
  simp [Meta.encode, h]

theorem meta_parse_encode_v2 (out : Bytes) (m : Meta.Meta) (hv : m.version = 2)
    (hroot : m.root < 2 ^ 64) (hcodec : m.codec ≤ 5) (hcount : m.count < 2 ^ 64)
    (hlevels : m.levels ≤ 255) :
    Meta.parse (out ++ Meta.encode m) = .ok m := by
  obtain ⟨version, root, codec, count, levels⟩ := m
  simp only at hv hroot hcodec hcount hlevels
  subst hv
  have hlen : (out ++ Meta.encode ⟨2, root, codec, count, levels⟩).length = out.length + 22 := by
    simp [Meta.encode]
  have e4 : (out ++ Meta.encode ⟨2, root, codec, count, levels⟩).drop (out.length + 22 - 4)
      = le32 Meta.magicV2 := by
    have : out ++ Meta.encode ⟨2, root, codec, count, levels⟩
        = (out ++ le64 root ++ [UInt8.ofNat codec] ++ le64 count ++ [UInt8.ofNat levels])
            ++ le32 Meta.magicV2 := by
      simp [Meta.encode, List.append_assoc]
    rw [this]
    have hl : out.length + 22 - 4
        = (out ++ le64 root ++ [UInt8.ofNat codec] ++ le64 count ++ [UInt8.ofNat levels]).length := by
      simp
    rw [hl, List.drop_left]
  have e22 : (out ++ Meta.encode ⟨2, root, codec, count, levels⟩).drop (out.length + 22 - 22)
      = Meta.encode ⟨2, root, codec, count, levels⟩ := by
    have : out.length + 22 - 22 = out.length := by omega
    rw [this, List.drop_left]
  have hmagic : leVal (le32 Meta.magicV2) = Meta.magicV2 := leVal_le32 (by decide)
  unfold Meta.parse
  simp only [hlen, e4, e22, hmagic]
  have h1 : ¬ (out.length + 22 < 4) := by omega
  have h2 : ¬ (out.length + 22 < 22) := by omega
  have h3 : ¬ (Meta.magicV2 = Meta.magicV1) := by decide
  simp only [h1, h2, h3, if_false, if_true]
  have t8 : (Meta.encode ⟨2, root, codec, count, levels⟩).take 8 = le64 root := by
    simp only [Meta.encode, List.append_assoc]
    rw [if_neg (by decide)]
    have : (le64 root).length = 8 := by simp
    rw [← this, List.take_left]
  have g8 : (Meta.encode ⟨2, root, codec, count, levels⟩).getD 8 0 = UInt8.ofNat codec := by
    simp only [Meta.encode, List.append_assoc]
    rw [if_neg (by decide)]
    simp [List.getD_eq_getElem?_getD]
  have d9 : ((Meta.encode ⟨2, root, codec, count, levels⟩).drop 9).take 8 = le64 count := by
    have : Meta.encode ⟨2, root, codec, count, levels⟩
        = (le64 root ++ [UInt8.ofNat codec]) ++ (le64 count ++ ([UInt8.ofNat levels] ++ le32 Meta.magicV2)) := by
      simp [Meta.encode, List.append_assoc]
    rw [this]
    have hl : 9 = (le64 root ++ [UInt8.ofNat codec]).length := by simp
    rw [hl, List.drop_left]
    have : (le64 count).length = 8 := by simp
    rw [← this, List.take_left]
  have g17 : (Meta.encode ⟨2, root, codec, count, levels⟩).getD 17 0 = UInt8.ofNat levels := by
    have : Meta.encode ⟨2, root, codec, count, levels⟩
        = (le64 root ++ [UInt8.ofNat codec] ++ le64 count) ++ ([UInt8.ofNat levels] ++ le32 Meta.magicV2) := by
      simp [Meta.encode, List.append_assoc]
    rw [this]
    simp [List.getD_eq_getElem?_getD]
  have c1 : (UInt8.ofNat codec).toNat = codec := by
    simp [UInt8.toNat_ofNat']; omega
  have c2 : (UInt8.ofNat levels).toNat = levels := by
    simp [UInt8.toNat_ofNat']; omega
  simp only [t8, g8, d9, g17, c1, c2, leVal_le64 hroot, leVal_le64 hcount]
  have h4 : ¬ (codec > 5) := by omega
  simp [h4]

/-! ### `lastKey`, `StrictAsc` -/

theorem bytes_lt_trans {a b c : Bytes} (h1 : a < b) (h2 : b < c) : a < c := List.lt_trans h1 h2

theorem lastKey_concat (l : List Entry) (e : Entry) : lastKey (l ++ [e]) = e.1 := by
  simp [lastKey]

theorem lastKey_append {a b : List Entry} (h : b ≠ []) : lastKey (a ++ b) = lastKey b := by
  obtain ⟨ys, y, rfl⟩ : ∃ ys y, b = ys ++ [y] := by
    cases h' : b.getLast? with
    | none => simp at h'; exact absurd h' h
    | some y =>
      obtain ⟨ys, hys⟩ := List.getLast?_eq_some_iff.mp h'
      exact ⟨ys, y, hys⟩
  rw [← List.append_assoc, lastKey_concat, lastKey_concat]

theorem exists_mem_lastKey {es : List Entry} (h : es ≠ []) : ∃ a ∈ es, a.1 = lastKey es := by
  cases h' : es.getLast? with
  | none => simp at h'; exact absurd h' h
  | some y =>
    obtain ⟨ys, rfl⟩ := List.getLast?_eq_some_iff.mp h'
    exact ⟨y, by simp, by rw [lastKey_concat]⟩

theorem getLast?_map_fst_eq_lastKey {es : List Entry} (h : es ≠ []) :
    es.getLast?.map (·.1) = some (lastKey es) := by
  cases h' : es.getLast? with
  | none => simp at h'; exact absurd h' h
  | some y => simp [lastKey, h']

end WT

open WT

theorem StrictAsc.concat {es : List Entry} {k v : Bytes} (h : StrictAsc es)
    (hl : ∀ lk, es.getLast?.map (·.1) = some lk → lk < k) : StrictAsc (es ++ [(k, v)]) := by
  unfold StrictAsc at *
  rw [List.pairwise_append]
  refine ⟨h, by simp, ?_⟩
  intro a ha b hb
  simp only [List.mem_singleton] at hb
  subst hb
  cases h' : es.getLast? with
  | none => simp at h'; subst h'; simp at ha
  | some y =>
    have hy : y.1 < k := hl y.1 (by simp [h'])
    obtain ⟨ys, rfl⟩ := List.getLast?_eq_some_iff.mp h'
    rw [List.pairwise_append] at h
    rcases List.mem_append.mp ha with ha | ha
    · exact bytes_lt_trans (h.2.2 a ha y (by simp)) hy
    · simp only [List.mem_singleton] at ha; subst ha; exact hy

/-! ### Block writers -/

namespace BW

/-- Writers obtained from `BW.new iv` by successful inserts. -/
inductive Made (iv : Nat) : BW → Prop
  | new : Made iv (BW.new iv)
  | insert {w w' : BW} {k v : Bytes} : Made iv w → w.insert k v = .ok w' → Made iv w'

theorem wt_insert_spec {w w' : BW} {k v : Bytes} (h : w.insert k v = .ok w') :
    w'.items = w.items ++ [(k, v)] ∧ w'.lastKey = some k ∧ w'.interval = w.interval ∧
    (∀ lk, w.lastKey = some lk → lk < k) ∧ k.length ≤ u32Max ∧ v.length ≤ u32Max ∧
    (∀ t, w.offsets = 0 :: t → ∃ t', w'.offsets = 0 :: t') := by
  unfold BW.insert at h
  split at h; · cases h
  split at h; · cases h
  rename_i hk hv
  split at h
  rename_i offs cnt hoc
  have hoffs : ∀ t, w.offsets = 0 :: t → ∃ t', offs = 0 :: t' := by
    intro t ht
    split at hoc <;> cases hoc <;> simp [ht]
  split at h
  · rename_i lk hlk
    split at h
    · rename_i hlt
      cases h
      refine ⟨rfl, rfl, rfl, ?_, by omega, by omega, hoffs⟩
      intro lk' h'; rw [hlk] at h'; cases h'; exact hlt
    · cases h
  · rename_i hlk
    cases h
    refine ⟨rfl, rfl, rfl, ?_, by omega, by omega, hoffs⟩
    intro lk' h'; rw [hlk] at h'; cases h'

theorem wt_insert_ok {w : BW} {k v : Bytes} (hk : k.length ≤ u32Max) (hv : v.length ≤ u32Max)
    (hord : ∀ lk, w.lastKey = some lk → lk < k) : ∃ w', w.insert k v = .ok w' := by
  unfold BW.insert
  rw [if_neg (by omega), if_neg (by omega)]
  split
  split
  · rename_i lk hlk
    rw [if_pos (hord lk hlk)]
    exact ⟨_, rfl⟩
  · exact ⟨_, rfl⟩

theorem Made.inv {iv : Nat} {w : BW} (h : Made iv w) :
    w.interval = iv ∧ w.lastKey = w.items.getLast?.map (·.1) ∧ (∃ t, w.offsets = 0 :: t) ∧
    StrictAsc w.items := by
  induction h with
  | new => exact ⟨rfl, rfl, ⟨[], rfl⟩, List.Pairwise.nil⟩
  | insert hr hi ih =>
    obtain ⟨i1, i2, ⟨t, i3⟩, i4⟩ := ih
    obtain ⟨s1, s2, s3, s4, -, -, s7⟩ := wt_insert_spec hi
    refine ⟨by rw [s3, i1], ?_, s7 t i3, ?_⟩
    · rw [s1, s2]; simp
    · rw [s1]; exact i4.concat (by rw [← i2]; exact s4)

theorem Made.strictAsc {iv : Nat} {w : BW} (h : Made iv w) : StrictAsc w.items := h.inv.2.2.2

theorem Made.lastKey_eq {iv : Nat} {w : BW} (h : Made iv w) :
    w.lastKey = w.items.getLast?.map (·.1) := h.inv.2.1

theorem Made.lastKey_none {iv : Nat} {w : BW} (h : Made iv w) (hn : w.lastKey = none) :
    w.items = [] := by
  rw [h.lastKey_eq] at hn; simpa using hn

theorem Made.lastKey_some {iv : Nat} {w : BW} {lk : Bytes} (h : Made iv w)
    (hs : w.lastKey = some lk) : w.items ≠ [] ∧ lk = Grenad.lastKey w.items := by
  rw [h.lastKey_eq] at hs
  have hne : w.items ≠ [] := by intro h0; rw [h0] at hs; simp at hs
  rw [getLast?_map_fst_eq_lastKey hne] at hs
  exact ⟨hne, by cases hs; rfl⟩

theorem Made.reset {iv : Nat} {w : BW} (h : Made iv w) : w.reset = BW.new iv := by
  obtain ⟨i1, -, ⟨t, i3⟩, -⟩ := h.inv
  simp [BW.reset, BW.new, i1, i3]

end BW

/-! ### Layout of the emitted blocks -/

/-- `out` is the concatenation of the framed blocks of `log`, each recorded at its offset. -/
inductive Lay (cd : Codec) : List Emitted → Bytes → Prop
  | nil : Lay cd [] []
  | snoc {log : List Emitted} {out : Bytes} (e : Emitted) :
      Lay cd log out → e.offset = out.length → Lay cd (log ++ [e]) (out ++ W.blockBytes cd e.raw)

theorem blockBytes_length (cd : Codec) (raw : Bytes) :
    (W.blockBytes cd raw).length = 8 + (cd.compress raw).length := by
  simp [W.blockBytes]

theorem Lay.out_eq {cd : Codec} {log : List Emitted} {out : Bytes} (h : Lay cd log out) :
    out = log.flatMap (fun e => W.blockBytes cd e.raw) := by
  induction h with
  | nil => rfl
  | snoc e _ _ ih => simp [← ih]

theorem Lay.split {cd : Codec} {log : List Emitted} {out : Bytes} (h : Lay cd log out) :
    ∀ e ∈ log, ∃ pre post, out = pre ++ W.blockBytes cd e.raw ++ post ∧ pre.length = e.offset := by
  induction h with
  | nil => intro e he; cases he
  | @snoc log out e' _ ho ih =>
    intro e he
    rcases List.mem_append.mp he with he | he
    · obtain ⟨pre, post, h1, h2⟩ := ih e he
      exact ⟨pre, post ++ W.blockBytes cd e'.raw, by rw [h1]; simp [List.append_assoc], h2⟩
    · simp only [List.mem_singleton] at he; subst he
      exact ⟨out, [], by simp, ho.symm⟩

theorem Lay.offset_lt {cd : Codec} {log : List Emitted} {out : Bytes} (h : Lay cd log out) :
    ∀ e ∈ log, e.offset + 8 + (cd.compress e.raw).length ≤ out.length := by
  intro e he
  obtain ⟨pre, post, h1, h2⟩ := h.split e he
  rw [h1]; simp [blockBytes_length]; omega

theorem Lay.pairwise {cd : Codec} {log : List Emitted} {out : Bytes} (h : Lay cd log out) :
    log.Pairwise (fun a b => a.offset < b.offset) := by
  induction h with
  | nil => exact List.Pairwise.nil
  | @snoc log out e' hl ho ih =>
    rw [List.pairwise_append]
    refine ⟨ih, by simp, ?_⟩
    intro a ha b hb
    simp only [List.mem_singleton] at hb; subst hb
    have := hl.offset_lt a ha
    omega

/-- The offsets are the prefix sums of the framed block sizes. -/
theorem Lay.prefix_sum {cd : Codec} {log : List Emitted} {out : Bytes} (h : Lay cd log out) :
    ∀ l1 e l2, log = l1 ++ e :: l2 →
      e.offset = (l1.flatMap (fun e => W.blockBytes cd e.raw)).length := by
  induction h with
  | nil => intro l1 e l2 h; simp at h
  | @snoc log out e' hl ho ih =>
    intro l1 e l2 heq
    rcases List.eq_nil_or_concat l2 with rfl | ⟨l2', x, rfl⟩
    · have : l1 ++ [e] = log ++ [e'] := heq.symm
      obtain ⟨h1, h2⟩ := List.append_inj' this rfl
      cases h2; subst h1
      rw [ho, hl.out_eq]
    · have : log ++ [e'] = (l1 ++ e :: l2') ++ [x] := by rw [heq]; simp
      obtain ⟨h1, -⟩ := List.append_inj' this rfl
      exact ih l1 e l2' h1

theorem loadBlock_of_split (cd : Codec) (hcd : cd.Lawful) (pre post raw : Bytes)
    (hlen : (pre ++ W.blockBytes cd raw ++ post).length < 2 ^ 64) :
    loadBlock cd (pre ++ W.blockBytes cd raw ++ post) pre.length = Block.parse raw := by
  have hb : (cd.compress raw).length < 2 ^ 64 := by
    simp [blockBytes_length] at hlen; omega
  have h1 : slice? (pre ++ W.blockBytes cd raw ++ post) pre.length 8
      = some (be64 (cd.compress raw).length) := by
    have : pre ++ W.blockBytes cd raw ++ post
        = pre ++ be64 (cd.compress raw).length ++ (cd.compress raw ++ post) := by
      simp [W.blockBytes, List.append_assoc]
    rw [this]
    unfold slice?
    simp [List.append_assoc]
  have h2 : ((pre ++ W.blockBytes cd raw ++ post).drop (pre.length + 8)).take (cd.compress raw).length
      = cd.compress raw := by
    have : pre ++ W.blockBytes cd raw ++ post
        = (pre ++ be64 (cd.compress raw).length) ++ (cd.compress raw ++ post) := by
      simp [W.blockBytes, List.append_assoc]
    rw [this]
    have hl : pre.length + 8 = (pre ++ be64 (cd.compress raw).length).length := by simp
    rw [hl, List.drop_left, List.take_left]
  unfold loadBlock loadBlockLen
  simp only [h1, beVal_be64 hb, h2, hcd raw]
  cases Block.parse raw <;> rfl

theorem Lay.loadBlock {cd : Codec} {log : List Emitted} {out : Bytes} (h : Lay cd log out)
    (hcd : cd.Lawful) (trailer : Bytes) (hlen : (out ++ trailer).length < 2 ^ 64) :
    ∀ e ∈ log, loadBlock cd (out ++ trailer) e.offset = Block.parse e.raw := by
  intro e he
  obtain ⟨pre, post, h1, h2⟩ := h.split e he
  have : out ++ trailer = pre ++ W.blockBytes cd e.raw ++ (post ++ trailer) := by
    rw [h1]; simp [List.append_assoc]
  rw [this, ← h2]
  apply loadBlock_of_split cd hcd
  rw [← this]; exact hlen

end Grenad
