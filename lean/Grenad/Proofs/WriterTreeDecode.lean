/-
  T-writer, part 7 (C09, specification decoder): a small recursive-descent decoder that shares
  nothing with the cursor model (trailer parse, `loadBlock`, a plain `Block.entryAt` walk) and
  returns the inserted entries on every file produced by the writer.

  The per-block fact "walking the parsed bytes of a finished block writer yields its items" is an
  explicit hypothesis here (`BlocksDecode`); `WriterTreeDecodeTB.lean` discharges it from T-block.
-/
import Grenad.Proofs.WriterTree

namespace Grenad

open WT

namespace SpecDecode

/-- Plain walk over the frames of a block, from byte offset `off`. -/
def walk (b : Block) : Nat → Nat → List Entry
  | 0, _ => []
  | fuel + 1, off =>
    match b.entryAt off with
    | some (k, v, next) => (k, v) :: walk b fuel next
    | none => []

/-- The entries of the block stored at `off`. -/
def blockEntries (cd : Codec) (file : Bytes) (off : Nat) : Option (List Entry) :=
  (loadBlock cd file off).map (fun b => walk b (b.payload.length + 1) 0)

/-- Descend `d` index levels below the block at `off` and concatenate the data blocks reached. -/
def descend (cd : Codec) (file : Bytes) : Nat → Nat → Option (List Entry)
  | 0, off => blockEntries cd file off
  | d + 1, off =>
    match blockEntries cd file off with
    | none => none
    | some items => (items.mapM (fun e => descend cd file d (beVal e.2))).map List.flatten

/-- All entries of a file: parse the trailer, then descend `levels + 1` times from the root. -/
def entries (cd : Codec) (file : Bytes) : Option (List Entry) :=
  match Meta.parse file with
  | .ok m => descend cd file (m.levels + 1) m.root
  | .error _ => none

end SpecDecode

theorem Sub.store_some {s : Store} {lvl : Nat → Nat} {d off : Nat} {flat : List Entry}
    (h : Sub s lvl d off flat) : ∃ items, s off = some items := by
  cases h with
  | leaf _ _ h1 _ _ => exact ⟨_, h1⟩
  | node _ _ _ _ h2 _ _ => exact ⟨_, h2⟩

theorem WT.mapM_option_eq {α β : Type} (f : α → Option β) (g : α → β) (l : List α)
    (h : ∀ x ∈ l, f x = some (g x)) : l.mapM f = some (l.map g) := by
  induction l with
  | nil => rfl
  | cons a l ih =>
    rw [List.mapM_cons, h a (by simp), ih (fun x hx => h x (by simp [hx]))]
    rfl

/-- The decoder follows a `Sub` tree. -/
theorem SpecDecode.descend_sub {cd : Codec} {file : Bytes} {s : Store} {lvl : Nat → Nat}
    (hread : ∀ off items, s off = some items → SpecDecode.blockEntries cd file off = some items)
    (hoff : ∀ off items, s off = some items → off < 2 ^ 64)
    {d off : Nat} {flat : List Entry} (h : Sub s lvl d off flat) :
    SpecDecode.descend cd file d off = some flat := by
  induction h with
  | leaf off es h1 _ _ =>
    unfold SpecDecode.descend
    exact hread off es h1
  | node d off kids _ h2 _ hk ih =>
    unfold SpecDecode.descend
    rw [hread off _ h2]
    simp only
    have hm : (kids.map (fun k => (lastKey k.2, be64 k.1))).mapM
        (fun e => SpecDecode.descend cd file d (beVal e.2)) = some (kids.map (·.2)) := by
      rw [List.mapM_map]
      apply WT.mapM_option_eq
      intro k hk'
      obtain ⟨items, hi⟩ := (hk k hk').store_some
      simp only [Function.comp]
      rw [beVal_be64 (hoff _ _ hi)]
      exact ih k hk'
    rw [hm]
    simp [List.flatMap_def]

/-- Per-block hypothesis: the parsed bytes of every emitted block walk back to its items. -/
def BlocksDecode (log : List Emitted) : Prop :=
  ∀ e ∈ log, ∃ b, Block.parse e.raw = some b ∧
    SpecDecode.walk b (b.payload.length + 1) 0 = e.items

/-- The specification decoder returns the inserted entries on the writer's output. -/
theorem SpecDecode.entries_run {cd : Codec} {cfg : WCfg} {es : List Entry}
    (H : WriterHyps cd cfg es) {file : Bytes} {log : List Emitted}
    (hrun : W.run cd cfg es = .ok (file, log))
    (hfile : file.length < 2 ^ 64) (hcount : es.length < 2 ^ 64) (hid : cd.id ≤ 5)
    (hblocks : BlocksDecode log) :
    SpecDecode.entries cd file = some es := by
  obtain ⟨root, hok, hparse⟩ := T_writer_tree H hrun hfile hcount hid
  obtain ⟨hload, -⟩ := T_writer_bytes H hrun hfile
  have hread : ∀ off items, storeOf log off = some items →
      SpecDecode.blockEntries cd file off = some items := by
    intro off items hs
    obtain ⟨e, he, rfl, rfl⟩ := storeOf_some hs
    obtain ⟨b, hb, hw⟩ := hblocks e he
    unfold SpecDecode.blockEntries
    rw [hload e he, hb]
    simp [hw]
  have hoff : ∀ off items, storeOf log off = some items → off < 2 ^ 64 :=
    fun off items hs => (hok.blocks off items hs).2
  unfold SpecDecode.entries
  rw [hparse]
  simp only
  rcases hok.tree with ⟨rfl, hroot⟩ | ⟨lvl, hsub⟩
  · unfold SpecDecode.descend
    rw [hread _ _ hroot]
    rfl
  · exact SpecDecode.descend_sub hread hoff hsub

end Grenad
