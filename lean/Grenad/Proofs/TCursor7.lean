/-
  T-cursor, part 7: the invariant `Inv`, one step of the cursor against one step of the
  specification cursor, and histories.
-/
import Grenad.Proofs.TCursor6

namespace Grenad.TCursor

open Grenad Spec

/-! ### Specification-side equations -/

section
variable {es : List Entry}

theorem step_first (p : Pos) : Spec.step es p .first = land es 0 := by cases p <;> rfl
theorem step_last (p : Pos) :
    Spec.step es p .last = if es.isEmpty then (.lost, some none) else land es (es.length - 1) := by
  cases p <;> rfl
theorem step_ge (p : Pos) (q : Bytes) : Spec.step es p (.ge q) = land es (lowerBound es q) := by
  have : Spec.step es p (.ge q) = Spec.find es (fun e => decide (q ≤ e.1)) := by cases p <;> rfl
  rw [this, find_ge]
theorem step_le (p : Pos) (q : Bytes) :
    Spec.step es p (.le q) =
      if upperBound es q = 0 then (.lost, some none) else land es (upperBound es q - 1) := by
  cases p <;> rfl
theorem step_eq (p : Pos) (q : Bytes) :
    Spec.step es p (.eq q) = Spec.find es (fun e => decide (e.1 = q)) := by cases p <;> rfl
theorem step_reset (p : Pos) : Spec.step es p .reset = (.fresh, some none) := by cases p <;> rfl

theorem land_snd (n : Nat) : (land es n).2 = some es[n]? := by
  unfold land; cases es[n]? <;> rfl

theorem step_ge_res (p : Pos) (q : Bytes) : (Spec.step es p (.ge q)).2 = some (ceiling es q) := by
  rw [step_ge, land_snd, ceiling_eq_getElem?]

theorem step_le_res (hasc : StrictAsc es) (p : Pos) (q : Bytes) :
    (Spec.step es p (.le q)).2 = some (floor es q) := by
  rw [step_le, floor_eq es hasc]
  split
  · rfl
  · rw [land_snd]

theorem step_eq_res (hasc : StrictAsc es) (p : Pos) (q : Bytes) :
    (Spec.step es p (.eq q)).2 = some (lookup es q) := by
  rw [step_eq, lookup_eq es hasc]
  unfold Spec.find
  rw [findIdx?_eq es hasc]
  cases h : es[lowerBound es q]? with
  | none => rfl
  | some e =>
    simp only
    by_cases he : e.1 = q
    · simp only [he, if_true, land_snd, h, Option.filter, decide_true]
    · simp [he, Option.filter]

end

/-! ### Non-empty files -/

/-- The invariant over a non-empty file whose blocks are labelled by `lvl`. -/
def InvL (s : Store) (lvl : Nat → Nat) (root levels : Nat) (es : List Entry) (c : RC LC) :
    Pos → Prop
  | .fresh => CScore s lvl root levels c ∧ c.inner = none ∧ c.cur = none
  | .at i => CScore s lvl root levels c ∧ PosInv s lvl root levels es c i
  | .lost => CScore s lvl root levels c

section
variable {s : Store} {lvl : Nat → Nat} {root levels : Nat} {es : List Entry}

theorem InvL.cs {c : RC LC} {p : Pos} (h : InvL s lvl root levels es c p) :
    CScore s lvl root levels c := by
  cases p with
  | fresh => exact h.1
  | «at» i => exact h.1
  | lost => exact h

/-- Landing: a result `es[n]?` with the position invariant when `n` is in range is what
    `Spec.land` asks for. -/
theorem land_ok {c' : RC LC} {n : Nat} (hc : CScore s lvl root levels c')
    (hp : n < es.length → PosInv s lvl root levels es c' n) :
    Agree (.ok es[n]?) (land es n).2 ∧ InvL s lvl root levels es c' (land es n).1 := by
  by_cases h : n < es.length
  · rw [land_of_lt h]
    exact ⟨by simp [Agree, List.getElem?_eq_getElem h], hc, hp h⟩
  · rw [land_of_length_le (Nat.le_of_not_lt h)]
    exact ⟨by simp [Agree, List.getElem?_eq_none (Nat.le_of_not_lt h)], hc⟩

theorem stepL (cx : Ctx s lvl (levels + 1) root es) {c : RC LC} {p : Pos}
    (hinv : InvL s lvl root levels es c p) (op : Op) :
    Agree (RC.stepA s true c op).2 (Spec.step es p op).2 ∧
      InvL s lvl root levels es (RC.stepA s true c op).1 (Spec.step es p op).1 := by
  have hc := hinv.cs
  have hne : es.isEmpty = false := by simpa using cx.es_ne
  have hpos := cx.es_pos
  cases op with
  | first =>
    obtain ⟨c', h1, h2, h3⟩ := first_spec cx hc
    rw [step_first]
    simp only [RC.stepA, RC.step, h1]
    exact land_ok h2 (fun _ => h3)
  | last =>
    obtain ⟨c', h1, h2, h3⟩ := last_spec cx hc
    rw [step_last]
    simp only [RC.stepA, RC.step, h1, hne]
    exact land_ok h2 (fun _ => h3)
  | ge q =>
    obtain ⟨c', h1, h2, h3⟩ := ge_spec cx hc q
    rw [step_ge]
    simp only [RC.stepA, RC.step, h1]
    exact land_ok h2 h3
  | reset =>
    rw [step_reset]
    exact ⟨rfl, ⟨hc.hbase, hc.hlevels, fun _ => rfl, (by intro l hl; cases hl)⟩, rfl, rfl⟩
  | next =>
    cases p with
    | fresh =>
      obtain ⟨c', h1, h2, h3⟩ := first_spec cx hc
      have : RC.next LC.ops s.load true c = RC.first LC.ops s.load c := by
        unfold RC.next; simp only [hinv.2.2]
      simp only [RC.stepA, RC.step, this, h1]
      exact land_ok h2 (fun _ => h3)
    | «at» i =>
      obtain ⟨c', h1, h2, h3⟩ := next_at cx hc hinv.2
      simp only [RC.stepA, RC.step, h1]
      exact land_ok h2 h3
    | lost => exact ⟨trivial, next_pres cx hc⟩
  | prev =>
    cases p with
    | fresh =>
      obtain ⟨c', h1, h2, h3⟩ := last_spec cx hc
      have : RC.prev LC.ops s.load true c = RC.last LC.ops s.load c := by
        unfold RC.prev; simp only [hinv.2.2]
      have hs : Spec.step es .fresh .prev
          = if es.isEmpty then (.lost, some none) else land es (es.length - 1) := rfl
      rw [hs]
      simp only [RC.stepA, RC.step, this, h1, hne]
      exact land_ok h2 (fun _ => h3)
    | «at» i =>
      obtain ⟨c', h1, h2, h3⟩ := prev_at cx hc hinv.2
      have hs : Spec.step es (.at i) .prev
          = if i = 0 then (.lost, some none) else land es (i - 1) := rfl
      rw [hs]
      simp only [RC.stepA, RC.step, h1]
      by_cases hi : i = 0
      · simp only [hi, if_true]
        exact ⟨rfl, h2⟩
      · simp only [hi, if_false]
        exact land_ok h2 (fun _ => h3 (by omega))
    | lost => exact ⟨trivial, prev_pres cx hc⟩
  | current =>
    cases p with
    | fresh =>
      refine ⟨?_, hinv⟩
      simp [RC.stepA, RC.step, RC.current, hinv.2.2, Spec.step, Agree]
    | «at» i =>
      refine ⟨?_, hinv⟩
      obtain ⟨l, b, off, fl, pre, post, i0, hin, hcur, hup, hbe, hbp, hi0, hi⟩ := hinv.2
      have : es[i]? = fl[i0]? := by rw [hup.split, hi, getElem?_mid pre fl post i0 hi0]
      simp [RC.stepA, RC.step, RC.current, hcur, Spec.step, Agree, LC.ops, LC.current, hbp, hbe, this]
    | lost => exact ⟨trivial, hinv⟩
  | eq q =>
    obtain ⟨c', h1, h2, h3⟩ := ge_spec cx hc q
    rw [step_eq]
    unfold Spec.find
    rw [findIdx?_eq es cx.asc]
    simp only [RC.stepA, RC.step, RC.eq, h1]
    cases h : es[lowerBound es q]? with
    | none => exact ⟨rfl, h2⟩
    | some e =>
      have hlt : lowerBound es q < es.length := by
        by_cases hlt : lowerBound es q < es.length
        · exact hlt
        · rw [List.getElem?_eq_none (Nat.le_of_not_lt hlt)] at h; cases h
      by_cases he : e.1 = q
      · simp only [he, if_true, Option.filter, decide_true]
        rw [← h]
        exact land_ok h2 h3
      · simp only [he, if_false, Option.filter, decide_false]
        exact ⟨rfl, h2⟩
  | le q =>
    obtain ⟨c1, h1, h2, h3⟩ := ge_spec cx hc q
    rw [step_le, upperBound_eq cx.asc]
    simp only [RC.stepA, RC.step, RC.le, h1]
    cases h : es[lowerBound es q]? with
    | none =>
      -- every key is smaller: `last`
      have hlb : lowerBound es q = es.length := by
        have := lowerBound_le es q
        by_cases hlt : lowerBound es q < es.length
        · rw [List.getElem?_eq_getElem hlt] at h; cases h
        · omega
      obtain ⟨c2, g1, g2, g3⟩ := last_spec cx h2
      have hlast : es[es.length - 1]? = some es[es.length - 1] := List.getElem?_eq_getElem (by omega)
      have hle : es[es.length - 1].1 ≤ q :=
        ble_of_lt (lowerBound_eq_length_iff.1 hlb _ (List.getElem_mem _))
      simp only [g1, hlast, Option.filter, hle, decide_true, hlb]
      have hn : ¬ es.length = 0 := by omega
      simp only [hn, if_false]
      have := land_ok g2 (fun _ => g3)
      rwa [hlast] at this
    | some e =>
      have hlt : lowerBound es q < es.length := by
        by_cases hlt : lowerBound es q < es.length
        · exact hlt
        · rw [List.getElem?_eq_none (Nat.le_of_not_lt hlt)] at h; cases h
      obtain ⟨k, v⟩ := e
      by_cases he : k = q
      · simp only [he, if_true, Nat.add_sub_cancel]
        have hn : ¬ lowerBound es q + 1 = 0 := by omega
        simp only [hn, if_false]
        have := land_ok h2 h3
        rw [h, he] at this
        exact this
      · simp only [he, if_false]
        obtain ⟨c2, g1, g2, g3⟩ := prev_at cx h2 (h3 hlt)
        rw [g1]
        by_cases h0 : lowerBound es q = 0
        · simp only [h0, if_true]
          exact ⟨rfl, g2⟩
        · simp only [h0, if_false]
          exact land_ok g2 (fun _ => g3 (by omega))

end

/-! ### The empty file -/

/-- The invariant over the empty file. -/
def InvE (root levels : Nat) (c : RC LC) (p : Pos) : Prop :=
  c.base = root ∧ c.levels = levels ∧ c.inner = none ∧ c.cur = none ∧ (p = .fresh ∨ p = .lost)

theorem apply_empty (mov : Mov) : (LC.ops.apply mov (LC.ofList [])).2 = none := by
  cases mov <;> rfl

section
variable {s : Store} {root levels : Nat}

theorem iterIndex_empty (hs : s root = some []) {c : RC LC} (hb : c.base = root)
    (hin : c.inner = none) (mov : Mov) :
    RC.iterIndex LC.ops s.load mov c = some ({ c with inner := none, log := root :: c.log }, none) := by
  unfold RC.iterIndex
  simp only [hin, hb]
  rw [RC.initialIndex]
  simp only [load_eq hs]
  have := apply_empty mov
  cases ha : LC.ops.apply mov (LC.ofList []) with
  | mk c' r =>
    rw [ha] at this; simp only at this; subst this
    rfl

theorem first_empty (hs : s root = some []) {c : RC LC} (hb : c.base = root)
    (hin : c.inner = none) :
    RC.first LC.ops s.load c = ({ c with inner := none, cur := none, log := root :: c.log }, .ok none) := by
  unfold RC.first; rw [iterIndex_empty hs hb hin]

theorem last_empty (hs : s root = some []) {c : RC LC} (hb : c.base = root)
    (hin : c.inner = none) :
    RC.last LC.ops s.load c = ({ c with inner := none, cur := none, log := root :: c.log }, .ok none) := by
  unfold RC.last; rw [iterIndex_empty hs hb hin]

theorem ge_empty (hs : s root = some []) {c : RC LC} (hb : c.base = root)
    (hin : c.inner = none) (q : Bytes) :
    RC.ge LC.ops s.load q c = ({ c with inner := none, log := root :: c.log }, .ok none) := by
  unfold RC.ge; rw [iterIndex_empty hs hb hin]

theorem stepE (hs : s root = some []) {c : RC LC} {p : Pos} (hinv : InvE root levels c p) (op : Op) :
    Agree (RC.stepA s true c op).2 (Spec.step [] p op).2 ∧
      InvE root levels (RC.stepA s true c op).1 (Spec.step [] p op).1 := by
  obtain ⟨hb, hl, hin, hcur, hp⟩ := hinv
  cases op with
  | first =>
    rw [step_first]
    simp only [RC.stepA, RC.step, first_empty hs hb hin]
    exact ⟨rfl, hb, hl, rfl, rfl, Or.inr rfl⟩
  | last =>
    rw [step_last]
    simp only [RC.stepA, RC.step, last_empty hs hb hin]
    exact ⟨rfl, hb, hl, rfl, rfl, Or.inr rfl⟩
  | next =>
    have : RC.next LC.ops s.load true c = RC.first LC.ops s.load c := by
      unfold RC.next; simp only [hcur]
    simp only [RC.stepA, RC.step, this, first_empty hs hb hin]
    rcases hp with rfl | rfl
    · exact ⟨rfl, hb, hl, rfl, rfl, Or.inr rfl⟩
    · exact ⟨trivial, hb, hl, rfl, rfl, Or.inr rfl⟩
  | prev =>
    have : RC.prev LC.ops s.load true c = RC.last LC.ops s.load c := by
      unfold RC.prev; simp only [hcur]
    simp only [RC.stepA, RC.step, this, last_empty hs hb hin]
    rcases hp with rfl | rfl
    · exact ⟨rfl, hb, hl, rfl, rfl, Or.inr rfl⟩
    · exact ⟨trivial, hb, hl, rfl, rfl, Or.inr rfl⟩
  | ge q =>
    rw [step_ge]
    simp only [RC.stepA, RC.step, ge_empty hs hb hin]
    exact ⟨rfl, hb, hl, rfl, hcur, Or.inr rfl⟩
  | eq q =>
    rw [step_eq]
    simp only [RC.stepA, RC.step, RC.eq, ge_empty hs hb hin]
    exact ⟨rfl, hb, hl, rfl, hcur, Or.inr rfl⟩
  | le q =>
    rw [step_le]
    simp only [RC.stepA, RC.step, RC.le, ge_empty hs hb hin]
    rw [last_empty hs (c := { c with inner := none, log := root :: c.log }) hb rfl]
    exact ⟨rfl, hb, hl, rfl, rfl, Or.inr rfl⟩
  | reset =>
    rw [step_reset]
    exact ⟨rfl, hb, hl, rfl, rfl, Or.inl rfl⟩
  | current =>
    rcases hp with rfl | rfl
    · refine ⟨?_, hb, hl, hin, hcur, Or.inl rfl⟩
      simp [RC.stepA, RC.step, RC.current, hcur, Spec.step, Agree]
    · exact ⟨trivial, hb, hl, hin, hcur, Or.inr rfl⟩

end

/-! ### The invariant, one step, histories -/

/-- The state invariant relating a concrete cursor state `c` to a logical position `p`:
    either the file is empty and nothing is held, or the file is a labelled tree, the held blocks
    are cache-sound, and (at position `i`) the held blocks are the root-to-leaf path of entry `i`. -/
def Inv (s : Store) (root levels : Nat) (es : List Entry) (c : RC LC) (p : Pos) : Prop :=
  (es = [] ∧ s root = some [] ∧ InvE root levels c p) ∨
  (∃ lvl, Sub s lvl (levels + 1) root es ∧ InvL s lvl root levels es c p)

/-- The initial cursor. -/
def c0 (root levels : Nat) : RC LC := { base := root, levels := levels, inner := none, cur := none }

section
variable {s : Store} {root levels : Nat} {es : List Entry}

theorem Inv_c0 (h : FileOK s root levels es) : Inv s root levels es (c0 root levels) .fresh := by
  rcases h.tree with ⟨he, hs⟩ | ⟨lvl, hsub⟩
  · exact Or.inl ⟨he, hs, rfl, rfl, rfl, rfl, Or.inl rfl⟩
  · exact Or.inr ⟨lvl, hsub, ⟨rfl, rfl, fun _ => rfl, (by intro l hl; cases hl)⟩, rfl, rfl⟩

/-- One step: the result agrees with the specification and the invariant is kept. -/
theorem step_inv (h : FileOK s root levels es) {c : RC LC} {p : Pos}
    (hinv : Inv s root levels es c p) (op : Op) :
    Agree (RC.stepA s true c op).2 (Spec.step es p op).2 ∧
      Inv s root levels es (RC.stepA s true c op).1 (Spec.step es p op).1 := by
  rcases hinv with ⟨he, hs, hE⟩ | ⟨lvl, hsub, hL⟩
  · subst he
    obtain ⟨h1, h2⟩ := stepE hs hE op
    exact ⟨h1, Or.inl ⟨rfl, hs, h2⟩⟩
  · have cx : Ctx s lvl (levels + 1) root es := ⟨h.asc, hsub, fun off blk hb => (h.blocks off blk hb).2⟩
    obtain ⟨h1, h2⟩ := stepL cx hL op
    exact ⟨h1, Or.inr ⟨lvl, hsub, h2⟩⟩

/-- Run a history on the cursor and on the specification cursor, collecting the result pairs. -/
def runBoth (s : Store) (es : List Entry) : RC LC → Pos → List Op → List (Res × SRes)
  | _, _, [] => []
  | c, p, op :: ops =>
    ((RC.stepA s true c op).2, (Spec.step es p op).2) ::
      runBoth s es (RC.stepA s true c op).1 (Spec.step es p op).1 ops

/-- The states reached after a history. -/
def runState (s : Store) (es : List Entry) : RC LC → Pos → List Op → RC LC × Pos
  | c, p, [] => (c, p)
  | c, p, op :: ops => runState s es (RC.stepA s true c op).1 (Spec.step es p op).1 ops

theorem runState_inv (h : FileOK s root levels es) {c : RC LC} {p : Pos}
    (hinv : Inv s root levels es c p) (ops : List Op) :
    Inv s root levels es (runState s es c p ops).1 (runState s es c p ops).2 := by
  induction ops generalizing c p with
  | nil => exact hinv
  | cons op ops ih => exact ih (step_inv h hinv op).2

theorem runBoth_agree (h : FileOK s root levels es) {c : RC LC} {p : Pos}
    (hinv : Inv s root levels es c p) (ops : List Op) :
    ∀ x ∈ runBoth s es c p ops, Agree x.1 x.2 := by
  induction ops generalizing c p with
  | nil => intro x hx; cases hx
  | cons op ops ih =>
    intro x hx
    obtain ⟨h1, h2⟩ := step_inv h hinv op
    rcases List.mem_cons.1 hx with rfl | hx
    · exact h1
    · exact ih h2 x hx

end

end Grenad.TCursor
