/-
  WriterInv, part 3 — the file writer: invariant `W.Inv`, and the specifications of `W.insert`,
  `W.run.go`, `W.flushLevels`, `W.finish`, `W.run`.
-/
import Grenad.Proofs.WriterInvCut

namespace Grenad

open BW

namespace W

/-- Invariant of the writer between two `insert`s. -/
structure Inv (w : W) : Prop where
  len  : w.idx.length = w.cfg.levels + 1
  bwR  : Reach w.cfg.interval w.bw
  bwP  : Pend w.cfg.clamped w.bw
  idxR : ∀ b ∈ w.idx, Reach w.cfg.interval b
  idxP : ∀ j b, w.idx[j]? = some b → 2 ≤ j → Pend w.cfg.clamped b

/-- All keys held by pending writers: index writers root first, then the data block. -/
def keys (w : W) : List Bytes := allKeys w.idx ++ bwKeys w.bw

theorem inv_new (cfg : WCfg) : Inv (W.new cfg) where
  len := by simp [W.new]
  bwR := Reach.new
  bwP := .inl rfl
  idxR := by
    intro b hb
    simp only [W.new] at hb
    rw [List.eq_of_mem_replicate hb]
    exact Reach.new
  idxP := by
    intro j b hb _
    simp only [W.new] at hb
    rw [List.eq_of_mem_replicate (List.mem_of_getElem? hb)]
    exact .inl rfl

theorem keys_new (cfg : WCfg) : keys (W.new cfg) = [] := by
  have : ∀ n, allKeys (List.replicate n (BW.new cfg.interval)) = [] := by
    intro n
    induction n with
    | zero => rfl
    | succ n ih => simp [List.replicate_succ, ih, bwKeys_new]
  simp [keys, W.new, this, bwKeys_new]

/-- The trap point of a data insert: the key is not above the pending data block's last key. -/
theorem insert_keyOrder (cd : Codec) (w : W) {k v lk : Bytes}
    (hk : k.length ≤ u32Max) (hv : v.length ≤ u32Max)
    (hl : w.bw.lastKey = some lk) (hn : ¬ lk < k) : W.insert cd w k v = .error .keyOrder := by
  unfold W.insert
  rw [BW.insert_keyOrder w.bw hk hv hl hn]

/-- Specification of `Writer::insert`. -/
theorem insert_spec (cd : Codec) (w : W) (k v : Bytes) (hI : Inv w) :
    (∀ w', W.insert cd w k v = .ok w' →
        w'.cfg = w.cfg ∧ Inv w' ∧ w'.count = w.count + 1 ∧
        (∃ tl, w'.log = w.log ++ tl ∧
          ∀ e ∈ tl, EmOK w.cfg.interval w.cfg.clamped (w.cfg.levels + 1) e ∧ w.cfg.clamped ≤ e.raw.length) ∧
        (keys w').Sublist (keys w ++ [k]) ∧ k.length ≤ u32Max ∧ v.length ≤ u32Max ∧
        (∀ lk, w.bw.lastKey = some lk → lk < k)) ∧
    (∀ t, W.insert cd w k v = .error t →
        (t = .keyTooLong ∧ u32Max < k.length) ∨ (t = .valTooLong ∧ u32Max < v.length) ∨
        (t = .keyOrder ∧ k.length ≤ u32Max ∧ v.length ≤ u32Max ∧ ¬ Asc (keys w ++ [k]))) := by
  unfold W.insert
  cases hbi : w.bw.insert k v with
  | error t =>
    simp only
    refine ⟨fun _ h => (by cases h), ?_⟩
    intro t' ht'
    injection ht' with ht'
    subst ht'
    rcases insert_error hbi with h | h | ⟨ht, hk, hv, lk, hlk, hnlt⟩
    · exact .inl h
    · exact .inr (.inl h)
    · refine .inr (.inr ⟨ht, hk, hv, fun hasc => hnlt ?_⟩)
      obtain ⟨ini, x, hit⟩ := hI.bwR.lastKey_mem hlk
      have hmem : lk ∈ keys w := by simp [keys, bwKeys, hit]
      exact (List.pairwise_append.mp hasc).2.2 lk hmem k (by simp)
  | ok bw =>
    simp only
    obtain ⟨hk, hv, hlt, _, hbwl, hbwi, _, _⟩ := insert_ok hbi
    have hbwR : Reach w.cfg.interval bw := Reach.step hI.bwR hbi
    have hbwkeys : bwKeys bw = bwKeys w.bw ++ [k] := by simp [bwKeys, hbwi]
    by_cases hge : bw.sizeEstimate ≥ w.cfg.clamped
    · simp only [hge, if_true, hbwl]
      have hn : w.idx.length - 1 < w.idx.length := by have := hI.len; omega
      have el : w.idx[w.idx.length - 1]? = some w.idx[w.idx.length - 1] := List.getElem?_eq_getElem hn
      generalize w.idx[w.idx.length - 1] = lastIdx at el
      rw [el]
      simp only
      have hlR : Reach w.cfg.interval lastIdx := hI.idxR _ (List.mem_of_getElem? el)
      have hlen8 : (be64 w.out.length).length ≤ u32Max := by rw [be64_length]; decide
      cases hins : lastIdx.insert k (be64 w.out.length) with
      | error t =>
        simp only
        refine ⟨fun _ h => (by cases h), ?_⟩
        intro t' ht'
        injection ht' with ht'
        subst ht'
        rcases insert_error hins with ⟨_, h'⟩ | ⟨_, h'⟩ | ⟨ht, _, _, plk, hplk, hnlt⟩
        · omega
        · omega
        · refine .inr (.inr ⟨ht, hk, hv, fun hasc => hnlt ?_⟩)
          obtain ⟨ini, x, hit⟩ := hlR.lastKey_mem hplk
          have hmem : plk ∈ keys w :=
            List.mem_append_left _ (mem_allKeys (List.mem_of_getElem? el) (by simp [bwKeys, hit]))
          exact (List.pairwise_append.mp hasc).2.2 plk hmem k (by simp)
      | ok lastIdx' =>
        simp only
        have hl'R : Reach w.cfg.interval lastIdx' := Reach.step hlR hins
        have hl'keys : bwKeys lastIdx' = bwKeys lastIdx ++ [k] := by
          simp [bwKeys, (insert_ok hins).2.2.2.2.2.1]
        have hset : allKeys (w.idx.set (w.idx.length - 1) lastIdx') = allKeys w.idx ++ [k] :=
          allKeys_set_last el hl'keys
        have hsub0 : (allKeys w.idx ++ [k]).Sublist (keys w ++ [k]) := by
          simp only [keys, List.append_assoc]
          exact List.Sublist.append_left (List.sublist_append_right _ _) _
        have hcut := cutLevels_spec cd w.cfg.interval w.cfg.clamped (w.cfg.levels + 1)
          (w.idx.length - 1) (w.idx.set (w.idx.length - 1) lastIdx')
          (w.out ++ blockBytes cd bw.finish)
          (w.log ++ [{ offset := w.out.length, level := 0, raw := bw.finish, items := bw.items }])
          (by simp [hI.len]) (by have := hI.len; omega)
          (by
            intro b hb
            rcases List.mem_or_eq_of_mem_set hb with hb | hb
            · exact hI.idxR b hb
            · rw [hb]; exact hl'R)
          (by
            intro j b hj h2 hne
            rw [List.getElem?_set_ne (by omega)] at hj
            exact hI.idxP j b hj h2)
          (by
            intro b hb h2
            rw [List.getElem?_set_self hn] at hb
            injection hb with hb
            subst hb
            exact .inr ⟨lastIdx, k, _, hlR, hins, hI.idxP _ _ el h2⟩)
        cases hc : cutLevels cd w.cfg.clamped (w.idx.length - 1) (w.idx.set (w.idx.length - 1) lastIdx')
            (w.out ++ blockBytes cd bw.finish)
            (w.log ++ [{ offset := w.out.length, level := 0, raw := bw.finish, items := bw.items }]) with
        | error t =>
          simp only
          refine ⟨fun _ h => (by cases h), ?_⟩
          intro t' ht'
          injection ht' with ht'
          subst ht'
          obtain ⟨ht, hna⟩ := hcut.2 t hc
          refine .inr (.inr ⟨ht, hk, hv, fun hasc => hna ?_⟩)
          rw [hset]
          exact hasc.sublist hsub0
        | ok r =>
          obtain ⟨idx2, out2, log2⟩ := r
          simp only
          obtain ⟨h1, h2, h3, ⟨tl, htl, htlok⟩, h5⟩ := hcut.1 idx2 out2 log2 hc
          refine ⟨?_, fun _ h => (by cases h)⟩
          intro w' hw'
          injection hw' with hw'
          subst hw'
          have hresetnew : bw.reset = BW.new w.cfg.interval := hbwR.reset_eq
          refine ⟨rfl, ⟨h1, ?_, ?_, h2, h3⟩, rfl, ⟨[_] ++ tl, htl.trans (List.append_assoc _ _ _), ?_⟩,
            ?_, hk, hv, hlt⟩
          · show Reach w.cfg.interval bw.reset
            rw [hresetnew]; exact Reach.new
          · show Pend w.cfg.clamped bw.reset
            rw [hresetnew]; exact .inl rfl
          · intro e he
            rcases List.mem_append.mp he with he | he
            · simp only [List.mem_singleton] at he
              subst he
              refine ⟨⟨bw, hbwR, rfl, rfl, fun _ => ⟨w.bw, k, v, hI.bwR, hbi, hI.bwP⟩⟩, ?_⟩
              show w.cfg.clamped ≤ bw.finish.length
              rw [finish_length]; exact hge
            · exact ⟨(htlok e he).1, (htlok e he).2.1⟩
          · show (allKeys idx2 ++ bwKeys bw.reset).Sublist (keys w ++ [k])
            rw [hresetnew, bwKeys_new, List.append_nil]
            exact (hset ▸ h5).trans hsub0
    · simp only [hge, if_false]
      refine ⟨?_, fun _ h => (by cases h)⟩
      intro w' hw'
      injection hw' with hw'
      subst hw'
      refine ⟨rfl, ⟨hI.len, hbwR, .inr (by show bw.sizeEstimate < w.cfg.clamped; omega), hI.idxR, hI.idxP⟩,
        rfl, ⟨[], by simp, by simp⟩, ?_, hk, hv, hlt⟩
      show (allKeys w.idx ++ bwKeys bw).Sublist (keys w ++ [k])
      rw [hbwkeys, keys, List.append_assoc]
      exact List.Sublist.refl _

/-- Specification of the insert loop of `W.run`. -/
theorem go_spec (cd : Codec) : ∀ (kvs : List Entry) (w : W), Inv w →
    (∀ w', W.run.go cd w kvs = .ok w' →
        w'.cfg = w.cfg ∧ Inv w' ∧ w'.count = w.count + kvs.length ∧
        (∃ tl, w'.log = w.log ++ tl ∧
          ∀ e ∈ tl, EmOK w.cfg.interval w.cfg.clamped (w.cfg.levels + 1) e ∧ w.cfg.clamped ≤ e.raw.length) ∧
        (keys w').Sublist (keys w ++ kvs.map Prod.fst) ∧
        (∀ e ∈ kvs, e.1.length ≤ u32Max ∧ e.2.length ≤ u32Max)) ∧
    (∀ t, W.run.go cd w kvs = .error t →
        (t = .keyTooLong ∧ ∃ e ∈ kvs, u32Max < e.1.length) ∨
        (t = .valTooLong ∧ ∃ e ∈ kvs, u32Max < e.2.length) ∨
        (t = .keyOrder ∧ ¬ Asc (keys w ++ kvs.map Prod.fst))) := by
  intro kvs
  induction kvs with
  | nil =>
    intro w hI
    simp only [W.run.go]
    refine ⟨?_, fun _ h => (by cases h)⟩
    intro w' hw'
    injection hw' with hw'
    subst hw'
    exact ⟨rfl, hI, rfl, ⟨[], by simp, by simp⟩, by simp, by simp⟩
  | cons kv rest ih =>
    intro w hI
    obtain ⟨k, v⟩ := kv
    simp only [W.run.go]
    have hspec := insert_spec cd w k v hI
    cases hin : W.insert cd w k v with
    | error t =>
      simp only
      refine ⟨fun _ h => (by cases h), ?_⟩
      intro t' ht'
      injection ht' with ht'
      subst ht'
      rcases hspec.2 t hin with ⟨ht, hl⟩ | ⟨ht, hl⟩ | ⟨ht, _, _, hna⟩
      · exact .inl ⟨ht, (k, v), by simp, hl⟩
      · exact .inr (.inl ⟨ht, (k, v), by simp, hl⟩)
      · refine .inr (.inr ⟨ht, fun hasc => hna ?_⟩)
        refine hasc.sublist ?_
        simp only [List.map_cons]
        exact List.Sublist.append_left (List.Sublist.cons_cons _ (List.nil_sublist _)) _
    | ok w1 =>
      simp only
      obtain ⟨hcfg, hI1, hcnt, ⟨tl1, htl1, htl1ok⟩, hsub1, hk, hv, _⟩ := hspec.1 w1 hin
      have hrec := ih w1 hI1
      have hsubrest : (keys w1 ++ rest.map Prod.fst).Sublist (keys w ++ ((k, v) :: rest).map Prod.fst) := by
        simp only [List.map_cons]
        have := List.Sublist.append_right hsub1 (rest.map Prod.fst)
        simpa [List.append_assoc] using this
      refine ⟨?_, ?_⟩
      · intro w' hw'
        obtain ⟨hcfg2, hI2, hcnt2, ⟨tl2, htl2, htl2ok⟩, hsub2, hlen2⟩ := hrec.1 w' hw'
        refine ⟨hcfg2.trans hcfg, hI2, by rw [hcnt2, hcnt]; simp; omega,
          ⟨tl1 ++ tl2, by rw [htl2, htl1, List.append_assoc], ?_⟩, hsub2.trans hsubrest, ?_⟩
        · intro e he
          rcases List.mem_append.mp he with he | he
          · exact htl1ok e he
          · have := htl2ok e he
            rw [hcfg] at this
            exact this
        · intro e he
          rcases List.mem_cons.mp he with he | he
          · subst he; exact ⟨hk, hv⟩
          · exact hlen2 e he
      · intro t ht
        rcases hrec.2 t ht with ⟨ht, e, he, hl⟩ | ⟨ht, e, he, hl⟩ | ⟨ht, hna⟩
        · exact .inl ⟨ht, e, List.mem_cons_of_mem _ he, hl⟩
        · exact .inr (.inl ⟨ht, e, List.mem_cons_of_mem _ he, hl⟩)
        · exact .inr (.inr ⟨ht, fun hasc => hna (hasc.sublist hsubrest)⟩)

end W
end Grenad
