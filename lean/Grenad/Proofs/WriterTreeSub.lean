/-
  T-writer, part 2: the abstract store of a log, and facts about `Sub`.
-/
import Grenad.Proofs.WriterTreeBase

namespace Grenad

open WT

/-- The store described by a log: the ghost items of the first block recorded at `off`. -/
def storeOf (log : List Emitted) : Store :=
  fun off => (log.find? (·.offset = off)).map (·.items)

/-- The level labelling described by a log. -/
def lvlOf (log : List Emitted) : Nat → Nat :=
  fun off => ((log.find? (·.offset = off)).map (·.level)).getD 0

theorem storeOf_append_old {log : List Emitted} (l2 : List Emitted) {off : Nat} {x : List Entry}
    (h : storeOf log off = some x) :
    storeOf (log ++ l2) off = some x ∧ lvlOf (log ++ l2) off = lvlOf log off := by
  unfold storeOf lvlOf at *
  rw [List.find?_append]
  cases hf : log.find? (fun e => decide (e.offset = off)) with
  | none => rw [hf] at h; simp at h
  | some e => rw [hf] at h; simp [h]

theorem storeOf_append_new {log : List Emitted} (e : Emitted)
    (h : ∀ e' ∈ log, e'.offset ≠ e.offset) :
    storeOf (log ++ [e]) e.offset = some e.items ∧ lvlOf (log ++ [e]) e.offset = e.level := by
  unfold storeOf lvlOf
  rw [List.find?_append]
  have : log.find? (fun e' => decide (e'.offset = e.offset)) = none := by
    rw [List.find?_eq_none]; intro x hx; simpa using h x hx
  rw [this]; simp

theorem storeOf_some {log : List Emitted} {off : Nat} {x : List Entry}
    (h : storeOf log off = some x) : ∃ e ∈ log, e.offset = off ∧ e.items = x := by
  unfold storeOf at h
  cases hf : log.find? (fun e => decide (e.offset = off)) with
  | none => rw [hf] at h; simp at h
  | some e =>
    rw [hf] at h
    refine ⟨e, List.mem_of_find?_eq_some hf, ?_, by simpa using h⟩
    simpa using List.find?_some hf

/-- With pairwise distinct offsets every block of the log is the one the store returns. -/
theorem storeOf_of_mem {log : List Emitted} (hp : log.Pairwise (fun a b => a.offset < b.offset))
    {e : Emitted} (he : e ∈ log) :
    storeOf log e.offset = some e.items ∧ lvlOf log e.offset = e.level := by
  induction log with
  | nil => cases he
  | cons a l ih =>
    rw [List.pairwise_cons] at hp
    rcases List.mem_cons.mp he with rfl | he
    · simp [storeOf, lvlOf]
    · have hlt := hp.1 e he
      have hne : ¬ (a.offset = e.offset) := by omega
      have := ih hp.2 he
      simp only [storeOf, lvlOf, List.find?_cons, hne, decide_false] at this ⊢
      exact this

/-! ### `Sub` -/

theorem Sub.mono {s s' : Store} {lvl lvl' : Nat → Nat}
    (hs : ∀ off x, s off = some x → s' off = some x ∧ lvl' off = lvl off)
    {d off : Nat} {flat : List Entry} (h : Sub s lvl d off flat) : Sub s' lvl' d off flat := by
  induction h with
  | leaf off es h1 h2 h3 =>
    obtain ⟨a, b⟩ := hs off es h1
    exact Sub.leaf off es a h2 (by rw [b, h3])
  | node d off kids h1 h2 h3 _ ih =>
    obtain ⟨a, b⟩ := hs off _ h2
    exact Sub.node d off kids h1 a (by rw [b, h3]) ih

theorem Sub.mono_append {log : List Emitted} (l2 : List Emitted) {d off : Nat} {flat : List Entry}
    (h : Sub (storeOf log) (lvlOf log) d off flat) :
    Sub (storeOf (log ++ l2)) (lvlOf (log ++ l2)) d off flat :=
  h.mono (fun _ _ hx => storeOf_append_old l2 hx)

theorem Sub.flat_ne_nil {s : Store} {lvl : Nat → Nat} {d off : Nat} {flat : List Entry}
    (h : Sub s lvl d off flat) : flat ≠ [] := by
  induction h with
  | leaf off es h1 h2 h3 => exact h2
  | node d off kids h1 h2 h3 _ ih =>
    obtain ⟨k, ks, rfl⟩ := List.exists_cons_of_ne_nil h1
    have := ih k (by simp)
    simp [this]

/-! ### Kid lists -/

abbrev Kids := List (Nat × List Entry)

/-- The items of an index block over `ks`. -/
def img (ks : Kids) : List Entry := ks.map (fun k => (lastKey k.2, be64 k.1))

/-- The concatenated leaf content below `ks`. -/
def flatOf (ks : Kids) : List Entry := ks.flatMap (·.2)

@[simp] theorem img_nil : img [] = [] := rfl
@[simp] theorem flatOf_nil : flatOf [] = [] := rfl
@[simp] theorem img_append (a b : Kids) : img (a ++ b) = img a ++ img b := by simp [img]
@[simp] theorem flatOf_append (a b : Kids) : flatOf (a ++ b) = flatOf a ++ flatOf b := by simp [flatOf]
@[simp] theorem img_singleton (k : Nat × List Entry) : img [k] = [(lastKey k.2, be64 k.1)] := rfl
@[simp] theorem flatOf_singleton (k : Nat × List Entry) : flatOf [k] = k.2 := by simp [flatOf]

theorem img_eq_nil {ks : Kids} : img ks = [] ↔ ks = [] := by simp [img]

theorem Sub.node' {s : Store} {lvl : Nat → Nat} (d off : Nat) (ks : Kids) (h1 : ks ≠ [])
    (h2 : s off = some (img ks)) (h3 : lvl off = d + 1) (h4 : ∀ k ∈ ks, Sub s lvl d k.1 k.2) :
    Sub s lvl (d + 1) off (flatOf ks) := Sub.node d off ks h1 h2 h3 h4

theorem lastKey_img {ks : Kids} (h : ks ≠ []) (hne : ∀ k ∈ ks, k.2 ≠ []) :
    lastKey (img ks) = lastKey (flatOf ks) := by
  rcases List.eq_nil_or_concat ks with rfl | ⟨ks', k, rfl⟩
  · exact absurd rfl h
  · rw [List.concat_eq_append] at hne ⊢
    rw [img_append, flatOf_append, img_singleton, flatOf_singleton, lastKey_concat,
      lastKey_append (hne k (by simp))]

theorem flatOf_ne_nil {ks : Kids} (h : ks ≠ []) (hne : ∀ k ∈ ks, k.2 ≠ []) : flatOf ks ≠ [] := by
  obtain ⟨k, ks', rfl⟩ := List.exists_cons_of_ne_nil h
  have := hne k (by simp)
  simp [flatOf, this]

theorem StrictAsc.lt_of_append {A B : List Entry} (h : StrictAsc (A ++ B)) {a b : Entry}
    (ha : a ∈ A) (hb : b ∈ B) : a.1 < b.1 := by
  unfold StrictAsc at h
  rw [List.pairwise_append] at h
  exact h.2.2 a ha b hb

/-- Content of level `i` precedes content of level `j > i`. -/
theorem content_order {K : List Kids} {i j : Nat} {ks0 ks1 : Kids}
    (hasc : StrictAsc ((K.map flatOf).flatten)) (h0 : K[i]? = some ks0) (h1 : K[j]? = some ks1)
    (hij : i < j) {a b : Entry} (ha : a ∈ flatOf ks0) (hb : b ∈ flatOf ks1) : a.1 < b.1 := by
  unfold StrictAsc at hasc
  rw [List.pairwise_flatten] at hasc
  have hp := hasc.2
  rw [List.pairwise_iff_getElem] at hp
  obtain ⟨hi, e0⟩ := List.getElem?_eq_some_iff.mp h0
  obtain ⟨hj, e1⟩ := List.getElem?_eq_some_iff.mp h1
  have := hp i j (by simpa using hi) (by simpa using hj) hij
  simp only [List.getElem_map, e0, e1] at this
  exact this a ha b hb

theorem mem_content {K : List Kids} {i : Nat} {ks : Kids} (h : K[i]? = some ks) {a : Entry}
    (ha : a ∈ flatOf ks) : a ∈ (K.map flatOf).flatten := by
  rw [List.mem_flatten]
  exact ⟨flatOf ks, List.mem_map.mpr ⟨ks, List.mem_of_getElem? h, rfl⟩, ha⟩

/-- Moving the content of level `i+1` into a new kid at the end of level `i` keeps the content. -/
theorem flatten_move (K : List Kids) (i : Nat) (ks0 ks1 : Kids) (off : Nat)
    (h0 : K[i]? = some ks0) (h1 : K[i + 1]? = some ks1) :
    (((K.set i (ks0 ++ [(off, flatOf ks1)])).set (i + 1) []).map flatOf).flatten
      = (K.map flatOf).flatten := by
  induction K generalizing i with
  | nil => simp at h0
  | cons a K ih =>
    cases i with
    | zero =>
      cases K with
      | nil => simp at h1
      | cons b K =>
        simp at h0 h1; subst h0; subst h1
        simp [List.append_assoc]
    | succ i =>
      simp only [List.getElem?_cons_succ] at h0 h1
      simp only [List.set_cons_succ, List.map_cons, List.flatten_cons, ih i h0 h1]

/-- The last level: appending a kid extends the content at the end. -/
theorem flatten_push (K : List Kids) (i : Nat) (ks0 : Kids) (k : Nat × List Entry)
    (h0 : K[i]? = some ks0) (hl : K.length = i + 1) :
    ((K.set i (ks0 ++ [k])).map flatOf).flatten = (K.map flatOf).flatten ++ k.2 := by
  induction K generalizing i with
  | nil => simp at h0
  | cons a K ih =>
    cases i with
    | zero =>
      simp at hl; subst hl
      simp at h0; subst h0
      simp
    | succ i =>
      simp only [List.getElem?_cons_succ] at h0
      simp only [List.length_cons, Nat.add_right_cancel_iff] at hl
      simp only [List.set_cons_succ, List.map_cons, List.flatten_cons, ih i h0 hl, List.append_assoc]

end Grenad
