/-
  Grenad.Proofs.MetaIOProofs — the open through a scheduled source (`Grenad.Model.MetaIO`):
  complete characterisation of `Meta.parseIOL` under an arbitrary read schedule.
-/
import Grenad.Model.MetaIO
import Grenad.Proofs.IOProofs

namespace Grenad.MetaIO

open IOM Meta

/-- One `read_uN` whose `N/8` bytes are inside the data: success with exactly the bytes at `pos`
    having consumed a fault-free part of the schedule, or the first fault of the schedule. -/
theorem rd_step (b : Bytes) (n pos : Nat) (sch : List RResp) (hlen : pos + n ≤ b.length)
    (out : Bytes) (pos' : Nat) (rest : List RResp) (err : Option Nat)
    (hr : readExact b n pos [] sch = (out, pos', rest, err)) :
    ∃ used, RFaultFree used ∧
      ((err = none ∧ sch = used ++ rest ∧ out = (b.drop pos).take n ∧ pos' = pos + n) ∨
       (∃ t, err = some t ∧ sch = used ++ .fail t :: rest)) := by
  obtain ⟨used, hu, ho, hp, hc⟩ := readExact_char b sch n pos [] _ _ _ _ hr
  refine ⟨used, hu, ?_⟩
  rcases hc with ⟨e, hs, h1, _⟩ | ⟨_, _, h1, _⟩ | ⟨t, e, hs, _⟩
  · refine .inl ⟨e, hs, ?_, h1⟩
    rw [ho, h1]; simp
  · omega
  · exact .inr ⟨t, e, hs⟩

theorem rd_some {b : Bytes} {n pos : Nat} {sch : List RResp} {out : Bytes} {pos' : Nat}
    {rest : List RResp} {t : Nat} (hr : readExact b n pos [] sch = (out, pos', rest, some t))
    (hlen : pos + n ≤ b.length) : ∃ used, RFaultFree used ∧ sch = used ++ .fail t :: rest := by
  obtain ⟨used, hu, hc⟩ := rd_step b n pos sch hlen _ _ _ _ hr
  rcases hc with ⟨e, _⟩ | ⟨t', e, hs⟩
  · cases e
  · cases e; exact ⟨used, hu, hs⟩

theorem rd_none {b : Bytes} {n pos : Nat} {sch : List RResp} {out : Bytes} {pos' : Nat}
    {rest : List RResp} (hr : readExact b n pos [] sch = (out, pos', rest, none))
    (hlen : pos + n ≤ b.length) :
    ∃ used, RFaultFree used ∧ sch = used ++ rest ∧ out = (b.drop pos).take n ∧ pos' = pos + n := by
  obtain ⟨used, hu, hc⟩ := rd_step b n pos sch hlen _ _ _ _ hr
  rcases hc with ⟨_, h1, h2, h3⟩ | ⟨t', e, _⟩
  · exact ⟨used, hu, h1, h2, h3⟩
  · cases e

/-- Outcome of `parseIOL b sch = (res, rest, err, log)` for an arbitrary schedule. -/
def OpenOutcome (b : Bytes) (sch : List RResp) (res : Except OpenErr Meta.Meta)
    (rest : List RResp) (err : Option Nat) (log : List (Nat × Nat)) : Prop :=
  (∃ used, RFaultFree used ∧
    ((err = none ∧ sch = used ++ rest ∧ res = parse b) ∨
     (∃ t, err = some t ∧ sch = used ++ .fail t :: rest ∧ res = .error .io))) ∧
  (∀ p ∈ log, b.length - 22 ≤ p.1 ∧ p.1 + p.2 ≤ b.length) ∧
  (log.map Prod.snd).sum ≤ 22 ∧
  (log.map Prod.snd).sum ≤ (openIO b).2.1

theorem take_drop_tail {α} (l : List α) (k : Nat) (h : k ≤ l.length) :
    (l.drop (l.length - k)).take k = l.drop (l.length - k) := by
  apply List.take_of_length_le
  simp only [List.length_drop]; omega

theorem take1_getD (l : Bytes) (j i : Nat) :
    ((l.drop (j + i)).take 1).getD 0 0 = (l.drop j).getD i 0 := by
  simp [List.getD_eq_getElem?_getD, List.getElem?_drop]

theorem openIO_le (b : Bytes) : (openIO b).2.1 ≤ 22 := by
  unfold openIO; simp only; repeat' split
  all_goals simp

theorem openIO_ge4 (b : Bytes) (h : ¬ 4 > b.length) : 4 ≤ (openIO b).2.1 := by
  unfold openIO; simp only; repeat' split
  all_goals simp
  all_goals omega

theorem openIO_v1 (b : Bytes) (h4 : ¬ 4 > b.length)
    (hm : leVal (b.drop (b.length - 4)) = magicV1) (h21 : ¬ 21 > b.length) :
    (openIO b).2.1 = 21 := by
  unfold openIO
  simp [show ¬ b.length < 4 by omega, hm, show ¬ b.length < 21 by omega]

theorem openIO_v2 (b : Bytes) (h4 : ¬ 4 > b.length)
    (hm : leVal (b.drop (b.length - 4)) = magicV2) (h22 : ¬ 22 > b.length) :
    (openIO b).2.1 = 22 := by
  unfold openIO
  have : magicV2 ≠ magicV1 := by decide
  simp [show ¬ b.length < 4 by omega, hm, this, show ¬ b.length < 22 by omega]

theorem parse_v1 (b : Bytes) (h4 : ¬ 4 > b.length)
    (hm : leVal (b.drop (b.length - 4)) = magicV1) :
    parse b = if 21 > b.length then .error .io else
      if ((b.drop (b.length - 21)).getD 8 0).toNat > 5 then .error .badCodec else
      .ok { version := 1, root := leVal ((b.drop (b.length - 21)).take 8),
            codec := ((b.drop (b.length - 21)).getD 8 0).toNat,
            count := leVal (((b.drop (b.length - 21)).drop 9).take 8), levels := 0 } := by
  unfold parse
  simp only [show ¬ b.length < 4 by omega, hm, if_true, if_false]

theorem parse_v2 (b : Bytes) (h4 : ¬ 4 > b.length)
    (hm : leVal (b.drop (b.length - 4)) = magicV2) :
    parse b = if 22 > b.length then .error .io else
      if ((b.drop (b.length - 22)).getD 8 0).toNat > 5 then .error .badCodec else
      .ok { version := 2, root := leVal ((b.drop (b.length - 22)).take 8),
            codec := ((b.drop (b.length - 22)).getD 8 0).toNat,
            count := leVal (((b.drop (b.length - 22)).drop 9).take 8),
            levels := ((b.drop (b.length - 22)).getD 17 0).toNat } := by
  unfold parse
  have : magicV2 ≠ magicV1 := by decide
  simp only [show ¬ b.length < 4 by omega, hm, this, if_true, if_false]

theorem parse_badMagic (b : Bytes) (h4 : ¬ 4 > b.length)
    (hm1 : leVal (b.drop (b.length - 4)) ≠ magicV1)
    (hm2 : leVal (b.drop (b.length - 4)) ≠ magicV2) : parse b = .error .badMagic := by
  unfold parse
  simp [show ¬ b.length < 4 by omega, hm1, hm2]

theorem parseIOL_char (b : Bytes) (sch : List RResp) (res : Except OpenErr Meta.Meta)
    (rest : List RResp) (err : Option Nat) (log : List (Nat × Nat))
    (h : parseIOL b sch = (res, rest, err, log)) : OpenOutcome b sch res rest err log := by
  unfold parseIOL at h
  simp only at h
  by_cases h4 : 4 > b.length
  · simp only [h4, if_true, Prod.mk.injEq] at h
    obtain ⟨rfl, rfl, rfl, rfl⟩ := h
    refine ⟨⟨[], RFaultFree.nil, .inl ⟨rfl, rfl, ?_⟩⟩, by simp, by simp, by simp⟩
    unfold parse; simp [show b.length < 4 from h4]
  · simp only [h4, if_false] at h
    have hg4 := openIO_ge4 b h4
    rcases h1 : readExact b 4 (b.length - 4) [] sch with ⟨mg, p1, s1, e1⟩
    rw [h1] at h
    cases e1 with
    | some t =>
      simp only [Prod.mk.injEq] at h
      obtain ⟨rfl, rfl, rfl, rfl⟩ := h
      obtain ⟨u1, hu1, hs1⟩ := rd_some h1 (by omega)
      refine ⟨⟨u1, hu1, .inr ⟨_, rfl, hs1, rfl⟩⟩, ?_, by simp, by simpa using hg4⟩
      simp; omega
    | none =>
      simp only at h
      obtain ⟨u1, hu1, hs1, hmg, -⟩ := rd_none h1 (by omega)
      rw [take_drop_tail b 4 (by omega)] at hmg
      subst hmg
      clear h1
      by_cases hm1 : leVal (b.drop (b.length - 4)) = magicV1
      · simp only [hm1, if_true] at h
        have hp := parse_v1 b h4 hm1
        by_cases h21 : 21 > b.length
        · simp only [h21, if_true, Prod.mk.injEq] at h
          obtain ⟨rfl, rfl, rfl, rfl⟩ := h
          refine ⟨⟨u1, hu1, .inl ⟨rfl, hs1, ?_⟩⟩, ?_, by simp, by simpa using hg4⟩
          · rw [hp]; simp [h21]
          · simp; omega
        · simp only [h21, if_false] at h hp
          have ho := openIO_v1 b h4 hm1 h21
          rcases h2 : readExact b 8 (b.length - 21) [] s1 with ⟨rootB, p2, s2, e2⟩
          rw [h2] at h
          cases e2 with
          | some t =>
            simp only [Prod.mk.injEq] at h
            obtain ⟨rfl, rfl, rfl, rfl⟩ := h
            obtain ⟨u2, hu2, hs2⟩ := rd_some h2 (by omega)
            refine ⟨⟨u1 ++ u2, RFaultFree.append_iff.mpr ⟨hu1, hu2⟩,
              .inr ⟨_, rfl, by rw [hs1, hs2, List.append_assoc], rfl⟩⟩, ?_, by simp, by simp [ho]⟩
            simp; omega
          | none =>
            simp only at h
            obtain ⟨u2, hu2, hs2, hroot, hp2⟩ := rd_none h2 (by omega)
            subst hroot hp2
            clear h2
            rcases h3 : readExact b 1 (b.length - 21 + 8) [] s2 with ⟨codecB, p3, s3, e3⟩
            rw [h3] at h
            cases e3 with
            | some t =>
              simp only [Prod.mk.injEq] at h
              obtain ⟨rfl, rfl, rfl, rfl⟩ := h
              obtain ⟨u3, hu3, hs3⟩ := rd_some h3 (by omega)
              refine ⟨⟨u1 ++ u2 ++ u3,
                RFaultFree.append_iff.mpr ⟨RFaultFree.append_iff.mpr ⟨hu1, hu2⟩, hu3⟩,
                .inr ⟨_, rfl, by rw [hs1, hs2, hs3]; simp [List.append_assoc], rfl⟩⟩,
                ?_, by simp, by simp [ho]⟩
              simp; omega
            | none =>
              simp only at h
              obtain ⟨u3, hu3, hs3, hcodec, hp3⟩ := rd_none h3 (by omega)
              subst hcodec hp3
              clear h3
              rw [take1_getD] at h
              have hu123 : RFaultFree (u1 ++ u2 ++ u3) :=
                RFaultFree.append_iff.mpr ⟨RFaultFree.append_iff.mpr ⟨hu1, hu2⟩, hu3⟩
              have hs123 : sch = u1 ++ u2 ++ u3 ++ s3 := by
                rw [hs1, hs2, hs3]; simp [List.append_assoc]
              by_cases hc : ((b.drop (b.length - 21)).getD 8 0).toNat > 5
              · simp only [hc, if_true, Prod.mk.injEq] at h hp
                obtain ⟨rfl, rfl, rfl, rfl⟩ := h
                refine ⟨⟨_, hu123, .inl ⟨rfl, hs123, hp.symm⟩⟩, ?_, by simp, by simp [ho]⟩
                simp; omega
              · simp only [hc, if_false] at h hp
                rcases h4' : readExact b 8 (b.length - 21 + 8 + 1) [] s3 with ⟨countB, p4, s4, e4⟩
                rw [h4'] at h
                cases e4 with
                | some t =>
                  simp only [Prod.mk.injEq] at h
                  obtain ⟨rfl, rfl, rfl, rfl⟩ := h
                  obtain ⟨u4, hu4, hs4⟩ := rd_some h4' (by omega)
                  refine ⟨⟨u1 ++ u2 ++ u3 ++ u4, RFaultFree.append_iff.mpr ⟨hu123, hu4⟩,
                    .inr ⟨_, rfl, by rw [hs123, hs4]; simp [List.append_assoc], rfl⟩⟩,
                    ?_, by simp, by simp [ho]⟩
                  simp; omega
                | none =>
                  simp only at h
                  obtain ⟨u4, hu4, hs4, hcount, hp4⟩ := rd_none h4' (by omega)
                  subst hcount hp4
                  clear h4'
                  have hu1234 : RFaultFree (u1 ++ u2 ++ u3 ++ u4) :=
                    RFaultFree.append_iff.mpr ⟨hu123, hu4⟩
                  have hs1234 : sch = u1 ++ u2 ++ u3 ++ u4 ++ s4 := by
                    rw [hs123, hs4]; simp [List.append_assoc]
                  have hcnt : List.drop (b.length - 21 + 8 + 1) b =
                      List.drop 9 (List.drop (b.length - 21) b) := by
                    rw [List.drop_drop]
                  rw [hcnt] at h
                  simp only [Prod.mk.injEq] at h
                  obtain ⟨rfl, rfl, rfl, rfl⟩ := h
                  refine ⟨⟨_, hu1234, .inl ⟨rfl, hs1234, hp.symm⟩⟩, ?_, by simp, by simp [ho]⟩
                  simp; omega
      · simp only [hm1, if_false] at h
        by_cases hm2 : leVal (b.drop (b.length - 4)) = magicV2
        · simp only [hm2, if_true] at h
          have hp := parse_v2 b h4 hm2
          by_cases h22 : 22 > b.length
          · simp only [h22, if_true, Prod.mk.injEq] at h
            obtain ⟨rfl, rfl, rfl, rfl⟩ := h
            refine ⟨⟨u1, hu1, .inl ⟨rfl, hs1, ?_⟩⟩, ?_, by simp, by simpa using hg4⟩
            · rw [hp]; simp [h22]
            · simp; omega
          · simp only [h22, if_false] at h hp
            have ho := openIO_v2 b h4 hm2 h22
            rcases h2 : readExact b 8 (b.length - 22) [] s1 with ⟨rootB, p2, s2, e2⟩
            rw [h2] at h
            cases e2 with
            | some t =>
              simp only [Prod.mk.injEq] at h
              obtain ⟨rfl, rfl, rfl, rfl⟩ := h
              obtain ⟨u2, hu2, hs2⟩ := rd_some h2 (by omega)
              refine ⟨⟨u1 ++ u2, RFaultFree.append_iff.mpr ⟨hu1, hu2⟩,
                .inr ⟨_, rfl, by rw [hs1, hs2, List.append_assoc], rfl⟩⟩, ?_, by simp, by simp [ho]⟩
              simp; omega
            | none =>
              simp only at h
              obtain ⟨u2, hu2, hs2, hroot, hp2⟩ := rd_none h2 (by omega)
              subst hroot hp2
              clear h2
              rcases h3 : readExact b 1 (b.length - 22 + 8) [] s2 with ⟨codecB, p3, s3, e3⟩
              rw [h3] at h
              cases e3 with
              | some t =>
                simp only [Prod.mk.injEq] at h
                obtain ⟨rfl, rfl, rfl, rfl⟩ := h
                obtain ⟨u3, hu3, hs3⟩ := rd_some h3 (by omega)
                refine ⟨⟨u1 ++ u2 ++ u3,
                  RFaultFree.append_iff.mpr ⟨RFaultFree.append_iff.mpr ⟨hu1, hu2⟩, hu3⟩,
                  .inr ⟨_, rfl, by rw [hs1, hs2, hs3]; simp [List.append_assoc], rfl⟩⟩,
                  ?_, by simp, by simp [ho]⟩
                simp; omega
              | none =>
                simp only at h
                obtain ⟨u3, hu3, hs3, hcodec, hp3⟩ := rd_none h3 (by omega)
                subst hcodec hp3
                clear h3
                rw [take1_getD] at h
                have hu123 : RFaultFree (u1 ++ u2 ++ u3) :=
                  RFaultFree.append_iff.mpr ⟨RFaultFree.append_iff.mpr ⟨hu1, hu2⟩, hu3⟩
                have hs123 : sch = u1 ++ u2 ++ u3 ++ s3 := by
                  rw [hs1, hs2, hs3]; simp [List.append_assoc]
                by_cases hc : ((b.drop (b.length - 22)).getD 8 0).toNat > 5
                · simp only [hc, if_true, Prod.mk.injEq] at h hp
                  obtain ⟨rfl, rfl, rfl, rfl⟩ := h
                  refine ⟨⟨_, hu123, .inl ⟨rfl, hs123, hp.symm⟩⟩, ?_, by simp, by simp [ho]⟩
                  simp; omega
                · simp only [hc, if_false] at h hp
                  rcases h4' : readExact b 8 (b.length - 22 + 8 + 1) [] s3 with ⟨countB, p4, s4, e4⟩
                  rw [h4'] at h
                  cases e4 with
                  | some t =>
                    simp only [Prod.mk.injEq] at h
                    obtain ⟨rfl, rfl, rfl, rfl⟩ := h
                    obtain ⟨u4, hu4, hs4⟩ := rd_some h4' (by omega)
                    refine ⟨⟨u1 ++ u2 ++ u3 ++ u4, RFaultFree.append_iff.mpr ⟨hu123, hu4⟩,
                      .inr ⟨_, rfl, by rw [hs123, hs4]; simp [List.append_assoc], rfl⟩⟩,
                      ?_, by simp, by simp [ho]⟩
                    simp; omega
                  | none =>
                    simp only at h
                    obtain ⟨u4, hu4, hs4, hcount, hp4⟩ := rd_none h4' (by omega)
                    subst hcount hp4
                    clear h4'
                    have hu1234 : RFaultFree (u1 ++ u2 ++ u3 ++ u4) :=
                      RFaultFree.append_iff.mpr ⟨hu123, hu4⟩
                    have hs1234 : sch = u1 ++ u2 ++ u3 ++ u4 ++ s4 := by
                      rw [hs123, hs4]; simp [List.append_assoc]
                    have hcnt : List.drop (b.length - 22 + 8 + 1) b =
                        List.drop 9 (List.drop (b.length - 22) b) := by
                      rw [List.drop_drop]
                    rcases h5 : readExact b 1 (b.length - 22 + 8 + 1 + 8) [] s4 with
                      ⟨levelsB, p5, s5, e5⟩
                    rw [h5] at h
                    cases e5 with
                    | some t =>
                      simp only [Prod.mk.injEq] at h
                      obtain ⟨rfl, rfl, rfl, rfl⟩ := h
                      obtain ⟨u5, hu5, hs5⟩ := rd_some h5 (by omega)
                      refine ⟨⟨u1 ++ u2 ++ u3 ++ u4 ++ u5, RFaultFree.append_iff.mpr ⟨hu1234, hu5⟩,
                        .inr ⟨_, rfl, by rw [hs1234, hs5]; simp [List.append_assoc], rfl⟩⟩,
                        ?_, by simp, by simp [ho]⟩
                      simp; omega
                    | none =>
                      simp only at h
                      obtain ⟨u5, hu5, hs5, hlevels, -⟩ := rd_none h5 (by omega)
                      subst hlevels
                      clear h5
                      rw [hcnt, show b.length - 22 + 8 + 1 + 8 = b.length - 22 + 17 by omega,
                        take1_getD] at h
                      simp only [Prod.mk.injEq] at h
                      obtain ⟨rfl, rfl, rfl, rfl⟩ := h
                      refine ⟨⟨u1 ++ u2 ++ u3 ++ u4 ++ u5, RFaultFree.append_iff.mpr ⟨hu1234, hu5⟩,
                        .inl ⟨rfl, by rw [hs1234, hs5]; simp [List.append_assoc], hp.symm⟩⟩,
                        ?_, by simp, by simp [ho]⟩
                      simp; omega
        · simp only [hm2, if_false, Prod.mk.injEq] at h
          obtain ⟨rfl, rfl, rfl, rfl⟩ := h
          refine ⟨⟨u1, hu1, .inl ⟨rfl, hs1, (parse_badMagic b h4 hm1 hm2).symm⟩⟩, ?_, by simp,
            by simpa using hg4⟩
          simp; omega

/-- Characterisation of `parseIO` under an arbitrary schedule: either no `read` call failed, a
    fault-free part of the schedule was consumed and the result is the one of the pure `parse`;
    or the first fault of the schedule was consumed, the result is `Err(Io)` and the tag reported
    is that fault's. -/
theorem parseIO_char (b : Bytes) (sch : List RResp) :
    ∃ used, RFaultFree used ∧
      (((parseIO b sch).2.2 = none ∧ sch = used ++ (parseIO b sch).2.1 ∧
          (parseIO b sch).1 = parse b) ∨
       (∃ t, (parseIO b sch).2.2 = some t ∧ sch = used ++ .fail t :: (parseIO b sch).2.1 ∧
          (parseIO b sch).1 = .error .io)) :=
  (parseIOL_char b sch _ _ _ _ rfl).1

theorem parseIO_ff {sch : List RResp} (hff : RFaultFree sch) (b : Bytes) :
    (parseIO b sch).1 = parse b ∧ (parseIO b sch).2.2 = none ∧ RFaultFree (parseIO b sch).2.1 := by
  obtain ⟨used, hu, hc⟩ := parseIO_char b sch
  rcases hc with ⟨e, hs, hr⟩ | ⟨t, _, hs, _⟩
  · refine ⟨hr, e, ?_⟩
    have h := hff
    rw [hs] at h
    exact (RFaultFree.append_iff.mp h).2
  · rw [hs] at hff; exact absurd hff RFaultFree.no_fail

/-- The `read_exact` calls of an open, under an arbitrary schedule: every call lies within the
    last 22 bytes of the data (and inside the data), the `want`s sum to at most 22, and to at
    most the byte count of `Meta.openIO`. -/
theorem parseIOReads_bounds (b : Bytes) (sch : List RResp) :
    (∀ p ∈ parseIOReads b sch, b.length - 22 ≤ p.1 ∧ p.1 + p.2 ≤ b.length) ∧
    ((parseIOReads b sch).map Prod.snd).sum ≤ 22 ∧
    ((parseIOReads b sch).map Prod.snd).sum ≤ (openIO b).2.1 :=
  (parseIOL_char b sch _ _ _ _ rfl).2

end Grenad.MetaIO
