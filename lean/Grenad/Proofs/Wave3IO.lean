/-
  Grenad.Proofs.Wave3IO — the writer seen from its sink (`Grenad.Model.WriterIO`), assembled from
  the I/O-layer characterisations (`IOProofs`) and T-writer (`WriterTree`): the `write_all` calls of
  a complete run concatenate to the file, their prefix sums are the recorded block offsets, and
  what a fault leaves in the sink is a strict prefix of the file.
-/
import Grenad.Proofs.IOProofs
import Grenad.Proofs.WriterTree
import Grenad.Model.WriterIO

namespace Grenad.Wave3

open Grenad Grenad.IOM

/-! ### The list of `write_all` calls -/

theorem blockWrites_nil (cd : Codec) : W.blockWrites cd [] = [] := rfl

theorem blockWrites_cons (cd : Codec) (e : Emitted) (l : List Emitted) :
    W.blockWrites cd (e :: l) =
      be64 (cd.compress e.raw).length :: cd.compress e.raw :: W.blockWrites cd l := by
  simp [W.blockWrites]

theorem blockWrites_append (cd : Codec) (l1 l2 : List Emitted) :
    W.blockWrites cd (l1 ++ l2) = W.blockWrites cd l1 ++ W.blockWrites cd l2 := by
  simp [W.blockWrites]

theorem blockWrites_length (cd : Codec) (log : List Emitted) :
    (W.blockWrites cd log).length = 2 * log.length := by
  induction log with
  | nil => rfl
  | cons e l ih => rw [blockWrites_cons]; simp only [List.length_cons, ih]; omega

/-- The block calls concatenate to the framed blocks. -/
theorem blockWrites_flatten (cd : Codec) (log : List Emitted) :
    (W.blockWrites cd log).flatten = log.flatMap (fun e => W.blockBytes cd e.raw) := by
  induction log with
  | nil => rfl
  | cons e l ih =>
    rw [blockWrites_cons]
    simp only [List.flatten_cons, ih, List.flatMap_cons, W.blockBytes, List.append_assoc]

/-- The five trailer calls concatenate to the 22-byte version-2 record. -/
theorem trailerWrites_flatten (m : Meta.Meta) (hv : m.version ≠ 1) :
    (W.trailerWrites m).flatten = Meta.encode m := by
  simp [W.trailerWrites, Meta.encode, hv]

theorem writes_flatten (cd : Codec) (log : List Emitted) (m : Meta.Meta) (hv : m.version ≠ 1) :
    (W.writes cd log m).flatten =
      log.flatMap (fun e => W.blockBytes cd e.raw) ++ Meta.encode m := by
  simp only [W.writes, List.flatten_append, blockWrites_flatten, trailerWrites_flatten m hv]

/-- The first `2·j` calls are the calls of the first `j` blocks. -/
theorem writes_take (cd : Codec) (l1 l2 : List Emitted) (m : Meta.Meta) :
    (W.writes cd (l1 ++ l2) m).take (2 * l1.length) = W.blockWrites cd l1 := by
  simp only [W.writes, blockWrites_append, List.append_assoc]
  rw [← blockWrites_length cd l1, List.take_left]

/-- … and the calls that follow start with the two calls of block `j`. -/
theorem writes_drop (cd : Codec) (l1 : List Emitted) (e : Emitted) (l2 : List Emitted)
    (m : Meta.Meta) :
    (W.writes cd (l1 ++ e :: l2) m).drop (2 * l1.length) =
      be64 (cd.compress e.raw).length :: cd.compress e.raw :: W.writes cd l2 m := by
  simp only [W.writes, blockWrites_append, List.append_assoc]
  rw [← blockWrites_length cd l1, List.drop_left, blockWrites_cons]
  rfl

theorem split_at_getElem? {α} {l : List α} {j : Nat} {a : α} (h : l[j]? = some a) :
    l = l.take j ++ a :: l.drop (j + 1) ∧ (l.take j).length = j := by
  obtain ⟨hj, rfl⟩ := List.getElem?_eq_some_iff.mp h
  refine ⟨?_, by simp; omega⟩
  rw [← List.drop_eq_getElem_cons hj, List.take_append_drop]

/-! ### The run of the writer -/

section
variable {cd : Codec} {cfg : WCfg} {es : List Entry} {file : Bytes} {log : List Emitted}

/-- What T-writer says about the bytes: blocks back to back, then the version-2 trailer with the
    offset of the last block; the recorded offsets are the prefix sums. -/
theorem run_layout (H : WriterHyps cd cfg es) (hrun : W.run cd cfg es = .ok (file, log)) :
    ∃ root, root < (log.flatMap (fun e => W.blockBytes cd e.raw)).length ∧
      file = log.flatMap (fun e => W.blockBytes cd e.raw) ++
        Meta.encode ⟨2, root, cd.id, es.length, cfg.levels⟩ ∧
      (∀ l1 e l2, log = l1 ++ e :: l2 →
        e.offset = (l1.flatMap (fun e => W.blockBytes cd e.raw)).length) := by
  obtain ⟨idx, out, root, hf, hF, -⟩ := W.run_out H hrun
  refine ⟨root, ?_, ?_, hF.lay.prefix_sum⟩
  · rw [← hF.lay.out_eq]; exact hF.root
  · rw [hf, ← hF.lay.out_eq]

/-- The trailer the writer wrote is the one the reader parses. -/
theorem run_trailer (H : WriterHyps cd cfg es) (hrun : W.run cd cfg es = .ok (file, log))
    (hfile : file.length < 2 ^ 64) (hcount : es.length < 2 ^ 64) (hid : cd.id ≤ 5)
    {m : Meta.Meta} (hm : Meta.parse file = .ok m) :
    m = ⟨2, m.root, cd.id, es.length, cfg.levels⟩ ∧
    m.root < (log.flatMap (fun e => W.blockBytes cd e.raw)).length ∧
    file = log.flatMap (fun e => W.blockBytes cd e.raw) ++ Meta.encode m := by
  obtain ⟨root, hroot, hf, -⟩ := run_layout H hrun
  have hp : Meta.parse file = .ok ⟨2, root, cd.id, es.length, cfg.levels⟩ := by
    rw [hf]
    apply WT.meta_parse_encode_v2 _ _ rfl _ hid hcount H.levels
    have : (log.flatMap (fun e => W.blockBytes cd e.raw)).length ≤ file.length := by
      rw [hf]; simp
    simp only; omega
  rw [hm] at hp
  cases hp
  exact ⟨rfl, hroot, hf⟩

/-- **A1.** The calls concatenate to the file. -/
theorem writes_flatten_run (H : WriterHyps cd cfg es) (hrun : W.run cd cfg es = .ok (file, log))
    (hfile : file.length < 2 ^ 64) (hcount : es.length < 2 ^ 64) (hid : cd.id ≤ 5)
    {m : Meta.Meta} (hm : Meta.parse file = .ok m) :
    (W.writes cd log m).flatten = file := by
  obtain ⟨hmeq, -, hf⟩ := run_trailer H hrun hfile hcount hid hm
  have hv : m.version ≠ 1 := by rw [hmeq]; simp
  rw [writes_flatten cd log m hv, ← hf]

/-- Fault-free run: no error, the sink holds the file, the counter its length. -/
theorem runIO_ff (cd : Codec) (log : List Emitted) (m : Meta.Meta) {sch : List WResp}
    (hff : WFaultFree sch) :
    (W.runIO cd log m sch).2.2 = none ∧
    (W.runIO cd log m sch).1.data = (W.writes cd log m).flatten ∧
    (W.runIO cd log m sch).1.count = (W.writes cd log m).flatten.length := by
  obtain ⟨h1, h2, h3, -⟩ := writeMany_ff hff (W.writes cd log m) {}
  refine ⟨h1, ?_, ?_⟩
  · rw [W.runIO, h2]; rfl
  · rw [W.runIO, h3]; show 0 + _ = _; omega

/-- **A2.** Under a fault-free schedule, after the first `2·j` calls the counter is the recorded
    offset of block `j`, the sink holds the first `offset` bytes of the file, the next two
    calls are the length prefix and the body of block `j`, and the run continues from there. -/
theorem runIO_offsets (hps : ∀ l1 e l2, log = l1 ++ e :: l2 →
      e.offset = (l1.flatMap (fun e => W.blockBytes cd e.raw)).length)
    (m : Meta.Meta) {j : Nat} {e : Emitted} (hj : log[j]? = some e) {sch : List WResp}
    (hff : WFaultFree sch) :
    let mid := writeMany ((W.writes cd log m).take (2 * j)) {} sch
    mid.2.2 = none ∧ mid.1.count = e.offset ∧
    mid.1.data = (log.take j).flatMap (fun e => W.blockBytes cd e.raw) ∧
    WFaultFree mid.2.1 ∧
    (W.writes cd log m).drop (2 * j) =
      be64 (cd.compress e.raw).length :: cd.compress e.raw :: W.writes cd (log.drop (j + 1)) m ∧
    W.runIO cd log m sch = writeMany ((W.writes cd log m).drop (2 * j)) mid.1 mid.2.1 := by
  obtain ⟨hsplit, hlen⟩ := split_at_getElem? hj
  have hoff := hps _ _ _ hsplit
  have htake : (W.writes cd log m).take (2 * j) = W.blockWrites cd (log.take j) := by
    have := writes_take cd (log.take j) (e :: log.drop (j + 1)) m
    rwa [← hsplit, hlen] at this
  have hdrop := writes_drop cd (log.take j) e (log.drop (j + 1)) m
  rw [← hsplit, hlen] at hdrop
  obtain ⟨h1, h2, h3, h4⟩ := writeMany_ff hff ((W.writes cd log m).take (2 * j)) {}
  have hfl : ((W.writes cd log m).take (2 * j)).flatten =
      (log.take j).flatMap (fun e => W.blockBytes cd e.raw) := by
    rw [htake, blockWrites_flatten]
  refine ⟨h1, ?_, ?_, h4, hdrop, ?_⟩
  · rw [h3, hfl, hoff]; show 0 + _ = _; omega
  · rw [h2, hfl]; rfl
  · have := (C11_take_aux (W.writes cd log m) (2 * j) sch hff)
    exact this
where
  C11_take_aux (bufs : List Bytes) (j : Nat) (sch : List WResp) (hff : WFaultFree sch) :
      writeMany bufs {} sch =
        writeMany (bufs.drop j) (writeMany (bufs.take j) {} sch).1
          (writeMany (bufs.take j) {} sch).2.1 := by
    obtain ⟨h1, _, _, _⟩ := writeMany_ff hff (bufs.take j) {}
    have := writeMany_append (bufs.take j) (bufs.drop j) {} sch
    rw [List.take_append_drop] at this
    rw [this]
    rcases hm : writeMany (bufs.take j) {} sch with ⟨s', sch', e⟩
    rw [hm] at h1
    simp only at h1
    subst h1
    rfl

/-! ### Faults -/

/-- A `writeMany` stopped by a fault leaves a *strict* prefix of the fault-free byte stream. -/
theorem writeMany_fault_strict (bufs : List Bytes) (s : Sink) (sch : List WResp) (t : Nat)
    (h : (writeMany bufs s sch).2.2 = some t) :
    ∃ used rest, WFaultFree used ∧ sch = used ++ .fail t :: (writeMany bufs s sch).2.1 ∧
      rest ≠ [] ∧ s.data ++ bufs.flatten = (writeMany bufs s sch).1.data ++ rest ∧
      (writeMany bufs s sch).1.count = s.count + ((writeMany bufs s sch).1.data.length - s.data.length) := by
  rcases hr : writeMany bufs s sch with ⟨s', rest, err⟩
  obtain ⟨used, hu, hc⟩ := writeMany_char bufs s sch _ _ _ hr
  rw [hr] at h
  simp only at h
  rcases hc with ⟨e, _⟩ | ⟨t', j, b, k, e, hs, hj, hk, hd, hcnt⟩
  · rw [e] at h; cases h
  · rw [e] at h; cases h
    obtain ⟨hsplit, -⟩ := split_at_getElem? hj
    refine ⟨used, b.drop k ++ (bufs.drop (j + 1)).flatten, hu, hs, ?_, ?_, ?_⟩
    · intro h0
      have := congrArg List.length h0
      simp only [List.length_append, List.length_drop, List.length_nil] at this
      omega
    · simp only
      rw [hd]
      conv => lhs; rw [hsplit]
      simp only [List.flatten_append, List.flatten_cons, List.append_assoc]
      congr 2
      rw [← List.append_assoc, List.take_append_drop]
    · simp only
      rw [hcnt, hd]
      simp only [List.length_append, List.length_take]
      omega

/-- An `Ok` from `writeMany` means everything was written. -/
theorem writeMany_ok_all (bufs : List Bytes) (s : Sink) (sch : List WResp)
    (h : (writeMany bufs s sch).2.2 = none) :
    (writeMany bufs s sch).1.data = s.data ++ bufs.flatten ∧
    (writeMany bufs s sch).1.count = s.count + bufs.flatten.length := by
  rcases hr : writeMany bufs s sch with ⟨s', rest, err⟩
  obtain ⟨used, hu, hc⟩ := writeMany_char bufs s sch _ _ _ hr
  rw [hr] at h
  simp only at h
  rcases hc with ⟨_, _, hd, hcnt⟩ | ⟨t', j, b, k, e, _⟩
  · exact ⟨hd, hcnt⟩
  · rw [e] at h; cases h

/-- **A3.** The writer under an arbitrary schedule: an error is the first fault of the schedule
    and leaves a strict prefix of the file; `Ok` means the whole file is in the sink. -/
theorem runIO_fault (cd : Codec) (log : List Emitted) (m : Meta.Meta) (sch : List WResp) :
    (∀ t, (W.runIO cd log m sch).2.2 = some t →
      ∃ used rest, WFaultFree used ∧ sch = used ++ .fail t :: (W.runIO cd log m sch).2.1 ∧
        rest ≠ [] ∧ (W.writes cd log m).flatten = (W.runIO cd log m sch).1.data ++ rest ∧
        (W.runIO cd log m sch).1.count = (W.runIO cd log m sch).1.data.length) ∧
    ((W.runIO cd log m sch).2.2 = none →
      (W.runIO cd log m sch).1.data = (W.writes cd log m).flatten ∧
      (W.runIO cd log m sch).1.count = (W.writes cd log m).flatten.length) := by
  refine ⟨?_, ?_⟩
  · intro t ht
    obtain ⟨used, rest, hu, hs, hne, hd, hc⟩ := writeMany_fault_strict _ _ _ t ht
    refine ⟨used, rest, hu, hs, hne, ?_, ?_⟩
    · have hd' : ([] : Bytes) ++ (W.writes cd log m).flatten =
          (W.runIO cd log m sch).1.data ++ rest := hd
      simpa using hd'
    · rw [W.runIO, hc]; show 0 + (_ - 0) = _; omega
  · intro hn
    obtain ⟨h1, h2⟩ := writeMany_ok_all _ _ _ hn
    refine ⟨by rw [W.runIO, h1]; rfl, ?_⟩
    rw [W.runIO, h2]; show 0 + _ = _; omega

end

/-! ### A concrete instance: three entries, one index level below the root -/

def wxCfg : WCfg := { blockSize := 0, minBlock := 16, interval := 2, levels := 1 }
def wxEs : List Entry := [([1], [10]), ([2], [20, 21]), ([3, 0], [30])]

theorem wxHyps : WriterHyps Codec.none wxCfg wxEs :=
  ⟨by decide, fun _ => rfl, by unfold StrictAsc wxEs; decide, by simp [wxEs]⟩

def wxFile : Bytes := match W.run Codec.none wxCfg wxEs with | .ok (f, _) => f | .error _ => []
def wxLog : List Emitted := match W.run Codec.none wxCfg wxEs with | .ok (_, l) => l | .error _ => []
def wxMeta : Meta.Meta := match Meta.parse wxFile with | .ok m => m | .error _ => default

theorem wxRun : W.run Codec.none wxCfg wxEs = .ok (wxFile, wxLog) := by
  obtain ⟨file, log, h⟩ := T_writer_ok wxHyps
  simp only [wxFile, wxLog, h]

/-- file length, block offsets, parsed trailer (root offset, count, levels) — by evaluation -/
theorem wxShape : wxFile.length = 190 ∧ wxLog.map (·.offset) = [0, 24, 49, 74, 136] ∧
    wxMeta = ⟨2, 136, 0, 3, 1⟩ := by
  set_option maxRecDepth 100000 in decide

theorem wxParse : Meta.parse wxFile = .ok wxMeta := by
  have h := wxShape.2.2
  unfold wxMeta at h ⊢
  cases hp : Meta.parse wxFile with
  | ok m => rfl
  | error e => rw [hp] at h; cases h

theorem wxFile_lt : wxFile.length < 2 ^ 64 := by rw [wxShape.1]; decide

end Grenad.Wave3
