/-
  WriterInv, part 2 — predicates over pending writers / emitted blocks, the list of all pending
  index keys, and the specification of `W.cutLevels`.
-/
import Grenad.Proofs.WriterInvBW

namespace Grenad

open BW

/-- A pending writer that is subject to cutting: empty, or below the block size. -/
def Pend (B : Nat) (w : BW) : Prop := w.items = [] ∨ w.sizeEstimate < B

/-- `w` is one insert after a reachable state that was empty or below the block size. -/
def GoodPred (iv B : Nat) (w : BW) : Prop :=
  ∃ p k v, Reach iv p ∧ p.insert k v = .ok w ∧ Pend B p

/-- Empty, or one insert after a state below the block size. -/
def PendG (iv B : Nat) (w : BW) : Prop := w.items = [] ∨ GoodPred iv B w

/-- What is recorded of an emitted block (`n` = number of index writers = `levels + 1`):
    it is the `finish` of a reachable block writer, and on the levels that are subject to cutting
    (data blocks, and index blocks at list index `≥ 2`, i.e. `level + 2 ≤ n`) the writer was below
    the block size (or empty) before its final entry. -/
def EmOK (iv B n : Nat) (e : Emitted) : Prop :=
  ∃ bw, Reach iv bw ∧ e.items = bw.items ∧ e.raw = bw.finish ∧
    ((e.level = 0 ∨ e.level + 2 ≤ n) → GoodPred iv B bw)

theorem GoodPred.items_ne_nil {iv B : Nat} {w : BW} (h : GoodPred iv B w) : w.items ≠ [] := by
  obtain ⟨p, k, v, _, hi, _⟩ := h
  rw [(insert_ok hi).2.2.2.2.2.1]
  simp

theorem Pend.toPendG {iv B : Nat} {w : BW} (hr : Reach iv w) (hp : Pend B w) : PendG iv B w := by
  rcases hr.cases_items with h | ⟨p, k, v, hpR, hi⟩
  · exact .inl (by rw [h]; rfl)
  · rcases hp with hp | hp
    · exact .inl hp
    · refine .inr ⟨p, k, v, hpR, hi, .inr ?_⟩
      have := (sizeEstimate_insert hi).1
      omega

theorem PendG.good {iv B : Nat} {w : BW} (h : PendG iv B w) (hne : w.items ≠ []) : GoodPred iv B w := by
  rcases h with h | h
  · exact absurd h hne
  · exact h

theorem BW.Reach.items_nil_of_lastKey_none {iv : Nat} {w : BW} (h : Reach iv w) (hl : w.lastKey = none) :
    w.items = [] := by
  rw [h.lastKey_eq] at hl
  cases hi : w.items with
  | nil => rfl
  | cons a t =>
    have : (a :: t).getLast? ≠ none := by simp
    rw [hi] at hl
    cases hg : (a :: t).getLast? with
    | none => exact absurd hg this
    | some l => simp [hg] at hl

/-! ### The list of all keys held by a list of writers -/

def bwKeys (w : BW) : List Bytes := w.items.map Prod.fst

def allKeys (idx : List BW) : List Bytes := idx.flatMap bwKeys

abbrev Asc (l : List Bytes) : Prop := l.Pairwise (· < ·)

@[simp] theorem allKeys_nil : allKeys [] = [] := rfl
@[simp] theorem allKeys_cons (a : BW) (t : List BW) : allKeys (a :: t) = bwKeys a ++ allKeys t := by
  simp [allKeys]

theorem bwKeys_new (iv : Nat) : bwKeys (BW.new iv) = [] := rfl

theorem mem_allKeys {idx : List BW} {w : BW} (hw : w ∈ idx) {x : Bytes} (hx : x ∈ bwKeys w) :
    x ∈ allKeys idx := List.mem_flatMap.mpr ⟨w, hw, hx⟩

/-- Moving the last key of writer `i+1` to the end of writer `i` and emptying writer `i+1`
    yields a sublist of the keys. -/
theorem allKeys_transfer {idx : List BW} {i : Nat} {parent cur parent' cur' : BW} {lk : Bytes}
    (hp : idx[i]? = some parent) (hc : idx[i+1]? = some cur)
    (hp' : bwKeys parent' = bwKeys parent ++ [lk]) (hlk : lk ∈ bwKeys cur) (hc' : bwKeys cur' = []) :
    (allKeys ((idx.set i parent').set (i+1) cur')).Sublist (allKeys idx) := by
  induction idx generalizing i with
  | nil => simp at hp
  | cons a t ih =>
    cases i with
    | zero =>
      simp at hp
      subst hp
      cases t with
      | nil => simp at hc
      | cons b C =>
        simp at hc
        subst hc
        simp only [List.set_cons_zero, List.set_cons_succ, allKeys_cons, hp', hc', List.nil_append]
        rw [List.append_assoc]
        refine List.Sublist.append_left ?_ _
        refine List.Sublist.append_right ?_ _
        exact List.singleton_sublist.mpr hlk
    | succ i =>
      simp only [List.getElem?_cons_succ] at hp hc
      simp only [List.set_cons_succ, allKeys_cons]
      exact List.Sublist.append_left (ih hp hc) _

/-- Keys of writer `i` precede those of writer `i+1` in `allKeys`. -/
theorem allKeys_adjacent {idx : List BW} {i : Nat} {a b : BW}
    (ha : idx[i]? = some a) (hb : idx[i+1]? = some b) (h : Asc (allKeys idx)) :
    ∀ x ∈ bwKeys a, ∀ y ∈ bwKeys b, x < y := by
  induction idx generalizing i with
  | nil => simp at ha
  | cons c t ih =>
    cases i with
    | zero =>
      simp at ha
      subst ha
      cases t with
      | nil => simp at hb
      | cons d C =>
        simp at hb
        subst hb
        simp only [allKeys_cons] at h
        intro x hx y hy
        exact (List.pairwise_append.mp h).2.2 x hx y (List.mem_append_left _ hy)
    | succ i =>
      simp only [List.getElem?_cons_succ] at ha hb
      simp only [allKeys_cons] at h
      exact ih ha hb (List.pairwise_append.mp h).2.1

/-- Appending a key to writer `i`. -/
theorem allKeys_set_append {idx : List BW} {i : Nat} {w w' : BW} {lk : Bytes}
    (hw : idx[i]? = some w) (hw' : bwKeys w' = bwKeys w ++ [lk]) :
    allKeys (idx.set i w') = allKeys (idx.take (i+1)) ++ [lk] ++ allKeys (idx.drop (i+1)) := by
  induction idx generalizing i with
  | nil => simp at hw
  | cons c t ih =>
    cases i with
    | zero =>
      simp at hw
      subst hw
      simp [hw']
    | succ i =>
      simp only [List.getElem?_cons_succ] at hw
      simp only [List.set_cons_succ, allKeys_cons, List.take_succ_cons, List.drop_succ_cons, ih hw,
        List.append_assoc]

theorem allKeys_set_last {idx : List BW} {w w' : BW} {lk : Bytes}
    (hw : idx[idx.length - 1]? = some w) (hw' : bwKeys w' = bwKeys w ++ [lk]) :
    allKeys (idx.set (idx.length - 1) w') = allKeys idx ++ [lk] := by
  have hpos : 0 < idx.length := by
    cases idx with
    | nil => simp at hw
    | cons _ _ => simp
  rw [allKeys_set_append hw hw']
  have h1 : idx.length - 1 + 1 = idx.length := by omega
  simp [h1]

/-- Emptying writer `i`. -/
theorem allKeys_set_nil {idx : List BW} {i : Nat} {w' : BW} (hw' : bwKeys w' = []) :
    (allKeys (idx.set i w')).Sublist (allKeys idx) := by
  induction idx generalizing i with
  | nil => simp
  | cons c t ih =>
    cases i with
    | zero => simp [hw']
    | succ i =>
      simp only [List.set_cons_succ, allKeys_cons]
      exact List.Sublist.append_left ih _

namespace W

/-- Specification of the level loop of `Writer::insert`.
    Precondition: every index writer is reachable; the writers at list index `≥ 2` other than `i`
    are empty or below the block size; writer `i` (which may just have received an entry) was so
    before its last entry.  Then the loop re-establishes "empty or below the block size" on every
    index `≥ 2`, every block it emits satisfies `EmOK` and has at least `B` bytes, the pending keys
    afterwards are a sublist of the pending keys before; and its only possible trap is `keyOrder`,
    which requires the pending keys not to be ascending. -/
theorem cutLevels_spec (cd : Codec) (iv B n : Nat) :
    ∀ (i : Nat) (idx : List BW) (out : Bytes) (log : List Emitted),
      idx.length = n → i < n → (∀ w ∈ idx, Reach iv w) →
      (∀ j w, idx[j]? = some w → 2 ≤ j → j ≠ i → Pend B w) →
      (∀ w, idx[i]? = some w → 2 ≤ i → PendG iv B w) →
      (∀ idx' out' log', cutLevels cd B i idx out log = .ok (idx', out', log') →
        idx'.length = n ∧ (∀ w ∈ idx', Reach iv w) ∧
        (∀ j w, idx'[j]? = some w → 2 ≤ j → Pend B w) ∧
        (∃ tl, log' = log ++ tl ∧ ∀ e ∈ tl, EmOK iv B n e ∧ B ≤ e.raw.length ∧ 1 ≤ e.level) ∧
        (allKeys idx').Sublist (allKeys idx)) ∧
      (∀ t, cutLevels cd B i idx out log = .error t → t = .keyOrder ∧ ¬ Asc (allKeys idx)) := by
  intro i
  induction i with
  | zero =>
    intro idx out log hlen _ hR hP _
    simp only [cutLevels]
    refine ⟨?_, fun t h => by cases h⟩
    intro idx' out' log' h
    injection h with h
    injection h with h1 h
    injection h with h2 h3
    subst h1 h2 h3
    exact ⟨hlen, hR, fun j w hj h2 => hP j w hj h2 (by omega), ⟨[], by simp, by simp⟩,
      List.Sublist.refl _⟩
  | succ i ih =>
    intro idx out log hlen hin hR hP hG
    have stop : ∀ idx' out' log', (Except.ok (idx, out, log) : Except Trap _) = .ok (idx', out', log') →
        i + 1 < 2 →
        idx'.length = n ∧ (∀ w ∈ idx', Reach iv w) ∧
        (∀ j w, idx'[j]? = some w → 2 ≤ j → Pend B w) ∧
        (∃ tl, log' = log ++ tl ∧ ∀ e ∈ tl, EmOK iv B n e ∧ B ≤ e.raw.length ∧ 1 ≤ e.level) ∧
        (allKeys idx').Sublist (allKeys idx) := by
      intro idx' out' log' h hlt
      injection h with h
      injection h with h1 h
      injection h with h2 h3
      subst h1 h2 h3
      exact ⟨hlen, hR, fun j w hj h2 => hP j w hj h2 (by omega), ⟨[], by simp, by simp⟩,
        List.Sublist.refl _⟩
    rw [cutLevels]
    by_cases hlt : i + 1 < 2
    · simp only [hlt, if_true]
      exact ⟨fun a b c h => stop a b c h hlt, fun t h => by cases h⟩
    simp only [hlt, if_false]
    have hi1 : i + 1 < idx.length := by omega
    have hi0 : i < idx.length := by omega
    have ec : idx[i+1]? = some idx[i+1] := List.getElem?_eq_getElem hi1
    have ep : idx[i]? = some idx[i] := List.getElem?_eq_getElem hi0
    generalize idx[i+1] = cur at ec
    generalize idx[i] = parent at ep
    rw [ec, ep]
    simp only
    have hcurR : Reach iv cur := hR cur (List.mem_of_getElem? ec)
    have hparR : Reach iv parent := hR parent (List.mem_of_getElem? ep)
    -- the recursive call on the unchanged list
    have same : Pend B cur →
        (∀ idx' out' log', cutLevels cd B i idx out log = .ok (idx', out', log') →
          idx'.length = n ∧ (∀ w ∈ idx', Reach iv w) ∧
          (∀ j w, idx'[j]? = some w → 2 ≤ j → Pend B w) ∧
          (∃ tl, log' = log ++ tl ∧ ∀ e ∈ tl, EmOK iv B n e ∧ B ≤ e.raw.length ∧ 1 ≤ e.level) ∧
          (allKeys idx').Sublist (allKeys idx)) ∧
        (∀ t, cutLevels cd B i idx out log = .error t → t = .keyOrder ∧ ¬ Asc (allKeys idx)) := by
      intro hcP
      refine ih idx out log hlen (by omega) hR ?_ ?_
      · intro j w hj h2 hne
        by_cases hji : j = i + 1
        · subst hji; rw [ec] at hj; injection hj with hj; subst hj; exact hcP
        · exact hP j w hj h2 hji
      · intro w hw h2
        exact Pend.toPendG (hR w (List.mem_of_getElem? hw)) (hP i w hw h2 (by omega))
    by_cases hge : cur.sizeEstimate ≥ B
    · simp only [hge, if_true]
      cases hlk : cur.lastKey with
      | none =>
        simp only
        exact same (.inl (hcurR.items_nil_of_lastKey_none hlk))
      | some lk =>
        simp only
        have hlen8 : (be64 out.length).length ≤ u32Max := by rw [be64_length]; decide
        have hlkl := hcurR.lastKey_len hlk
        obtain ⟨ini, x, hitems⟩ := hcurR.lastKey_mem hlk
        have hlkmem : lk ∈ bwKeys cur := by simp [bwKeys, hitems]
        cases hins : parent.insert lk (be64 out.length) with
        | error t =>
          simp only
          refine ⟨fun _ _ _ h => (by cases h), ?_⟩
          intro t' ht'
          injection ht' with ht'
          subst ht'
          rcases insert_error hins with ⟨_, h'⟩ | ⟨_, h'⟩ | ⟨ht, _, _, plk, hplk, hnlt⟩
          · omega
          · omega
          · refine ⟨ht, fun hasc => hnlt ?_⟩
            obtain ⟨pini, px, hpitems⟩ := hparR.lastKey_mem hplk
            exact allKeys_adjacent ep ec hasc plk (by simp [bwKeys, hpitems]) lk hlkmem
        | ok parent' =>
          simp only
          have hpar'R : Reach iv parent' := Reach.step hparR hins
          have hp'keys : bwKeys parent' = bwKeys parent ++ [lk] := by
            simp [bwKeys, (insert_ok hins).2.2.2.2.2.1]
          have hreset : cur.reset = BW.new iv := hcurR.reset_eq
          have hsub := allKeys_transfer (parent' := parent') (cur' := cur.reset) ep ec hp'keys hlkmem
            (by rw [hreset]; rfl)
          have hrec := ih ((idx.set i parent').set (i+1) cur.reset) (out ++ blockBytes cd cur.finish)
            (log ++ [{ offset := out.length, level := idx.length - (i+1), raw := cur.finish,
                       items := cur.items }])
            (by simp [hlen]) (by omega)
            (by
              intro w hw
              rcases List.mem_or_eq_of_mem_set hw with hw | hw
              · rcases List.mem_or_eq_of_mem_set hw with hw | hw
                · exact hR w hw
                · rw [hw]; exact hpar'R
              · rw [hw, hreset]; exact Reach.new)
            (by
              intro j w hj h2 hne
              by_cases hji : j = i + 1
              · subst hji
                rw [List.getElem?_set_self (by simp; omega)] at hj
                injection hj with hj
                subst hj
                exact .inl (by rw [hreset]; rfl)
              · rw [List.getElem?_set_ne (by omega), List.getElem?_set_ne (by omega)] at hj
                exact hP j w hj h2 hji)
            (by
              intro w hw h2
              rw [List.getElem?_set_ne (by omega), List.getElem?_set_self (by omega)] at hw
              injection hw with hw
              subst hw
              exact .inr ⟨parent, lk, _, hparR, hins, hP i parent ep h2 (by omega)⟩)
          refine ⟨?_, ?_⟩
          · intro idx' out' log' h
            obtain ⟨h1, h2, h3, ⟨tl, htl, htlok⟩, h5⟩ := hrec.1 idx' out' log' h
            refine ⟨h1, h2, h3, ⟨[_] ++ tl, htl.trans (List.append_assoc _ _ _), ?_⟩, h5.trans hsub⟩
            intro e he
            rcases List.mem_append.mp he with he | he
            · simp only [List.mem_singleton] at he
              subst he
              refine ⟨⟨cur, hcurR, rfl, rfl, ?_⟩, ?_, ?_⟩
              · intro _
                exact PendG.good (hG cur ec (by omega)) (hcurR.items_ne_nil_of_lastKey hlk)
              · rw [finish_length]; exact hge
              · show 1 ≤ idx.length - (i+1); omega
            · exact htlok e he
          · intro t ht
            obtain ⟨h1, h2⟩ := hrec.2 t ht
            exact ⟨h1, fun hasc => h2 (hasc.sublist hsub)⟩
    · simp only [hge, if_false]
      exact same (.inr (by omega))

end W
end Grenad
