/-
  Grenad.Proofs.IterLists — list and byte-string lemmas used by the iterator proofs (C04, C05):
  * `advanceKey` (C05: `advanceKey_spec`, `advanceKey_none`, `isPrefixOf_iff_le_of_all255`);
  * filter of an "interval" predicate over a sorted list = `takeWhile` of a `dropWhile`;
  * `lowerBound` / `upperBound` index facts.
-/
import Grenad.Model.Abstract

namespace Grenad.IterP

/-! ### bytes -/

theorem u8_lt_succ_iff {x y : UInt8} (hx : x ≠ 255) : y < x + 1 ↔ y < x ∨ y = x := by
  have hx' : x.toNat ≠ 255 := fun h => hx (UInt8.toNat_inj.mp (by simpa using h))
  have := x.toNat_lt
  rw [UInt8.lt_iff_toNat_lt, UInt8.lt_iff_toNat_lt, ← UInt8.toNat_inj, UInt8.toNat_add]
  simp only [UInt8.toNat_one]
  omega

theorem u8_not_255_lt (y : UInt8) : ¬ (255 : UInt8) < y := by
  have := y.toNat_lt
  rw [UInt8.lt_iff_toNat_lt]
  simp only [UInt8.toNat_ofNat]
  omega

theorem u8_lt_asymm {x y : UInt8} : x < y → ¬ y < x := by
  rw [UInt8.lt_iff_toNat_lt, UInt8.lt_iff_toNat_lt]; omega

theorem u8_lt_ne {x y : UInt8} : x < y → x ≠ y := by
  intro h e; subst e; exact u8_lt_asymm h h

theorem bytes_cons_le_cons {a b : UInt8} {l m : Bytes} :
    (a :: l) ≤ (b :: m) ↔ a < b ∨ a = b ∧ l ≤ m := List.cons_le_cons_iff

theorem bytes_cons_lt_cons {a b : UInt8} {l m : Bytes} :
    (a :: l) < (b :: m) ↔ a < b ∨ a = b ∧ l < m := List.cons_lt_cons_iff

theorem bytes_not_cons_le_nil {a : UInt8} {l : Bytes} : ¬ (a :: l) ≤ [] := by
  rw [List.not_le]; exact List.Lex.nil

theorem bytes_not_lt_nil {l : Bytes} : ¬ l < [] := by
  intro h; cases h

theorem bytes_nil_le {l : Bytes} : ([] : Bytes) ≤ l := by
  rw [← List.not_lt]; exact bytes_not_lt_nil

theorem bytes_lt_of_le_of_lt {a b c : Bytes} (h1 : a ≤ b) (h2 : b < c) : a < c :=
  List.lt_of_le_of_lt h1 h2

theorem bytes_lt_of_lt_of_le {a b c : Bytes} (h1 : a < b) (h2 : b ≤ c) : a < c := by
  rcases Classical.em (a < c) with h | h
  · exact h
  · exact absurd (List.lt_of_le_of_lt (List.not_lt.mp h) h1) (fun h' => h2 h')

theorem bytes_le_of_lt {a b : Bytes} (h : a < b) : a ≤ b := List.le_of_lt h

theorem bytes_le_trans {a b c : Bytes} (h1 : a ≤ b) (h2 : b ≤ c) : a ≤ c := List.le_trans h1 h2

theorem bytes_lt_trans {a b c : Bytes} (h1 : a < b) (h2 : b < c) : a < c := List.lt_trans h1 h2

theorem bytes_lt_irrefl (a : Bytes) : ¬ a < a := List.lt_irrefl a

theorem bytes_le_refl (a : Bytes) : a ≤ a := List.le_refl a

end Grenad.IterP

namespace Grenad
open IterP

/-! ### `advanceKey` (public names, in `Grenad`) -/

theorem advanceRev_append_singleton (l : Bytes) (x : UInt8) :
    advanceRev (l ++ [x]) =
      match advanceRev l with
      | some r => some (r ++ [x])
      | none => if x = 255 then none else some [x + 1] := by
  induction l with
  | nil => simp [advanceRev]
  | cons y l ih =>
    simp only [List.cons_append, advanceRev]
    by_cases hy : y = 255
    · simp only [hy, if_true]; exact ih
    · simp [hy]

/-- Head-recursive characterisation of `advanceKey`. -/
theorem advanceKey_cons (x : UInt8) (p : Bytes) :
    advanceKey (x :: p) =
      match advanceKey p with
      | some s => some (x :: s)
      | none => if x = 255 then none else some [x + 1] := by
  unfold advanceKey
  rw [List.reverse_cons, advanceRev_append_singleton]
  cases advanceRev p.reverse with
  | none => by_cases hx : x = 255 <;> simp [hx]
  | some r => simp

theorem advanceKey_nil : advanceKey [] = none := rfl

/-- C05 (`advance_key` returns `None` exactly on prefixes made of 0xFF only, the empty one included). -/
theorem advanceKey_none (p : Bytes) : advanceKey p = none ↔ ∀ b ∈ p, b = 255 := by
  induction p with
  | nil => simp [advanceKey_nil]
  | cons x p ih =>
    rw [advanceKey_cons]
    cases h : advanceKey p with
    | some s =>
      have : ¬ ∀ b ∈ p, b = 255 := fun h' => by rw [ih.mpr h'] at h; cases h
      simp only [List.mem_cons, forall_eq_or_imp]
      constructor
      · intro h'; cases h'
      · intro h'; exact absurd h'.2 this
    | none =>
      have h255 := ih.mp h
      by_cases hx : x = 255
      · simpa [hx] using h255
      · simp [hx]

/-- C05: for a prefix made of 0xFF only (or empty), "starts with `p`" is "`≥ p`". -/
theorem isPrefixOf_iff_le_of_all255 (p : Bytes) (h : ∀ b ∈ p, b = 255) (k : Bytes) :
    p.isPrefixOf k = true ↔ p ≤ k := by
  induction p generalizing k with
  | nil => simp
  | cons x p ih =>
    have hx : x = 255 := h x (List.mem_cons_self)
    have hp : ∀ b ∈ p, b = 255 := fun b hb => h b (List.mem_cons_of_mem _ hb)
    subst hx
    cases k with
    | nil => simp
    | cons y k =>
      rw [List.isPrefixOf_cons_cons, bytes_cons_le_cons, Bool.and_eq_true, ih hp k]
      simp [u8_not_255_lt]

/-- C05: `advance_key(p) = Some(s)` is the exclusive upper bound of the keys that start with `p`. -/
theorem advanceKey_spec (p s : Bytes) (h : advanceKey p = some s) (k : Bytes) :
    p.isPrefixOf k = true ↔ (p ≤ k ∧ k < s) := by
  induction p generalizing s k with
  | nil => simp [advanceKey_nil] at h
  | cons x p ih =>
    rw [advanceKey_cons] at h
    cases hp : advanceKey p with
    | some s' =>
      rw [hp] at h
      simp only [Option.some.injEq] at h
      subst h
      cases k with
      | nil => simp
      | cons y k =>
        rw [List.isPrefixOf_cons_cons, bytes_cons_le_cons, bytes_cons_lt_cons, Bool.and_eq_true,
          ih s' hp k]
        simp only [beq_iff_eq]
        constructor
        · rintro ⟨rfl, h1, h2⟩; exact ⟨.inr ⟨rfl, h1⟩, .inr ⟨rfl, h2⟩⟩
        · rintro ⟨h1 | ⟨rfl, h1⟩, h2 | ⟨h3, h2⟩⟩
          · exact absurd h2 (u8_lt_asymm h1)
          · exact absurd h3.symm (u8_lt_ne h1)
          · exact absurd h2 (u8_lt_asymm h2)
          · exact ⟨rfl, h1, h2⟩
    | none =>
      rw [hp] at h
      have h255 := (advanceKey_none p).mp hp
      by_cases hx : x = 255
      · simp [hx] at h
      · simp only [hx, if_false, Option.some.injEq] at h
        subst h
        cases k with
        | nil => simp
        | cons y k =>
          rw [List.isPrefixOf_cons_cons, bytes_cons_le_cons, bytes_cons_lt_cons, Bool.and_eq_true,
            isPrefixOf_iff_le_of_all255 p h255 k, u8_lt_succ_iff hx]
          simp only [beq_iff_eq]
          constructor
          · rintro ⟨rfl, h1⟩; exact ⟨.inr ⟨rfl, h1⟩, .inl (.inr rfl)⟩
          · rintro ⟨h1 | ⟨rfl, h1⟩, (h2 | h2) | ⟨_, h2⟩⟩
            · exact absurd h2 (u8_lt_asymm h1)
            · exact absurd h2.symm (u8_lt_ne h1)
            · exact absurd h2 bytes_not_lt_nil
            · exact absurd h2 (u8_lt_asymm h2)
            · exact ⟨rfl, h1⟩
            · exact absurd h2 bytes_not_lt_nil

/-- A key `≥ advance_key(p)` does not start with `p`. -/
theorem not_isPrefixOf_of_advanceKey_le {p s k : Bytes} (h : advanceKey p = some s) (hk : s ≤ k) :
    p.isPrefixOf k = false := by
  cases hpk : p.isPrefixOf k with
  | false => rfl
  | true => exact absurd ((advanceKey_spec p s h k).mp hpk).2 (fun h' => hk h')

theorem le_of_isPrefixOf {p k : Bytes} (h : p.isPrefixOf k = true) : p ≤ k := by
  cases hp : advanceKey p with
  | some s => exact ((advanceKey_spec p s hp k).mp h).1
  | none => exact (isPrefixOf_iff_le_of_all255 p ((advanceKey_none p).mp hp) k).mp h

end Grenad

namespace Grenad.IterP

/-! ### generic list lemmas -/

theorem filter_eq_takeWhile_of_all {α} (Q P : α → Bool) (l : List α)
    (hQ : ∀ x ∈ l, Q x = true) (hP : l.Pairwise (fun a b => P b = true → P a = true)) :
    l.filter (fun x => Q x && P x) = l.takeWhile P := by
  induction l with
  | nil => rfl
  | cons a t ih =>
    have hQa := hQ a List.mem_cons_self
    have hQt : ∀ x ∈ t, Q x = true := fun x hx => hQ x (List.mem_cons_of_mem _ hx)
    rw [List.pairwise_cons] at hP
    by_cases hPa : P a = true
    · rw [List.filter_cons_of_pos (by simp [hQa, hPa]), List.takeWhile_cons_of_pos hPa,
        ih hQt hP.2]
    · rw [List.takeWhile_cons_of_neg hPa, List.filter_eq_nil_iff]
      intro b hb
      rcases List.mem_cons.mp hb with rfl | hb
      · simp [hPa]
      · have : ¬ P b = true := fun h => hPa (hP.1 b hb h)
        simp [this]

/-- Over a list along which `Q` is upward closed and `P` is downward closed (where `Q` holds),
    filtering by `Q ∧ P` is: skip while `¬Q`, then take while `P`. -/
theorem filter_eq_takeWhile_dropWhile {α} (Q P : α → Bool) (l : List α)
    (hQ : l.Pairwise (fun a b => Q a = true → Q b = true))
    (hP : l.Pairwise (fun a b => Q a = true → P b = true → P a = true)) :
    l.filter (fun x => Q x && P x) = (l.dropWhile (fun x => !Q x)).takeWhile P := by
  induction l with
  | nil => rfl
  | cons a t ih =>
    rw [List.pairwise_cons] at hQ hP
    by_cases hQa : Q a = true
    · rw [List.dropWhile_cons_of_neg (by simp [hQa])]
      have hall : ∀ x ∈ a :: t, Q x = true := by
        intro x hx
        rcases List.mem_cons.mp hx with rfl | hx
        · exact hQa
        · exact hQ.1 x hx hQa
      apply filter_eq_takeWhile_of_all Q P (a :: t) hall
      rw [List.pairwise_cons]
      refine ⟨fun b hb => hP.1 b hb hQa, ?_⟩
      exact hP.2.imp_of_mem (fun {x y} hx _ h => h (hall x (List.mem_cons_of_mem _ hx)))
    · rw [List.dropWhile_cons_of_pos (by simp [hQa]), List.filter_cons_of_neg (by simp [hQa])]
      exact ih hQ.2 hP.2

theorem dropWhile_eq_drop_length_takeWhile {α} (f : α → Bool) (l : List α) :
    l.dropWhile f = l.drop (l.takeWhile f).length := by
  induction l with
  | nil => rfl
  | cons a t ih =>
    by_cases h : f a = true
    · rw [List.dropWhile_cons_of_pos h, List.takeWhile_cons_of_pos h]; simpa using ih
    · rw [List.dropWhile_cons_of_neg h, List.takeWhile_cons_of_neg h]; rfl

theorem take_length_takeWhile {α} (f : α → Bool) (l : List α) :
    l.take (l.takeWhile f).length = l.takeWhile f := by
  induction l with
  | nil => rfl
  | cons a t ih =>
    by_cases h : f a = true
    · rw [List.takeWhile_cons_of_pos h]; simpa using ih
    · rw [List.takeWhile_cons_of_neg h]; rfl

theorem mem_takeWhile_imp {α} {f : α → Bool} {l : List α} {x : α} (h : x ∈ l.takeWhile f) :
    f x = true := by
  have := List.all_takeWhile (l := l) (p := f)
  rw [List.all_eq_true] at this
  exact this x h

theorem all_false_dropWhile_of_closed {α} (Q : α → Bool) (l : List α)
    (hQ : l.Pairwise (fun a b => Q b = true → Q a = true)) :
    ∀ x ∈ l.dropWhile Q, Q x = false := by
  induction l with
  | nil => intro x hx; cases hx
  | cons a t ih =>
    rw [List.pairwise_cons] at hQ
    by_cases h : Q a = true
    · rw [List.dropWhile_cons_of_pos h]; exact ih hQ.2
    · rw [List.dropWhile_cons_of_neg h]
      intro x hx
      rcases List.mem_cons.mp hx with rfl | hx
      · simpa using h
      · cases hq : Q x with
        | false => rfl
        | true => exact absurd (hQ.1 x hx hq) h

theorem dropWhile_eq_self_of_head {α} (f : α → Bool) (l : List α) (h : ∀ x ∈ l, f x = false) :
    l.dropWhile f = l := by
  cases l with
  | nil => rfl
  | cons a t => rw [List.dropWhile_cons_of_neg (by simp [h a List.mem_cons_self])]

/-- Along a list where `Q` is downward closed, skipping the non-`Q` elements of the reversed list
    leaves the reversed `Q`-prefix. -/
theorem reverse_dropWhile_not_of_closed {α} (Q : α → Bool) (l : List α)
    (hQ : l.Pairwise (fun a b => Q b = true → Q a = true)) :
    l.reverse.dropWhile (fun x => !Q x) = (l.take (l.takeWhile Q).length).reverse := by
  rw [take_length_takeWhile]
  conv => lhs; rw [← List.takeWhile_append_dropWhile (p := Q) (l := l)]
  rw [List.reverse_append, List.dropWhile_append_of_pos]
  · apply dropWhile_eq_self_of_head
    intro x hx
    have := mem_takeWhile_imp (List.mem_reverse.mp hx)
    simp [this]
  · intro x hx
    have := all_false_dropWhile_of_closed Q l hQ x (List.mem_reverse.mp hx)
    simp [this]

theorem getElem_takeWhile_length_lt {α} (f : α → Bool) (l : List α) (i : Nat)
    (hi : i < (l.takeWhile f).length) :
    ∃ h : i < l.length, f l[i] = true := by
  induction l generalizing i with
  | nil => simp at hi
  | cons a t ih =>
    by_cases h : f a = true
    · rw [List.takeWhile_cons_of_pos h] at hi
      cases i with
      | zero => exact ⟨by simp, by simpa using h⟩
      | succ i =>
        obtain ⟨h1, h2⟩ := ih i (by simpa using hi)
        exact ⟨by simpa using h1, by simpa using h2⟩
    · rw [List.takeWhile_cons_of_neg h] at hi; simp at hi

theorem getElem_length_takeWhile {α} (f : α → Bool) (l : List α)
    (h : (l.takeWhile f).length < l.length) : f l[(l.takeWhile f).length] = false := by
  induction l with
  | nil => simp at h
  | cons a t ih =>
    by_cases hf : f a = true
    · simp only [List.takeWhile_cons_of_pos hf, List.length_cons, List.getElem_cons_succ]
      exact ih (by simpa [List.takeWhile_cons_of_pos hf] using h)
    · simp only [List.takeWhile_cons_of_neg hf, List.length_nil, List.getElem_cons_zero]
      simpa using hf

theorem length_takeWhile_le {α} (f : α → Bool) (l : List α) : (l.takeWhile f).length ≤ l.length :=
  (List.takeWhile_sublist f).length_le

end Grenad.IterP
