/-
  Grenad.Proofs.SorterArith — the arithmetic half of the sorter proofs (C08, C17), part 1:
  the buffer bookkeeping of `Entries` (guarded primitives never trap under the invariant `Inv`,
  exact description of the doubling loop) and the two event automata used to state the
  allocation pairing and the bound on live chunk handles.
-/
import Grenad.Model.Sorter

namespace Grenad

/-! ### Sizes -/

/-- Total number of key and value bytes of a list of entries. -/
def itemsSize : List Entry → Nat
  | [] => 0
  | e :: r => e.1.length + e.2.length + itemsSize r

theorem itemsSize_append (a b : List Entry) : itemsSize (a ++ b) = itemsSize a + itemsSize b := by
  induction a with
  | nil => simp [itemsSize]
  | cons x r ih => simp [itemsSize, ih]; omega

theorem itemsSize_eq_sum (l : List Entry) :
    itemsSize l = (l.map (fun e => e.1.length + e.2.length)).sum := by
  induction l with
  | nil => rfl
  | cons x r ih => simp [itemsSize, ih]

namespace Entries

theorem roundUp_mod (n : Nat) : roundUp n % 16 = 0 := by unfold roundUp boundSize; omega
theorem le_roundUp (n : Nat) : n ≤ roundUp n := by unfold roundUp boundSize; omega
theorem roundUp_lt (n : Nat) : roundUp n < n + 16 := by unfold roundUp boundSize; omega
theorem roundUp_of_mod {n : Nat} (h : n % 16 = 0) : roundUp n = n := by
  unfold roundUp boundSize; omega
theorem roundUp_pos {n : Nat} (h : 0 < n) : 16 ≤ roundUp n := by unfold roundUp boundSize; omega
theorem roundUp_mono {a b : Nat} (h : a ≤ b) : roundUp a ≤ roundUp b := by
  unfold roundUp boundSize
  have : (a + 16 - 1) / 16 ≤ (b + 16 - 1) / 16 := Nat.div_le_div_right (by omega)
  omega

/-- Bytes of the buffer in use: entry bytes at the back plus the bound records at the front. -/
def used (e : Entries) : Nat := e.entriesLen + 16 * e.boundsCount

/-- The bookkeeping invariant of the two-ended buffer (C17). -/
structure Inv (e : Entries) : Prop where
  align : e.bufLen % 16 = 0
  pos   : 16 ≤ e.bufLen
  room  : e.entriesLen + 16 * e.boundsCount ≤ e.bufLen
  cnt   : e.boundsCount = e.items.length
  sum   : e.entriesLen = itemsSize e.items
  live  : e.live = true

/-- The buffer after `j` doublings. -/
def scale (e : Entries) (j : Nat) : Entries := { e with bufLen := e.bufLen * 2 ^ j }

/-- The buffer after one entry has been stored. -/
def push (e : Entries) (k v : Bytes) : Entries :=
  { e with entriesLen := e.entriesLen + k.length + v.length, boundsCount := e.boundsCount + 1,
           items := e.items ++ [(k, v)] }

/-- The events of `j` successive doublings starting from an allocation of `b` bytes. -/
def reallocEvents : Nat → Nat → List SEvent
  | _, 0 => []
  | b, j+1 => .alloc (b * 2) :: .dealloc b :: reallocEvents (b * 2) j

@[simp] theorem scale_zero (e : Entries) : scale e 0 = e := by simp [scale]

theorem scale_succ (e : Entries) (j : Nat) : scale (scale e 1) j = scale e (j + 1) := by
  simp [scale, Nat.pow_succ, Nat.mul_assoc, Nat.mul_comm]

theorem Inv.scale {e : Entries} (h : Inv e) (j : Nat) : Inv (scale e j) := by
  have hp : 0 < 2 ^ j := Nat.two_pow_pos j
  have hle : e.bufLen ≤ e.bufLen * 2 ^ j := Nat.le_mul_of_pos_right _ hp
  refine ⟨?_, ?_, ?_, h.cnt, h.sum, h.live⟩
  · show (e.bufLen * 2 ^ j) % 16 = 0
    rw [Nat.mul_mod, h.align]; simp
  · show 16 ≤ e.bufLen * 2 ^ j
    have := h.pos; omega
  · show e.entriesLen + 16 * e.boundsCount ≤ e.bufLen * 2 ^ j
    have := h.room; omega

theorem Inv.push {e : Entries} (h : Inv e) (k v : Bytes)
    (hfit : e.used + entrySize k v ≤ e.bufLen) : Inv (push e k v) := by
  unfold used entrySize boundSize at hfit
  refine ⟨h.align, h.pos, ?_, ?_, ?_, h.live⟩
  · show e.entriesLen + k.length + v.length + 16 * (e.boundsCount + 1) ≤ e.bufLen
    omega
  · show e.boundsCount + 1 = (e.items ++ [(k, v)]).length
    simp [h.cnt]
  · show e.entriesLen + k.length + v.length = itemsSize (e.items ++ [(k, v)])
    simp [itemsSize_append, itemsSize, h.sum]; omega

theorem Inv.clear {e : Entries} (h : Inv e) : Inv e.clear := by
  refine ⟨h.align, h.pos, ?_, ?_, ?_, h.live⟩
  · show 0 + 16 * 0 ≤ e.bufLen
    omega
  · rfl
  · rfl

/-! ### The guarded primitives under the invariant -/

theorem fits_eq {e : Entries} (h : Inv e) (k v : Bytes) :
    fits e k v = .ok (decide (e.used + entrySize k v ≤ e.bufLen)) := by
  have h1 := h.room
  have h2 := h.align
  unfold fits remaining sub used
  simp only [h.live, boundSize]
  have c1 : e.boundsCount ≤ e.bufLen / 16 := by omega
  have c2 : e.entriesLen ≤ e.bufLen := by omega
  have c3 : e.boundsCount * 16 ≤ e.bufLen - e.entriesLen := by omega
  simp only [c1, c2, c3, if_true, Bool.not_true, Bool.false_eq_true, if_false]
  congr 1
  rw [Bool.eq_iff_iff]
  simp only [Bool.and_eq_true, decide_eq_true_eq, entrySize, boundSize, ge_iff_le]
  constructor
  · intro ⟨a, b⟩; exact decide_eq_true (by omega)
  · intro a; have := of_decide_eq_true a; constructor <;> omega

theorem store_eq {e : Entries} (k v : Bytes) (hfit : e.used + entrySize k v ≤ e.bufLen) :
    store e k v = .ok (push e k v) := by
  unfold used entrySize boundSize at hfit
  unfold store push
  simp only [boundSize]
  have c1 : ¬ (e.entriesLen + k.length + v.length > e.bufLen) := by omega
  have c2 : ¬ ((e.boundsCount + 1) * 16 > e.bufLen) := by omega
  have c3 : ¬ ((e.boundsCount + 1) * 16 > e.bufLen - (e.entriesLen + k.length + v.length)) := by
    omega
  simp only [c1, c2, c3, if_false]

theorem reallocate_eq {e : Entries} (h : Inv e) (hb : e.bufLen < 2 ^ 62) :
    reallocate e = .ok (scale e 1, [.alloc (e.bufLen * 2), .dealloc e.bufLen]) := by
  have h1 := h.room
  have h2 := h.align
  have h3 := h.pos
  have hr : roundUp (e.bufLen * 2) = e.bufLen * 2 := roundUp_of_mod (by omega)
  unfold reallocate alloc
  simp only [h.live, hr, usizeLimit]
  have c1 : ¬ (e.bufLen * 2 ≥ 2 ^ 64) := by omega
  have c2 : ¬ (e.bufLen * 2 = 0) := by omega
  have c3 : ¬ (e.bufLen * 2 ≥ 2 ^ 63) := by omega
  have c4 : e.boundsCount * boundSize ≤ e.bufLen * 2 ∧ e.entriesLen ≤ e.bufLen * 2 := by
    simp only [boundSize]; omega
  simp [c1, c2, c3, c4, scale, h.live]

theorem reallocate_err {e : Entries} (h : Inv e) (hb : 2 ^ 62 ≤ e.bufLen) :
    reallocate e = .error .arith := by
  have h2 := h.align
  have hr : roundUp (e.bufLen * 2) = e.bufLen * 2 := roundUp_of_mod (by omega)
  unfold reallocate alloc
  simp only [h.live, hr, usizeLimit]
  by_cases c1 : e.bufLen * 2 ≥ 2 ^ 64
  · simp [c1]
  · have c2 : ¬ (e.bufLen * 2 = 0) := by omega
    have c3 : e.bufLen * 2 ≥ 2 ^ 63 := by omega
    simp [c1, c2, c3]

/-- One unfolding of the doubling loop, with every guard resolved by the invariant. -/
theorem insert_succ {e : Entries} (h : Inv e) (k v : Bytes) (fuel : Nat) :
    insert e k v (fuel + 1) =
      if k.length > u32Max then .error .keyTooLong else
      if v.length > u32Max then .error .valTooLong else
      if e.used + entrySize k v ≤ e.bufLen then .ok (push e k v, []) else
      if 2 ^ 62 ≤ e.bufLen then .error .arith else
      match insert (scale e 1) k v fuel with
      | .error t => .error t
      | .ok (e'', ev') => .ok (e'', [.alloc (e.bufLen * 2), .dealloc e.bufLen] ++ ev') := by
  rw [insert]
  by_cases hk : k.length > u32Max
  · simp [hk]
  by_cases hv : v.length > u32Max
  · simp [hk, hv]
  simp only [hk, hv, if_false, fits_eq h]
  by_cases hf : e.used + entrySize k v ≤ e.bufLen
  · simp [hf, store_eq k v hf, Except.map]
  · simp only [hf, decide_false, if_false]
    by_cases hb : 2 ^ 62 ≤ e.bufLen
    · simp [hb, reallocate_err h hb]
    · simp only [hb, if_false, reallocate_eq h (by omega)]
      generalize insert (scale e 1) k v fuel = r
      rcases r with t | ⟨e'', ev'⟩ <;> rfl

@[simp] theorem scale_used (e : Entries) (j : Nat) : (scale e j).used = e.used := rfl
@[simp] theorem scale_bufLen (e : Entries) (j : Nat) : (scale e j).bufLen = e.bufLen * 2 ^ j := rfl

/-- The errors `Entries.insert` can return, and when. -/
def InsErr (e : Entries) (k v : Bytes) (fuel : Nat) (t : Trap) : Prop :=
  (t = .keyTooLong ∧ k.length > u32Max) ∨ (t = .valTooLong ∧ v.length > u32Max) ∨
  (t = .arith ∧ (fuel = 0 ∨ (e.bufLen < e.used + entrySize k v ∧
      (e.bufLen * 2 ^ (fuel - 1) < e.used + entrySize k v ∨ 2 ^ 62 < e.used + entrySize k v))))

/-- Complete description of `Entries.insert` under the invariant: either it succeeds after the
    least number `j` of doublings that makes the entry fit, storing exactly that entry and emitting
    exactly `j` alloc/dealloc pairs, or it returns one of the errors of `InsErr`. -/
theorem insert_spec (fuel : Nat) : ∀ (e : Entries), Inv e → ∀ (k v : Bytes),
    (∃ j, j < fuel ∧ k.length ≤ u32Max ∧ v.length ≤ u32Max ∧
       insert e k v fuel = .ok (push (scale e j) k v, reallocEvents e.bufLen j) ∧
       e.used + entrySize k v ≤ e.bufLen * 2 ^ j ∧
       (j = 0 ∨ e.bufLen * 2 ^ j < 2 * (e.used + entrySize k v)))
    ∨ (∃ t, insert e k v fuel = .error t ∧ InsErr e k v fuel t) := by
  induction fuel with
  | zero =>
    intro e _ k v
    exact .inr ⟨.arith, rfl, .inr (.inr ⟨rfl, .inl rfl⟩)⟩
  | succ fuel ih =>
    intro e h k v
    rw [insert_succ h]
    by_cases hk : k.length > u32Max
    · exact .inr ⟨.keyTooLong, by simp [hk], .inl ⟨rfl, hk⟩⟩
    by_cases hv : v.length > u32Max
    · exact .inr ⟨.valTooLong, by simp [hk, hv], .inr (.inl ⟨rfl, hv⟩)⟩
    simp only [hk, hv, if_false]
    by_cases hf : e.used + entrySize k v ≤ e.bufLen
    · refine .inl ⟨0, by omega, by omega, by omega, by simp [hf, reallocEvents], by simpa using hf,
        .inl rfl⟩
    simp only [hf, if_false]
    by_cases hb : 2 ^ 62 ≤ e.bufLen
    · exact .inr ⟨.arith, by simp [hb], .inr (.inr ⟨rfl, .inr ⟨by omega, .inr (by omega)⟩⟩)⟩
    simp only [hb, if_false]
    rcases ih (scale e 1) (h.scale 1) k v with ⟨j, hj, _, _, heq, hfit, hmin⟩ | ⟨t, heq, herr⟩
    · refine .inl ⟨j + 1, by omega, by omega, by omega, ?_, ?_, ?_⟩
      · rw [heq]; simp [scale_succ, reallocEvents]
      · simp only [scale_used, scale_bufLen, Nat.pow_one] at hfit
        rw [Nat.pow_succ]; rw [Nat.mul_assoc, Nat.mul_comm 2] at hfit; exact hfit
      · right
        simp only [scale_used, scale_bufLen, Nat.pow_one] at hmin
        rw [Nat.pow_succ, Nat.mul_comm (2 ^ j), ← Nat.mul_assoc]
        rcases hmin with rfl | hmin
        · simp; omega
        · exact hmin
    · refine .inr ⟨t, by rw [heq], ?_⟩
      rcases herr with ⟨rfl, hk'⟩ | ⟨rfl, hv'⟩ | ⟨rfl, h0⟩
      · exact absurd hk' hk
      · exact absurd hv' hv
      · refine .inr (.inr ⟨rfl, .inr ⟨by omega, ?_⟩⟩)
        simp only [scale_used, scale_bufLen, Nat.pow_one] at h0
        rcases h0 with rfl | ⟨_, h0 | h0⟩
        · left; simp; omega
        · left
          cases fuel with
          | zero => simp at h0 ⊢; omega
          | succ f =>
            simp only [Nat.add_sub_cancel] at h0 ⊢
            rw [Nat.pow_succ, Nat.mul_comm (2 ^ f), ← Nat.mul_assoc]; exact h0
        · right; exact h0

/-- `j` is the number of doublings `Entries.insert` performs: the least one that makes room. -/
structure Grow (e : Entries) (k v : Bytes) (j : Nat) : Prop where
  klen : k.length ≤ u32Max
  vlen : v.length ≤ u32Max
  fit  : e.used + entrySize k v ≤ e.bufLen * 2 ^ j
  least : j = 0 ∨ e.bufLen * 2 ^ j < 2 * (e.used + entrySize k v)

/-- A successful `Entries.insert` is `j` doublings followed by the store. -/
theorem insert_ok {e e' : Entries} {k v : Bytes} {fuel : Nat} {ev : List SEvent} (h : Inv e)
    (hi : insert e k v fuel = .ok (e', ev)) :
    ∃ j, Grow e k v j ∧ e' = push (scale e j) k v ∧ ev = reallocEvents e.bufLen j := by
  rcases insert_spec fuel e h k v with ⟨j, _, hk, hv, heq, hfit, hmin⟩ | ⟨t, heq, _⟩
  · rw [heq] at hi
    simp only [Except.ok.injEq, Prod.mk.injEq] at hi
    exact ⟨j, ⟨hk, hv, hfit, hmin⟩, hi.1.symm, hi.2.symm⟩
  · rw [heq] at hi; cases hi

/-- No trap: with admissible lengths, enough fuel and a final size below `2^62`·2, the insertion
    succeeds. -/
theorem insert_no_trap {e : Entries} (h : Inv e) (k v : Bytes) (fuel : Nat)
    (hk : k.length ≤ u32Max) (hv : v.length ≤ u32Max)
    (hfuel : e.used + entrySize k v ≤ e.bufLen * 2 ^ (fuel - 1)) (h0 : 0 < fuel)
    (hsz : e.used + entrySize k v ≤ e.bufLen ∨ e.used + entrySize k v ≤ 2 ^ 62) :
    ∃ e' ev, insert e k v fuel = .ok (e', ev) := by
  rcases insert_spec fuel e h k v with ⟨j, _, _, _, heq, _, _⟩ | ⟨t, _, herr⟩
  · exact ⟨_, _, heq⟩
  · rcases herr with ⟨_, c⟩ | ⟨_, c⟩ | ⟨_, c | ⟨_, c | c⟩⟩ <;> omega

/-- The fuel `64` of `Sorter.insert` is never exhausted. -/
theorem insert64_no_trap {e : Entries} (h : Inv e) (k v : Bytes)
    (hk : k.length ≤ u32Max) (hv : v.length ≤ u32Max)
    (hsz : e.used + entrySize k v ≤ e.bufLen ∨ e.used + entrySize k v ≤ 2 ^ 62) :
    ∃ e' ev, insert e k v 64 = .ok (e', ev) := by
  refine insert_no_trap h k v 64 hk hv ?_ (by omega) hsz
  have := h.pos
  have h1 : 16 * 2 ^ (64 - 1) ≤ e.bufLen * 2 ^ (64 - 1) := Nat.mul_le_mul_right _ this
  have h2 : e.bufLen ≤ e.bufLen * 2 ^ (64 - 1) := Nat.le_mul_of_pos_right _ (Nat.two_pow_pos _)
  have h3 : (2:Nat) ^ 62 ≤ 16 * 2 ^ (64 - 1) := by decide
  omega

theorem Grow.inv {e : Entries} {k v : Bytes} {j : Nat} (h : Inv e) (g : Grow e k v j) :
    Inv (push (scale e j) k v) := (h.scale j).push k v g.fit

/-- If the entry fits there is no doubling. -/
theorem Grow.eq_zero_of_fit {e : Entries} {k v : Bytes} {j : Nat} (g : Grow e k v j)
    (hf : e.used + entrySize k v ≤ e.bufLen) : j = 0 := by
  rcases g.least with h | h
  · exact h
  · cases j with
    | zero => rfl
    | succ j =>
      exfalso
      have : e.bufLen * 2 ≤ e.bufLen * 2 ^ (j + 1) := by
        rw [Nat.pow_succ, Nat.mul_comm (2 ^ j), ← Nat.mul_assoc]
        exact Nat.le_mul_of_pos_right _ (Nat.two_pow_pos j)
      omega

/-- The size after the doublings: unchanged, doubled once, or below four entry sizes. -/
theorem Grow.bound {e : Entries} {k v : Bytes} {j : Nat} (h : Inv e) (g : Grow e k v j) :
    e.bufLen * 2 ^ j = e.bufLen ∨ e.bufLen * 2 ^ j = e.bufLen * 2 ∨
    e.bufLen * 2 ^ j < 4 * entrySize k v := by
  match j, g with
  | 0, _ => left; simp
  | 1, _ => right; left; simp
  | j + 2, g =>
    right; right
    have hl := g.least
    have hr : e.used ≤ e.bufLen := h.room
    have : e.bufLen * 4 ≤ e.bufLen * 2 ^ (j + 2) := by
      rw [Nat.pow_add, Nat.mul_comm (2 ^ j), ← Nat.mul_assoc]
      exact Nat.le_mul_of_pos_right _ (Nat.two_pow_pos j)
    omega

/-- Coarser: unchanged, or below twice what is needed. -/
theorem Grow.bound' {e : Entries} {k v : Bytes} {j : Nat} (g : Grow e k v j) :
    e.bufLen * 2 ^ j = e.bufLen ∨ e.bufLen * 2 ^ j < 2 * (e.used + entrySize k v) := by
  rcases g.least with rfl | h
  · left; simp
  · right; exact h

end Entries
end Grenad
