/-
  T-writer, part 3: the loops of the writer as sequences of elementary steps, generically in the
  invariant (`cutLevels_steps`, `flushLevels_steps`).
-/
import Grenad.Proofs.WriterTreeSub

namespace Grenad

open WT

/-- The part of the writer state the level loops work on: index writers, output, log. -/
abbrev WSt := List BW × Bytes × List Emitted

/-- Emit the block of the index writer `cur` (list index `i+1`), whose parent (list index `i`)
    has become `parent'`. -/
def cutAt (cd : Codec) (i : Nat) (cur parent' : BW) (s : WSt) : WSt :=
  ((s.1.set i parent').set (i + 1) cur.reset, s.2.1 ++ W.blockBytes cd cur.finish,
   s.2.2 ++ [{ offset := s.2.1.length, level := s.1.length - (i + 1), raw := cur.finish,
               items := cur.items }])

/-- Emit the root block (list index 0). -/
def rootAt (cd : Codec) (cur : BW) (s : WSt) : WSt :=
  (s.1.set 0 cur.reset, s.2.1 ++ W.blockBytes cd cur.finish,
   s.2.2 ++ [{ offset := s.2.1.length, level := s.1.length, raw := cur.finish,
               items := cur.items }])

/-- Emit a data block; the last index writer (list index `i`) has become `parent'`. -/
def dataAt (cd : Codec) (i : Nat) (bw parent' : BW) (s : WSt) : WSt :=
  (s.1.set i parent', s.2.1 ++ W.blockBytes cd bw.finish,
   s.2.2 ++ [{ offset := s.2.1.length, level := 0, raw := bw.finish, items := bw.items }])

theorem cutLevels_steps (cd : Codec) (bs : Nat) (P : WSt → Prop)
    (H : ∀ i idx out log cur parent lk, P (idx, out, log) → idx[i + 1]? = some cur →
      idx[i]? = some parent → cur.lastKey = some lk →
      ∃ p', parent.insert lk (be64 out.length) = .ok p' ∧ P (cutAt cd i cur p' (idx, out, log))) :
    ∀ i idx out log, P (idx, out, log) →
      ∃ r, W.cutLevels cd bs i idx out log = .ok r ∧ P r := by
  intro i
  induction i with
  | zero => intro idx out log h; exact ⟨_, by unfold W.cutLevels; rfl, h⟩
  | succ i ih =>
    intro idx out log h
    unfold W.cutLevels
    split
    · exact ⟨_, rfl, h⟩
    · split
      · rename_i cur parent hc hp
        split
        · split
          · rename_i lk hlk
            obtain ⟨p', hp', hP⟩ := H i idx out log cur parent lk h hc hp hlk
            rw [hp']
            exact ih _ _ _ hP
          · exact ih _ _ _ h
        · exact ih _ _ _ h
      · exact ⟨_, rfl, h⟩

theorem flushLevels_steps (cd : Codec) (P : Nat → WSt → Prop) (Q : WSt → Nat → Prop)
    (Hlen : ∀ i s, P (i + 1) s → i < s.1.length)
    (Hcut : ∀ i idx out log cur parent lk, P (i + 2) (idx, out, log) → idx[i + 1]? = some cur →
      idx[i]? = some parent → cur.lastKey = some lk →
      ∃ p', parent.insert lk (be64 out.length) = .ok p' ∧
        P (i + 1) (cutAt cd i cur p' (idx, out, log)))
    (Hskip : ∀ i idx out log cur, P (i + 2) (idx, out, log) → idx[i + 1]? = some cur →
      cur.lastKey = none → P (i + 1) (idx, out, log))
    (Hroot : ∀ idx out log cur, P 1 (idx, out, log) → idx[0]? = some cur →
      Q (rootAt cd cur (idx, out, log)) out.length) :
    ∀ i idx out log r0, P (i + 1) (idx, out, log) →
      ∃ r, W.flushLevels cd (i + 1) idx out log r0 = .ok r ∧ Q (r.1, r.2.1, r.2.2.1) r.2.2.2 := by
  intro i
  induction i with
  | zero =>
    intro idx out log r0 h
    have hl := Hlen 0 _ h
    simp only at hl
    unfold W.flushLevels
    split
    · rename_i hn
      have hn' := List.getElem?_eq_none_iff.mp hn
      exact absurd hl (Nat.not_lt.mpr hn')
    · rename_i cur hc
      have hQ := Hroot idx out log cur h hc
      split
      · simp only [if_true]
        unfold W.flushLevels
        exact ⟨_, rfl, by simpa [rootAt] using hQ⟩
      · simp only [if_true]
        unfold W.flushLevels
        exact ⟨_, rfl, by simpa [rootAt] using hQ⟩
  | succ i ih =>
    intro idx out log r0 h
    have hl := Hlen (i + 1) _ h
    simp only at hl
    unfold W.flushLevels
    split
    · rename_i hn
      rw [List.getElem?_eq_none_iff] at hn; omega
    · rename_i cur hc
      split
      · rename_i lk hlk
        simp only [Nat.add_eq_zero_iff, Nat.succ_ne_self, and_false, if_false, Nat.add_sub_cancel]
        split
        · rename_i parent hp
          obtain ⟨p', hp', hP⟩ := Hcut i idx out log cur parent lk h hc hp hlk
          rw [hp']
          have := ih _ _ _ out.length hP
          simpa [cutAt] using this
        · rename_i hn
          rw [List.getElem?_eq_none_iff] at hn; omega
      · rename_i hlk
        simp only [Nat.add_eq_zero_iff, Nat.succ_ne_self, and_false, if_false]
        exact ih _ _ _ out.length (Hskip i idx out log cur h hc hlk)

end Grenad
