/-
  T-block: the byte-level cursor over a block produced by the block writer behaves exactly like
  the list cursor `LC` over the inserted entries.

  Layout
  * TBlock1 — `frames`, `offAt`, `offsetTable`, `BW.Built`, `BW.insertAll`, `BW.built_spec`
  * TBlock2 — `beVal`/`be64s` inverses, `parse_finish`, `BlockOf`, `parse_built`, `entryAt_offAt`
  * TBlock3 — `takeWhile_spec`, `scanLast_spec`, `scanPrev_spec`, `scanLe_spec`, offset table access
  * TBlock4 — `BRepr`, `current_sim`, `first_sim`, `next_sim`, `last_sim`, `prev_sim`
  * TBlock5 — `le_off`/`le_spec`, `ge_sim`, `byteOps_sim`, `byteOps_current`, `byteOps_init`
  * this file — end-to-end statements, satisfiability examples, axiom audit

  Assumptions (all explicit hypotheses): `1 ≤ iv` (Rust: `NonZeroUsize`), `StrictAsc es`, key and
  value lengths `< 2^32` (both are consequences of `BW.Built`, see `BW.built_spec`), and for the
  footer parse the payload is shorter than `2^32` bytes (bounds every offset by `2^64` and the
  number of offsets by `2^32`).
-/
import Grenad.Proofs.TBlock5

namespace Grenad

/-- `entryAt` at the offset of entry `i`. -/
theorem BlockOf.entryAt_lt {iv : Nat} {es : List Entry} {b : Block} (hb : BlockOf iv es b)
    {i : Nat} (hi : i < es.length) :
    b.entryAt (offAt es i) = some (es[i].1, es[i].2, offAt es (i + 1)) :=
  entryAt_offAt hb.payload hb.lens hi

/-- `entryAt` past the last entry. -/
theorem BlockOf.entryAt_end {iv : Nat} {es : List Entry} {b : Block} (hb : BlockOf iv es b) :
    b.entryAt (offAt es es.length) = none :=
  entryAt_offAt_end hb.payload

/-- Writer, footer and payload in one statement: inserting `es` succeeds, the finished bytes
    parse back to the writer's buffer and offset table, and the parsed block is `BlockOf iv es`. -/
theorem tblock_roundtrip {iv : Nat} (hiv : 1 ≤ iv) {es : List Entry} (hasc : StrictAsc es)
    (hl : ∀ e ∈ es, e.1.length < 2^32 ∧ e.2.length < 2^32) (hsz : (frames es).length < 2^32) :
    ∃ w b, (BW.new iv).insertAll es = .ok w ∧ BW.Built iv es w ∧
      Block.parse w.finish = some b ∧ b.payload = w.buffer ∧ b.offsets = w.offsets ∧
      BlockOf iv es b := by
  obtain ⟨w, hw, hb⟩ := BW.insertAll_succeeds hiv hasc hl
  have hbuf := (hb.inv hiv).buffer
  obtain ⟨b, h1, h2, h3, h4⟩ := parse_built hiv hb (by rw [hbuf]; exact hsz)
  exact ⟨w, b, hw, hb, h1, h2, h3, h4⟩

/-- The whole chain for a sequence of moves: starting from a freshly loaded cursor, the byte-level
    cursor and the list cursor return the same entries. -/
theorem byteOps_sim_run {iv : Nat} {es : List Entry} {b : Block} (hb : BlockOf iv es b)
    (ms : List Mov) :
    ∀ {c : BlockCursor} {l : LC}, BRepr es b c l →
      (ms.foldl (fun (s : BlockCursor × List (Option Entry)) m =>
          ((byteOps.apply m s.1).1, s.2 ++ [(byteOps.apply m s.1).2])) (c, [])).2
      = (ms.foldl (fun (s : LC × List (Option Entry)) m =>
          ((LC.ops.apply m s.1).1, s.2 ++ [(LC.ops.apply m s.1).2])) (l, [])).2 := by
  suffices H : ∀ (ms : List Mov) (c : BlockCursor) (l : LC) (acc : List (Option Entry)),
      BRepr es b c l →
      (ms.foldl (fun (s : BlockCursor × List (Option Entry)) m =>
          ((byteOps.apply m s.1).1, s.2 ++ [(byteOps.apply m s.1).2])) (c, acc)).2
      = (ms.foldl (fun (s : LC × List (Option Entry)) m =>
          ((LC.ops.apply m s.1).1, s.2 ++ [(LC.ops.apply m s.1).2])) (l, acc)).2 by
    intro c l h; exact H ms c l [] h
  intro ms
  induction ms with
  | nil => intro c l acc _; rfl
  | cons m ms ih =>
    intro c l acc h
    obtain ⟨h1, h2⟩ := byteOps_sim hb h m
    simp only [List.foldl_cons]
    rw [h2]
    exact ih _ _ _ h1

/-! ### The hypotheses are satisfiable -/

private def exEs : List Entry := [([1], [10]), ([1, 2], []), ([3], [7, 8, 9])]

example : ∃ w b, (BW.new 2).insertAll exEs = .ok w ∧ BW.Built 2 exEs w ∧
    Block.parse w.finish = some b ∧ b.payload = w.buffer ∧ b.offsets = w.offsets ∧
    BlockOf 2 exEs b := by
  apply tblock_roundtrip (by decide)
  · simp [StrictAsc, exEs]; decide
  · simp [exEs]
  · decide

example : ∃ b c l, BlockOf 2 exEs b ∧ BRepr exEs b c l := by
  obtain ⟨w, b, _, _, _, _, _, hb⟩ := tblock_roundtrip (iv := 2) (es := exEs) (by decide)
    (by simp [StrictAsc, exEs]; decide) (by simp [exEs]) (by decide)
  exact ⟨b, _, _, hb, byteOps_init exEs b⟩

end Grenad

section Audit
open Grenad
#print axioms BW.built_spec
#print axioms BW.insertAll_succeeds
#print axioms BW.built_iff_insertAll
#print axioms parse_finish
#print axioms parse_built
#print axioms BlockOf.entryAt_lt
#print axioms BlockOf.entryAt_end
#print axioms current_sim
#print axioms first_sim
#print axioms last_sim
#print axioms next_sim
#print axioms prev_sim
#print axioms le_spec
#print axioms ge_sim
#print axioms byteOps_sim
#print axioms byteOps_current
#print axioms byteOps_init
#print axioms tblock_roundtrip
#print axioms byteOps_sim_run
end Audit
