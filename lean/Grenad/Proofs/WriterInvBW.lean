/-
  WriterInv, part 1 — the block writer `BW`: what one `insert` does, and the states reachable
  from `BW.new` by successful inserts (`BW.Reach`).  Used by C18 / C15.
-/
import Grenad.Proofs.Frame
import Grenad.Model.Writer

namespace Grenad

/-- The frame of an entry. -/
def frameOf (e : Entry) : Bytes := BW.frame e.1 e.2

/-- Strictly ascending keys (this is `StrictAsc` of `Model/Abstract`, unfolded, so that the proof
    files do not depend on that module). -/
abbrev KeysAsc (es : List Entry) : Prop := es.Pairwise (fun a b => a.1 < b.1)

theorem be64_length (v : Nat) : (be64 v).length = 8 := by
  simp [be64, beN, leN]

theorem be32_length (v : Nat) : (be32 v).length = 4 := by
  simp [be32, beN, leN]

theorem flatMap_be64_length (l : List Nat) : (l.flatMap be64).length = l.length * 8 := by
  induction l with
  | nil => rfl
  | cons a t ih => simp [List.flatMap_cons, be64_length, ih]; omega

namespace BW

/-- `finish` writes exactly `sizeEstimate` bytes. -/
theorem finish_length (w : BW) : w.finish.length = w.sizeEstimate := by
  simp only [finish, sizeEstimate, List.length_append, flatMap_be64_length, be32_length]

/-- Everything a successful `insert` does. -/
theorem insert_ok {p w : BW} {k v : Bytes} (h : p.insert k v = .ok w) :
    k.length ≤ u32Max ∧ v.length ≤ u32Max ∧ (∀ lk, p.lastKey = some lk → lk < k) ∧
    w.buffer = p.buffer ++ frame k v ∧ w.lastKey = some k ∧ w.items = p.items ++ [(k, v)] ∧
    w.interval = p.interval ∧
    (w.offsets = p.offsets ∨ w.offsets = p.offsets ++ [p.buffer.length]) := by
  unfold insert at h
  split at h
  · cases h
  split at h
  · cases h
  rename_i hk hv
  have hk' : k.length ≤ u32Max := by omega
  have hv' : v.length ≤ u32Max := by omega
  cases hl : p.lastKey with
  | none =>
    simp only [hl] at h
    injection h with h
    subst h
    refine ⟨hk', hv', by simp, rfl, rfl, rfl, rfl, ?_⟩
    dsimp only
    split <;> simp
  | some lk =>
    simp only [hl] at h
    split at h
    · rename_i hlt
      injection h with h
      subst h
      refine ⟨hk', hv', by simpa using hlt, rfl, rfl, rfl, rfl, ?_⟩
      dsimp only
      split <;> simp
    · cases h

/-- Why an `insert` traps. -/
theorem insert_error {p : BW} {k v : Bytes} {t : Trap} (h : p.insert k v = .error t) :
    (t = .keyTooLong ∧ u32Max < k.length) ∨ (t = .valTooLong ∧ u32Max < v.length) ∨
    (t = .keyOrder ∧ k.length ≤ u32Max ∧ v.length ≤ u32Max ∧ ∃ lk, p.lastKey = some lk ∧ ¬ lk < k) := by
  unfold insert at h
  split at h
  · rename_i hk; injection h with h; exact .inl ⟨h.symm, hk⟩
  split at h
  · rename_i hv; injection h with h; exact .inr (.inl ⟨h.symm, hv⟩)
  rename_i hk hv
  cases hl : p.lastKey with
  | none => simp only [hl] at h; cases h
  | some lk =>
    simp only [hl] at h
    split at h
    · cases h
    · rename_i hlt
      injection h with h
      exact .inr (.inr ⟨h.symm, by omega, by omega, lk, rfl, hlt⟩)

/-- `insert` succeeds whenever its three assertions hold. -/
theorem insert_total (p : BW) {k v : Bytes} (hk : k.length ≤ u32Max) (hv : v.length ≤ u32Max)
    (hlk : ∀ lk, p.lastKey = some lk → lk < k) : ∃ w, p.insert k v = .ok w := by
  cases h : p.insert k v with
  | ok w => exact ⟨w, rfl⟩
  | error t =>
    rcases insert_error h with ⟨_, h'⟩ | ⟨_, h'⟩ | ⟨_, _, _, lk, h1, h2⟩
    · omega
    · omega
    · exact absurd (hlk lk h1) h2

/-- The key-order assertion: inserting a key that is not above the last key traps. -/
theorem insert_keyOrder (p : BW) {k v lk : Bytes} (hk : k.length ≤ u32Max) (hv : v.length ≤ u32Max)
    (hl : p.lastKey = some lk) (hn : ¬ lk < k) : p.insert k v = .error .keyOrder := by
  cases h : p.insert k v with
  | ok w => exact absurd ((insert_ok h).2.2.1 lk hl) hn
  | error t =>
    rcases insert_error h with ⟨_, h'⟩ | ⟨_, h'⟩ | ⟨ht, _⟩
    · omega
    · omega
    · rw [ht]

/-- One insert enlarges the size estimate by the frame and at most one offset slot. -/
theorem sizeEstimate_insert {p w : BW} {k v : Bytes} (h : p.insert k v = .ok w) :
    p.sizeEstimate + (frame k v).length ≤ w.sizeEstimate ∧
    w.sizeEstimate ≤ p.sizeEstimate + (frame k v).length + 8 := by
  obtain ⟨_, _, _, hb, _, _, _, ho⟩ := insert_ok h
  unfold sizeEstimate
  rcases ho with ho | ho <;> simp [hb, ho] <;> omega

/-- States reachable from the empty writer by successful inserts. -/
inductive Reach (iv : Nat) : BW → Prop
  | new : Reach iv (BW.new iv)
  | step {p w : BW} {k v : Bytes} : Reach iv p → p.insert k v = .ok w → Reach iv w

namespace Reach

variable {iv : Nat} {w : BW}

theorem interval_eq (h : Reach iv w) : w.interval = iv := by
  induction h with
  | new => rfl
  | step _ hi ih => rw [(insert_ok hi).2.2.2.2.2.2.1, ih]

theorem offsets_head (h : Reach iv w) : ∃ t, w.offsets = 0 :: t := by
  induction h with
  | new => exact ⟨[], rfl⟩
  | step _ hi ih =>
    obtain ⟨t, ht⟩ := ih
    rcases (insert_ok hi).2.2.2.2.2.2.2 with ho | ho
    · exact ⟨t, by rw [ho, ht]⟩
    · exact ⟨t ++ [_], by rw [ho, ht]; rfl⟩

/-- `reset` of a reachable writer is the empty writer. -/
theorem reset_eq (h : Reach iv w) : w.reset = BW.new iv := by
  obtain ⟨t, ht⟩ := h.offsets_head
  simp [reset, BW.new, ht, h.interval_eq]

theorem buffer_eq (h : Reach iv w) : w.buffer = (w.items.map frameOf).flatten := by
  induction h with
  | new => rfl
  | step _ hi ih =>
    obtain ⟨_, _, _, hb, _, hit, _, _⟩ := insert_ok hi
    simp [hb, hit, ih, frameOf]

theorem lastKey_eq (h : Reach iv w) : w.lastKey = w.items.getLast?.map (·.1) := by
  induction h with
  | new => rfl
  | step _ hi ih =>
    obtain ⟨_, _, _, _, hl, hit, _, _⟩ := insert_ok hi
    simp [hl, hit]

theorem keysAsc (h : Reach iv w) : KeysAsc w.items := by
  induction h with
  | new => exact List.Pairwise.nil
  | @step p w k v hp hi ih =>
    obtain ⟨_, _, hlt, _, _, hit, _, _⟩ := insert_ok hi
    rw [hit]
    refine List.pairwise_append.mpr ⟨ih, List.pairwise_singleton _ _, ?_⟩
    intro a ha b hb
    simp only [List.mem_singleton] at hb
    subst hb
    -- `a` is below or equal to the last entry of `p.items`, whose key is `p.lastKey`
    obtain ⟨l, hl⟩ : ∃ l, p.items.getLast? = some l := by
      cases hg : p.items.getLast? with
      | none => simp [List.getLast?_eq_none_iff] at hg; simp [hg] at ha
      | some l => exact ⟨l, rfl⟩
    have hlk : p.lastKey = some l.1 := by rw [hp.lastKey_eq, hl]; rfl
    have hlast : l.1 < k := hlt _ hlk
    obtain ⟨ini, hini⟩ : ∃ ini, p.items = ini ++ [l] := by
      have := List.getLast?_eq_some_iff.mp hl
      exact this
    rw [hini] at ha ih
    rcases List.mem_append.mp ha with ha | ha
    · have := (List.pairwise_append.mp ih).2.2 a ha l (by simp)
      exact List.lt_trans this hlast
    · simp only [List.mem_singleton] at ha; subst ha; exact hlast

theorem key_len (h : Reach iv w) : ∀ e ∈ w.items, e.1.length ≤ u32Max ∧ e.2.length ≤ u32Max := by
  induction h with
  | new => intro e he; cases he
  | step _ hi ih =>
    obtain ⟨hk, hv, _, _, _, hit, _, _⟩ := insert_ok hi
    intro e he
    rw [hit] at he
    rcases List.mem_append.mp he with he | he
    · exact ih e he
    · simp only [List.mem_singleton] at he; subst he; exact ⟨hk, hv⟩

theorem lastKey_len (h : Reach iv w) {lk : Bytes} (hl : w.lastKey = some lk) : lk.length ≤ u32Max := by
  rw [h.lastKey_eq] at hl
  cases hg : w.items.getLast? with
  | none => simp [hg] at hl
  | some l =>
    simp [hg] at hl
    subst hl
    exact (h.key_len l (List.mem_of_getLast? hg)).1

/-- A reachable writer is empty, or the result of an insert into a reachable writer. -/
theorem cases_items (h : Reach iv w) :
    w = BW.new iv ∨ ∃ p k v, Reach iv p ∧ p.insert k v = .ok w := by
  cases h with
  | new => exact .inl rfl
  | step hp hi => exact .inr ⟨_, _, _, hp, hi⟩

theorem items_ne_nil_of_lastKey (h : Reach iv w) {lk : Bytes} (hl : w.lastKey = some lk) :
    w.items ≠ [] := by
  intro he
  rw [h.lastKey_eq, he] at hl
  cases hl

theorem lastKey_mem (h : Reach iv w) {lk : Bytes} (hl : w.lastKey = some lk) :
    ∃ ini x, w.items = ini ++ [(lk, x)] := by
  rw [h.lastKey_eq] at hl
  cases hg : w.items.getLast? with
  | none => simp [hg] at hl
  | some l =>
    simp [hg] at hl
    obtain ⟨ini, hini⟩ := List.getLast?_eq_some_iff.mp hg
    exact ⟨ini, l.2, by rw [hini, ← hl]⟩

theorem offsets_len_new : (BW.new iv).sizeEstimate = 12 := rfl

end Reach

end BW
end Grenad
