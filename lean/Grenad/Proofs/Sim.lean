/-
  Grenad.Proofs.Sim — simulation lifting for the reader cursor.

  The reader cursor `RC β` is generic in the in-block cursor implementation.  If two
  implementations `ops : BlockOps β`, `ops' : BlockOps β'` are related by a simulation
  `R : β → β' → Prop` (every move keeps the cursors related and returns the same entry) and two
  loaders return related cursors at every offset, then the two reader cursors stay related
  (`RCRel R`) and return the same results, step by step and over histories.

  Used to transfer cursor theorems proved over the abstract in-block cursor `LC` to the byte-level
  `BlockCursor`.  Purely structural (parametricity): one lemma per model function.
-/
import Grenad.Proofs.Loads
import Grenad.Model.Abstract

namespace Grenad

variable {β β' : Type}

/-! ### Relations -/

/-- Both `none`, or both `some` and related. -/
def OptRel {α α' : Type} (R : α → α' → Prop) : Option α → Option α' → Prop
  | some a, some a' => R a a'
  | none, none => True
  | _, _ => False

@[simp] theorem OptRel_some_some {α α' : Type} (R : α → α' → Prop) (a : α) (a' : α') :
    OptRel R (some a) (some a') ↔ R a a' := Iff.rfl
@[simp] theorem OptRel_none_none {α α' : Type} (R : α → α' → Prop) :
    OptRel R (none : Option α) (none : Option α') ↔ True := Iff.rfl
@[simp] theorem OptRel_some_none {α α' : Type} (R : α → α' → Prop) (a : α) :
    OptRel R (some a) (none : Option α') ↔ False := Iff.rfl
@[simp] theorem OptRel_none_some {α α' : Type} (R : α → α' → Prop) (a' : α') :
    OptRel R (none : Option α) (some a') ↔ False := Iff.rfl

theorem OptRel.cases {α α' : Type} {R : α → α' → Prop} {x : Option α} {x' : Option α'}
    (h : OptRel R x x') :
    (x = none ∧ x' = none) ∨ ∃ a a', x = some a ∧ x' = some a' ∧ R a a' := by
  cases x <;> cases x' <;> simp at h
  · exact Or.inl ⟨rfl, rfl⟩
  · exact Or.inr ⟨_, _, rfl, rfl, h⟩

theorem OptRel.isSome_eq {α α' : Type} {R : α → α' → Prop} {x : Option α} {x' : Option α'}
    (h : OptRel R x x') : x.isSome = x'.isSome := by
  cases x <;> cases x' <;> simp at h <;> rfl

/-- The in-block cursor operations of `ops` and `ops'` preserve `R` and return the same entry. -/
structure OpsSim (ops : BlockOps β) (ops' : BlockOps β') (R : β → β' → Prop) : Prop where
  current : ∀ b b', R b b' → ops.current b = ops'.current b'
  first : ∀ b b', R b b' → R (ops.first b).1 (ops'.first b').1 ∧ (ops.first b).2 = (ops'.first b').2
  last : ∀ b b', R b b' → R (ops.last b).1 (ops'.last b').1 ∧ (ops.last b).2 = (ops'.last b').2
  next : ∀ b b', R b b' → R (ops.next b).1 (ops'.next b').1 ∧ (ops.next b).2 = (ops'.next b').2
  prev : ∀ b b', R b b' → R (ops.prev b).1 (ops'.prev b').1 ∧ (ops.prev b).2 = (ops'.prev b').2
  ge : ∀ b b' q, R b b' → R (ops.ge b q).1 (ops'.ge b' q).1 ∧ (ops.ge b q).2 = (ops'.ge b' q).2

theorem OpsSim.apply {ops : BlockOps β} {ops' : BlockOps β'} {R : β → β' → Prop}
    (h : OpsSim ops ops' R) (mov : Mov) (b : β) (b' : β') (hb : R b b') :
    R (ops.apply mov b).1 (ops'.apply mov b').1 ∧ (ops.apply mov b).2 = (ops'.apply mov b').2 := by
  cases mov with
  | first => exact h.first b b' hb
  | last => exact h.last b b' hb
  | next => exact h.next b b' hb
  | prev => exact h.prev b b' hb
  | ge q => exact h.ge b b' q hb

/-- The two loaders fail at the same offsets and return related cursors elsewhere. -/
def LoadSim (load : Nat → Option β) (load' : Nat → Option β') (R : β → β' → Prop) : Prop :=
  ∀ off, match load off, load' off with
    | some b, some b' => R b b'
    | none, none => True
    | _, _ => False

theorem LoadSim.optRel {load : Nat → Option β} {load' : Nat → Option β'} {R : β → β' → Prop}
    (h : LoadSim load load' R) (off : Nat) : OptRel R (load off) (load' off) := by
  have := h off
  cases h1 : load off <;> cases h2 : load' off <;> simp [h1, h2] at this ⊢
  exact this

theorem LoadSim.cases {load : Nat → Option β} {load' : Nat → Option β'} {R : β → β' → Prop}
    (h : LoadSim load load' R) (off : Nat) :
    (load off = none ∧ load' off = none) ∨
      ∃ b b', load off = some b ∧ load' off = some b' ∧ R b b' :=
  (h.optRel off).cases

/-- Per-level lists: same length, same recorded offsets, related cursors. -/
def LvlRel (R : β → β' → Prop) : List (Nat × β) → List (Nat × β') → Prop
  | [], [] => True
  | x :: l, x' :: l' => x.1 = x'.1 ∧ R x.2 x'.2 ∧ LvlRel R l l'
  | _, _ => False

@[simp] theorem LvlRel_nil (R : β → β' → Prop) : LvlRel R [] [] ↔ True := Iff.rfl
@[simp] theorem LvlRel_cons (R : β → β' → Prop) (x : Nat × β) (x' : Nat × β') (l l') :
    LvlRel R (x :: l) (x' :: l') ↔ x.1 = x'.1 ∧ R x.2 x'.2 ∧ LvlRel R l l' := Iff.rfl
@[simp] theorem LvlRel_nil_cons (R : β → β' → Prop) (x' : Nat × β') (l') :
    LvlRel R [] (x' :: l') ↔ False := Iff.rfl
@[simp] theorem LvlRel_cons_nil (R : β → β' → Prop) (x : Nat × β) (l) :
    LvlRel R (x :: l) ([] : List (Nat × β')) ↔ False := Iff.rfl

theorem LvlRel.length_eq {R : β → β' → Prop} :
    ∀ {l : List (Nat × β)} {l' : List (Nat × β')}, LvlRel R l l' → l.length = l'.length
  | [], [], _ => rfl
  | _ :: _, _ :: _, h => by simp [LvlRel.length_eq h.2.2]
  | [], _ :: _, h => h.elim
  | _ :: _, [], h => h.elim

theorem LvlRel.append {R : β → β' → Prop} :
    ∀ {a : List (Nat × β)} {a' : List (Nat × β')} {b b'},
      LvlRel R a a' → LvlRel R b b' → LvlRel R (a ++ b) (a' ++ b')
  | [], [], _, _, _, h => h
  | _ :: _, _ :: _, _, _, h, h2 => ⟨h.1, h.2.1, LvlRel.append h.2.2 h2⟩
  | [], _ :: _, _, _, h, _ => h.elim
  | _ :: _, [], _, _, h, _ => h.elim

theorem LvlRel.reverse {R : β → β' → Prop} :
    ∀ {l : List (Nat × β)} {l' : List (Nat × β')}, LvlRel R l l' → LvlRel R l.reverse l'.reverse
  | [], [], _ => trivial
  | x :: _, x' :: _, h => by
    simp only [List.reverse_cons]
    exact LvlRel.append (LvlRel.reverse h.2.2) ⟨h.1, h.2.1, trivial⟩
  | [], _ :: _, h => h.elim
  | _ :: _, [], h => h.elim

/-- Pointwise characterisation of `LvlRel`. -/
theorem LvlRel_iff_getElem {R : β → β' → Prop} (l : List (Nat × β)) (l' : List (Nat × β')) :
    LvlRel R l l' ↔ l.length = l'.length ∧
      ∀ i (h : i < l.length) (h' : i < l'.length), (l[i]).1 = (l'[i]).1 ∧ R (l[i]).2 (l'[i]).2 := by
  induction l generalizing l' with
  | nil => cases l' <;> simp
  | cons x l ih =>
    cases l' with
    | nil => simp
    | cons x' l' =>
      simp only [LvlRel_cons, ih, List.length_cons, Nat.add_right_cancel_iff]
      constructor
      · rintro ⟨h1, h2, h3, h4⟩
        refine ⟨h3, fun i h h' => ?_⟩
        cases i with
        | zero => exact ⟨h1, h2⟩
        | succ i => exact h4 i (by simpa using h) (by simpa using h')
      · rintro ⟨h3, h4⟩
        refine ⟨(h4 0 (by simp) (by simp)).1, (h4 0 (by simp) (by simp)).2, h3, fun i h h' => ?_⟩
        exact h4 (i + 1) (by simpa using h) (by simpa using h')

/-- The entry under the last-level cursor is the same on both sides. -/
theorem LvlRel.getLast_current {ops : BlockOps β} {ops' : BlockOps β'} {R : β → β' → Prop}
    (hops : OpsSim ops ops' R) {l : List (Nat × β)} {l' : List (Nat × β')} (h : LvlRel R l l') :
    (match l.getLast? with
      | some (_, b) => ops.current b
      | none => none) =
    (match l'.getLast? with
      | some (_, b) => ops'.current b
      | none => none) := by
  have hr := h.reverse
  rw [List.getLast?_eq_head?_reverse, List.getLast?_eq_head?_reverse]
  cases h1 : l.reverse <;> cases h2 : l'.reverse <;> simp [h1, h2] at hr ⊢
  exact hops.current _ _ hr.2.1

/-- Reader-cursor states: same base, levels and load log; related index and data cursors. -/
structure RCRel (R : β → β' → Prop) (c : RC β) (c' : RC β') : Prop where
  base : c.base = c'.base
  levels : c.levels = c'.levels
  log : c.log = c'.log
  inner : OptRel (LvlRel R) c.inner c'.inner
  cur : OptRel R c.cur c'.cur

theorem RCRel_new (R : β → β' → Prop) (m : Meta.Meta) : RCRel R (RC.new m) (RC.new m) :=
  ⟨rfl, rfl, rfl, trivial, trivial⟩

/-! ### One lemma per model function -/

section
variable {ops : BlockOps β} {ops' : BlockOps β'} {load : Nat → Option β}
  {load' : Nat → Option β'} {R : β → β' → Prop}

theorem initialIndex_sim (hops : OpsSim ops ops' R) (hload : LoadSim load load' R) (mov : Mov) :
    ∀ (d jump : Nat) (acc : List (Nat × β)) (acc' : List (Nat × β')) (log : List Nat),
      LvlRel R acc acc' →
      OptRel (fun x x' => OptRel (LvlRel R) x.1 x'.1 ∧ x.2 = x'.2)
        (RC.initialIndex ops load mov d jump acc log)
        (RC.initialIndex ops' load' mov d jump acc' log) := by
  intro d
  induction d with
  | zero =>
    intro jump acc acc' log h
    simp only [RC.initialIndex]
    exact ⟨h.reverse, rfl⟩
  | succ d ih =>
    intro jump acc acc' log h
    simp only [RC.initialIndex]
    rcases hload.cases jump with ⟨h1, h2⟩ | ⟨b, b', h1, h2, hb⟩
    · simp only [h1, h2]; trivial
    · simp only [h1, h2]
      obtain ⟨hR, hr⟩ := hops.apply mov b b' hb
      rcases ha : ops.apply mov b with ⟨c1, r1⟩
      rcases ha' : ops'.apply mov b' with ⟨c1', r1'⟩
      simp only [ha, ha'] at hR hr
      subst hr
      cases r1 with
      | none => exact ⟨trivial, rfl⟩
      | some e => exact ih _ _ _ _ ⟨rfl, hR, h⟩

theorem iterLevels_sim (hops : OpsSim ops ops' R) (hload : LoadSim load load' R) (mov : Mov) :
    ∀ (inner : List (Nat × β)) (inner' : List (Nat × β')) (jump : Nat) (log : List Nat),
      LvlRel R inner inner' →
      OptRel (fun x x' => LvlRel R x.1 x'.1 ∧ x.2.1 = x'.2.1 ∧ x.2.2 = x'.2.2)
        (RC.iterLevels ops load mov jump inner log)
        (RC.iterLevels ops' load' mov jump inner' log) := by
  intro inner
  induction inner with
  | nil =>
    intro inner' jump log h
    cases inner' with
    | nil => simp [RC.iterLevels]
    | cons => exact h.elim
  | cons x rest ih =>
    intro inner' jump log h
    cases inner' with
    | nil => exact h.elim
    | cons x' rest' =>
      obtain ⟨off, c⟩ := x
      obtain ⟨off', c'⟩ := x'
      obtain ⟨hoff, hc, hrest⟩ := h
      simp only at hoff hc
      subst hoff
      -- the (possibly reloaded) cursor at this level
      have key : ∀ (o : Nat) (b : β) (b' : β') (lg : List Nat), R b b' →
          OptRel (fun x x' => LvlRel R x.1 x'.1 ∧ x.2.1 = x'.2.1 ∧ x.2.2 = x'.2.2)
            (match ops.apply mov b with
              | (c', r) =>
                match r with
                | some e =>
                  match RC.iterLevels ops load mov (offOf e) rest lg with
                  | none => none
                  | some (rest', done, log) => some ((o, c') :: rest', done, log)
                | none => some ((o, c') :: rest, false, lg))
            (match ops'.apply mov b' with
              | (c', r) =>
                match r with
                | some e =>
                  match RC.iterLevels ops' load' mov (offOf e) rest' lg with
                  | none => none
                  | some (rest', done, log) => some ((o, c') :: rest', done, log)
                | none => some ((o, c') :: rest', false, lg)) := by
        intro o b b' lg hb
        obtain ⟨hR, hr⟩ := hops.apply mov b b' hb
        rcases ha : ops.apply mov b with ⟨c1, r1⟩
        rcases ha' : ops'.apply mov b' with ⟨c1', r1'⟩
        simp only [ha, ha'] at hR hr
        subst hr
        cases r1 with
        | none => exact ⟨⟨rfl, hR, hrest⟩, rfl, rfl⟩
        | some e =>
          simp only
          rcases (ih rest' (offOf e) lg hrest).cases with ⟨h1, h2⟩ | ⟨y, y', h1, h2, hy⟩
          · simp only [h1, h2]; trivial
          · simp only [h1, h2]
            obtain ⟨r1, d1, l1⟩ := y
            obtain ⟨r1', d1', l1'⟩ := y'
            exact ⟨⟨rfl, hR, hy.1⟩, hy.2.1, hy.2.2⟩
      simp only [RC.iterLevels]
      by_cases hj : jump = off
      · simp only [hj, ne_eq, not_true_eq_false, if_false]
        exact key off c c' log hc
      · simp only [ne_eq, hj, not_false_eq_true, if_true]
        rcases hload.cases jump with ⟨h1, h2⟩ | ⟨b, b', h1, h2, hb⟩
        · simp only [h1, h2, Option.map_none]; trivial
        · simp only [h1, h2, Option.map_some]
          exact key jump b b' (jump :: log) hb

theorem recurLevels_sim (hops : OpsSim ops ops' R) (hload : LoadSim load load' R) (fixF1 : Bool)
    (mov : Mov) :
    ∀ (l : List (Nat × β)) (l' : List (Nat × β')) (log : List Nat),
      LvlRel R l l' →
      OptRel (fun x x' => LvlRel R x.1 x'.1 ∧ x.2.1 = x'.2.1 ∧ x.2.2 = x'.2.2)
        (RC.recurLevels ops load fixF1 mov l log)
        (RC.recurLevels ops' load' fixF1 mov l' log) := by
  intro l
  induction l with
  | nil =>
    intro l' log h
    cases l' with
    | nil => simp [RC.recurLevels]
    | cons => exact h.elim
  | cons x parents ih =>
    intro l' log h
    cases l' with
    | nil => exact h.elim
    | cons x' parents' =>
      obtain ⟨off, c⟩ := x
      obtain ⟨off', c'⟩ := x'
      obtain ⟨hoff, hc, hrest⟩ := h
      simp only at hoff hc
      subst hoff
      simp only [RC.recurLevels]
      obtain ⟨hR, hr⟩ := hops.apply mov c c' hc
      rcases ha : ops.apply mov c with ⟨c1, r1⟩
      rcases ha' : ops'.apply mov c' with ⟨c1', r1'⟩
      simp only [ha, ha'] at hR hr
      subst hr
      cases r1 with
      | some e => exact ⟨⟨rfl, hR, hrest⟩, hops.current _ _ hR, rfl⟩
      | none =>
        simp only
        rcases (ih parents' log hrest).cases with ⟨h1, h2⟩ | ⟨y, y', h1, h2, hy⟩
        · simp only [h1, h2]; trivial
        · obtain ⟨p1, e1, l1⟩ := y
          obtain ⟨p1', e1', l1'⟩ := y'
          obtain ⟨hp, he, hl⟩ := hy
          simp only at hp he hl
          subst he hl
          simp only [h1, h2]
          cases e1 with
          | none => exact ⟨⟨rfl, hR, hp⟩, rfl, rfl⟩
          | some e =>
            simp only
            rcases hload.cases (offOf e) with ⟨g1, g2⟩ | ⟨nb, nb', g1, g2, hnb⟩
            · simp only [g1, g2]; trivial
            · simp only [g1, g2]
              obtain ⟨hR2, hr2⟩ := hops.apply mov nb nb' hnb
              exact ⟨⟨rfl, hR2, hp⟩, hr2, rfl⟩

/-- Relation between the results of the two index-cursor moves. -/
abbrev IdxRel (R : β → β' → Prop) (x : RC β × Option Entry) (x' : RC β' × Option Entry) : Prop :=
  RCRel R x.1 x'.1 ∧ x.2 = x'.2

theorem iterIndex_sim (hops : OpsSim ops ops' R) (hload : LoadSim load load' R) (mov : Mov)
    (c : RC β) (c' : RC β') (h : RCRel R c c') :
    OptRel (IdxRel R) (RC.iterIndex ops load mov c) (RC.iterIndex ops' load' mov c') := by
  obtain ⟨base, levels, inner0, cur0, log0⟩ := c
  obtain ⟨base', levels', inner0', cur0', log0'⟩ := c'
  obtain ⟨hb, hl, hlog, hinner, hcur⟩ := h
  simp only at hb hl hlog hinner hcur
  subst hb hl hlog
  unfold RC.iterIndex
  rcases hinner.cases with ⟨h1, h2⟩ | ⟨inner, inner', h1, h2, hin⟩
  · subst h1 h2
    simp only
    rcases (initialIndex_sim hops hload mov (levels + 1) base [] [] log0 trivial).cases with
      ⟨g1, g2⟩ | ⟨y, y', g1, g2, hy⟩
    · simp only [g1, g2]; trivial
    · obtain ⟨i1, l1⟩ := y
      obtain ⟨i1', l1'⟩ := y'
      obtain ⟨hi, hl⟩ := hy
      simp only at hi hl
      subst hl
      simp only [g1, g2, OptRel_some_some]
      refine ⟨⟨rfl, rfl, rfl, hi, hcur⟩, ?_⟩
      rcases hi.cases with ⟨k1, k2⟩ | ⟨a, a', k1, k2, ha⟩
      · simp only [k1, k2]
      · simp only [k1, k2]
        exact ha.getLast_current hops
  · subst h1 h2
    simp only
    rcases (iterLevels_sim hops hload mov inner inner' base log0 hin).cases with
      ⟨g1, g2⟩ | ⟨y, y', g1, g2, hy⟩
    · simp only [g1, g2]; trivial
    · obtain ⟨i1, d1, l1⟩ := y
      obtain ⟨i1', d1', l1'⟩ := y'
      obtain ⟨hi, hd, hl⟩ := hy
      simp only at hi hd hl
      subst hd hl
      simp only [g1, g2]
      cases d1 with
      | true => exact ⟨⟨rfl, rfl, rfl, hi, hcur⟩, hi.getLast_current hops⟩
      | false => exact ⟨⟨rfl, rfl, rfl, hi, hcur⟩, rfl⟩

theorem recurIndex_sim (hops : OpsSim ops ops' R) (hload : LoadSim load load' R) (fixF1 : Bool)
    (mov : Mov) (c : RC β) (c' : RC β') (h : RCRel R c c') :
    OptRel (IdxRel R) (RC.recurIndex ops load fixF1 mov c) (RC.recurIndex ops' load' fixF1 mov c') := by
  -- second phase
  have phase2 : ∀ (c1 : RC β) (c1' : RC β'), RCRel R c1 c1' →
      OptRel (IdxRel R)
        (match c1.inner with
          | none => some (c1, none)
          | some inner =>
            match RC.recurLevels ops load fixF1 mov inner.reverse c1.log with
            | none => none
            | some (rev', r, log) =>
              some (({ c1 with inner := some rev'.reverse, log := log } : RC β), r))
        (match c1'.inner with
          | none => some (c1', none)
          | some inner =>
            match RC.recurLevels ops' load' fixF1 mov inner.reverse c1'.log with
            | none => none
            | some (rev', r, log) =>
              some (({ c1' with inner := some rev'.reverse, log := log } : RC β'), r)) := by
    intro c1 c1' h1
    rcases h1.inner.cases with ⟨k1, k2⟩ | ⟨inner, inner', k1, k2, hin⟩
    · simp only [k1, k2]; exact ⟨h1, rfl⟩
    · simp only [k1, k2, ← h1.log]
      rcases (recurLevels_sim hops hload fixF1 mov _ _ c1.log hin.reverse).cases with
        ⟨g1, g2⟩ | ⟨y, y', g1, g2, hy⟩
      · simp only [g1, g2]; trivial
      · obtain ⟨i1, r1, l1⟩ := y
        obtain ⟨i1', r1', l1'⟩ := y'
        obtain ⟨hi, hr, hl⟩ := hy
        simp only at hi hr hl
        subst hr hl
        simp only [g1, g2]
        exact ⟨⟨h1.base, h1.levels, rfl, hi.reverse, h1.cur⟩, rfl⟩
  unfold RC.recurIndex
  rcases h.inner.cases with ⟨h1, h2⟩ | ⟨inner, inner', h1, h2, hin⟩
  · obtain ⟨base, levels, inner0, cur0, log0⟩ := c
    obtain ⟨base', levels', inner0', cur0', log0'⟩ := c'
    obtain ⟨hb, hl, hlog, hinner, hcur⟩ := h
    simp only at hb hl hlog hinner hcur h1 h2
    subst hb hl hlog h1 h2
    simp only
    rcases (initialIndex_sim hops hload mov (levels + 1) base [] [] log0 trivial).cases with
      ⟨g1, g2⟩ | ⟨y, y', g1, g2, hy⟩
    · simp only [g1, g2]; trivial
    · obtain ⟨i1, l1⟩ := y
      obtain ⟨i1', l1'⟩ := y'
      obtain ⟨hi, hl⟩ := hy
      simp only at hi hl
      subst hl
      simp only [g1, g2]
      exact phase2 ⟨base, levels, i1, cur0, l1⟩ ⟨base, levels, i1', cur0', l1⟩
        ⟨rfl, rfl, rfl, hi, hcur⟩
  · have := phase2 c c' h
    simp only [h1, h2] at this ⊢
    exact this

theorem enter_sim (hload : LoadSim load load' R) (c : RC β) (c' : RC β') (e : Entry)
    (h : RCRel R c c') :
    OptRel (fun x x' => RCRel R x.1 x'.1 ∧ R x.2 x'.2) (RC.enter load c e) (RC.enter load' c' e) := by
  unfold RC.enter
  rcases hload.cases (offOf e) with ⟨g1, g2⟩ | ⟨b, b', g1, g2, hb⟩
  · simp only [g1, g2]; trivial
  · simp only [g1, g2, ← h.log]
    exact ⟨⟨h.base, h.levels, rfl, h.inner, h.cur⟩, hb⟩

theorem withCur_sim {c : RC β} {c' : RC β'} {b : β} {b' : β'} (h : RCRel R c c') (hb : R b b') :
    RCRel R (RC.withCur c b) (RC.withCur c' b') :=
  ⟨h.base, h.levels, h.log, h.inner, hb⟩

/-! ### Public operations -/

/-- Relation between the outcomes of a public operation on both sides. -/
abbrev StepRel (R : β → β' → Prop) (x : RC β × Res) (x' : RC β' × Res) : Prop :=
  RCRel R x.1 x'.1 ∧ x.2 = x'.2

/-- Entering the data block pointed to by `e`, then positioning inside it with `f`/`f'`. -/
theorem enter_then_sim (hload : LoadSim load load' R) (f : β → β × Option Entry)
    (f' : β' → β' × Option Entry)
    (hf : ∀ b b', R b b' → R (f b).1 (f' b').1 ∧ (f b).2 = (f' b').2)
    (c : RC β) (c' : RC β') (e : Entry) (h : RCRel R c c') :
    StepRel R
      (match RC.enter load c e with
        | none => (c, .err)
        | some (c, b) => let (b', r) := f b; (RC.withCur c b', .ok r))
      (match RC.enter load' c' e with
        | none => (c', .err)
        | some (c, b) => let (b', r) := f' b; (RC.withCur c b', .ok r)) := by
  rcases (enter_sim hload c c' e h).cases with ⟨g1, g2⟩ | ⟨y, y', g1, g2, hy⟩
  · simp only [g1, g2]; exact ⟨h, rfl⟩
  · obtain ⟨c2, b⟩ := y
    obtain ⟨c2', b'⟩ := y'
    simp only [g1, g2]
    obtain ⟨hR, hr⟩ := hf b b' hy.2
    exact ⟨withCur_sim hy.1 hR, by rw [hr]⟩

private theorem first_sim (hops : OpsSim ops ops' R) (hload : LoadSim load load' R)
    (c : RC β) (c' : RC β') (h : RCRel R c c') :
    StepRel R (c.first ops load) (c'.first ops' load') := by
  unfold RC.first
  rcases (iterIndex_sim hops hload .first c c' h).cases with ⟨g1, g2⟩ | ⟨y, y', g1, g2, hy⟩
  · simp only [g1, g2]; exact ⟨h, rfl⟩
  · obtain ⟨c1, r⟩ := y
    obtain ⟨c1', r'⟩ := y'
    obtain ⟨h1, hr⟩ := hy
    simp only at h1 hr
    subst hr
    simp only [g1, g2]
    cases r with
    | none => exact ⟨⟨h1.base, h1.levels, h1.log, h1.inner, trivial⟩, rfl⟩
    | some e => exact enter_then_sim hload ops.first ops'.first hops.first c1 c1' e h1

private theorem last_sim (hops : OpsSim ops ops' R) (hload : LoadSim load load' R)
    (c : RC β) (c' : RC β') (h : RCRel R c c') :
    StepRel R (c.last ops load) (c'.last ops' load') := by
  unfold RC.last
  rcases (iterIndex_sim hops hload .last c c' h).cases with ⟨g1, g2⟩ | ⟨y, y', g1, g2, hy⟩
  · simp only [g1, g2]; exact ⟨h, rfl⟩
  · obtain ⟨c1, r⟩ := y
    obtain ⟨c1', r'⟩ := y'
    obtain ⟨h1, hr⟩ := hy
    simp only at h1 hr
    subst hr
    simp only [g1, g2]
    cases r with
    | none => exact ⟨⟨h1.base, h1.levels, h1.log, h1.inner, trivial⟩, rfl⟩
    | some e => exact enter_then_sim hload ops.last ops'.last hops.last c1 c1' e h1

private theorem ge_sim (hops : OpsSim ops ops' R) (hload : LoadSim load load' R) (q : Bytes)
    (c : RC β) (c' : RC β') (h : RCRel R c c') :
    StepRel R (c.ge ops load q) (c'.ge ops' load' q) := by
  unfold RC.ge
  rcases (iterIndex_sim hops hload (.ge q) c c' h).cases with ⟨g1, g2⟩ | ⟨y, y', g1, g2, hy⟩
  · simp only [g1, g2]; exact ⟨h, rfl⟩
  · obtain ⟨c1, r⟩ := y
    obtain ⟨c1', r'⟩ := y'
    obtain ⟨h1, hr⟩ := hy
    simp only at h1 hr
    subst hr
    simp only [g1, g2]
    cases r with
    | none => exact ⟨h1, rfl⟩
    | some e =>
      exact enter_then_sim hload (fun b => ops.ge b q) (fun b => ops'.ge b q)
        (fun b b' hb => hops.ge b b' q hb) c1 c1' e h1

theorem eq_sim (hops : OpsSim ops ops' R) (hload : LoadSim load load' R) (q : Bytes)
    (c : RC β) (c' : RC β') (h : RCRel R c c') :
    StepRel R (c.eq ops load q) (c'.eq ops' load' q) := by
  obtain ⟨h1, h2⟩ := ge_sim hops hload q c c' h
  unfold RC.eq
  rcases hg : c.ge ops load q with ⟨c1, r⟩
  rcases hg' : c'.ge ops' load' q with ⟨c1', r'⟩
  simp only [hg, hg'] at h1 h2
  subst h2
  cases r with
  | err => exact ⟨h1, rfl⟩
  | ok r => exact ⟨h1, rfl⟩

/-- The part of `next`/`prev` after the in-block move answered `None`. -/
theorem rel_tail_sim (hops : OpsSim ops ops' R) (hload : LoadSim load load' R) (fixF1 : Bool)
    (mov : Mov) (f : β → β × Option Entry) (f' : β' → β' × Option Entry)
    (hf : ∀ b b', R b b' → R (f b).1 (f' b').1 ∧ (f b).2 = (f' b').2)
    (c : RC β) (c' : RC β') (h : RCRel R c c') :
    StepRel R
      (match RC.recurIndex ops load fixF1 mov c with
        | none => (c, .err)
        | some (c, some e) =>
          match RC.enter load c e with
          | none => (c, .err)
          | some (c, nb) => let (nb', r) := f nb; (RC.withCur c nb', .ok r)
        | some (c, none) => (c, .ok none))
      (match RC.recurIndex ops' load' fixF1 mov c' with
        | none => (c', .err)
        | some (c, some e) =>
          match RC.enter load' c e with
          | none => (c, .err)
          | some (c, nb) => let (nb', r) := f' nb; (RC.withCur c nb', .ok r)
        | some (c, none) => (c, .ok none)) := by
  rcases (recurIndex_sim hops hload fixF1 mov c c' h).cases with ⟨g1, g2⟩ | ⟨y, y', g1, g2, hy⟩
  · simp only [g1, g2]; exact ⟨h, rfl⟩
  · obtain ⟨c1, r⟩ := y
    obtain ⟨c1', r'⟩ := y'
    obtain ⟨h1, hr⟩ := hy
    simp only at h1 hr
    subst hr
    simp only [g1, g2]
    cases r with
    | none => exact ⟨h1, rfl⟩
    | some e => exact enter_then_sim hload f f' hf c1 c1' e h1

private theorem next_sim (hops : OpsSim ops ops' R) (hload : LoadSim load load' R) (fixF1 : Bool)
    (c : RC β) (c' : RC β') (h : RCRel R c c') :
    StepRel R (c.next ops load fixF1) (c'.next ops' load' fixF1) := by
  unfold RC.next
  rcases h.cur.cases with ⟨g1, g2⟩ | ⟨b, b', g1, g2, hb⟩
  · simp only [g1, g2]; exact first_sim hops hload c c' h
  · simp only [g1, g2]
    obtain ⟨hR, hr⟩ := hops.next b b' hb
    rcases ha : ops.next b with ⟨b1, r1⟩
    rcases ha' : ops'.next b' with ⟨b1', r1'⟩
    simp only [ha, ha'] at hR hr
    subst hr
    cases r1 with
    | some e => exact ⟨withCur_sim h hR, rfl⟩
    | none =>
      exact rel_tail_sim hops hload fixF1 .next ops.first ops'.first hops.first _ _
        (withCur_sim h hR)

private theorem prev_sim (hops : OpsSim ops ops' R) (hload : LoadSim load load' R) (fixF1 : Bool)
    (c : RC β) (c' : RC β') (h : RCRel R c c') :
    StepRel R (c.prev ops load fixF1) (c'.prev ops' load' fixF1) := by
  unfold RC.prev
  rcases h.cur.cases with ⟨g1, g2⟩ | ⟨b, b', g1, g2, hb⟩
  · simp only [g1, g2]; exact last_sim hops hload c c' h
  · simp only [g1, g2]
    obtain ⟨hR, hr⟩ := hops.prev b b' hb
    rcases ha : ops.prev b with ⟨b1, r1⟩
    rcases ha' : ops'.prev b' with ⟨b1', r1'⟩
    simp only [ha, ha'] at hR hr
    subst hr
    cases r1 with
    | some e => exact ⟨withCur_sim h hR, rfl⟩
    | none =>
      exact rel_tail_sim hops hload fixF1 .prev ops.last ops'.last hops.last _ _
        (withCur_sim h hR)

theorem le_sim (hops : OpsSim ops ops' R) (hload : LoadSim load load' R) (fixF1 : Bool)
    (q : Bytes) (c : RC β) (c' : RC β') (h : RCRel R c c') :
    StepRel R (c.le ops load fixF1 q) (c'.le ops' load' fixF1 q) := by
  obtain ⟨h1, h2⟩ := ge_sim hops hload q c c' h
  unfold RC.le
  rcases hg : c.ge ops load q with ⟨c1, r⟩
  rcases hg' : c'.ge ops' load' q with ⟨c1', r'⟩
  simp only [hg, hg'] at h1 h2
  subst h2
  cases r with
  | err => exact ⟨h1, rfl⟩
  | ok r =>
    cases r with
    | some kv =>
      obtain ⟨k, v⟩ := kv
      simp only
      by_cases hk : k = q
      · simp only [hk, if_true]; exact ⟨h1, rfl⟩
      · simp only [hk, if_false]; exact prev_sim hops hload fixF1 c1 c1' h1
    | none =>
      simp only
      obtain ⟨l1, l2⟩ := last_sim hops hload c1 c1' h1
      rcases hl : c1.last ops load with ⟨c2, r2⟩
      rcases hl' : c1'.last ops' load' with ⟨c2', r2'⟩
      simp only [hl, hl'] at l1 l2
      subst l2
      cases r2 with
      | err => exact ⟨l1, rfl⟩
      | ok r => exact ⟨l1, rfl⟩

/-- **Simulation lifting, one step.** -/
theorem RC_step_sim (hops : OpsSim ops ops' R) (hload : LoadSim load load' R) (fixF1 : Bool)
    (c : RC β) (c' : RC β') (h : RCRel R c c') (op : Op) :
    RCRel R (RC.step ops load fixF1 c op).1 (RC.step ops' load' fixF1 c' op).1 ∧
      (RC.step ops load fixF1 c op).2 = (RC.step ops' load' fixF1 c' op).2 := by
  cases op with
  | first => exact first_sim hops hload c c' h
  | last => exact last_sim hops hload c c' h
  | next => exact next_sim hops hload fixF1 c c' h
  | prev => exact prev_sim hops hload fixF1 c c' h
  | ge q => exact ge_sim hops hload q c c' h
  | le q => exact le_sim hops hload fixF1 q c c' h
  | eq q => exact eq_sim hops hload q c c' h
  | reset => exact ⟨⟨h.base, h.levels, h.log, trivial, trivial⟩, rfl⟩
  | current =>
    refine ⟨h, ?_⟩
    simp only [RC.step, RC.current]
    rcases h.cur.cases with ⟨g1, g2⟩ | ⟨b, b', g1, g2, hb⟩
    · simp only [g1, g2]
    · simp only [g1, g2]; exact congrArg Res.ok (hops.current b b' hb)

/-- **Simulation lifting, histories**: related final states, equal result lists. -/
theorem RC_run_sim (hops : OpsSim ops ops' R) (hload : LoadSim load load' R) (fixF1 : Bool) :
    ∀ (hist : List Op) (c : RC β) (c' : RC β'), RCRel R c c' →
      RCRel R (RC.run ops load fixF1 c hist).1 (RC.run ops' load' fixF1 c' hist).1 ∧
        (RC.run ops load fixF1 c hist).2 = (RC.run ops' load' fixF1 c' hist).2 := by
  intro hist
  induction hist with
  | nil => intro c c' h; exact ⟨h, rfl⟩
  | cons op rest ih =>
    intro c c' h
    obtain ⟨h1, h2⟩ := RC_step_sim hops hload fixF1 c c' h op
    obtain ⟨h3, h4⟩ := ih _ _ h1
    simp only [RC.run]
    exact ⟨h3, by rw [h2, h4]⟩

/-- Both sides also perform the same loads, step by step. -/
theorem RC_loadCounts_sim (hops : OpsSim ops ops' R) (hload : LoadSim load load' R) (fixF1 : Bool) :
    ∀ (hist : List Op) (c : RC β) (c' : RC β'), RCRel R c c' →
      RC.loadCounts ops load fixF1 c hist = RC.loadCounts ops' load' fixF1 c' hist := by
  intro hist
  induction hist with
  | nil => intro c c' h; rfl
  | cons op rest ih =>
    intro c c' h
    obtain ⟨h1, -⟩ := RC_step_sim hops hload fixF1 c c' h op
    have := ih _ _ h1
    simp only [RC.loadCounts, RC.runStates, List.map_cons] at this ⊢
    rw [this, h1.log, h.log]

/-- From a freshly opened cursor. -/
theorem RC_run_sim_new (hops : OpsSim ops ops' R) (hload : LoadSim load load' R) (fixF1 : Bool)
    (m : Meta.Meta) (hist : List Op) :
    (RC.run ops load fixF1 (RC.new m) hist).2 = (RC.run ops' load' fixF1 (RC.new m) hist).2 :=
  (RC_run_sim hops hload fixF1 hist _ _ (RCRel_new R m)).2

end

/-! ### A concrete instance: the hypotheses are satisfiable by two genuinely different
implementations (the abstract cursor `LC`, and `LC` instrumented with a move counter). -/

namespace SimExample

/-- `LC` with a counter of the moves performed. -/
def countedOps : BlockOps (LC × Nat) :=
  { current := fun b => b.1.current
    first := fun b => (((LC.first b.1).1, b.2 + 1), (LC.first b.1).2)
    last := fun b => (((LC.last b.1).1, b.2 + 1), (LC.last b.1).2)
    next := fun b => (((LC.next b.1).1, b.2 + 1), (LC.next b.1).2)
    prev := fun b => (((LC.prev b.1).1, b.2 + 1), (LC.prev b.1).2)
    ge := fun b q => (((LC.ge b.1 q).1, b.2 + 1), (LC.ge b.1 q).2) }

def Rc (b : LC) (b' : LC × Nat) : Prop := b = b'.1

theorem countedOps_sim : OpsSim LC.ops countedOps Rc := by
  constructor <;> intros <;> simp_all [Rc, LC.ops, countedOps]

theorem countedLoad_sim (s : Store) :
    LoadSim s.load (fun off => (s.load off).map (fun b => (b, 0))) Rc := by
  intro off
  simp only []
  generalize s.load off = x
  cases x <;> simp [Rc]

/-- Hence both cursors answer every history identically, over every store. -/
example (s : Store) (fixF1 : Bool) (m : Meta.Meta) (hist : List Op) :
    (RC.run LC.ops s.load fixF1 (RC.new m) hist).2 =
      (RC.run countedOps (fun off => (s.load off).map (fun b => (b, 0))) fixF1 (RC.new m) hist).2 :=
  RC_run_sim_new countedOps_sim (countedLoad_sim s) fixF1 m hist

end SimExample

end Grenad
