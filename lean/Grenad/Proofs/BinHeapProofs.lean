/-
  Grenad.Proofs.BinHeapProofs — the array-based binary heap of Grenad.Model.BinHeap implements the
  list specification of Grenad.Model.Merger (`heapMin` / `heapPop`), and the merger running on it
  (`MergerH`) is simulated by the list merger (`Merger`).

  1. order facts about `MSrc.before` (`ple a b` = "`a` pops no later than `b`" = `¬ b.before a`,
     a total preorder whatever the entries);
  2. `sift_up` / `sift_down_to_bottom`: size, permutation, and the heap order (`ArrOrdered`), via
     the usual "ordered except at the hole" invariants `Except` / `Up`;
  3. `BinHeap.push` / `pop` / `peek`: `HeapOrdered` and the multiset are preserved; the root is a
     least element; with pairwise distinct `(key, idx)` pairs `peek = heapMin` and `pop` is
     `heapPop` up to a permutation of the remainder (`binheap_pop_spec`);
  4. simulation: `popSameH`, `advanceH`, `startH`, `nextH`, `collectH`, `runH`.

  All helpers live in namespace `Grenad.BinHeapP`.
-/
import Grenad.Model.BinHeap
import Grenad.Proofs.Wave3Sorter

set_option autoImplicit false

namespace Grenad.BinHeapP
open Grenad Grenad.Wave3

/-! ### 1. The order -/

/-- `a` pops no later than `b` (Rust: `b <= a` for `Entry::cmp`): the negation of `b.before a`.
    A total preorder on all heap entries (no distinctness needed). -/
def ple (a b : MSrc) : Prop := b.before a = false

theorem ple_of_before {a b : MSrc} (h : a.before b = true) : ple a b := by
  unfold ple
  cases hb : b.before a with
  | false => rfl
  | true => exact absurd hb (before_asymm h)

theorem ple_of_not_before {a b : MSrc} (h : ¬ a.before b = true) : ple b a := by
  unfold ple; simpa using h

theorem ple_refl (a : MSrc) : ple a a := by
  unfold ple
  cases hb : a.before a with
  | false => rfl
  | true => exact absurd hb (before_asymm hb)

theorem ple_trans {a b c : MSrc} (h1 : ple a b) (h2 : ple b c) : ple a c := by
  unfold ple at *
  rw [Bool.eq_false_iff, ne_eq, before_iff] at *
  have := @blt_tri
  have := @blt_trans
  have := blt_irrefl
  grind

/-- On entries with distinct `(key, idx)` pairs `MSrc.before` is a strict total order:
    irreflexive, transitive, and any two different-pair entries are comparable. -/
theorem before_strict_total :
    (∀ a : MSrc, ¬ a.before a = true) ∧
    (∀ a b c : MSrc, a.before b = true → b.before c = true → a.before c = true) ∧
    (∀ a b : MSrc, (a.key, a.idx) ≠ (b.key, b.idx) → a.before b = true ∨ b.before a = true) := by
  refine ⟨fun a h => before_asymm h h, fun a b c => before_trans, fun a b hne => ?_⟩
  by_cases h : a.before b = true
  · exact Or.inl h
  · exact Or.inr (before_total' (fun e1 e2 => hne (by rw [e1, e2])) h)

/-! ### 2. The sift loops -/

/-- `j` is a child of `i` in the implicit binary tree. -/
def Child (i j : Nat) : Prop := j = 2 * i + 1 ∨ j = 2 * i + 2

/-- The heap order on the backing array: every parent pops no later than its children. -/
def ArrOrdered (a : Array MSrc) : Prop :=
  ∀ i j (hi : i < a.size) (hj : j < a.size), Child i j → ple a[i] a[j]

/-- Ordered except around position `p` (the hole): all parent/child pairs not involving `p` are in
    order, and the parent of `p` pops no later than the children of `p`. -/
def Except (a : Array MSrc) (p : Nat) : Prop :=
  (∀ i j (hi : i < a.size) (hj : j < a.size), Child i j → i ≠ p → j ≠ p → ple a[i] a[j]) ∧
  (∀ i k (hi : i < a.size) (hk : k < a.size), Child i p → Child p k → ple a[i] a[k])

/-- Ordered except between `p` and its parent (`sift_up`'s precondition). -/
def Up (a : Array MSrc) (p : Nat) : Prop :=
  Except a p ∧ ∀ k (hp : p < a.size) (hk : k < a.size), Child p k → ple a[p] a[k]

theorem up_swap {a : Array MSrc} {p q : Nat} (hp : p < a.size) (hq : q < a.size) (hc : Child q p)
    (hU : Up a p) (hb : a[p].before a[q] = true) : Up (a.swap p q hp hq) q := by
  obtain ⟨⟨h1, h2⟩, h3⟩ := hU
  have hle := ple_of_before hb
  refine ⟨⟨?_, ?_⟩, ?_⟩
  · intro i j hi hj hcij hiq hjq
    simp only [Array.size_swap] at hi hj
    simp only [Array.getElem_swap]
    unfold Child at *
    have := @ple_trans
    grind
  · intro i k hi hk hciq hcqk
    simp only [Array.size_swap] at hi hk
    simp only [Array.getElem_swap]
    unfold Child at *
    have := @ple_trans
    grind
  · intro k hq' hk hcqk
    simp only [Array.size_swap] at hk
    simp only [Array.getElem_swap]
    unfold Child at *
    have := @ple_trans
    grind


open BinHeap

theorem child_parent {p : Nat} (hp : 0 < p) : Child ((p - 1) / 2) p := by
  unfold Child; omega

theorem siftUpLoop_size (fuel : Nat) (a : Array MSrc) (p : Nat) :
    (siftUpLoop fuel a p).size = a.size := by
  fun_induction siftUpLoop fuel a p with
  | case1 => rfl
  | case2 fuel a p h parent hb ih => rw [ih, Array.size_swap]
  | case3 => rfl
  | case4 => rfl

theorem siftUp_size (a : Array MSrc) (p : Nat) : (siftUp a p).size = a.size :=
  siftUpLoop_size _ _ _

theorem siftUpLoop_perm (fuel : Nat) (a : Array MSrc) (p : Nat) :
    (siftUpLoop fuel a p).Perm a := by
  fun_induction siftUpLoop fuel a p with
  | case1 => exact Array.Perm.refl _
  | case2 fuel a p h parent hb ih => exact ih.trans (Array.swap_perm _ _)
  | case3 => exact Array.Perm.refl _
  | case4 => exact Array.Perm.refl _

theorem siftUp_perm (a : Array MSrc) (p : Nat) : (siftUp a p).Perm a := siftUpLoop_perm _ _ _

theorem ordered_of_up_le {a : Array MSrc} {p q : Nat} (hp : p < a.size) (hq : q < a.size)
    (hc : Child q p) (hU : Up a p) (hle : ple a[q] a[p]) : ArrOrdered a := by
  obtain ⟨⟨h1, h2⟩, h3⟩ := hU
  intro i j hi hj hcij
  unfold Child at *
  grind

theorem ordered_of_up_root {a : Array MSrc} {p : Nat} (hp : ¬ (0 < p ∧ p < a.size))
    (hU : Up a p) : ArrOrdered a := by
  obtain ⟨⟨h1, h2⟩, h3⟩ := hU
  intro i j hi hj hcij
  unfold Child at *
  grind

theorem siftUpLoop_ordered (fuel : Nat) (a : Array MSrc) (p : Nat) (hf : p ≤ fuel)
    (hU : Up a p) : ArrOrdered (siftUpLoop fuel a p) := by
  fun_induction siftUpLoop fuel a p with
  | case1 a p => exact ordered_of_up_root (by omega) hU
  | case2 fuel a p h parent hb ih =>
    exact ih (by omega) (up_swap h.2 _ (child_parent h.1) hU hb)
  | case3 fuel a p h parent hb =>
    exact ordered_of_up_le h.2 (by omega) (child_parent h.1) hU (ple_of_not_before hb)
  | case4 fuel a p h => exact ordered_of_up_root h hU

/-- `sift_up` repairs a heap that is ordered except between `p` and its parent. -/
theorem siftUp_ordered (a : Array MSrc) (p : Nat) (hU : Up a p) : ArrOrdered (siftUp a p) :=
  siftUpLoop_ordered _ _ _ (Nat.le_refl _) hU

theorem except_swap_down {a : Array MSrc} {p c : Nat} (hp : p < a.size) (hc : c < a.size)
    (hpc : Child p c) (hE : Except a p)
    (hmax : ∀ k (hk : k < a.size), Child p k → ple a[c] a[k]) : Except (a.swap p c hp hc) c := by
  obtain ⟨h1, h2⟩ := hE
  refine ⟨?_, ?_⟩
  · intro i j hi hj hcij hiq hjq
    simp only [Array.size_swap] at hi hj
    simp only [Array.getElem_swap]
    unfold Child at *
    grind
  · intro i k hi hk hciq hcqk
    simp only [Array.size_swap] at hi hk
    simp only [Array.getElem_swap]
    unfold Child at *
    grind

theorem up_of_except_leaf {a : Array MSrc} {p : Nat} (hE : Except a p)
    (hleaf : a.size ≤ 2 * p + 1) : Up a p := by
  refine ⟨hE, ?_⟩
  intro k hp hk hc
  unfold Child at hc
  omega

theorem siftDownLoop_size (fuel : Nat) (a : Array MSrc) (p : Nat) :
    (siftDownLoop fuel a p).size = a.size := by
  fun_induction siftDownLoop fuel a p <;> simp_all [siftUp_size]

theorem siftDown_size (a : Array MSrc) (p : Nat) : (siftDownToBottom a p).size = a.size :=
  siftDownLoop_size _ _ _

theorem siftDownLoop_perm (fuel : Nat) (a : Array MSrc) (p : Nat) :
    (siftDownLoop fuel a p).Perm a := by
  fun_induction siftDownLoop fuel a p with
  | case1 => exact Array.Perm.refl _
  | case2 fuel a p h child h2 c ih => exact ih.trans (Array.swap_perm _ _)
  | case3 fuel a p h child h2 h1 => exact (siftUp_perm _ _).trans (Array.swap_perm _ _)
  | case4 => exact siftUp_perm _ _
  | case5 => exact Array.Perm.refl _

theorem siftDown_perm (a : Array MSrc) (p : Nat) : (siftDownToBottom a p).Perm a :=
  siftDownLoop_perm _ _ _

theorem ordered_of_except_out {a : Array MSrc} {p : Nat} (hp : a.size ≤ p) (hE : Except a p) :
    ArrOrdered a := by
  intro i j hi hj hc
  exact hE.1 i j hi hj hc (by omega) (by omega)

theorem siftDownLoop_ordered (fuel : Nat) (a : Array MSrc) (p : Nat) (hf : a.size - p ≤ fuel)
    (hE : Except a p) : ArrOrdered (siftDownLoop fuel a p) := by
  fun_induction siftDownLoop fuel a p with
  | case1 a p => exact ordered_of_except_out (by omega) hE
  | case2 fuel a p h child h2 c ih =>
    refine ih ?_ (except_swap_down h _ ?_ hE ?_)
    · simp only [Array.size_swap, c, child]; split <;> omega
    · simp only [c, child, Child]; split <;> simp
    · intro k hk hck
      simp only [c, child]
      unfold Child at hck
      split
      · rename_i hb
        rcases hck with rfl | rfl
        · exact ple_refl _
        · exact ple_of_before hb
      · rename_i hb
        rcases hck with rfl | rfl
        · exact ple_of_not_before hb
        · exact ple_refl _
  | case3 fuel a p h child h2 h1 =>
    refine siftUp_ordered _ _ (up_of_except_leaf (except_swap_down h _ ?_ hE ?_) ?_)
    · simp [child, Child]
    · intro k hk hck
      unfold Child at hck
      have : k = child := by omega
      subst this
      exact ple_refl _
    · simp only [Array.size_swap]; omega
  | case4 fuel a p h child h2 h1 =>
    exact siftUp_ordered _ _ (up_of_except_leaf hE (by omega))
  | case5 fuel a p h => exact ordered_of_except_out (by omega) hE

/-- `sift_down_to_bottom` repairs a heap that is ordered except around `p`. -/
theorem siftDown_ordered (a : Array MSrc) (p : Nat) (hE : Except a p) :
    ArrOrdered (siftDownToBottom a p) :=
  siftDownLoop_ordered _ _ _ (by omega) hE

/-! ### 3. `BinHeap` -/

/-- The heap invariant: every parent pops no later than its children. -/
def HeapOrdered (h : BinHeap) : Prop := ArrOrdered h.data

theorem empty_ordered : HeapOrdered BinHeap.empty := by
  intro i j hi hj _
  simp [BinHeap.empty] at hi

@[simp] theorem empty_toList : BinHeap.empty.toList = [] := rfl

theorem size_eq_length (h : BinHeap) : h.size = h.toList.length := by
  simp [BinHeap.size, BinHeap.toList]

/-- In an ordered heap the root pops no later than any element. -/
theorem root_le {a : Array MSrc} (ho : ArrOrdered a) : ∀ (j : Nat) (hj : j < a.size),
    ple (a[0]'(by omega)) a[j] := by
  intro j
  induction j using Nat.strongRecOn with
  | _ j ih =>
    intro hj
    by_cases h0 : j = 0
    · subst h0; exact ple_refl _
    · have hq : (j - 1) / 2 < j := by omega
      exact ple_trans (ih _ hq (by omega)) (ho _ j (by omega) hj (child_parent (by omega)))

/-! #### push -/

theorem push_perm (h : BinHeap) (x : MSrc) : (h.push x).toList.Perm (x :: h.toList) := by
  have := Array.perm_iff_toList_perm.mp (siftUp_perm (h.data.push x) h.data.size)
  refine this.trans ?_
  simp only [Array.toList_push, BinHeap.toList]
  exact List.perm_append_singleton _ _

theorem push_ordered {h : BinHeap} (ho : HeapOrdered h) (x : MSrc) : HeapOrdered (h.push x) := by
  refine siftUp_ordered _ _ ⟨⟨?_, ?_⟩, ?_⟩
  · intro i j hi hj hc hi' hj'
    simp only [Array.size_push] at hi hj
    rw [Array.getElem_push_lt (by omega), Array.getElem_push_lt (by omega)]
    exact ho i j (by omega) (by omega) hc
  · intro i k hi hk _ hc
    simp only [Array.size_push] at hk
    unfold Child at hc; omega
  · intro k _ hk hc
    simp only [Array.size_push] at hk
    unfold Child at hc; omega

/-! #### pop -/

theorem pop_eq_none {h : BinHeap} : h.pop = none ↔ h.toList = [] := by
  unfold BinHeap.pop BinHeap.toList
  cases hb : h.data.back? with
  | none =>
    rw [Array.back?_eq_none_iff] at hb
    simp [hb]
  | some item =>
    obtain ⟨ys, hys⟩ := Array.back?_eq_some_iff.mp hb
    simp only [hys]
    constructor
    · intro e; split at e <;> cases e
    · intro e; simp at e

/-- What `pop` returns on an ordered heap: the root, and an ordered heap holding the other
    elements. -/
theorem pop_some {h h' : BinHeap} {m : MSrc} (ho : HeapOrdered h) (hp : h.pop = some (m, h')) :
    h.data[0]? = some m ∧ h.toList.Perm (m :: h'.toList) ∧ HeapOrdered h' := by
  unfold BinHeap.pop at hp
  cases hb : h.data.back? with
  | none => rw [hb] at hp; cases hp
  | some item =>
    obtain ⟨ys, hys⟩ := Array.back?_eq_some_iff.mp hb
    rw [hb] at hp
    simp only [hys, Array.pop_push] at hp
    unfold HeapOrdered at ho
    simp only [BinHeap.toList, hys] at ho ⊢
    split at hp
    · rename_i hd
      simp only [Option.some.injEq, Prod.mk.injEq] at hp
      obtain ⟨rfl, rfl⟩ := hp
      refine ⟨?_, ?_, ?_⟩
      · rw [Array.getElem?_push]; simp [hd, Nat.ne_of_lt hd]
      · have hperm := Array.perm_iff_toList_perm.mp (siftDown_perm (ys.set 0 item hd) 0)
        refine List.Perm.trans ?_ (hperm.symm.cons _)
        obtain ⟨l⟩ := ys
        cases l with
        | nil => simp at hd
        | cons y t =>
          simp only [List.push_toArray, List.getElem_toArray, List.getElem_cons_zero,
            List.set_toArray, List.set_cons_zero, List.cons_append]
          exact (List.perm_append_singleton _ _).cons _
      · refine siftDown_ordered _ _ ⟨?_, ?_⟩
        · intro i j hi hj hc hi' hj'
          simp only [Array.size_set] at hi hj
          rw [Array.getElem_set_ne _ _ (Ne.symm hi'), Array.getElem_set_ne _ _ (Ne.symm hj')]
          have := ho i j (by simp; omega) (by simp; omega) hc
          rw [Array.getElem_push_lt hi, Array.getElem_push_lt hj] at this
          exact this
        · intro i k _ _ hc _
          unfold Child at hc; omega
    · rename_i hd
      simp only [Option.some.injEq, Prod.mk.injEq] at hp
      obtain ⟨rfl, rfl⟩ := hp
      have : ys = #[] := by
        apply Array.eq_empty_of_size_eq_zero; omega
      subst this
      refine ⟨by simp, by simp, ?_⟩
      intro i j hi _ _
      simp at hi


/-! #### peek, and the specification of pop -/

theorem peek_eq_none {h : BinHeap} : h.peek = none ↔ h.toList = [] := by
  unfold BinHeap.peek BinHeap.toList
  rw [Array.getElem?_eq_none_iff]
  constructor
  · intro hs; exact Array.toList_eq_nil_iff.mpr (Array.eq_empty_of_size_eq_zero (by omega))
  · intro hs; rw [Array.toList_eq_nil_iff] at hs; simp [hs]

/-- The root of an ordered heap is an element that pops no later than any other. -/
theorem peek_le {h : BinHeap} (ho : HeapOrdered h) {r : MSrc} (hp : h.peek = some r) :
    r ∈ h.toList ∧ ∀ x ∈ h.toList, ple r x := by
  unfold BinHeap.peek at hp
  obtain ⟨h0, rfl⟩ := Array.getElem?_eq_some_iff.mp hp
  refine ⟨by simp [BinHeap.toList], ?_⟩
  intro x hx
  simp only [BinHeap.toList, Array.mem_toList_iff] at hx
  obtain ⟨j, hj, rfl⟩ := Array.mem_iff_getElem.mp hx
  exact root_le ho j hj

/-- `peek` = `heapMin` (pairwise distinct `(key, idx)` pairs). -/
theorem peek_eq_heapMin {h : BinHeap} (ho : HeapOrdered h) (hne : KeyIdxNe h.toList) :
    h.peek = heapMin h.toList := by
  cases hm : heapMin h.toList with
  | none => exact peek_eq_none.mpr (heapMin_eq_none.mp hm)
  | some m =>
    cases hp : h.peek with
    | none =>
      rw [peek_eq_none.mp hp] at hm
      simp [heapMin] at hm
    | some r =>
      obtain ⟨hr, hle⟩ := peek_le ho hp
      obtain ⟨hmem, hall⟩ := heapMin_spec' hne hm
      rcases hall r hr with e | hb
      · rw [e]
      · have := hle m hmem
        unfold ple at this
        rw [this] at hb
        cases hb

/-- **The binary heap implements the specification.**  On an ordered heap with pairwise distinct
    `(key, idx)` pairs, `pop` returns `none` exactly when `heapPop` on the element list does;
    otherwise it returns the very element `heapPop` selects, and an ordered heap whose elements
    are a permutation of `heapPop`'s remainder. -/
theorem binheap_pop_spec {h : BinHeap} (ho : HeapOrdered h) (hne : KeyIdxNe h.toList) :
    (h.pop = none ∧ heapPop h.toList = none) ∨
    ∃ m h' r, h.pop = some (m, h') ∧ heapPop h.toList = some (m, r) ∧ h'.toList.Perm r ∧
      HeapOrdered h' ∧ KeyIdxNe r ∧ r.length + 1 = h.toList.length ∧ h.peek = some m := by
  cases hp : h.pop with
  | none =>
    left
    exact ⟨rfl, heapPop_eq_none.mpr (pop_eq_none.mp hp)⟩
  | some p =>
    right
    obtain ⟨m, h'⟩ := p
    obtain ⟨hroot, hperm, ho'⟩ := pop_some ho hp
    have hpk : heapMin h.toList = some m := by
      rw [← peek_eq_heapMin ho hne]; exact hroot
    refine ⟨m, h', h.toList.erase m, rfl, by simp [heapPop, hpk], ?_, ho',
      hne.sublist List.erase_sublist, ?_, hroot⟩
    · have := hperm.erase m
      rw [List.erase_cons_head] at this
      exact this.symm
    · have hmem := (heapMin_spec' hne hpk).1
      have := (List.perm_cons_erase hmem).length_eq
      simp only [List.length_cons] at this
      omega

/-! ### 4. Simulation of the list merger -/

/-- `pop` on the binary heap against `heapPop` on ANY list holding the same elements. -/
theorem pop_sim {h : BinHeap} {l : List MSrc} (ho : HeapOrdered h) (hne : KeyIdxNe l)
    (hp : h.toList.Perm l) :
    (h.pop = none ∧ h.peek = none ∧ heapPop l = none) ∨
    ∃ m h' r, h.pop = some (m, h') ∧ h.peek = some m ∧ heapPop l = some (m, r) ∧
      h'.toList.Perm r ∧ HeapOrdered h' ∧ KeyIdxNe r ∧ r.length + 1 = l.length := by
  have hne' : KeyIdxNe h.toList := hne.perm hp.symm
  rcases binheap_pop_spec ho hne' with ⟨e1, e2⟩ | ⟨m, h', r, e1, e2, hr, ho', _, _, hpk⟩
  · left
    have hnil := heapPop_eq_none.mp e2
    refine ⟨e1, peek_eq_none.mpr hnil, heapPop_eq_none.mpr ?_⟩
    rw [hnil] at hp
    exact hp.nil_eq.symm
  · right
    rcases heapPop_perm hne' hp with ⟨e3, _⟩ | ⟨m2, r2, r2', e3, e4, hr2, hner2, hlen⟩
    · rw [e3] at e2; cases e2
    · rw [e3] at e2
      simp only [Option.some.injEq, Prod.mk.injEq] at e2
      obtain ⟨rfl, rfl⟩ := e2
      refine ⟨m2, h', r2', e1, hpk, e4, hr.trans hr2, ho', hner2.perm hr2, ?_⟩
      rw [← hr2.length_eq, hlen, hp.length_eq]

/-- The `peek`/`pop` loop on the binary heap collects the same entries in the same order as
    `popSame` on any list holding the same elements. -/
theorem popSameH_sim (k : Bytes) : ∀ (fuel : Nat) (h : BinHeap) (l acc : List MSrc),
    HeapOrdered h → KeyIdxNe l → h.toList.Perm l →
    (popSameH k fuel h acc).1 = (popSame k fuel l acc).1 ∧
    (popSameH k fuel h acc).2.toList.Perm (popSame k fuel l acc).2 ∧
    HeapOrdered (popSameH k fuel h acc).2 := by
  intro fuel
  induction fuel with
  | zero => intro h l acc ho _ hp; exact ⟨rfl, hp, ho⟩
  | succ fuel ih =>
    intro h l acc ho hne hp
    simp only [popSameH, popSame]
    rcases pop_sim ho hne hp with ⟨e1, e2, e3⟩ | ⟨m, h', r, e1, e2, e3, hr, ho', hner, _⟩
    · rw [e2, e3]; exact ⟨rfl, hp, ho⟩
    · rw [e2, e3]
      simp only
      by_cases hk : m.key = k
      · simp only [hk, if_true, e1]
        exact ih h' r (m :: acc) ho' hner hr
      · simp only [hk, if_false]
        exact ⟨trivial, hp, ho⟩

theorem advanceH_sim {h : BinHeap} {l : List MSrc} (ho : HeapOrdered h) (hp : h.toList.Perm l)
    (s : MSrc) : HeapOrdered (advanceH h s) ∧ (advanceH h s).toList.Perm (advance l s) := by
  obtain ⟨i, rest⟩ := s
  match rest with
  | [] => exact ⟨ho, hp⟩
  | [_] => exact ⟨ho, hp⟩
  | _ :: e :: more => exact ⟨push_ordered ho _, (push_perm h _).trans (hp.cons _)⟩

theorem foldl_advanceH_sim (F : List MSrc) : ∀ (h : BinHeap) (l : List MSrc), HeapOrdered h →
    h.toList.Perm l →
    HeapOrdered (F.foldl advanceH h) ∧ (F.foldl advanceH h).toList.Perm (F.foldl advance l) := by
  induction F with
  | nil => intro h l ho hp; exact ⟨ho, hp⟩
  | cons s F ih =>
    intro h l ho hp
    simp only [List.foldl_cons]
    obtain ⟨h1, h2⟩ := advanceH_sim ho hp s
    exact ih _ _ h1 h2

theorem startH_go_sim (ss : List (List Entry)) : ∀ (i : Nat) (h : BinHeap), HeapOrdered h →
    HeapOrdered (MergerH.startH.go i ss h) ∧
    (MergerH.startH.go i ss h).toList.Perm (Merger.start.go i ss ++ h.toList) := by
  induction ss with
  | nil => intro i h ho; exact ⟨ho, by simp [MergerH.startH.go, Merger.start.go]⟩
  | cons s ss ih =>
    intro i h ho
    cases s with
    | nil => simpa only [MergerH.startH.go, Merger.start.go] using ih (i + 1) h ho
    | cons e es =>
      simp only [MergerH.startH.go, Merger.start.go]
      obtain ⟨h1, h2⟩ := ih (i + 1) _ (push_ordered ho ⟨i, e :: es⟩)
      refine ⟨h1, h2.trans ?_⟩
      refine ((push_perm h _).append_left _).trans ?_
      simp only [List.cons_append]
      exact List.perm_middle

/-- The initial binary heap is ordered and holds the entries of the initial list heap. -/
theorem startH_sim (sources : List (List Entry)) :
    HeapOrdered (MergerH.startH sources).heap ∧
    (MergerH.startH sources).heap.toList.Perm (Merger.start sources).heap ∧
    (MergerH.startH sources).calls = (Merger.start sources).calls := by
  obtain ⟨h1, h2⟩ := startH_go_sim sources 0 BinHeap.empty empty_ordered
  exact ⟨h1, by simpa [MergerH.startH, Merger.start] using h2, rfl⟩

/-- One `MergerIter::next` on the binary heap against one on a list heap holding the same
    entries: same result, same calls, and the new heaps again hold the same entries. -/
theorem nextH_sim (mf : MergeFn) (mh : MergerH) (m : Merger) (ho : HeapOrdered mh.heap)
    (hne : KeyIdxNe m.heap) (hp : mh.heap.toList.Perm m.heap) (hc : mh.calls = m.calls) :
    (MergerH.nextH mf mh).2 = (Merger.next mf m).2 ∧
    HeapOrdered (MergerH.nextH mf mh).1.heap ∧
    (MergerH.nextH mf mh).1.heap.toList.Perm (Merger.next mf m).1.heap ∧
    (MergerH.nextH mf mh).1.calls = (Merger.next mf m).1.calls := by
  rcases pop_sim ho hne hp with ⟨e1, _, e3⟩ | ⟨first, h', r, e1, _, e3, hr, ho', hner, _⟩
  · simp only [MergerH.nextH, Merger.next, e1, e3]
    exact ⟨trivial, ho, hp, hc⟩
  · have hlen : h'.size = r.length := by rw [size_eq_length, hr.length_eq]
    obtain ⟨hs1, hs2, hs3⟩ := popSameH_sim first.key (r.length + 1) h' r [] ho' hner hr
    cases hps : popSameH first.key (r.length + 1) h' [] with
    | mk S h2 =>
      cases hps' : popSame first.key (r.length + 1) r [] with
      | mk S' l2 =>
        rw [hps, hps'] at hs1 hs2
        rw [hps] at hs3
        simp only at hs1 hs2 hs3
        subst hs1
        simp only [MergerH.nextH, Merger.next, e1, e3, hlen, hps, hps', hc]
        cases mf first.key (first.val :: List.map MSrc.val S) with
        | none => exact ⟨rfl, hs3, hs2, rfl⟩
        | some v =>
          obtain ⟨g1, g2⟩ := foldl_advanceH_sim (first :: S) h2 l2 hs3 hs2
          exact ⟨rfl, g1, g2, rfl⟩

/-- Draining: the merger on the binary heap and the merger on a list heap holding the same
    entries give the same output and the same calls. -/
theorem collectH_sim (mf : MergeFn) : ∀ (fuel : Nat) (mh : MergerH) (m : Merger) (acc : List Entry),
    HeapOrdered mh.heap → IdxNe m.heap → mh.heap.toList.Perm m.heap → mh.calls = m.calls →
    (MergerH.collectH mf fuel mh acc).1 = (Merger.collect mf fuel m acc).1 ∧
    (MergerH.collectH mf fuel mh acc).2.calls = (Merger.collect mf fuel m acc).2.calls := by
  intro fuel
  induction fuel with
  | zero => intro mh m acc _ _ _ hc; exact ⟨rfl, hc⟩
  | succ fuel ih =>
    intro mh m acc ho hne hp hc
    obtain ⟨h1, h2, h3, h4⟩ := nextH_sim mf mh m ho (keyIdxNe_of_idxNe hne) hp hc
    have h5 := next_idxNe mf m hne
    simp only [MergerH.collectH, Merger.collect]
    cases hn : MergerH.nextH mf mh with
    | mk mh1 r1 =>
      cases hn' : Merger.next mf m with
      | mk m1 r1' =>
        rw [hn, hn'] at h1 h3 h4
        rw [hn] at h2
        rw [hn'] at h5
        simp only at h1 h2 h3 h4 h5
        subst h1
        match r1 with
        | .ok none => exact ⟨rfl, h4⟩
        | .ok (some e) => exact ih mh1 m1 (e :: acc) h2 h5 h3 h4
        | .mergeErr => exact ⟨rfl, h4⟩

/-- **Whole runs.**  The merger on the array-based binary heap produces the output and the merge
    calls of the merger on the specification heap — for all sources and merge functions. -/
theorem runH_eq_run (mf : MergeFn) (sources : List (List Entry)) :
    (MergerH.runH mf sources).1 = (Merger.run mf sources).1 ∧
    (MergerH.runH mf sources).2.calls = (Merger.run mf sources).2.calls := by
  obtain ⟨h1, h2, h3⟩ := startH_sim sources
  exact collectH_sim mf _ _ _ [] h1 (start_idxNe sources) h2 h3

end Grenad.BinHeapP
