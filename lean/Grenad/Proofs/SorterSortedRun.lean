/-
  Grenad.Proofs.SorterSortedRun — for inputs whose keys arrive in non-decreasing order the stable
  sort of `write_chunk` is the identity, so a run can be evaluated by the kernel (`List.mergeSort`
  is defined by well-founded recursion and does not reduce).  Used for the concrete `example`s.
-/
import Grenad.Proofs.SorterRun

namespace Grenad
namespace Sorter

open Entries

/-- `Sorter.insert` with the pending entries written in insertion order. -/
def insertW (mf : MergeFn) (s : Sorter) (k v : Bytes) : Except SErr Sorter :=
  match s.entries.fits k v with
  | .error t => .error (.trap t)
  | .ok fit =>
    let thresholdExceeded := decide (s.entries.bufLen ≥ s.cfg.budget)
    if fit || (!thresholdExceeded && s.cfg.allowRealloc) then
      match s.entries.insert k v 64 with
      | .error t => .error (.trap t)
      | .ok (e, ev) => .ok { s with entries := e, events := s.events ++ ev }
    else
      match writeChunkWith mf s s.entries.items with
      | .error e => .error e
      | .ok s =>
        match s.entries.insert k v 64 with
        | .error t => .error (.trap t)
        | .ok (e, ev) =>
          let s := { s with entries := e, events := s.events ++ ev }
          if s.chunks.length ≥ s.cfg.maxNb then mergeChunks mf s else .ok s

def finishChunksW (mf : MergeFn) (s : Sorter) : Except SErr Sorter :=
  match writeChunkWith mf s s.entries.items with
  | .error e => .error e
  | .ok s =>
    match s.entries.drop with
    | .error t => .error (.trap t)
    | .ok (e, ev) => .ok { s with entries := e, events := s.events ++ ev }

def insertAllW (mf : MergeFn) : Sorter → List Entry → Except SErr Sorter
  | s, [] => .ok s
  | s, (k, v) :: r =>
    match insertW mf s k v with
    | .error e => .error e
    | .ok s' => insertAllW mf s' r

def programW (mf : MergeFn) (cfg : SCfg) (l : List Entry) (fin : Bool) : Except SErr Sorter :=
  match Sorter.new cfg with
  | .error t => .error (.trap t)
  | .ok s =>
    match insertAllW mf s l with
    | .error e => .error e
    | .ok s => if fin then finishChunksW mf s else .ok s

/-- Keys in non-decreasing order. -/
def KeySorted (l : List Entry) : Prop := l.Pairwise (fun a b => decide (a.1 ≤ b.1) = true)

theorem sortStable_of_sorted {l : List Entry} (h : KeySorted l) : sortStable l = l :=
  List.mergeSort_of_pairwise h

theorem insert_eq_insertW {mf : MergeFn} {s : Sorter} (k v : Bytes)
    (h : KeySorted s.entries.items) : Sorter.insert mf s k v = insertW mf s k v := by
  unfold Sorter.insert insertW writeChunk
  rw [sortStable_of_sorted h]
  cases s.entries.fits k v with
  | error t => rfl
  | ok fit =>
    dsimp only
    split
    · cases s.entries.insert k v 64 with
      | error t => rfl
      | ok r => rfl
    · cases writeChunkWith mf s s.entries.items with
      | error e => rfl
      | ok s1 =>
        dsimp only
        cases s1.entries.insert k v 64 with
        | error t => rfl
        | ok r => rfl

theorem finishChunks_eq_finishChunksW {mf : MergeFn} {s : Sorter}
    (h : KeySorted s.entries.items) : finishChunks mf s = finishChunksW mf s := by
  unfold finishChunks finishChunksW writeChunk
  rw [sortStable_of_sorted h]
  cases writeChunkWith mf s s.entries.items with
  | error e => rfl
  | ok s1 =>
    dsimp only
    cases s1.entries.drop with
    | error t => rfl
    | ok r => rfl

theorem insert_items {mf : MergeFn} {s s' : Sorter} {k v : Bytes} (hinv : Inv s.entries)
    (h : Sorter.insert mf s k v = .ok s') :
    s'.entries.items = s.entries.items ++ [(k, v)] ∨ s'.entries.items = [(k, v)] := by
  rcases insert_cases hinv h with ⟨_, j, _, rfl⟩ | ⟨_, chunk, calls, j, _, hm⟩
  · left; rfl
  · right
    rcases hm with ⟨_, rfl⟩ | ⟨_, merged, calls', rfl⟩ <;> rfl

theorem insertAll_eq_insertAllW {mf : MergeFn} {cfg : SCfg} {P : Bytes → Bytes → Prop}
    {s : Sorter} {sp mg : Nat} (r : Reach mf cfg P s sp mg) (l : List Entry)
    (hP : ∀ kv ∈ l, P kv.1 kv.2) (hs : KeySorted (s.entries.items ++ l)) :
    Sorter.insertAll mf s l = insertAllW mf s l ∧
    ∀ s', Sorter.insertAll mf s l = .ok s' → KeySorted s'.entries.items := by
  induction l generalizing s sp mg with
  | nil =>
    refine ⟨rfl, ?_⟩
    intro s' h
    simp only [Sorter.insertAll, Except.ok.injEq] at h
    subst h; simpa using hs
  | cons kv l ih =>
    obtain ⟨k, v⟩ := kv
    have h1 : KeySorted s.entries.items := (List.pairwise_append.mp hs).1
    simp only [Sorter.insertAll, insertAllW, ← insert_eq_insertW k v h1]
    cases hi : Sorter.insert mf s k v with
    | error e => simp
    | ok s1 =>
      have r1 := r.insert (hP (k, v) (by simp)) hi
      have hs1 : KeySorted (s1.entries.items ++ l) := by
        rcases insert_items r.core.1.inv hi with e | e
        · rw [e]; simpa [List.append_assoc] using hs
        · rw [e]; exact (List.pairwise_append.mp hs).2.1
      exact ih r1 (fun kv hkv => hP kv (by simp [hkv])) hs1

/-- On key-sorted input the run is the kernel-evaluable `programW`. -/
theorem program_eq_programW (mf : MergeFn) (cfg : SCfg) (l : List Entry) (fin : Bool)
    (hs : KeySorted l) : program mf cfg l fin = programW mf cfg l fin := by
  unfold program programW
  cases hn : Sorter.new cfg with
  | error t => rfl
  | ok s0 =>
    have r0 : Reach mf cfg (fun _ _ => True) s0 0 0 := .new hn
    have h0 : s0.entries.items = [] := by obtain ⟨_, _, rfl⟩ := new_ok hn; rfl
    have ⟨e1, e2⟩ := insertAll_eq_insertAllW r0 l (fun _ _ => trivial) (by rw [h0]; exact hs)
    simp only [← e1]
    cases hi : Sorter.insertAll mf s0 l with
    | error e => rfl
    | ok s1 =>
      cases fin with
      | false => rfl
      | true => simp only [if_true]; exact finishChunks_eq_finishChunksW (e2 s1 hi)

end Sorter
end Grenad
