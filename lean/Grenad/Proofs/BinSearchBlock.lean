/-
  Grenad.Proofs.BinSearchBlock — the two in-block searches of `Grenad.Model.Block`
  (`BlockCursor.searchOffsets`, `BlockCursor.searchKey`), which the model defines by their
  `takeWhile` specification, are the results of Rust's `binary_search_by` loops
  (`Grenad.Model.BinSearch`) with the comparisons the crate passes, on every strictly ascending
  table — in particular on every block built by the block writer (`BlockOf`).
-/
import Grenad.Proofs.BinSearchProofs
import Grenad.Proofs.TBlock5

namespace Grenad.BinSearch

open Grenad

/-- `entry_at(off).map(|(key, _, _)| key)`: the key of the entry a table offset designates. -/
def keyAt (b : Block) (off : Nat) : Option Bytes := (b.entryAt off).map (fun (k, _, _) => k)

/-- The comparison of `offsets.binary_search(&x)`: `|p| p.cmp(&x)`. -/
def cmpOff (x : Nat) (o : Nat) : Ordering := compare o x

/-- The comparison of `offsets.binary_search_by_key(&Some(key), |off| entry_at(off).key)`:
    `|off| entry_at(off).key.cmp(&Some(key))`. -/
def cmpKey (b : Block) (key : Bytes) (off : Nat) : Ordering :=
  compareOption cmpBytes (keyAt b off) (some key)

/-- The keys designated by the offset table ascend strictly (`None < Some _`). -/
def TableKeysAsc (b : Block) : Prop :=
  b.offsets.Pairwise (fun o₁ o₂ => Option.lt (· < ·) (keyAt b o₁) (keyAt b o₂))

/-! ### `searchOffsets` -/

theorem cmpOff_mono (x a b : Nat) (hab : a < b) (h : cmpOff x a ≠ .lt) : cmpOff x b = .gt := by
  unfold cmpOff at *
  rw [Nat.compare_eq_gt]
  have : ¬ a < x := fun h' => h (Nat.compare_eq_lt.mpr h')
  omega

theorem searchOffsets_eq_takeWhile (offs : List Nat) (x : Nat) :
    BlockCursor.searchOffsets offs x = (offs.takeWhile (fun o => cmpOff x o == .lt)).length := by
  unfold BlockCursor.searchOffsets
  congr 1
  apply takeWhile_congr'
  intro a _
  unfold cmpOff
  by_cases h : a < x
  · simp [h, Nat.compare_eq_lt.mpr h]
  · have : compare a x ≠ .lt := fun h' => h (Nat.compare_eq_lt.mp h')
    simp [h, this]

/-- On a strictly ascending offset table, what `move_on_prev` computes with
    `offsets.binary_search(&cur).unwrap_or_else(|x| x)` — by either loop of the standard
    library — is the model's `searchOffsets`. -/
theorem searchOffsets_is_binSearch (offs : List Nat) (x : Nat) (h : offs.Pairwise (· < ·)) :
    BlockCursor.searchOffsets offs x = okOrErr (binSearchBy (fun o => compare o x) offs) ∧
    BlockCursor.searchOffsets offs x = okOrErr (binSearchBy' (fun o => compare o x) offs) := by
  obtain ⟨h1, h2⟩ := binSearchBy_strict (cmp := cmpOff x) h (cmpOff_mono x)
  have h3 : BlockCursor.searchOffsets offs x = okOrErr (binSearchBy (cmpOff x) offs) := by
    rw [h1, searchOffsets_eq_takeWhile]
    split
    · split <;> rfl
    · rfl
  exact ⟨h3, by rw [h3, ← h2]; rfl⟩

/-! ### `searchKey` -/

theorem cmpBytes_lt {a b : Bytes} : cmpBytes a b = .lt ↔ a < b := by
  unfold cmpBytes compareOfLessAndEq
  by_cases h : a < b
  · simp [h]
  · by_cases h' : a = b <;> simp [h, h']

theorem cmpBytes_eq {a b : Bytes} : cmpBytes a b = .eq ↔ a = b := by
  unfold cmpBytes compareOfLessAndEq
  by_cases h : a < b
  · have : a ≠ b := fun e => by subst e; exact List.lt_irrefl _ h
    simp [h, this]
  · by_cases h' : a = b <;> simp [h, h']

theorem cmpBytes_gt {a b : Bytes} : cmpBytes a b = .gt ↔ b < a := by
  unfold cmpBytes compareOfLessAndEq
  by_cases h : a < b
  · have : ¬ b < a := fun h' => List.lt_irrefl _ (List.lt_trans h h')
    simp [h, this]
  · by_cases h' : a = b
    · subst h'; simp [h]
    · simp only [h, h', if_false, true_iff]
      rcases List.le_total a b with h1 | h1
      · exact absurd (List.le_antisymm h1 (List.not_lt.mp h)) h'
      · exact List.not_le.mp (fun h2 => h' (List.le_antisymm h2 h1))

theorem cmpKey_mono (b : Block) (key : Bytes) (o₁ o₂ : Nat)
    (hR : Option.lt (· < ·) (keyAt b o₁) (keyAt b o₂)) (h : cmpKey b key o₁ ≠ .lt) :
    cmpKey b key o₂ = .gt := by
  unfold cmpKey at *
  cases h1 : keyAt b o₁ with
  | none => rw [h1] at h; exact absurd rfl h
  | some a =>
    cases h2 : keyAt b o₂ with
    | none => rw [h1, h2] at hR; exact absurd hR (by simp [Option.lt])
    | some c =>
      rw [h1, h2] at hR
      rw [h1] at h
      have hac : a < c := hR
      have hna : ¬ a < key := fun h' => h (cmpBytes_lt.mpr h')
      show cmpBytes c key = .gt
      rw [cmpBytes_gt]
      exact List.lt_of_le_of_lt (List.not_lt.mp hna) hac

theorem keyLt_eq_cmpKey (b : Block) (key : Bytes) (off : Nat) :
    keyLt b key off = (cmpKey b key off == .lt) := by
  unfold keyLt cmpKey keyAt
  cases (b.entryAt off).map (fun (k, _, _) => k) with
  | none => rfl
  | some k =>
    show decide (k < key) = (cmpBytes k key == .lt)
    by_cases h : k < key
    · simp [h, cmpBytes_lt.mpr h]
    · have : cmpBytes k key ≠ .lt := fun h' => h (cmpBytes_lt.mp h')
      simp [h, this]

theorem cmpKey_eq_iff (b : Block) (key : Bytes) (off : Nat) :
    cmpKey b key off = .eq ↔ keyAt b off = some key := by
  unfold cmpKey
  cases keyAt b off with
  | none => simp [compareOption]
  | some k =>
    show cmpBytes k key = .eq ↔ _
    rw [cmpBytes_eq]; simp

/-- On a block whose table keys ascend strictly, the `(found, index)` the model's `searchKey`
    returns is the reading of `offsets.binary_search_by_key(&Some(key), |off| entry_at(off).key)`
    — by either loop of the standard library. -/
theorem searchKey_is_binSearch (b : Block) (key : Bytes) (h : TableKeysAsc b) :
    BlockCursor.searchKey b key = foundAt (binSearchBy (cmpKey b key) b.offsets) ∧
    BlockCursor.searchKey b key = foundAt (binSearchBy' (cmpKey b key) b.offsets) := by
  obtain ⟨h1, h2⟩ := binSearchBy_strict (cmp := cmpKey b key) h (cmpKey_mono b key)
  have h3 : BlockCursor.searchKey b key = foundAt (binSearchBy (cmpKey b key) b.offsets) := by
    rw [h1, searchKey_eq]
    have e : b.offsets.takeWhile (keyLt b key) =
        b.offsets.takeWhile (fun o => cmpKey b key o == .lt) :=
      takeWhile_congr' (fun a _ => keyLt_eq_cmpKey b key a)
    rw [e]
    generalize (b.offsets.takeWhile (fun o => cmpKey b key o == .lt)).length = i
    cases b.offsets[i]? with
    | none => rfl
    | some off =>
      simp only
      by_cases hc : cmpKey b key off = .eq
      · have := (cmpKey_eq_iff b key off).mp hc
        unfold keyAt at this
        simp [hc, this, foundAt]
      · have : ¬ keyAt b off = some key := fun h' => hc ((cmpKey_eq_iff b key off).mpr h')
        unfold keyAt at this
        simp [hc, this, foundAt]
  exact ⟨h3, by rw [h3, ← h2]⟩

/-! ### Blocks built by the block writer -/

section Built
variable {iv : Nat} {es : List Entry} {b : Block}

theorem table_idx_lt (hb : BlockOf iv es b) {i j : Nat} (hij : i < j) (hj : j < b.offsets.length) :
    i * iv < j * iv ∧ j * iv < es.length := by
  have h1 := hb.offs_idx hj
  have h2 : i * iv < j * iv := Nat.mul_lt_mul_of_lt_of_le hij (Nat.le_refl _) hb.iv_pos
  omega

/-- The offset table of a writer-built block ascends strictly. -/
theorem offsets_pairwise_of_blockOf (hb : BlockOf iv es b) : b.offsets.Pairwise (· < ·) := by
  rw [List.pairwise_iff_getElem]
  intro i j hi hj hij
  obtain ⟨h1, h2⟩ := table_idx_lt hb hij hj
  rw [hb.offs_get hi, hb.offs_get hj]
  exact offAt_strictMono es h1 (by omega)

/-- The keys designated by the offset table of a writer-built block ascend strictly. -/
theorem tableKeysAsc_of_blockOf (hb : BlockOf iv es b) : TableKeysAsc b := by
  unfold TableKeysAsc
  rw [List.pairwise_iff_getElem]
  intro i j hi hj hij
  obtain ⟨h1, h2⟩ := table_idx_lt hb hij hj
  rw [hb.offs_get hi, hb.offs_get hj]
  unfold keyAt
  rw [entryAt_offAt hb.payload hb.lens h2, entryAt_offAt hb.payload hb.lens (by omega : i * iv < es.length)]
  exact asc_get hb.asc h1 h2

end Built

/-! ### The cursor operations with the searches spelled out

`prevBS bs` / `leBS bs` are `BlockCursor.prev` / `BlockCursor.le` (`move_on_prev`,
`move_on_key_lower_than_or_equal_to`) with the search performed by the loop `bs`
(`binSearchBy` or `binSearchBy'`) instead of the `takeWhile` specification. -/

def prevBS (bs : (Nat → Ordering) → List Nat → Except Nat Nat) (c : BlockCursor) :
    BlockCursor × Option Entry :=
  match c.off with
  | some cur =>
    let offs := c.block.offsets
    -- offsets.binary_search(&(current_offset as u64)).unwrap_or_else(|x| x)
    let j := okOrErr (bs (fun o => compare o cur) offs)
    if j = 0 then (c, none) else
    match c.block.entryAt cur with
    | none => (c, none)
    | some (curKey, _, _) =>
      let start := offs.getD (j - 1) 0
      let c' := match BlockCursor.scanPrev c.block curKey (c.block.payload.length + 1) start none with
        | some o => { c with off := some o }
        | none => c
      (c', c'.current)
  | none => c.last

def leBS (bs : (Nat → Ordering) → List Nat → Except Nat Nat) (c : BlockCursor) (key : Bytes) :
    BlockCursor × Option Entry :=
  let offs := c.block.offsets
  -- offsets.binary_search_by_key(&Some(key), |off| entry_at(off).map(|(key, _, _)| key))
  let (found, i) := foundAt (bs (cmpKey c.block key) offs)
  let c' :=
    if found then { c with off := some (offs.getD i 0) }
    else if i = 0 then { c with off := none }
    else match offs[i - 1]? with
      | some off => { c with off := BlockCursor.scanLe c.block key (c.block.payload.length + 1) off none }
      | none => { c with off := none }
  (c', c'.current)

theorem prev_eq_prevBS (c : BlockCursor) (h : c.block.offsets.Pairwise (· < ·)) :
    c.prev = prevBS binSearchBy c ∧ c.prev = prevBS binSearchBy' c := by
  unfold BlockCursor.prev prevBS
  cases c.off with
  | none => exact ⟨rfl, rfl⟩
  | some cur =>
    obtain ⟨h1, h2⟩ := searchOffsets_is_binSearch c.block.offsets cur h
    simp only [← h1, ← h2]
    exact ⟨rfl, rfl⟩

theorem le_eq_leBS (c : BlockCursor) (key : Bytes) (h : TableKeysAsc c.block) :
    c.le key = leBS binSearchBy c key ∧ c.le key = leBS binSearchBy' c key := by
  obtain ⟨h1, h2⟩ := searchKey_is_binSearch c.block key h
  unfold BlockCursor.le leBS
  simp only [← h1, ← h2]
  exact ⟨rfl, rfl⟩

end Grenad.BinSearch
