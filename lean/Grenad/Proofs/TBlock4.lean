/-
  T-block, part 3b: the byte-level cursor refines the list cursor `LC`.
-/
import Grenad.Proofs.TBlock3

set_option linter.unusedSimpArgs false

namespace Grenad

/-- The byte-level cursor `c` over block `b` represents the list cursor `l` over `es`. -/
def BRepr (es : List Entry) (b : Block) (c : BlockCursor) (l : LC) : Prop :=
  c.block = b ∧ l.es = es ∧ c.off = l.pos.map (offAt es) ∧ (∀ i, l.pos = some i → i ≤ es.length)

theorem BRepr.cases {es : List Entry} {b : Block} {c : BlockCursor} {l : LC} (h : BRepr es b c l) :
    ∃ pos : Option Nat, c = ⟨b, pos.map (offAt es)⟩ ∧ l = ⟨es, pos⟩ ∧
      ∀ i, pos = some i → i ≤ es.length := by
  obtain ⟨h1, h2, h3, h4⟩ := h
  obtain ⟨cb, co⟩ := c
  obtain ⟨le, lp⟩ := l
  simp only at h1 h2 h3 h4
  subst h1 h2 h3
  exact ⟨lp, rfl, rfl, h4⟩

theorem BRepr.mk' {es : List Entry} {b : Block} (pos : Option Nat)
    (h : ∀ i, pos = some i → i ≤ es.length) :
    BRepr es b ⟨b, pos.map (offAt es)⟩ ⟨es, pos⟩ :=
  ⟨rfl, rfl, rfl, h⟩

theorem BRepr.ofBlock (es : List Entry) (b : Block) :
    BRepr es b (BlockCursor.ofBlock b) (LC.ofList es) :=
  BRepr.mk' none (by simp)

section Ops

variable {iv : Nat} {es : List Entry} {b : Block} {c : BlockCursor} {l : LC}

theorem current_sim (hb : BlockOf iv es b) (h : BRepr es b c l) : c.current = l.current := by
  obtain ⟨pos, rfl, rfl, hpos⟩ := h.cases
  cases pos with
  | none => rfl
  | some i =>
    have hi := hpos i rfl
    simp only [BlockCursor.current, LC.current, Option.map_some,
      entryAt_offAt' hb.payload hb.lens hi, Option.map_map]
    cases es[i]? <;> simp

theorem first_sim (hb : BlockOf iv es b) (h : BRepr es b c l) :
    BRepr es b c.first.1 l.first.1 ∧ c.first.2 = l.first.2 := by
  have h' : BRepr es b c.first.1 l.first.1 := by
    obtain ⟨pos, rfl, rfl, hpos⟩ := h.cases
    simp only [BlockCursor.first, LC.first, hb.offs_head?]
    exact BRepr.mk' (some 0) (by simp)
  exact ⟨h', current_sim hb h'⟩

theorem next_sim (hb : BlockOf iv es b) (h : BRepr es b c l) :
    BRepr es b c.next.1 l.next.1 ∧ c.next.2 = l.next.2 := by
  obtain ⟨pos, rfl, rfl, hpos⟩ := h.cases
  cases pos with
  | none => exact first_sim hb (BRepr.mk' none hpos)
  | some i =>
    have hi := hpos i rfl
    rcases Nat.lt_or_ge i es.length with h' | h'
    · have h2 : BRepr es b ⟨b, some (offAt es (i + 1))⟩ ⟨es, some (i + 1)⟩ :=
        BRepr.mk' (some (i + 1)) (by simp; omega)
      simp only [BlockCursor.next, LC.next, Option.map_some, entryAt_offAt hb.payload hb.lens h',
        h', if_true]
      exact ⟨h2, current_sim hb h2⟩
    · have : i = es.length := by omega
      subst this
      simp only [BlockCursor.next, LC.next, Option.map_some, entryAt_offAt_end hb.payload,
        Nat.lt_irrefl, if_false]
      exact ⟨BRepr.mk' (some es.length) hpos, trivial⟩

theorem last_sim (hb : BlockOf iv es b) (h : BRepr es b c l) :
    BRepr es b c.last.1 l.last.1 ∧ c.last.2 = l.last.2 := by
  obtain ⟨pos, rfl, rfl, hpos⟩ := h.cases
  obtain ⟨s, hs, hs'⟩ := hb.offs_getLast?
  have hfuel := hb.fuel
  have hscan := scanLast_spec hb.payload hb.lens (b.payload.length + 1) s none (by omega) (by omega)
  simp only [BlockCursor.last, LC.last, hs, hscan]
  rcases Nat.eq_zero_or_pos es.length with h0 | h0
  · have he : es = [] := List.eq_nil_of_length_eq_zero h0
    subst he
    have h2 : BRepr [] b ⟨b, pos.map (offAt [])⟩ ⟨[], pos⟩ := BRepr.mk' pos hpos
    have hc := current_sim hb h2
    have : (LC.mk [] pos).current = none := by
      cases pos <;> simp [LC.current]
    simp
    exact ⟨h2, by rw [hc, this]⟩
  · have hlt : s < es.length := by omega
    have hne : es.isEmpty = false := by
      cases es with
      | nil => simp at h0
      | cons _ _ => rfl
    have h2 : BRepr es b ⟨b, some (offAt es (es.length - 1))⟩ ⟨es, some (es.length - 1)⟩ :=
      BRepr.mk' (some (es.length - 1)) (by simp)
    simp only [hlt, if_true, hne, Bool.false_eq_true, if_false]
    exact ⟨h2, current_sim hb h2⟩

theorem searchOffsets_spec (hb : BlockOf iv es b) {i : Nat} (hi : i ≤ es.length) :
    (BlockCursor.searchOffsets b.offsets (offAt es i) = 0 ↔ i = 0) ∧
    BlockCursor.searchOffsets b.offsets (offAt es i) ≤ b.offsets.length ∧
    (0 < BlockCursor.searchOffsets b.offsets (offAt es i) →
      (BlockCursor.searchOffsets b.offsets (offAt es i) - 1) * iv < i) := by
  unfold BlockCursor.searchOffsets
  obtain ⟨s0, s1, s2⟩ := takeWhile_spec (fun x => decide (x < offAt es i)) b.offsets
  generalize (List.takeWhile (fun x => decide (x < offAt es i)) b.offsets).length = j at s0 s1 s2
  have hpos := hb.offs_pos
  refine ⟨⟨?_, ?_⟩, s0, ?_⟩
  · intro hj
    subst hj
    have := s2 hpos
    rw [hb.offs_get hpos] at this
    simp at this
    have := le_offAt es hi
    omega
  · intro h0
    subst h0
    rcases Nat.eq_zero_or_pos j with h | h
    · exact h
    · have := s1 0 h hpos
      simp at this
  · intro hj
    have hlt : j - 1 < b.offsets.length := by omega
    have := s1 (j - 1) (by omega) hlt
    rw [hb.offs_get hlt] at this
    simp at this
    have hidx := hb.offs_idx hlt
    exact (offAt_lt_iff es (by omega) hi).mp this

theorem prev_sim (hb : BlockOf iv es b) (h : BRepr es b c l) :
    BRepr es b c.prev.1 l.prev.1 ∧ c.prev.2 = l.prev.2 := by
  obtain ⟨pos, rfl, rfl, hpos⟩ := h.cases
  cases pos with
  | none => exact last_sim hb (BRepr.mk' none hpos)
  | some i =>
    have hi := hpos i rfl
    obtain ⟨j0, jle, jlt⟩ := searchOffsets_spec hb hi
    have hsame : BRepr es b ⟨b, some (offAt es i)⟩ ⟨es, some i⟩ := BRepr.mk' (some i) hpos
    simp only [BlockCursor.prev, LC.prev, Option.map_some]
    by_cases hi0 : i = 0
    · have hj := j0.mpr hi0
      subst hi0
      simp only [hj, if_true, true_or]
      exact ⟨hsame, trivial⟩
    · have hj : ¬ BlockCursor.searchOffsets b.offsets (offAt es i) = 0 := fun h => hi0 (j0.mp h)
      simp only [hj, if_false]
      rcases Nat.lt_or_ge i es.length with h' | h'
      · have hcond : ¬ (i = 0 ∨ es.length ≤ i) := by omega
        have hjp : 0 < BlockCursor.searchOffsets b.offsets (offAt es i) := by omega
        have hlt : BlockCursor.searchOffsets b.offsets (offAt es i) - 1 < b.offsets.length := by
          omega
        have hstart : b.offsets.getD (BlockCursor.searchOffsets b.offsets (offAt es i) - 1) 0
            = offAt es ((BlockCursor.searchOffsets b.offsets (offAt es i) - 1) * iv) := by
          rw [List.getD_eq_getElem?_getD, hb.offs_get? hlt]; rfl
        have hfuel := hb.fuel
        have hscan := scanPrev_spec hb.payload hb.lens hb.asc h' (b.payload.length + 1)
          ((BlockCursor.searchOffsets b.offsets (offAt es i) - 1) * iv) none
          (Nat.le_of_lt (jlt hjp)) (by omega)
        have h2 : BRepr es b ⟨b, some (offAt es (i - 1))⟩ ⟨es, some (i - 1)⟩ :=
          BRepr.mk' (some (i - 1)) (by simp; omega)
        simp only [entryAt_offAt hb.payload hb.lens h', hstart, hscan, jlt hjp, if_true, hcond,
          if_false]
        exact ⟨h2, current_sim hb h2⟩
      · have : i = es.length := by omega
        subst this
        simp only [entryAt_offAt_end hb.payload, Nat.le_refl, or_true, if_true]
        exact ⟨hsame, trivial⟩

end Ops

end Grenad
