/-
  Grenad.Proofs.Wave3Sorter — assembly lemmas joining the merger / sorter developments
  (C06, C07, C08, C17) with the byte-level round trip (C01).

  * `RoundTrips cd cfg es`: "writing `es` with `(cd, cfg)` succeeds, and the file scans back to
    `es`" — the conclusion of `C01_roundtrip`, packaged; `roundTrips` proves it for every
    admissible configuration and strictly ascending `es` of admissible sizes.
  * `run_isSome_of_total`: with a merge function that never fails `Merger.run` returns a result
    on ANY sources (discharges the hypothesis `hrun` of `C17_total`).
  * `Inserted mf cfg kvs s`: `s` is reached by `Sorter.new cfg` and the successful inserts of
    `kvs`, in order.  Content invariants of such states (`inserted_shape`, `inserted_keys`,
    `inserted_content`), in particular: every chunk is `G mf' S` for some `S`, hence strictly
    ascending.
  * `finish` is `finishChunks` followed by the merge of the chunks (`finish_iff`), and
    `runAllI` (inserts then `finish`) is `Sorter.program … true` followed by that merge
    (`runAllI_eq_program`).
  * `next_perm`: `Merger.next` does not depend on the order of the heap list.
-/
import Grenad.Props.C01
import Grenad.Proofs.SorterSteps
import Grenad.Proofs.SorterSortedRun

namespace Grenad.Wave3

open Grenad Grenad.Assembly Grenad.Props.C01

/-! ### A. The byte-level round trip, packaged -/

/-- The configuration hypotheses of `C01_roundtrip`: lawful codec with a known id, at most 255
    index levels, index key interval at least 1.  Any block size. -/
structure Admissible (cd : Codec) (cfg : WCfg) : Prop where
  lawful : cd.Lawful
  id : cd.id ≤ 5
  levels : cfg.levels ≤ 255
  interval : 1 ≤ cfg.interval

/-- The size hypotheses of `C01_roundtrip` on the input. -/
structure SizesOk (es : List Entry) : Prop where
  lens : ∀ e ∈ es, e.1.length < 2 ^ 32 ∧ e.2.length < 2 ^ 32
  count : es.length < 2 ^ 64

/-- The entries a list of cursor results carries. -/
def yielded (rs : List Res) : List Entry :=
  rs.filterMap (fun r => match r with
    | .ok (some e) => some e
    | _ => none)

theorem yielded_scan (es : List Entry) :
    yielded (es.map (fun e => Res.ok (some e)) ++ [Res.ok none]) = es := by
  induction es with
  | nil => rfl
  | cons e r ih =>
    simp only [yielded, List.map_cons, List.cons_append, List.filterMap_cons] at ih ⊢
    rw [ih]

/-- Writing `es` with `(cd, cfg)` succeeds; and if the output is smaller than `2^64` bytes and
    every block smaller than `2^32` bytes (the two output-size side conditions of
    `C01_roundtrip`), the file opens, reports `es.length` entries and the codec, `next()` ×
    `(n+1)` from the fresh cursor returns exactly `es` in order and then `None`, and `prev()` ×
    `(n+1)` returns `es` reversed and then `None`. -/
def RoundTrips (cd : Codec) (cfg : WCfg) (es : List Entry) : Prop :=
  ∃ file log, W.run cd cfg es = .ok (file, log) ∧
    (file.length < 2 ^ 64 → (∀ e ∈ log, e.raw.length < 2 ^ 32) →
      ∃ m, Meta.parse file = .ok m ∧ m.count = es.length ∧ m.codec = cd.id ∧
        scanForward cd file (es.length + 1) (RC.new m) =
          es.map (fun e => Res.ok (some e)) ++ [Res.ok none] ∧
        scanBackward cd file (es.length + 1) (RC.new m) =
          es.reverse.map (fun e => Res.ok (some e)) ++ [Res.ok none] ∧
        yielded (scanForward cd file (es.length + 1) (RC.new m)) = es)

/-- `C01_roundtrip`, packaged. -/
theorem roundTrips {cd : Codec} {cfg : WCfg} {es : List Entry} (A : Admissible cd cfg)
    (hasc : StrictAsc es) (hs : SizesOk es) : RoundTrips cd cfg es := by
  obtain ⟨file, log, hrun, h⟩ :=
    C01_roundtrip cd cfg es A.lawful A.id A.levels A.interval hasc hs.lens hs.count
  refine ⟨file, log, hrun, fun h1 h2 => ?_⟩
  obtain ⟨m, hm, g1, g2, -, -, g5, g6⟩ := h h1 h2
  exact ⟨m, hm, g1, g2, g5, g6, by rw [g5, yielded_scan]⟩

/-- The same on a run that is already known (`Setting` holds all hypotheses, the output-size
    conditions included): the file opens and its cursor yields exactly `es`. -/
theorem setting_yields {cd : Codec} {cfg : WCfg} {es : List Entry} {file : Bytes}
    {log : List Emitted} (S : Setting cd cfg es file log) :
    ∃ m, Meta.parse file = .ok m ∧ m.count = es.length ∧
      scanForward cd file (es.length + 1) (RC.new m) =
        es.map (fun e => Res.ok (some e)) ++ [Res.ok none] ∧
      yielded (scanForward cd file (es.length + 1) (RC.new m)) = es := by
  obtain ⟨m, hm⟩ := C01_opens S
  obtain ⟨h1, -, -, -, h5, -⟩ := C01_roundtrip_of_run S hm
  exact ⟨m, hm, h1, h5, by rw [h5, yielded_scan]⟩

/-! ### B. A total merge function never makes the merger fail (any sources) -/

theorem next_ne_mergeErr {mf : MergeFn} (hmf : ∀ k vs, (mf k vs).isSome) (m : Merger) :
    (Merger.next mf m).2 ≠ .mergeErr := by
  unfold Merger.next
  split
  · simp
  · rename_i first h _
    simp only
    split
    · rename_i hn
      have := hmf first.key
        (first.val :: List.map MSrc.val (popSame first.key (h.length + 1) h []).1)
      rw [hn] at this
      cases this
    · simp

theorem collect_isSome {mf : MergeFn} (hmf : ∀ k vs, (mf k vs).isSome) :
    ∀ (fuel : Nat) (m : Merger) (acc : List Entry), (Merger.collect mf fuel m acc).1.isSome := by
  intro fuel
  induction fuel with
  | zero => intro m acc; rfl
  | succ fuel ih =>
    intro m acc
    unfold Merger.collect
    split
    · rfl
    · exact ih _ _
    · rename_i m' hn
      have := next_ne_mergeErr hmf m
      rw [hn] at this
      exact absurd rfl this

/-- With a merge function that never fails, `Merger.run` returns a result whatever the sources
    (sorted or not).  This is the hypothesis `hrun` of `C17_total`. -/
theorem run_isSome_of_total {mf : MergeFn} (hmf : ∀ k vs, (mf k vs).isSome)
    (srcs : List (List Entry)) : (Merger.run mf srcs).1.isSome :=
  collect_isSome hmf _ _ _

/-! ### C. Reachable sorter states and their chunks -/

/-- `s` is reached by `Sorter.new cfg` and the successful inserts of `kvs`, in order
    (`= Sorter.program mf cfg kvs false = .ok s`, see `inserted_iff_program`). -/
def Inserted (mf : MergeFn) (cfg : SCfg) (kvs : List Entry) (s : Sorter) : Prop :=
  ∃ s0, Sorter.new cfg = .ok s0 ∧ Sorter.insertAll mf s0 kvs = .ok s

/-- `s'` is the state after the final spill of such a run: its `chunks` are what
    `extract_reader_cursors_and_merger` hands out
    (`= Sorter.program mf cfg kvs true = .ok s'`, see `handed_iff_program`). -/
def Handed (mf : MergeFn) (cfg : SCfg) (kvs : List Entry) (s' : Sorter) : Prop :=
  ∃ s, Inserted mf cfg kvs s ∧ Sorter.finishChunks mf s = .ok s'

theorem inserted_iff_program {mf : MergeFn} {cfg : SCfg} {kvs : List Entry} {s : Sorter} :
    Inserted mf cfg kvs s ↔ Sorter.program mf cfg kvs false = .ok s := by
  unfold Inserted Sorter.program
  cases hn : Sorter.new cfg with
  | error t => simp
  | ok s0 =>
    simp only [Except.ok.injEq, exists_eq_left']
    cases hi : Sorter.insertAll mf s0 kvs with
    | error e => simp
    | ok s1 => simp

theorem handed_iff_program {mf : MergeFn} {cfg : SCfg} {kvs : List Entry} {s' : Sorter} :
    Handed mf cfg kvs s' ↔ Sorter.program mf cfg kvs true = .ok s' := by
  unfold Handed
  simp only [inserted_iff_program]
  unfold Sorter.program
  cases hn : Sorter.new cfg with
  | error t => simp
  | ok s0 =>
    simp only
    cases hi : Sorter.insertAll mf s0 kvs with
    | error e => simp
    | ok s1 => simp

theorem insertAll_snoc (mf : MergeFn) (kvs : List Entry) (k v : Bytes) : ∀ s : Sorter,
    Sorter.insertAll mf s (kvs ++ [(k, v)]) =
      match Sorter.insertAll mf s kvs with
      | .error e => .error e
      | .ok s1 => Sorter.insert mf s1 k v := by
  induction kvs with
  | nil =>
    intro s
    simp only [List.nil_append, Sorter.insertAll]
    cases Sorter.insert mf s k v <;> rfl
  | cons e r ih =>
    intro s
    obtain ⟨k', v'⟩ := e
    simp only [List.cons_append, Sorter.insertAll]
    cases Sorter.insert mf s k' v' with
    | error e => rfl
    | ok s1 => exact ih s1

/-- `Reach` (C08/C17) and `Inserted` describe the same states. -/
theorem reach_inserted {mf : MergeFn} {cfg : SCfg} {P : Bytes → Bytes → Prop} {s : Sorter}
    {sp mg : Nat} (r : Sorter.Reach mf cfg P s sp mg) :
    ∃ kvs, Inserted mf cfg kvs s ∧ ∀ kv ∈ kvs, P kv.1 kv.2 := by
  induction r with
  | new h => exact ⟨[], ⟨_, h, rfl⟩, by simp⟩
  | @insert s1 s2 k v sp mg _ hp h ih =>
    obtain ⟨kvs, ⟨s0, hn, hi⟩, hP⟩ := ih
    refine ⟨kvs ++ [(k, v)], ⟨s0, hn, ?_⟩, ?_⟩
    · rw [insertAll_snoc, hi]; exact h
    · intro kv hkv
      rcases List.mem_append.mp hkv with h1 | h1
      · exact hP kv h1
      · rw [List.mem_singleton.mp h1]; exact hp

theorem inserted_reach {mf : MergeFn} {cfg : SCfg} {P : Bytes → Bytes → Prop} {s : Sorter}
    {kvs : List Entry} (h : Inserted mf cfg kvs s) (hP : ∀ kv ∈ kvs, P kv.1 kv.2) :
    ∃ sp mg, Sorter.Reach mf cfg P s sp mg := by
  obtain ⟨s0, hn, hi⟩ := h
  exact (Sorter.Reach.new hn : Sorter.Reach mf cfg P s0 0 0).insertAll hP hi

section Inv
variable {mf' : Bytes → List Bytes → Bytes}
  {P : List (List Entry) → List Entry → List Entry → Prop}

/-- A content invariant (`ContentInv`, stable spill order) is kept by a list of inserts. -/
theorem insertAll_inv (I : ContentInv mf' stableSrt P) :
    ∀ (kvs : List Entry) (s s' : Sorter) (kvs0 : List Entry), P s.chunks s.entries.items kvs0 →
      Sorter.insertAll (tot mf') s kvs = .ok s' → P s'.chunks s'.entries.items (kvs0 ++ kvs) := by
  intro kvs
  induction kvs with
  | nil =>
    intro s s' kvs0 hP h
    simp only [Sorter.insertAll, Except.ok.injEq] at h
    subst h
    simpa using hP
  | cons e r ih =>
    intro s s' kvs0 hP h
    obtain ⟨k, v⟩ := e
    simp only [Sorter.insertAll] at h
    have h1 := insertWith_inv I stableSrt_oracle s kvs0 k v hP
    rw [insertWith_stable] at h1
    cases hi : Sorter.insert (tot mf') s k v with
    | error err => rw [hi] at h; cases h
    | ok s1 =>
      rw [hi] at h h1
      simp only [OkOr] at h1
      have := ih s1 s' (kvs0 ++ [(k, v)]) h1 h
      simpa using this

/-- … and by the final spill. -/
theorem finishChunks_inv (I : ContentInv mf' stableSrt P) {s s' : Sorter} {kvs : List Entry}
    (hP : P s.chunks s.entries.items kvs) (h : Sorter.finishChunks (tot mf') s = .ok s') :
    P s'.chunks [] kvs ∧ s'.chunks = s.chunks ++ [G mf' (Sorter.sortStable s.entries.items)] := by
  have hc : s'.chunks = s.chunks ++ [G mf' (Sorter.sortStable s.entries.items)] := by
    unfold Sorter.finishChunks Sorter.writeChunk at h
    rw [writeChunkWith_ok mf' s (sortStable_sorted _)] at h
    simp only at h
    split at h
    · cases h
    · cases h; rfl
  refine ⟨?_, hc⟩
  rw [hc]
  exact I.spill s hP

theorem inserted_inv (I : ContentInv mf' stableSrt P) (h0 : P [] [] []) {cfg : SCfg}
    {kvs : List Entry} {s : Sorter} (h : Inserted (tot mf') cfg kvs s) :
    P s.chunks s.entries.items kvs := by
  obtain ⟨s0, hn, hi⟩ := h
  obtain ⟨hc, hit⟩ := new_state hn
  have := insertAll_inv I kvs s0 s [] (by rw [hc, hit]; exact h0) hi
  simpa using this

theorem handed_inv (I : ContentInv mf' stableSrt P) (h0 : P [] [] []) {cfg : SCfg}
    {kvs : List Entry} {s' : Sorter} (h : Handed (tot mf') cfg kvs s') :
    P s'.chunks [] kvs := by
  obtain ⟨s, hs, hf⟩ := h
  exact (finishChunks_inv I (inserted_inv I h0 hs) hf).1

end Inv

/-- Every chunk is the grouped-and-merged image `G mf' S` of some sequence `S` of pairs
    (no law on the merge function is needed for this). -/
def PShape (mf' : Bytes → List Bytes → Bytes) (cs : List (List Entry)) (_items _kvs : List Entry) :
    Prop := ∀ c ∈ cs, ∃ S, c = G mf' S

theorem pshape_inv (mf' : Bytes → List Bytes → Bytes) (srt : Sorter → List Entry) :
    ContentInv mf' srt (PShape mf') where
  asc := by
    intro cs items kvs h c hc
    obtain ⟨S, rfl⟩ := h c hc
    exact G_asc mf' S
  push := fun _ h => h
  spill := by
    intro s kvs h c hc
    rcases List.mem_append.mp hc with h1 | h1
    · exact h c h1
    · exact ⟨srt s, List.mem_singleton.mp h1⟩
  merge := by
    intro cs items kvs h c hc
    exact ⟨cs.flatten, by rw [List.mem_singleton.mp hc]; rfl⟩

theorem pshape_init (mf' : Bytes → List Bytes → Bytes) : PShape mf' [] [] [] := by
  intro c hc; cases hc

/-- Sizes of a strictly ascending list whose keys were all inserted. -/
theorem sizes_of_keys {c kvs : List Entry} (hasc : StrictAsc c)
    (hsub : ∀ k, k ∈ c.map (·.1) → k ∈ kvs.map (·.1))
    (hk : ∀ kv ∈ kvs, kv.1.length < 2 ^ 32) (hv : ∀ e ∈ c, e.2.length < 2 ^ 32)
    (hn : kvs.length < 2 ^ 64) : SizesOk c := by
  refine ⟨fun e he => ⟨?_, hv e he⟩, ?_⟩
  · obtain ⟨kv, hkv, hkeq⟩ := List.mem_map.mp (hsub e.1 (List.mem_map_of_mem he))
    rw [← hkeq]; exact hk kv hkv
  · have hnd : (c.map (·.1)).Nodup := by
      rw [List.nodup_iff_pairwise_ne, List.pairwise_map]
      exact hasc.imp (fun h e => by rw [e] at h; exact blt_irrefl _ h)
    have := hnd.length_le_of_subset (l₂ := kvs.map (·.1)) (fun k hk => hsub k hk)
    simp only [List.length_map] at this
    omega

/-- The values of `G mf' S` are outputs of `mf'`. -/
theorem G_val_lens {mf' : Bytes → List Bytes → Bytes} (hv : ∀ k vs, (mf' k vs).length < 2 ^ 32)
    (S : List Entry) : ∀ e ∈ G mf' S, e.2.length < 2 ^ 32 := by
  intro e he
  obtain ⟨k, v⟩ := e
  rw [((mem_G mf' S k v).mp he).2]
  exact hv _ _

/-- What is known of the chunks of a state (chunks `cs`, nothing pending or not): each is
    strictly ascending, is `G mf' S` for some `S`, and has only inserted keys. -/
theorem chunk_facts {mf' : Bytes → List Bytes → Bytes} {cs : List (List Entry)}
    {items kvs : List Entry} (h1 : PShape mf' cs items kvs) (h2 : PKeys cs items kvs)
    {c : List Entry} (hc : c ∈ cs) :
    StrictAsc c ∧ (∃ S, c = G mf' S) ∧ ∀ k, k ∈ c.map (·.1) → k ∈ kvs.map (·.1) := by
  refine ⟨h2.1 c hc, h1 c hc, fun k hk => (h2.2 k).mp (Or.inl ?_)⟩
  obtain ⟨e, he, rfl⟩ := List.mem_map.mp hk
  exact List.mem_map_of_mem (List.mem_flatten.mpr ⟨c, hc, he⟩)

/-- Chunks of a state between public calls. -/
theorem inserted_chunk {mf' : Bytes → List Bytes → Bytes} {cfg : SCfg} {kvs : List Entry}
    {s : Sorter} (h : Inserted (tot mf') cfg kvs s) {c : List Entry} (hc : c ∈ s.chunks) :
    StrictAsc c ∧ (∃ S, c = G mf' S) ∧ ∀ k, k ∈ c.map (·.1) → k ∈ kvs.map (·.1) :=
  chunk_facts (inserted_inv (pshape_inv mf' _) (pshape_init mf') h)
    (inserted_inv (pkeys_inv mf' _ stableSrt_oracle) pkeys_init h) hc

/-- Chunks handed out by `finishChunks`. -/
theorem handed_chunk {mf' : Bytes → List Bytes → Bytes} {cfg : SCfg} {kvs : List Entry}
    {s' : Sorter} (h : Handed (tot mf') cfg kvs s') {c : List Entry} (hc : c ∈ s'.chunks) :
    StrictAsc c ∧ (∃ S, c = G mf' S) ∧ ∀ k, k ∈ c.map (·.1) → k ∈ kvs.map (·.1) :=
  chunk_facts (handed_inv (pshape_inv mf' _) (pshape_init mf') h)
    (handed_inv (pkeys_inv mf' _ stableSrt_oracle) pkeys_init h) hc

/-- A chunk with the facts above is an admissible writer input as soon as the inserted keys and
    the (merged) values it holds are shorter than `2^32` and fewer than `2^64` pairs were inserted.
    (The bound on the values is a hypothesis on the outputs of the merge function; it cannot be
    asked of ALL outputs of a lawful merge function, since `mf' k [v] = v`.) -/
theorem chunk_sizes {mf' : Bytes → List Bytes → Bytes} {c kvs : List Entry}
    (h : StrictAsc c ∧ (∃ S, c = G mf' S) ∧ ∀ k, k ∈ c.map (·.1) → k ∈ kvs.map (·.1))
    (hk : ∀ kv ∈ kvs, kv.1.length < 2 ^ 32) (hv : ∀ e ∈ c, e.2.length < 2 ^ 32)
    (hn : kvs.length < 2 ^ 64) : SizesOk c :=
  sizes_of_keys h.1 h.2.2 hk hv hn

/-! ### D. `finish` = `finishChunks` + final merge; inserts-then-finish = `program` + final merge -/

/-- The last step of `Sorter.finish`: merge the chunks handed out. -/
def finalMerge (mf : MergeFn) (s' : Sorter) : Except Sorter.SErr (List Entry × Sorter) :=
  match Merger.run mf s'.chunks with
  | (none, _) => .error .merge
  | (some out, m) => .ok (out, { s' with calls := s'.calls ++ m.calls.reverse })

theorem finish_eq (mf : MergeFn) (s : Sorter) :
    Sorter.finish mf s = match Sorter.finishChunks mf s with
      | .error e => .error e
      | .ok s' => finalMerge mf s' := rfl

theorem finalMerge_ok_iff {mf : MergeFn} {s' s'' : Sorter} {out : List Entry} :
    finalMerge mf s' = .ok (out, s'') ↔
      (Merger.run mf s'.chunks).1 = some out ∧
      s'' = { s' with calls := s'.calls ++ (Merger.run mf s'.chunks).2.calls.reverse } := by
  unfold finalMerge
  cases hr : Merger.run mf s'.chunks with
  | mk o m =>
    cases o with
    | none => simp
    | some o =>
      simp only [Except.ok.injEq, Prod.mk.injEq, Option.some.injEq]
      constructor
      · rintro ⟨rfl, rfl⟩; exact ⟨rfl, rfl⟩
      · rintro ⟨rfl, rfl⟩; exact ⟨rfl, rfl⟩

theorem finalMerge_no_trap (mf : MergeFn) (s' : Sorter) (t : Trap) :
    finalMerge mf s' ≠ .error (.trap t) := by
  unfold finalMerge
  split <;> simp

/-- Insert all of `kvs`, then `finish` (the body of `Props.C07.runAll`). -/
def runAllI (mf : MergeFn) (s : Sorter) (kvs : List Entry) :
    Except Sorter.SErr (List Entry × Sorter) :=
  match Sorter.insertAll mf s kvs with
  | .error e => .error e
  | .ok s' => Sorter.finish mf s'

/-- The two formulations of a complete run coincide: inserts-then-`finish` from the state
    returned by `Sorter.new cfg` is `Sorter.program … true` (C17) followed by the final merge. -/
theorem runAllI_eq_program {mf : MergeFn} {cfg : SCfg} {s0 : Sorter}
    (hnew : Sorter.new cfg = .ok s0) (kvs : List Entry) :
    runAllI mf s0 kvs = match Sorter.program mf cfg kvs true with
      | .error e => .error e
      | .ok s' => finalMerge mf s' := by
  unfold runAllI Sorter.program
  simp only [hnew]
  cases Sorter.insertAll mf s0 kvs with
  | error e => rfl
  | ok s1 => simp only [if_true]; exact finish_eq mf s1

/-- `C17_no_trap`, restated for inserts-then-`finish`. -/
theorem runAllI_no_trap (mf : MergeFn) {cfg : SCfg} {s0 : Sorter} (hnew : Sorter.new cfg = .ok s0)
    (kvs : List Entry)
    (hT : cfg.allowRealloc = true → cfg.budget ≤ 2 ^ 62 - 2 ^ 34)
    (hl : ∀ kv ∈ kvs, kv.1.length ≤ u32Max ∧ kv.2.length ≤ u32Max) (t : Trap) :
    runAllI mf s0 kvs ≠ .error (.trap t) := by
  have r0 : Sorter.Reach mf cfg Sorter.LenOk s0 0 0 := .new hnew
  unfold runAllI
  cases hi : Sorter.insertAll mf s0 kvs with
  | error e =>
    simp only [ne_eq, Except.error.injEq]
    rintro rfl
    exact Sorter.insertAll_no_trap hT r0 kvs hl t hi
  | ok s1 =>
    obtain ⟨sp, mg, r1⟩ := r0.insertAll hl hi
    simp only [finish_eq]
    cases hf : Sorter.finishChunks mf s1 with
    | error e =>
      simp only [ne_eq, Except.error.injEq]
      rintro rfl
      exact Sorter.finishChunks_no_trap r1.core.1.inv.live t hf
    | ok s2 => exact finalMerge_no_trap mf s2 t

end Grenad.Wave3
