/-
  Grenad.Proofs.Wave3Sorter — assembly lemmas joining the merger / sorter developments
  (C06, C07, C08, C17) with the byte-level round trip (C01).

  * `RoundTrips cd cfg es`: "writing `es` with `(cd, cfg)` succeeds, and the file scans back to
    `es`" — the conclusion of `C01_roundtrip`, packaged; `roundTrips` proves it for every
    admissible configuration and strictly ascending `es` of admissible sizes.
  * `run_isSome_of_total`: with a merge function that never fails `Merger.run` returns a result
    on ANY sources (discharges the hypothesis `hrun` of `C17_total`).
  * `Inserted mf cfg kvs s`: `s` is reached by `Sorter.new cfg` and the successful inserts of
    `kvs`, in order.  Content invariants of such states (`inserted_shape`, `inserted_keys`,
    `inserted_content`), in particular: every chunk is `G mf' S` for some `S`, hence strictly
    ascending.
  * `finish` is `finishChunks` followed by the merge of the chunks (`finish_iff`), and
    `runAllI` (inserts then `finish`) is `Sorter.program … true` followed by that merge
    (`runAllI_eq_program`).
  * `next_perm`: `Merger.next` does not depend on the order of the heap list.
-/
import Grenad.Props.C01
import Grenad.Proofs.SorterSteps
import Grenad.Proofs.SorterSortedRun

namespace Grenad.Wave3

open Grenad Grenad.Assembly Grenad.Props.C01

/-! ### A. The byte-level round trip, packaged -/

/-- The configuration hypotheses of `C01_roundtrip`: lawful codec with a known id, at most 255
    index levels, index key interval at least 1.  Any block size. -/
structure Admissible (cd : Codec) (cfg : WCfg) : Prop where
  lawful : cd.Lawful
  id : cd.id ≤ 5
  levels : cfg.levels ≤ 255
  interval : 1 ≤ cfg.interval

/-- The size hypotheses of `C01_roundtrip` on the input. -/
structure SizesOk (es : List Entry) : Prop where
  lens : ∀ e ∈ es, e.1.length < 2 ^ 32 ∧ e.2.length < 2 ^ 32
  count : es.length < 2 ^ 64

/-- The entries a list of cursor results carries. -/
def yielded (rs : List Res) : List Entry :=
  rs.filterMap (fun r => match r with
    | .ok (some e) => some e
    | _ => none)

theorem yielded_scan (es : List Entry) :
    yielded (es.map (fun e => Res.ok (some e)) ++ [Res.ok none]) = es := by
  induction es with
  | nil => rfl
  | cons e r ih =>
    simp only [yielded, List.map_cons, List.cons_append, List.filterMap_cons] at ih ⊢
    rw [ih]

/-- Writing `es` with `(cd, cfg)` succeeds; and if the output is smaller than `2^64` bytes and
    every block smaller than `2^32` bytes (the two output-size side conditions of
    `C01_roundtrip`), the file opens, reports `es.length` entries and the codec, `next()` ×
    `(n+1)` from the fresh cursor returns exactly `es` in order and then `None`, and `prev()` ×
    `(n+1)` returns `es` reversed and then `None`. -/
def RoundTrips (cd : Codec) (cfg : WCfg) (es : List Entry) : Prop :=
  ∃ file log, W.run cd cfg es = .ok (file, log) ∧
    (file.length < 2 ^ 64 → (∀ e ∈ log, e.raw.length < 2 ^ 32) →
      ∃ m, Meta.parse file = .ok m ∧ m.count = es.length ∧ m.codec = cd.id ∧
        scanForward cd file (es.length + 1) (RC.new m) =
          es.map (fun e => Res.ok (some e)) ++ [Res.ok none] ∧
        scanBackward cd file (es.length + 1) (RC.new m) =
          es.reverse.map (fun e => Res.ok (some e)) ++ [Res.ok none] ∧
        yielded (scanForward cd file (es.length + 1) (RC.new m)) = es)

/-- `C01_roundtrip`, packaged. -/
theorem roundTrips {cd : Codec} {cfg : WCfg} {es : List Entry} (A : Admissible cd cfg)
    (hasc : StrictAsc es) (hs : SizesOk es) : RoundTrips cd cfg es := by
  obtain ⟨file, log, hrun, h⟩ :=
    C01_roundtrip cd cfg es A.lawful A.id A.levels A.interval hasc hs.lens hs.count
  refine ⟨file, log, hrun, fun h1 h2 => ?_⟩
  obtain ⟨m, hm, g1, g2, -, -, g5, g6⟩ := h h1 h2
  exact ⟨m, hm, g1, g2, g5, g6, by rw [g5, yielded_scan]⟩

/-- The same on a run that is already known (`Setting` holds all hypotheses, the output-size
    conditions included): the file opens and its cursor yields exactly `es`. -/
theorem setting_yields {cd : Codec} {cfg : WCfg} {es : List Entry} {file : Bytes}
    {log : List Emitted} (S : Setting cd cfg es file log) :
    ∃ m, Meta.parse file = .ok m ∧ m.count = es.length ∧
      scanForward cd file (es.length + 1) (RC.new m) =
        es.map (fun e => Res.ok (some e)) ++ [Res.ok none] ∧
      yielded (scanForward cd file (es.length + 1) (RC.new m)) = es := by
  obtain ⟨m, hm⟩ := C01_opens S
  obtain ⟨h1, -, -, -, h5, -⟩ := C01_roundtrip_of_run S hm
  exact ⟨m, hm, h1, h5, by rw [h5, yielded_scan]⟩

/-! ### B. A total merge function never makes the merger fail (any sources) -/

theorem next_ne_mergeErr {mf : MergeFn} (hmf : ∀ k vs, (mf k vs).isSome) (m : Merger) :
    (Merger.next mf m).2 ≠ .mergeErr := by
  unfold Merger.next
  split
  · simp
  · rename_i first h _
    simp only
    split
    · rename_i hn
      have := hmf first.key
        (first.val :: List.map MSrc.val (popSame first.key (h.length + 1) h []).1)
      rw [hn] at this
      cases this
    · simp

theorem collect_isSome {mf : MergeFn} (hmf : ∀ k vs, (mf k vs).isSome) :
    ∀ (fuel : Nat) (m : Merger) (acc : List Entry), (Merger.collect mf fuel m acc).1.isSome := by
  intro fuel
  induction fuel with
  | zero => intro m acc; rfl
  | succ fuel ih =>
    intro m acc
    unfold Merger.collect
    split
    · rfl
    · exact ih _ _
    · rename_i m' hn
      have := next_ne_mergeErr hmf m
      rw [hn] at this
      exact absurd rfl this

/-- With a merge function that never fails, `Merger.run` returns a result whatever the sources
    (sorted or not).  This is the hypothesis `hrun` of `C17_total`. -/
theorem run_isSome_of_total {mf : MergeFn} (hmf : ∀ k vs, (mf k vs).isSome)
    (srcs : List (List Entry)) : (Merger.run mf srcs).1.isSome :=
  collect_isSome hmf _ _ _

/-! ### C. Reachable sorter states and their chunks -/

/-- `s` is reached by `Sorter.new cfg` and the successful inserts of `kvs`, in order
    (`= Sorter.program mf cfg kvs false = .ok s`, see `inserted_iff_program`). -/
def Inserted (mf : MergeFn) (cfg : SCfg) (kvs : List Entry) (s : Sorter) : Prop :=
  ∃ s0, Sorter.new cfg = .ok s0 ∧ Sorter.insertAll mf s0 kvs = .ok s

/-- `s'` is the state after the final spill of such a run: its `chunks` are what
    `extract_reader_cursors_and_merger` hands out
    (`= Sorter.program mf cfg kvs true = .ok s'`, see `handed_iff_program`). -/
def Handed (mf : MergeFn) (cfg : SCfg) (kvs : List Entry) (s' : Sorter) : Prop :=
  ∃ s, Inserted mf cfg kvs s ∧ Sorter.finishChunks mf s = .ok s'

theorem inserted_iff_program {mf : MergeFn} {cfg : SCfg} {kvs : List Entry} {s : Sorter} :
    Inserted mf cfg kvs s ↔ Sorter.program mf cfg kvs false = .ok s := by
  unfold Inserted Sorter.program
  cases hn : Sorter.new cfg with
  | error t => simp
  | ok s0 =>
    simp only [Except.ok.injEq, exists_eq_left']
    cases hi : Sorter.insertAll mf s0 kvs with
    | error e => simp
    | ok s1 => simp

theorem handed_iff_program {mf : MergeFn} {cfg : SCfg} {kvs : List Entry} {s' : Sorter} :
    Handed mf cfg kvs s' ↔ Sorter.program mf cfg kvs true = .ok s' := by
  unfold Handed
  simp only [inserted_iff_program]
  unfold Sorter.program
  cases hn : Sorter.new cfg with
  | error t => simp
  | ok s0 =>
    simp only
    cases hi : Sorter.insertAll mf s0 kvs with
    | error e => simp
    | ok s1 => simp

theorem insertAll_snoc (mf : MergeFn) (kvs : List Entry) (k v : Bytes) : ∀ s : Sorter,
    Sorter.insertAll mf s (kvs ++ [(k, v)]) =
      match Sorter.insertAll mf s kvs with
      | .error e => .error e
      | .ok s1 => Sorter.insert mf s1 k v := by
  induction kvs with
  | nil =>
    intro s
    simp only [List.nil_append, Sorter.insertAll]
    cases Sorter.insert mf s k v <;> rfl
  | cons e r ih =>
    intro s
    obtain ⟨k', v'⟩ := e
    simp only [List.cons_append, Sorter.insertAll]
    cases Sorter.insert mf s k' v' with
    | error e => rfl
    | ok s1 => exact ih s1

/-- `Reach` (C08/C17) and `Inserted` describe the same states. -/
theorem reach_inserted {mf : MergeFn} {cfg : SCfg} {P : Bytes → Bytes → Prop} {s : Sorter}
    {sp mg : Nat} (r : Sorter.Reach mf cfg P s sp mg) :
    ∃ kvs, Inserted mf cfg kvs s ∧ ∀ kv ∈ kvs, P kv.1 kv.2 := by
  induction r with
  | new h => exact ⟨[], ⟨_, h, rfl⟩, by simp⟩
  | @insert s1 s2 k v sp mg _ hp h ih =>
    obtain ⟨kvs, ⟨s0, hn, hi⟩, hP⟩ := ih
    refine ⟨kvs ++ [(k, v)], ⟨s0, hn, ?_⟩, ?_⟩
    · rw [insertAll_snoc, hi]; exact h
    · intro kv hkv
      rcases List.mem_append.mp hkv with h1 | h1
      · exact hP kv h1
      · rw [List.mem_singleton.mp h1]; exact hp

theorem inserted_reach {mf : MergeFn} {cfg : SCfg} {P : Bytes → Bytes → Prop} {s : Sorter}
    {kvs : List Entry} (h : Inserted mf cfg kvs s) (hP : ∀ kv ∈ kvs, P kv.1 kv.2) :
    ∃ sp mg, Sorter.Reach mf cfg P s sp mg := by
  obtain ⟨s0, hn, hi⟩ := h
  exact (Sorter.Reach.new hn : Sorter.Reach mf cfg P s0 0 0).insertAll hP hi

section Inv
variable {mf' : Bytes → List Bytes → Bytes}
  {P : List (List Entry) → List Entry → List Entry → Prop}

/-- A content invariant (`ContentInv`, stable spill order) is kept by a list of inserts. -/
theorem insertAll_inv (I : ContentInv mf' stableSrt P) :
    ∀ (kvs : List Entry) (s s' : Sorter) (kvs0 : List Entry), P s.chunks s.entries.items kvs0 →
      Sorter.insertAll (tot mf') s kvs = .ok s' → P s'.chunks s'.entries.items (kvs0 ++ kvs) := by
  intro kvs
  induction kvs with
  | nil =>
    intro s s' kvs0 hP h
    simp only [Sorter.insertAll, Except.ok.injEq] at h
    subst h
    simpa using hP
  | cons e r ih =>
    intro s s' kvs0 hP h
    obtain ⟨k, v⟩ := e
    simp only [Sorter.insertAll] at h
    have h1 := insertWith_inv I stableSrt_oracle s kvs0 k v hP
    rw [insertWith_stable] at h1
    cases hi : Sorter.insert (tot mf') s k v with
    | error err => rw [hi] at h; cases h
    | ok s1 =>
      rw [hi] at h h1
      simp only [OkOr] at h1
      have := ih s1 s' (kvs0 ++ [(k, v)]) h1 h
      simpa using this

/-- … and by the final spill. -/
theorem finishChunks_inv (I : ContentInv mf' stableSrt P) {s s' : Sorter} {kvs : List Entry}
    (hP : P s.chunks s.entries.items kvs) (h : Sorter.finishChunks (tot mf') s = .ok s') :
    P s'.chunks [] kvs ∧ s'.chunks = s.chunks ++ [G mf' (Sorter.sortStable s.entries.items)] := by
  have hc : s'.chunks = s.chunks ++ [G mf' (Sorter.sortStable s.entries.items)] := by
    unfold Sorter.finishChunks Sorter.writeChunk at h
    rw [writeChunkWith_ok mf' s (sortStable_sorted _)] at h
    simp only at h
    split at h
    · cases h
    · cases h; rfl
  refine ⟨?_, hc⟩
  rw [hc]
  exact I.spill s hP

theorem inserted_inv (I : ContentInv mf' stableSrt P) (h0 : P [] [] []) {cfg : SCfg}
    {kvs : List Entry} {s : Sorter} (h : Inserted (tot mf') cfg kvs s) :
    P s.chunks s.entries.items kvs := by
  obtain ⟨s0, hn, hi⟩ := h
  obtain ⟨hc, hit⟩ := new_state hn
  have := insertAll_inv I kvs s0 s [] (by rw [hc, hit]; exact h0) hi
  simpa using this

theorem handed_inv (I : ContentInv mf' stableSrt P) (h0 : P [] [] []) {cfg : SCfg}
    {kvs : List Entry} {s' : Sorter} (h : Handed (tot mf') cfg kvs s') :
    P s'.chunks [] kvs := by
  obtain ⟨s, hs, hf⟩ := h
  exact (finishChunks_inv I (inserted_inv I h0 hs) hf).1

end Inv

/-- Every chunk is the grouped-and-merged image `G mf' S` of some sequence `S` of pairs
    (no law on the merge function is needed for this). -/
def PShape (mf' : Bytes → List Bytes → Bytes) (cs : List (List Entry)) (_items _kvs : List Entry) :
    Prop := ∀ c ∈ cs, ∃ S, c = G mf' S

theorem pshape_inv (mf' : Bytes → List Bytes → Bytes) (srt : Sorter → List Entry) :
    ContentInv mf' srt (PShape mf') where
  asc := by
    intro cs items kvs h c hc
    obtain ⟨S, rfl⟩ := h c hc
    exact G_asc mf' S
  push := fun _ h => h
  spill := by
    intro s kvs h c hc
    rcases List.mem_append.mp hc with h1 | h1
    · exact h c h1
    · exact ⟨srt s, List.mem_singleton.mp h1⟩
  merge := by
    intro cs items kvs h c hc
    exact ⟨cs.flatten, by rw [List.mem_singleton.mp hc]; rfl⟩

theorem pshape_init (mf' : Bytes → List Bytes → Bytes) : PShape mf' [] [] [] := by
  intro c hc; cases hc

/-- Sizes of a strictly ascending list whose keys were all inserted. -/
theorem sizes_of_keys {c kvs : List Entry} (hasc : StrictAsc c)
    (hsub : ∀ k, k ∈ c.map (·.1) → k ∈ kvs.map (·.1))
    (hk : ∀ kv ∈ kvs, kv.1.length < 2 ^ 32) (hv : ∀ e ∈ c, e.2.length < 2 ^ 32)
    (hn : kvs.length < 2 ^ 64) : SizesOk c := by
  refine ⟨fun e he => ⟨?_, hv e he⟩, ?_⟩
  · obtain ⟨kv, hkv, hkeq⟩ := List.mem_map.mp (hsub e.1 (List.mem_map_of_mem he))
    rw [← hkeq]; exact hk kv hkv
  · have hnd : (c.map (·.1)).Nodup := by
      rw [List.nodup_iff_pairwise_ne, List.pairwise_map]
      exact hasc.imp (fun h e => by rw [e] at h; exact blt_irrefl _ h)
    have := hnd.length_le_of_subset (l₂ := kvs.map (·.1)) (fun k hk => hsub k hk)
    simp only [List.length_map] at this
    omega

/-- The values of `G mf' S` are outputs of `mf'`. -/
theorem G_val_lens {mf' : Bytes → List Bytes → Bytes} (hv : ∀ k vs, (mf' k vs).length < 2 ^ 32)
    (S : List Entry) : ∀ e ∈ G mf' S, e.2.length < 2 ^ 32 := by
  intro e he
  obtain ⟨k, v⟩ := e
  rw [((mem_G mf' S k v).mp he).2]
  exact hv _ _

/-- What is known of the chunks of a state (chunks `cs`, nothing pending or not): each is
    strictly ascending, is `G mf' S` for some `S`, and has only inserted keys. -/
theorem chunk_facts {mf' : Bytes → List Bytes → Bytes} {cs : List (List Entry)}
    {items kvs : List Entry} (h1 : PShape mf' cs items kvs) (h2 : PKeys cs items kvs)
    {c : List Entry} (hc : c ∈ cs) :
    StrictAsc c ∧ (∃ S, c = G mf' S) ∧ ∀ k, k ∈ c.map (·.1) → k ∈ kvs.map (·.1) := by
  refine ⟨h2.1 c hc, h1 c hc, fun k hk => (h2.2 k).mp (Or.inl ?_)⟩
  obtain ⟨e, he, rfl⟩ := List.mem_map.mp hk
  exact List.mem_map_of_mem (List.mem_flatten.mpr ⟨c, hc, he⟩)

/-- Chunks of a state between public calls. -/
theorem inserted_chunk {mf' : Bytes → List Bytes → Bytes} {cfg : SCfg} {kvs : List Entry}
    {s : Sorter} (h : Inserted (tot mf') cfg kvs s) {c : List Entry} (hc : c ∈ s.chunks) :
    StrictAsc c ∧ (∃ S, c = G mf' S) ∧ ∀ k, k ∈ c.map (·.1) → k ∈ kvs.map (·.1) :=
  chunk_facts (inserted_inv (pshape_inv mf' _) (pshape_init mf') h)
    (inserted_inv (pkeys_inv mf' _ stableSrt_oracle) pkeys_init h) hc

/-- Chunks handed out by `finishChunks`. -/
theorem handed_chunk {mf' : Bytes → List Bytes → Bytes} {cfg : SCfg} {kvs : List Entry}
    {s' : Sorter} (h : Handed (tot mf') cfg kvs s') {c : List Entry} (hc : c ∈ s'.chunks) :
    StrictAsc c ∧ (∃ S, c = G mf' S) ∧ ∀ k, k ∈ c.map (·.1) → k ∈ kvs.map (·.1) :=
  chunk_facts (handed_inv (pshape_inv mf' _) (pshape_init mf') h)
    (handed_inv (pkeys_inv mf' _ stableSrt_oracle) pkeys_init h) hc

/-- A chunk with the facts above is an admissible writer input as soon as the inserted keys and
    the (merged) values it holds are shorter than `2^32` and fewer than `2^64` pairs were inserted.
    (The bound on the values is a hypothesis on the outputs of the merge function; it cannot be
    asked of ALL outputs of a lawful merge function, since `mf' k [v] = v`.) -/
theorem chunk_sizes {mf' : Bytes → List Bytes → Bytes} {c kvs : List Entry}
    (h : StrictAsc c ∧ (∃ S, c = G mf' S) ∧ ∀ k, k ∈ c.map (·.1) → k ∈ kvs.map (·.1))
    (hk : ∀ kv ∈ kvs, kv.1.length < 2 ^ 32) (hv : ∀ e ∈ c, e.2.length < 2 ^ 32)
    (hn : kvs.length < 2 ^ 64) : SizesOk c :=
  sizes_of_keys h.1 h.2.2 hk hv hn

/-! ### D. `finish` = `finishChunks` + final merge; inserts-then-finish = `program` + final merge -/

/-- The last step of `Sorter.finish`: merge the chunks handed out. -/
def finalMerge (mf : MergeFn) (s' : Sorter) : Except Sorter.SErr (List Entry × Sorter) :=
  match Merger.run mf s'.chunks with
  | (none, _) => .error .merge
  | (some out, m) => .ok (out, { s' with calls := s'.calls ++ m.calls.reverse })

theorem finish_eq (mf : MergeFn) (s : Sorter) :
    Sorter.finish mf s = match Sorter.finishChunks mf s with
      | .error e => .error e
      | .ok s' => finalMerge mf s' := rfl

theorem finalMerge_ok_iff {mf : MergeFn} {s' s'' : Sorter} {out : List Entry} :
    finalMerge mf s' = .ok (out, s'') ↔
      (Merger.run mf s'.chunks).1 = some out ∧
      s'' = { s' with calls := s'.calls ++ (Merger.run mf s'.chunks).2.calls.reverse } := by
  unfold finalMerge
  cases hr : Merger.run mf s'.chunks with
  | mk o m =>
    cases o with
    | none => simp
    | some o =>
      simp only [Except.ok.injEq, Prod.mk.injEq, Option.some.injEq]
      constructor
      · rintro ⟨rfl, rfl⟩; exact ⟨rfl, rfl⟩
      · rintro ⟨rfl, rfl⟩; exact ⟨rfl, rfl⟩

theorem finalMerge_no_trap (mf : MergeFn) (s' : Sorter) (t : Trap) :
    finalMerge mf s' ≠ .error (.trap t) := by
  unfold finalMerge
  split <;> simp

/-- Insert all of `kvs`, then `finish` (the body of `Props.C07.runAll`). -/
def runAllI (mf : MergeFn) (s : Sorter) (kvs : List Entry) :
    Except Sorter.SErr (List Entry × Sorter) :=
  match Sorter.insertAll mf s kvs with
  | .error e => .error e
  | .ok s' => Sorter.finish mf s'

/-- The two formulations of a complete run coincide: inserts-then-`finish` from the state
    returned by `Sorter.new cfg` is `Sorter.program … true` (C17) followed by the final merge. -/
theorem runAllI_eq_program {mf : MergeFn} {cfg : SCfg} {s0 : Sorter}
    (hnew : Sorter.new cfg = .ok s0) (kvs : List Entry) :
    runAllI mf s0 kvs = match Sorter.program mf cfg kvs true with
      | .error e => .error e
      | .ok s' => finalMerge mf s' := by
  unfold runAllI Sorter.program
  simp only [hnew]
  cases Sorter.insertAll mf s0 kvs with
  | error e => rfl
  | ok s1 => simp only [if_true]; exact finish_eq mf s1

/-- `C17_no_trap`, restated for inserts-then-`finish`. -/
theorem runAllI_no_trap (mf : MergeFn) {cfg : SCfg} {s0 : Sorter} (hnew : Sorter.new cfg = .ok s0)
    (kvs : List Entry)
    (hT : cfg.allowRealloc = true → cfg.budget ≤ 2 ^ 62 - 2 ^ 34)
    (hl : ∀ kv ∈ kvs, kv.1.length ≤ u32Max ∧ kv.2.length ≤ u32Max) (t : Trap) :
    runAllI mf s0 kvs ≠ .error (.trap t) := by
  have r0 : Sorter.Reach mf cfg Sorter.LenOk s0 0 0 := .new hnew
  unfold runAllI
  cases hi : Sorter.insertAll mf s0 kvs with
  | error e =>
    simp only [ne_eq, Except.error.injEq]
    rintro rfl
    exact Sorter.insertAll_no_trap hT r0 kvs hl t hi
  | ok s1 =>
    obtain ⟨sp, mg, r1⟩ := r0.insertAll hl hi
    simp only [finish_eq]
    cases hf : Sorter.finishChunks mf s1 with
    | error e =>
      simp only [ne_eq, Except.error.injEq]
      rintro rfl
      exact Sorter.finishChunks_no_trap r1.core.1.inv.live t hf
    | ok s2 => exact finalMerge_no_trap mf s2 t

/-! ### E. The order of the heap list is unobservable -/

/-- Heap entries have pairwise distinct `(key, idx)` pairs. -/
def KeyIdxNe (h : List MSrc) : Prop := h.Pairwise (fun a b => a.key = b.key → a.idx ≠ b.idx)

theorem keyIdxNe_iff (h : List MSrc) :
    KeyIdxNe h ↔ h.Pairwise (fun a b => (a.key, a.idx) ≠ (b.key, b.idx)) := by
  unfold KeyIdxNe
  constructor <;> intro hp <;> refine hp.imp ?_ <;> intro a b hab
  · intro e; simp only [Prod.mk.injEq] at e; exact hab e.1 e.2
  · intro e1 e2; exact hab (by rw [e1, e2])

theorem KeyIdxNe.perm {h h' : List MSrc} (p : KeyIdxNe h) (hp : h.Perm h') : KeyIdxNe h' :=
  List.Pairwise.perm p hp (fun hxy => fun e e' => hxy e.symm e'.symm)

theorem KeyIdxNe.sublist {h h' : List MSrc} (p : KeyIdxNe h) (hs : h'.Sublist h) : KeyIdxNe h' :=
  List.Pairwise.sublist hs p

/-- Distinct source indices (the invariant of runs) imply distinct `(key, idx)` pairs. -/
theorem keyIdxNe_of_idxNe {h : List MSrc} (p : IdxNe h) : KeyIdxNe h :=
  List.Pairwise.imp (fun {a b} hab (_ : a.key = b.key) => hab) p

theorem before_total' {a b : MSrc} (hne : a.key = b.key → a.idx ≠ b.idx)
    (h : ¬ a.before b = true) : b.before a = true := by
  rw [before_iff] at *
  by_cases hk : a.key = b.key
  · right; refine ⟨hk.symm, ?_⟩
    have : ¬ a.idx < b.idx := fun hl => h (Or.inr ⟨hk, hl⟩)
    have := hne hk
    omega
  · left; exact blt_tri (fun hl => h (Or.inl hl)) hk

theorem before_asymm {a b : MSrc} (h1 : a.before b = true) : ¬ b.before a = true := by
  rw [before_iff] at *
  rcases h1 with h1 | ⟨e1, l1⟩
  · rintro (h2 | ⟨e2, _⟩)
    · exact blt_asymm h1 h2
    · rw [e2] at h1; exact blt_irrefl _ h1
  · rintro (h2 | ⟨_, l2⟩)
    · rw [e1] at h2; exact blt_irrefl _ h2
    · omega

/-- `heapMin` returns the least element for `before` (under distinct `(key, idx)` pairs). -/
theorem heapMin_spec' {h : List MSrc} {m : MSrc} (hp : KeyIdxNe h) (hm : heapMin h = some m) :
    m ∈ h ∧ ∀ x ∈ h, x = m ∨ m.before x = true := by
  induction h generalizing m with
  | nil => simp [heapMin] at hm
  | cons s r ih =>
    have hp' := List.pairwise_cons.mp hp
    simp only [heapMin] at hm
    split at hm
    · rename_i hn
      have : r = [] := heapMin_eq_none.mp hn
      subst this
      cases hm
      simp
    · rename_i m0 hm0
      obtain ⟨hmem, hall⟩ := ih hp'.2 hm0
      split at hm
      · rename_i hb
        cases hm
        refine ⟨List.mem_cons_self, ?_⟩
        intro x hx
        rcases List.mem_cons.mp hx with e | hx
        · left; exact e
        · right
          rcases hall x hx with e | hb'
          · rw [e]; exact hb
          · exact before_trans hb hb'
      · rename_i hb
        cases hm
        refine ⟨List.mem_cons_of_mem _ hmem, ?_⟩
        intro x hx
        rcases List.mem_cons.mp hx with e | hx
        · right; rw [e]
          exact before_total' (hp'.1 _ hmem) hb
        · exact hall x hx

/-- The selected minimum does not depend on the order of the list. -/
theorem heapMin_perm {h h' : List MSrc} (hne : KeyIdxNe h) (hp : h.Perm h') :
    heapMin h = heapMin h' := by
  cases hm : heapMin h with
  | none =>
    have : h = [] := heapMin_eq_none.mp hm
    subst this
    rw [← hp.nil_eq]; rfl
  | some m =>
    cases hm' : heapMin h' with
    | none =>
      have : h' = [] := heapMin_eq_none.mp hm'
      subst this
      rw [hp.eq_nil] at hm
      simp [heapMin] at hm
    | some m' =>
      obtain ⟨h1, h2⟩ := heapMin_spec' hne hm
      obtain ⟨h1', h2'⟩ := heapMin_spec' (hne.perm hp) hm'
      rcases h2 m' (hp.symm.subset h1') with e | hb
      · rw [e]
      · rcases h2' m (hp.subset h1) with e | hb'
        · rw [e]
        · exact absurd hb' (before_asymm hb)

/-- `BinaryHeap::pop` on two orderings of the same heap: the same element, and the remainders
    are permutations of each other. -/
theorem heapPop_perm {h h' : List MSrc} (hne : KeyIdxNe h) (hp : h.Perm h') :
    (heapPop h = none ∧ heapPop h' = none) ∨
    ∃ m r r', heapPop h = some (m, r) ∧ heapPop h' = some (m, r') ∧ r.Perm r' ∧ KeyIdxNe r ∧
      r.length + 1 = h.length := by
  unfold heapPop
  rw [← heapMin_perm hne hp]
  cases hm : heapMin h with
  | none => left; exact ⟨rfl, rfl⟩
  | some m =>
    right
    refine ⟨m, h.erase m, h'.erase m, rfl, rfl, hp.erase m, hne.sublist List.erase_sublist, ?_⟩
    have hmem := (heapMin_spec' hne hm).1
    have := (List.perm_cons_erase hmem).length_eq
    simp only [List.length_cons] at this
    omega

/-- The `while let Some(entry) = heap.peek()` loop on two orderings of the same heap: the same
    entries are collected, in the same order, and the remainders are permutations. -/
theorem popSame_perm (k : Bytes) : ∀ (fuel : Nat) (h h' acc : List MSrc), KeyIdxNe h → h.Perm h' →
    (popSame k fuel h acc).1 = (popSame k fuel h' acc).1 ∧
    (popSame k fuel h acc).2.Perm (popSame k fuel h' acc).2 := by
  intro fuel
  induction fuel with
  | zero => intro h h' acc _ hp; exact ⟨rfl, hp⟩
  | succ fuel ih =>
    intro h h' acc hne hp
    simp only [popSame]
    rcases heapPop_perm hne hp with ⟨e1, e2⟩ | ⟨m, r, r', e1, e2, hr, hner, _⟩
    · rw [e1, e2]; exact ⟨rfl, hp⟩
    · rw [e1, e2]
      simp only
      by_cases hk : m.key = k
      · simp only [hk, if_true]
        exact ih r r' (m :: acc) hner hr
      · simp only [hk, if_false]
        exact ⟨trivial, hp⟩

theorem foldl_advance_congr (F : List MSrc) {h h' : List MSrc} (hp : h.Perm h') :
    (F.foldl advance h).Perm (F.foldl advance h') :=
  (foldl_advance_perm F h).trans (((hp.append_left _)).trans (foldl_advance_perm F h').symm)

/-- **The heap's internal shape is unobservable.**  `MergerIter::next` on two mergers whose heaps
    hold the same entries in any two orders (and with the same call log): same result, same
    calls, and the new heaps again hold the same entries. -/
theorem next_perm (mf : MergeFn) (m m' : Merger) (hne : KeyIdxNe m.heap)
    (hp : m.heap.Perm m'.heap) (hc : m.calls = m'.calls) :
    (Merger.next mf m).2 = (Merger.next mf m').2 ∧
    (Merger.next mf m).1.heap.Perm (Merger.next mf m').1.heap ∧
    (Merger.next mf m).1.calls = (Merger.next mf m').1.calls := by
  rcases heapPop_perm hne hp with ⟨e1, e2⟩ | ⟨first, r, r', e1, e2, hr, hner, _⟩
  · simp only [Merger.next, e1, e2]
    exact ⟨trivial, hp, hc⟩
  · have hlen : r'.length = r.length := hr.length_eq.symm
    obtain ⟨hs1, hs2⟩ := popSame_perm first.key (r.length + 1) r r' [] hner hr
    cases hps : popSame first.key (r.length + 1) r [] with
    | mk S h2 =>
      cases hps' : popSame first.key (r.length + 1) r' [] with
      | mk S' h2' =>
        rw [hps, hps'] at hs1 hs2
        simp only at hs1 hs2
        subst hs1
        simp only [Merger.next, e1, e2, hlen, hps, hps', hc]
        cases mf first.key (first.val :: List.map MSrc.val S) with
        | none => exact ⟨rfl, hs2, rfl⟩
        | some v => exact ⟨rfl, foldl_advance_congr _ hs2, rfl⟩

/-! #### Distinct source indices are an invariant of every run -/

theorem idxNe_iff_nodup (h : List MSrc) : IdxNe h ↔ (h.map (·.idx)).Nodup := by
  unfold IdxNe
  rw [List.nodup_iff_pairwise_ne, List.pairwise_map]

theorem adv_idx {s s' : MSrc} (h : adv s = some s') : s'.idx = s.idx := by
  obtain ⟨i, rest⟩ := s
  match rest, h with
  | _ :: _ :: _, h => simp only [adv, Option.some.injEq] at h; rw [← h]

theorem filterMap_adv_idx_sublist (F : List MSrc) :
    ((F.filterMap adv).map (·.idx)).Sublist (F.map (·.idx)) := by
  induction F with
  | nil => simp
  | cons s F ih =>
    simp only [List.filterMap_cons, List.map_cons]
    cases h : adv s with
    | none => exact ih.cons _
    | some s' =>
      simp only [List.map_cons, adv_idx h]
      exact ih.cons_cons _

theorem start_idxNe (sources : List (List Entry)) : IdxNe (Merger.start sources).heap :=
  (tag_idxLt sources 0).1.idxNe

/-- One `next` keeps the source indices of the heap entries pairwise distinct (whatever the
    sources: no sortedness is needed). -/
theorem next_idxNe (mf : MergeFn) (m : Merger) (hne : IdxNe m.heap) :
    IdxNe (Merger.next mf m).1.heap := by
  cases hpop : heapPop m.heap with
  | none => simp only [Merger.next, hpop]; exact hne
  | some p =>
    obtain ⟨first, h1⟩ := p
    obtain ⟨S, h2, hps, hF, -, hh2, -, -⟩ := heap_round hne hpop
    have hfun : (fun x : MSrc => decide (x.key ≠ first.key)) =
        (fun x => !decide (x.key = first.key)) := by funext x; simp
    have hall : ((first :: S) ++ h2).Perm m.heap := by
      rw [hfun] at hh2
      exact (hF.append hh2).trans (List.filter_append_perm _ _)
    have hnd : (((first :: S) ++ h2).map (·.idx)).Nodup :=
      (idxNe_iff_nodup _).mp (hne.perm hall.symm)
    simp only [Merger.next, hpop, hps]
    cases mf first.key (first.val :: List.map MSrc.val S) with
    | none =>
      simp only
      rw [idxNe_iff_nodup]
      refine List.Nodup.sublist ?_ hnd
      rw [List.map_append]
      exact List.sublist_append_right _ _
    | some v =>
      simp only
      refine IdxNe.perm ?_ (foldl_advance_perm (first :: S) h2).symm
      rw [idxNe_iff_nodup]
      refine List.Nodup.sublist ?_ hnd
      rw [List.map_append, List.map_append]
      exact (filterMap_adv_idx_sublist _).append (List.Sublist.refl _)

/-- The merger after `n` calls of `next`. -/
def nextN (mf : MergeFn) : Nat → Merger → Merger
  | 0, m => m
  | n + 1, m => nextN mf n (Merger.next mf m).1

/-- Distinct `(key, idx)` pairs hold in every state of a run started by `Merger.start`. -/
theorem run_keyIdxNe (mf : MergeFn) (sources : List (List Entry)) (n : Nat) :
    IdxNe (nextN mf n (Merger.start sources)).heap ∧
    KeyIdxNe (nextN mf n (Merger.start sources)).heap := by
  have : ∀ (n : Nat) (m : Merger), IdxNe m.heap → IdxNe (nextN mf n m).heap := by
    intro n
    induction n with
    | zero => intro m h; exact h
    | succ n ih => intro m h; exact ih _ (next_idxNe mf m h)
  have h := this n _ (start_idxNe sources)
  exact ⟨h, keyIdxNe_of_idxNe h⟩

/-- Draining two mergers whose heaps hold the same entries in different orders gives the same
    output and the same calls. -/
theorem collect_perm (mf : MergeFn) : ∀ (fuel : Nat) (m m' : Merger) (acc : List Entry),
    IdxNe m.heap → m.heap.Perm m'.heap → m.calls = m'.calls →
    (Merger.collect mf fuel m acc).1 = (Merger.collect mf fuel m' acc).1 ∧
    (Merger.collect mf fuel m acc).2.calls = (Merger.collect mf fuel m' acc).2.calls := by
  intro fuel
  induction fuel with
  | zero => intro m m' acc _ _ hc; exact ⟨rfl, hc⟩
  | succ fuel ih =>
    intro m m' acc hne hp hc
    obtain ⟨h1, h2, h3⟩ := next_perm mf m m' (keyIdxNe_of_idxNe hne) hp hc
    have h4 := next_idxNe mf m hne
    simp only [Merger.collect]
    cases hn : Merger.next mf m with
    | mk m1 r1 =>
      cases hn' : Merger.next mf m' with
      | mk m1' r1' =>
        rw [hn, hn'] at h1 h2 h3
        rw [hn] at h4
        simp only at h1 h2 h3 h4
        subst h1
        match r1 with
        | .ok none => exact ⟨rfl, h3⟩
        | .ok (some e) => exact ih m1 m1' (e :: acc) h4 h2 h3
        | .mergeErr => exact ⟨rfl, h3⟩

/-! ### F. A successful run with a partial merge function is a run with a total one

A merge function that may fail is replaced by `totalize mf` (failures become `[]`): every call
that succeeded is unchanged, so every sorter / merger call that returned `.ok` returns the same
value.  This transfers the chunk facts of section C to arbitrary merge functions. -/

/-- `mf` with its failures replaced by the empty value. -/
def totalize (mf : MergeFn) : Bytes → List Bytes → Bytes := fun k vs => (mf k vs).getD []

theorem totalize_of_some {mf : MergeFn} {k : Bytes} {vs : List Bytes} {v : Bytes}
    (h : mf k vs = some v) : tot (totalize mf) k vs = some v := by
  simp [totalize, h]

theorem mergeGroups_totalize (mf : MergeFn) : ∀ (l : List Entry)
    (cur : Option (Bytes × List Bytes)) (out : List Entry) (calls : List (Bytes × List Bytes))
    (r : List Entry × List (Bytes × List Bytes)),
    Sorter.mergeGroups mf l cur out calls = some r →
    Sorter.mergeGroups (tot (totalize mf)) l cur out calls = some r := by
  intro l
  induction l with
  | nil =>
    intro cur out calls r h
    cases cur with
    | none => exact h
    | some c =>
      obtain ⟨k, vs⟩ := c
      simp only [Sorter.mergeGroups] at h ⊢
      cases hm : mf k vs with
      | none => rw [hm] at h; cases h
      | some m => rw [hm] at h; rw [totalize_of_some hm]; exact h
  | cons e rest ih =>
    intro cur out calls r h
    obtain ⟨k, v⟩ := e
    cases cur with
    | none => simp only [Sorter.mergeGroups] at h ⊢; exact ih _ _ _ _ h
    | some c =>
      obtain ⟨ck, vs⟩ := c
      simp only [Sorter.mergeGroups] at h ⊢
      split
      · rename_i hk; rw [if_pos hk] at h; exact ih _ _ _ _ h
      · rename_i hk
        rw [if_neg hk] at h
        cases hm : mf ck vs with
        | none => rw [hm] at h; cases h
        | some m =>
          rw [hm] at h
          have hm' : totalize mf ck vs = m := by simp [totalize, hm]
          rw [hm']
          exact ih _ _ _ _ h

theorem next_totalize (mf : MergeFn) (m : Merger) (h : (Merger.next mf m).2 ≠ .mergeErr) :
    Merger.next (tot (totalize mf)) m = Merger.next mf m := by
  cases hpop : heapPop m.heap with
  | none => simp only [Merger.next, hpop]
  | some p =>
    obtain ⟨first, h1⟩ := p
    simp only [Merger.next, hpop] at h ⊢
    cases hm : mf first.key
        (first.val :: List.map MSrc.val (popSame first.key (h1.length + 1) h1 []).1) with
    | none => rw [hm] at h; exact absurd rfl h
    | some v =>
      have hm' : totalize mf first.key
          (first.val :: List.map MSrc.val (popSame first.key (h1.length + 1) h1 []).1) = v := by
        simp [totalize, hm]
      rw [hm']

theorem collect_totalize (mf : MergeFn) : ∀ (fuel : Nat) (m : Merger) (acc : List Entry),
    (Merger.collect mf fuel m acc).1.isSome →
    Merger.collect (tot (totalize mf)) fuel m acc = Merger.collect mf fuel m acc := by
  intro fuel
  induction fuel with
  | zero => intro m acc _; rfl
  | succ fuel ih =>
    intro m acc h
    have hne : (Merger.next mf m).2 ≠ .mergeErr := by
      intro e
      unfold Merger.collect at h
      cases hn : Merger.next mf m with
      | mk m1 r1 =>
        rw [hn] at h e
        simp only at e
        subst e
        simp at h
    unfold Merger.collect at h ⊢
    rw [next_totalize mf m hne]
    cases hn : Merger.next mf m with
    | mk m1 r1 =>
      rw [hn] at h
      match r1, h with
      | .ok none, _ => rfl
      | .ok (some e), h => exact ih m1 (e :: acc) h
      | .mergeErr, h => simp at h

theorem run_totalize (mf : MergeFn) (srcs : List (List Entry))
    (h : (Merger.run mf srcs).1.isSome) :
    Merger.run (tot (totalize mf)) srcs = Merger.run mf srcs :=
  collect_totalize mf _ _ _ h

theorem writeChunk_totalize {mf : MergeFn} {s s1 : Sorter} (h : Sorter.writeChunk mf s = .ok s1) :
    Sorter.writeChunk (tot (totalize mf)) s = .ok s1 := by
  unfold Sorter.writeChunk Sorter.writeChunkWith at h ⊢
  cases hg : Sorter.mergeGroups mf (Sorter.sortStable s.entries.items) none [] [] with
  | none => rw [hg] at h; cases h
  | some r => rw [hg] at h; rw [mergeGroups_totalize mf _ _ _ _ r hg]; exact h

theorem mergeChunks_totalize {mf : MergeFn} {s s1 : Sorter}
    (h : Sorter.mergeChunks mf s = .ok s1) :
    Sorter.mergeChunks (tot (totalize mf)) s = .ok s1 := by
  unfold Sorter.mergeChunks at h ⊢
  have hs : (Merger.run mf s.chunks).1.isSome := by
    cases hr : Merger.run mf s.chunks with
    | mk o m =>
      rw [hr] at h
      cases o with
      | none => cases h
      | some _ => rfl
  rw [run_totalize mf _ hs]
  exact h

theorem insert_totalize {mf : MergeFn} {s s1 : Sorter} {k v : Bytes}
    (h : Sorter.insert mf s k v = .ok s1) : Sorter.insert (tot (totalize mf)) s k v = .ok s1 := by
  unfold Sorter.insert at h ⊢
  cases hf : s.entries.fits k v with
  | error t => rw [hf] at h; cases h
  | ok fit =>
    rw [hf] at h
    simp only at h ⊢
    split
    · rename_i hc; rw [if_pos hc] at h; exact h
    · rename_i hc
      rw [if_neg hc] at h
      cases hw : Sorter.writeChunk mf s with
      | error e => rw [hw] at h; cases h
      | ok s2 =>
        rw [hw] at h
        rw [writeChunk_totalize hw]
        simp only at h ⊢
        cases hi : s2.entries.insert k v 64 with
        | error t => rw [hi] at h; cases h
        | ok r =>
          obtain ⟨e, ev⟩ := r
          rw [hi] at h
          simp only at h ⊢
          split
          · rename_i hm; rw [if_pos hm] at h; exact mergeChunks_totalize h
          · rename_i hm; rw [if_neg hm] at h; exact h

theorem insertAll_totalize {mf : MergeFn} : ∀ (kvs : List Entry) (s s1 : Sorter),
    Sorter.insertAll mf s kvs = .ok s1 → Sorter.insertAll (tot (totalize mf)) s kvs = .ok s1 := by
  intro kvs
  induction kvs with
  | nil => intro s s1 h; exact h
  | cons e r ih =>
    intro s s1 h
    obtain ⟨k, v⟩ := e
    simp only [Sorter.insertAll] at h ⊢
    cases hi : Sorter.insert mf s k v with
    | error e => rw [hi] at h; cases h
    | ok s2 => rw [hi] at h; rw [insert_totalize hi]; exact ih s2 s1 h

theorem finishChunks_totalize {mf : MergeFn} {s s1 : Sorter}
    (h : Sorter.finishChunks mf s = .ok s1) :
    Sorter.finishChunks (tot (totalize mf)) s = .ok s1 := by
  unfold Sorter.finishChunks at h ⊢
  cases hw : Sorter.writeChunk mf s with
  | error e => rw [hw] at h; cases h
  | ok s2 => rw [hw] at h; rw [writeChunk_totalize hw]; exact h

theorem inserted_totalize {mf : MergeFn} {cfg : SCfg} {kvs : List Entry} {s : Sorter}
    (h : Inserted mf cfg kvs s) : Inserted (tot (totalize mf)) cfg kvs s := by
  obtain ⟨s0, hn, hi⟩ := h
  exact ⟨s0, hn, insertAll_totalize kvs s0 s hi⟩

theorem handed_totalize {mf : MergeFn} {cfg : SCfg} {kvs : List Entry} {s' : Sorter}
    (h : Handed mf cfg kvs s') : Handed (tot (totalize mf)) cfg kvs s' := by
  obtain ⟨s, hs, hf⟩ := h
  exact ⟨s, inserted_totalize hs, finishChunks_totalize hf⟩

/-- Chunk facts for an arbitrary (possibly failing) merge function. -/
theorem inserted_chunk_any {mf : MergeFn} {cfg : SCfg} {kvs : List Entry} {s : Sorter}
    (h : Inserted mf cfg kvs s) {c : List Entry} (hc : c ∈ s.chunks) :
    StrictAsc c ∧ (∃ S, c = G (totalize mf) S) ∧ ∀ k, k ∈ c.map (·.1) → k ∈ kvs.map (·.1) :=
  inserted_chunk (inserted_totalize h) hc

theorem handed_chunk_any {mf : MergeFn} {cfg : SCfg} {kvs : List Entry} {s' : Sorter}
    (h : Handed mf cfg kvs s') {c : List Entry} (hc : c ∈ s'.chunks) :
    StrictAsc c ∧ (∃ S, c = G (totalize mf) S) ∧ ∀ k, k ∈ c.map (·.1) → k ∈ kvs.map (·.1) :=
  handed_chunk (handed_totalize h) hc

end Grenad.Wave3
